(* C10 driver: an acceptor.  Reads the observed traces (IN PL ...) of harness/c10_place.cpp, builds a
   schedule of the extracted model (Model/Placement.v) that follows the observation step by step
   and prints, per task, the placements the MODEL could realise (OUT PL ...): when the model has no
   handle of a task that worker (p,w) could legally take, the placement is printed with a '!'. *)
let z_of_int i = if i = 0 then Z0 else if i > 0 then Zpos (pos_of_int i) else Zneg (pos_of_int (-i))

type poolspec = { w : int; h : int; prio : bool; steal : bool; elastic : bool; off : int }

let field line key =
  let parts = String.split_on_char ' ' line in
  let pre = key ^ "=" in
  let n = String.length pre in
  let rec go = function
    | [] -> ""
    | p :: r -> if String.length p >= n && String.sub p 0 n = pre then String.sub p n (String.length p - n) else go r in
  go parts

let mk_cfg (pools : poolspec array) : nat -> pool_cfg = fun p ->
  let i = int_of_nat p in
  if i < Array.length pools then
    let s = pools.(i) in
    { pW = nat_of_int s.w; pH = nat_of_int s.h; pPrio = s.prio; pSteal = s.steal; pElastic = s.elastic;
      pAvail = (fun _ -> true) }
  else { pW = O; pH = O; pPrio = false; pSteal = false; pElastic = false; pAvail = (fun _ -> true) }

let replay_pl id line =
  let pools = Array.of_list (List.map (fun s ->
      match String.split_on_char ':' s with
      | [w; h; p; st; e] -> { w = int_of_string w; h = int_of_string h; prio = p = "1"; steal = st = "1";
                              elastic = e = "1"; off = 0 }
      | _ -> failwith "pool") (split_on ',' (field line "pools"))) in
  let total = ref 0 in
  Array.iteri (fun i s -> pools.(i) <- { s with off = !total }; total := !total + s.w) pools;
  let nworkers = !total in
  let cfg = mk_cfg pools in
  let roles = fun t ->
    let i = int_of_nat t in
    if i >= nworkers then RExt
    else begin
      let r = ref RExt in
      Array.iteri (fun p s -> if i >= s.off && i < s.off + s.w then r := RWorker (nat_of_int p, nat_of_int (i - s.off))) pools;
      !r
    end in
  let waker = nworkers + 8 in
  (* tasks *)
  let tinfo = Hashtbl.create 64 in
  List.iter (fun s ->
      match String.split_on_char ':' s with
      | [u; p; pr; h; c] -> Hashtbl.replace tinfo (int_of_string u) (int_of_string p, pr, h, c)
      | _ -> ()) (split_on ',' (field line "tasks"));
  let c = ref (g_init, l_init roles) in
  let do_step t o = c := step (pl_tstep cfg) !c (nat_of_int t, o) in
  let local t = (snd !c) (nat_of_int t) in
  (* finish the multi-step operation thread t is in: select_active_pu walk, Start (the scheduling loop stores
     the last worker after pending->active), Leave (do_yield stored the last worker, now switches out), Res
     (last worker of the target read, now set_thread_state) *)
  let flush t = let n = ref 0 in while (local t).pc <> Idle && !n < 10000 do do_step t (OAct AEnd); incr n done in
  let mid = Hashtbl.create 64 in            (* uid -> model task id *)
  let rejected = Hashtbl.create 8 in
  let notes = ref [] in
  let outs = Hashtbl.create 64 in           (* uid -> placements (reversed) *)
  let thr p w = pools.(p).off + w in
  let state a = match get_task (fst !c) (nat_of_int a) with Some tk -> Some tk.tk_st | None -> None in
  let is_cur t a = match (local t).cur with Some x -> int_of_nat x = a | None -> false in
  let hidden_yield t = do_step t (OAct AYield); flush t in
  let qname = function
    | QN (p, w) -> Printf.sprintf "QN%d.%d" (int_of_nat p) (int_of_nat w)
    | QH (p, w) -> Printf.sprintf "QH%d.%d" (int_of_nat p) (int_of_nat w)
    | QL p -> Printf.sprintf "QL%d" (int_of_nat p) in
  (* make task a the running task of worker (p,w) in the model, if the model allows it *)
  let ensure_running uid p w =
    if p < 0 || p >= Array.length pools || w < 0 || w >= pools.(p).w then begin
      notes := Printf.sprintf "uid %d observed at %d/%d which is not a worker" uid p w :: !notes; false end
    else match Hashtbl.find_opt mid uid with
    | None -> notes := Printf.sprintf "uid %d runs but no submission was seen" uid :: !notes; false
    | Some a ->
      let t = thr p w in
      if is_cur t a then true
      else begin
        (match (local t).cur with Some _ -> hidden_yield t | None -> ());
        for t2 = 0 to nworkers - 1 do if t2 <> t && is_cur t2 a then hidden_yield t2 done;
        (if state a = Some TSuspended then begin do_step waker (OAct (AResume (nat_of_int a))); flush waker end);
        let guard = ref 0 in
        while (local t).nxt <> None && !guard < 8 do
          incr guard;
          do_step t (OPop (SrcOwnN, O)); flush t;
          (match (local t).cur with Some x when int_of_nat x <> a -> hidden_yield t | _ -> ())
        done;
        let tries = ref 0 in
        while not (is_cur t a) && !tries < 4 do
          incr tries;
          (match find_handle cfg (fst !c) (nat_of_int p) (nat_of_int w) (nat_of_int a) with
           | Some (src, idx) -> do_step t (OPop (src, idx)); flush t
           | None -> tries := 99)
        done;
        if is_cur t a then true
        else begin
          let tp = match Hashtbl.find_opt tinfo uid with Some (tp, _, _, _) -> tp | None -> p in
          let wh = where_is cfg (fst !c) (nat_of_int tp) (nat_of_int a) in
          notes := Printf.sprintf "uid %d observed on %d/%d: the model has no handle that worker may take (handles: %s)"
              uid p w (String.concat "+" (List.map qname wh)) :: !notes;
          false
        end
      end in
  let parse_ev s =
    (* <K><uid>@<pool>.<lw>[.<a>] *)
    let kind = s.[0] in
    let at = String.index s '@' in
    let uid = int_of_string (String.sub s 1 (at - 1)) in
    let rest = String.sub s (at + 1) (String.length s - at - 1) in
    let parts = String.split_on_char '.' rest in
    (match parts with
     | [p; w] -> (kind, uid, int_of_string p, int_of_string w, 0)
     | [p; w; a] -> (kind, uid, int_of_string p, int_of_string w, int_of_string a)
     | _ -> failwith "ev") in
  let prio_of = function "h" -> PHigh | "l" -> PLow | "b" -> PBoost | _ -> PNormal in
  let evs = List.map parse_ev (split_on ',' (field line "trace")) in
  (* first observed placement of every task: an UNHINTED submission takes the value of the
     scheduler's round-robin counter, which also counts submissions that are not in the trace
     (bulk, "set state for active thread" helpers, racing submitters): the acceptor inserts that
     foreign traffic so that the counter has the observed value; everything after the initial
     queue is checked exactly *)
  let first_e = Hashtbl.create 64 in
  List.iter (fun (k, u, p, w, _) -> if k = 'E' && not (Hashtbl.mem first_e u) then Hashtbl.replace first_e u (p, w)) evs;
  let foreign = nworkers + 9 in
  let align uid tp h =
    let unhinted = (h = "x" || h = "-1") in
    match Hashtbl.find_opt first_e uid with
    | Some (p0, w0) when unhinted && p0 = tp && tp < Array.length pools && pools.(tp).w > 0 && w0 >= 0 && w0 < pools.(tp).w ->
      let wn = pools.(tp).w in
      let cur = int_of_nat ((fst !c).rr (nat_of_int tp)) mod wn in
      let k = ((w0 - cur) mod wn + wn) mod wn in
      for _ = 1 to k do do_step foreign (OAct (ASpawn (nat_of_int tp, PNormal, HNone))); flush foreign done
    | _ -> () in
  let hint_of h = if h = "x" then HNone else HThread (z_of_int (int_of_string h)) in
  List.iter (fun (kind, uid, p, w, a) ->
      match kind with
      | 'S' ->
        (match Hashtbl.find_opt tinfo uid with
         | None -> ()
         | Some (tp, pr, h, ctx) ->
           let ok, t =
             if ctx.[0] = 'x' then true, nworkers + int_of_string (String.sub ctx 1 (String.length ctx - 1))
             else begin
               let cu = int_of_string (String.sub ctx 1 (String.length ctx - 1)) in
               if Hashtbl.mem rejected cu then false, 0
               else if ensure_running cu p w then true, thr p w
               else begin Hashtbl.replace rejected cu true; false, 0 end
             end in
           if ok then begin
             align uid tp h;
             Hashtbl.replace mid uid (List.length (fst !c).tasks);
             do_step t (OAct (ASpawn (nat_of_int tp, prio_of pr, hint_of h))); flush t
           end)
      | _ ->
        if Hashtbl.mem rejected uid then begin
          if kind = 'E' then Hashtbl.replace outs uid (Printf.sprintf "!%d/%d" p w :: (try Hashtbl.find outs uid with Not_found -> []))
        end else begin
          let ok = ensure_running uid p w in
          if not ok then Hashtbl.replace rejected uid true;
          (match kind with
           | 'E' -> Hashtbl.replace outs uid ((if ok then Printf.sprintf "%d/%d" p w else Printf.sprintf "!%d/%d" p w)
                                              :: (try Hashtbl.find outs uid with Not_found -> []))
           | _ when not ok -> ()
           | 'Y' -> do_step (thr p w) (OAct AYield); flush (thr p w)
           | 'B' -> do_step (thr p w) (OAct (ABoost false)); flush (thr p w)
           | 'U' -> do_step (thr p w) (OAct ASuspend); flush (thr p w)
           | 'Z' -> do_step (thr p w) (OAct AEnd)
           | 'K' -> (match Hashtbl.find_opt mid a with
               | Some b -> do_step (thr p w) (OAct (AYieldTo (nat_of_int b))); flush (thr p w)
               | None -> ())
           | _ -> ())
        end)
    evs;
  let uids = List.sort compare (Hashtbl.fold (fun u _ acc -> u :: acc) tinfo []) in
  let per = List.map (fun u ->
      Printf.sprintf "%d=%s" u (match Hashtbl.find_opt outs u with
          | Some l -> String.concat "." (List.rev l)
          | None -> "-")) uids in
  Printf.printf "OUT PL %s %s\n" id (if per = [] then "-" else String.concat ";" per);
  List.iter (fun n -> Printf.printf "NOTE PL %s %s\n" id n) (List.rev !notes)

(* E6: replay the witness of C10_static_hint_elastic_refuted for the pool of the scenario *)
let replay_e6 id line =
  let w = int_of_string (field line "W") and hint = int_of_string (field line "hint") in
  let prio = field line "prio" = "1" in
  let cfg = fun _ -> { pW = nat_of_int w; pH = nat_of_int w; pPrio = prio; pSteal = false; pElastic = true;
                       pAvail = (fun _ -> true) } in
  let roles = fun t -> let i = int_of_nat t in if i < w then RWorker (O, t) else RExt in
  let x = w and y = w + 1 in
  let sp = OAct (ASpawn (O, PNormal, HThread (z_of_int hint))) in
  let other = (hint + 1) mod w in
  (* the model admits both outcomes: with the two submitters overlapping inside select_active_pu
     (the witness of C10_static_hint_elastic_refuted) one task is diverted; without overlap none is.
     The schedule that matches the observation is replayed. *)
  let sched =
    if field line "observed" = "1" then
      [ (x, sp); (x, OAct AEnd); (y, sp); (y, OAct AEnd); (y, OAct AEnd); (y, OAct AEnd); (x, OAct AEnd);
        (other, OPop (SrcOwnN, O)) ]
    else
      [ (x, sp); (x, OAct AEnd); (x, OAct AEnd); (y, sp); (y, OAct AEnd); (y, OAct AEnd);
        (hint mod w, OPop (SrcOwnN, O)); (hint mod w, OAct AEnd); (hint mod w, OAct AEnd);
        (hint mod w, OPop (SrcOwnN, O)); (other, OPop (SrcOwnN, O)) ] in
  let c = List.fold_left (fun c (t, o) -> step (pl_tstep cfg) c (nat_of_int t, o)) (g_init, l_init roles) sched in
  let div = List.exists (function
      | EEnter (_, _, _, ww, _) -> int_of_nat ww <> hint mod w
      | _ -> false) (fst c).glog in
  Printf.printf "OUT E6 %s diverted=%d\n" id (if div then 1 else 0)

(* IN BULK <id> pools=W:H:prio:steal:elastic,... pool=<p> prio=<n|h|l> hint=<x|int> n=<shape> lw=<local worker of
   set_value> obs=<k:pool:worker;...> : every observed (worker_thread k of the calling task_function, pool,
   local worker) of a real bulk operation is submitted to the extracted acceptor [bulk_allowed]
   (Model/BulkPlacement.v; sound by C10_bulk_allowed_sound).  Admitted observations are re-printed as they
   are, the others with a '!' and the worker the model expects. *)
let replay_bulk id line =
  let pools = Array.of_list (List.map (fun s ->
      match String.split_on_char ':' s with
      | [w; h; p; st; e] -> { w = int_of_string w; h = int_of_string h; prio = p = "1"; steal = st = "1";
                              elastic = e = "1"; off = 0 }
      | _ -> failwith "pool") (split_on ',' (field line "pools"))) in
  let cfg = mk_cfg pools in
  let prio = match field line "prio" with "h" -> PHigh | "l" -> PLow | _ -> PNormal in
  let hint = match field line "hint" with "x" -> HNone | s -> HThread (z_of_int (int_of_string s)) in
  let p = int_of_string (field line "pool") in
  let bp = { bp_pool = nat_of_int p; bp_prio = prio; bp_hint = hint; bp_n = n_of_int (int_of_string (field line "n")) } in
  let lw = int_of_string (field line "lw") in
  let obs = List.filter (fun s -> s <> "") (split_on ';' (field line "obs")) in
  let out = List.map (fun s ->
      match String.split_on_char ':' s with
      | [k; pw; w] ->
        let k = int_of_string k and pw = int_of_string pw and w = int_of_string w in
        if k >= 0 && pw >= 0 && w >= 0 && lw >= 0 &&
           bulk_allowed cfg bp prio (nat_of_int lw) (nat_of_int k) (nat_of_int pw) (nat_of_int w) then s
        else begin
          let e = if k >= 0 && lw >= 0 then
              (match bulk_worker (cfg bp.bp_pool) bp prio (nat_of_int lw) (nat_of_int k) with
               | Some e -> string_of_int (int_of_nat e) | None -> "any") else "?" in
          let ne = if k >= 0 then part_nonempty (nat_of_int pools.(p).w) bp.bp_n (nat_of_int k) else false in
          Printf.sprintf "%s!(model: pool %d worker %s, queue %s)" s p e (if ne then "nonempty" else "empty")
        end
      | _ -> s ^ "!") obs in
  Printf.printf "OUT BULK %s %s\n" id (String.concat ";" out)


(* ---- priority resolution (Model/Priority.v)
   IN PRIO <id> <parent: numeric thread_priority | x> <requested: numeric> <route: 0 create_work | 1 create_thread>
     -> OUT PRIO <id> <numeric stored priority of the child>
   IN PQ <id> W=<w> H=<h> prio=<0|1> parent=<n|x> req=<n> hint=<h>
     -> OUT PQ <id> <N:w | H:i | L>   (queue the child is pushed on; elasticity off)
   priorities travel as the numeric values of the real enum; the constructor is looked up through the
   regenerated rp_ord (value + 1) *)
let rp_of_int v = List.find (fun p -> int_of_n (rp_ord p) = v + 1) rp_all
let int_of_rp p = int_of_n (rp_ord p) - 1
let parent_of s = if s = "x" then None else Some (rp_of_int (int_of_string s))
let replay_prio id parent req route =
  let r = (if route = "1" then resolve_priority_thread else resolve_priority) (rp_of_int (int_of_string req)) (parent_of parent) in
  Printf.printf "OUT PRIO %s %d\n" id (int_of_rp (stored_rprio r))
let replay_pq id line =
  let fi k = int_of_string (field line k) in
  let c = { pW = nat_of_int (fi "W"); pH = nat_of_int (fi "H"); pPrio = field line "prio" = "1"; pSteal = false;
            pElastic = false; pAvail = (fun _ -> true) } in
  let q = child_queue c O (rp_of_int (fi "req")) (parent_of (field line "parent")) (HThread (z_of_int (fi "hint"))) O in
  Printf.printf "OUT PQ %s %s\n" id
    (match q with QN (_, w) -> Printf.sprintf "N:%d" (int_of_nat w) | QH (_, i) -> Printf.sprintf "H:%d" (int_of_nat i) | QL _ -> "L")

let () =
  try
    while true do
      let line = input_line stdin in
      match String.split_on_char ' ' line with
      | "IN" :: "PL" :: id :: _ -> (try replay_pl id line with e -> Printf.printf "OUT PL %s driver-error:%s\n" id (Printexc.to_string e))
      | "IN" :: "E6" :: id :: _ -> replay_e6 id line
      | "IN" :: "PRIO" :: id :: parent :: req :: route :: _ ->
        (try replay_prio id parent req route with e -> Printf.printf "OUT PRIO %s driver-error:%s\n" id (Printexc.to_string e))
      | "IN" :: "PQ" :: id :: _ -> (try replay_pq id line with e -> Printf.printf "OUT PQ %s driver-error:%s\n" id (Printexc.to_string e))
      | "IN" :: "BULK" :: id :: _ -> (try replay_bulk id line with e -> Printf.printf "OUT BULK %s driver-error:%s\n" id (Printexc.to_string e))
      | _ -> ()
    done
  with End_of_file -> ()
