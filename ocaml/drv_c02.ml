(* C01/C02 driver: (a) IN CHAIN lines — per thread-object incarnation the tag-ordered chain of
   state-word transitions observed on the real runtime — are run through the extracted acceptor;
   (b) IN MRUN lines ask for a seeded random program + schedule to be executed by the extracted
   model itself and its boolean monitors to be evaluated (failing-input search on the model);
   the oracle's third component oh picks the heap object create_thread_object rebinds. *)
let z_of_int n = if n = 0 then Z0 else if n > 0 then Zpos (pos_of_int n) else Zneg (pos_of_int (-n))
let site_of_int = function
  | 101 -> Some SiteBoost | 102 -> Some SiteAct | 103 -> Some SiteStore | 104 -> Some SiteSet | _ -> None
let word_of st tg =
  match sst_of_Z (z_of_int (int_of_string st)) with
  | Some s -> Some { st = s; tag = n_of_int (int_of_string tg) }
  | None -> None
let parse_entry e =
  match String.split_on_char ':' e with
  | [s; so; tgo; sn; tgn] ->
    (match site_of_int (int_of_string s), word_of so tgo, word_of sn tgn with
     | Some st, Some o, Some n -> Some ((st, o), n)
     | _ -> None)
  | _ -> None
(* deterministic generator for model runs *)
let lcg = ref 1
let rnd n = lcg := (!lcg * 1103515245 + 12345) land 0x3fffffff; if n <= 0 then 0 else (!lcg lsr 8) mod n
let rec gen_body depth ntgt =
  let len = rnd 5 in
  List.init len (fun _ ->
    match rnd 9 with
    | 0 -> Yield | 1 -> YieldBoost | 2 -> Suspend | 3 -> Register
    | 4 | 5 -> if depth > 0 then Spawn (gen_body (depth - 1) ntgt, rnd 2 = 0) else Yield
    | 6 | 7 -> Resume (nat_of_int (rnd ntgt))
    | _ -> Yield)
(* bodies for the extended model (Model/SchedY.v): yield_to of any object in the mix *)
let rec gen_bodyY depth ntgt =
  let len = rnd 5 in
  List.init len (fun _ ->
    match rnd 11 with
    | 0 -> Yield | 1 -> YieldBoost | 2 -> Suspend | 3 -> Register
    | 4 | 5 -> if depth > 0 then Spawn (gen_bodyY (depth - 1) ntgt, rnd 2 = 0) else Yield
    | 6 | 7 -> Resume (nat_of_int (rnd ntgt))
    | 8 | 9 -> YieldTo (nat_of_int (rnd ntgt))
    | _ -> Yield)
let () =
  try
    while true do
      let line = input_line stdin in
      match String.split_on_char ' ' line with
      | ["IN"; "CHAIN"; id; entries] ->
        let es = if entries = "-" then [] else String.split_on_char ',' entries in
        let parsed = List.map parse_entry es in
        if List.exists (fun x -> x = None) parsed then
          Printf.printf "OUT CHAIN %s acc=0 acts=-1\n" id
        else begin
          let l = List.map (function Some x -> x | None -> assert false) parsed in
          Printf.printf "OUT CHAIN %s acc=%d acts=%d\n" id (if accepts l then 1 else 0) (int_of_nat (activations l))
        end
      | ["IN"; "MRUN"; id; seed; nthreads; steps] ->
        lcg := int_of_string seed * 7919 + 17;
        let tn = int_of_string nthreads in
        let next = 2 + rnd 2 in                       (* threads 0..next-1 are external *)
        let ntgt = 8 in
        let progs = Array.init next (fun _ ->
          List.init (2 + rnd 4) (fun _ ->
            if rnd 3 = 0 then Resume (nat_of_int (rnd ntgt)) else Spawn (gen_body 2 ntgt, rnd 2 = 0))) in
        let ext = fun t -> let i = int_of_nat t in if i < next then Some progs.(i) else None in
        let sched = List.init (int_of_string steps) (fun _ ->
          (nat_of_int (rnd tn), { oi = nat_of_int (rnd 4); ob = (rnd 3 <> 0); oh = nat_of_int (rnd 3) })) in
        (* finish with a long round-robin tail so that most runs end quiescent *)
        let tail = List.concat (List.init 400 (fun k ->
          List.init tn (fun a -> (nat_of_int a, { oi = nat_of_int 0; ob = (k mod 2 = 0); oh = nat_of_int (k mod 3) })))) in
        let c = sched_run (sched @ tail) ext in
        let tnn = nat_of_int tn in
        (* ntasks = thread objects allocated, ninc = tasks (incarnations) created: ninc > ntasks
           iff some object was recycled in this run *)
        Printf.printf "OUT MRUN %s ok=%d idle=%d lost=%d ntasks=%d ninc=%d\n" id
          (if mon_ok tnn c then 1 else 0) (if idle_b tnn c then 1 else 0)
          (if lost_wakeup_b tnn c then 1 else 0) (int_of_nat (fst c).ntasks) (int_of_nat (fst c).ninc)
      | ["IN"; "MRUNY"; id; seed; nthreads; steps] ->
        (* the extended model with yield_to: weakened handle invariant + nothing dropped *)
        lcg := int_of_string seed * 7919 + 23;
        let tn = int_of_string nthreads in
        let next = 2 + rnd 2 in
        let ntgt = 6 in
        let progs = Array.init next (fun _ ->
          List.init (2 + rnd 4) (fun _ ->
            if rnd 3 = 0 then Resume (nat_of_int (rnd ntgt)) else Spawn (gen_bodyY 2 ntgt, rnd 2 = 0))) in
        let ext = fun t -> let i = int_of_nat t in if i < next then Some progs.(i) else None in
        let sched = List.init (int_of_string steps) (fun _ ->
          (nat_of_int (rnd tn), { oi = nat_of_int (rnd 4); ob = (rnd 3 <> 0); oh = nat_of_int (rnd 3) })) in
        let tnn = nat_of_int tn in
        (* the monitor is evaluated in the middle of the run and after a round-robin tail *)
        let c1 = sched_runY sched ext in
        let tail = List.concat (List.init 400 (fun k ->
          List.init tn (fun a -> (nat_of_int a, { oi = nat_of_int 0; ob = (k mod 2 = 0); oh = nat_of_int (k mod 3) })))) in
        let c = sched_runY (sched @ tail) ext in
        Printf.printf "OUT MRUNY %s ok=%d idle=%d ntasks=%d ninc=%d\n" id
          (if monY_ok tnn c1 && monY_ok tnn c then 1 else 0) (if idleY_b tnn c then 1 else 0)
          (int_of_nat (fst c).ntasks) (int_of_nat (fst c).ninc)
      | _ -> ()
    done
  with End_of_file -> ()
