(* C15 driver: replays the IN lines of tools/props/c15.py on the extracted model, prints OUT lines
   in the format of harness/c15_bind.cpp *)
let ints sep s = List.map int_of_string (List.filter (fun x -> x <> "") (String.split_on_char sep s))
let nats sep s = List.map nat_of_int (ints sep s)
let err_name = function
  | EMaskPastHw -> "mask_past_hw" | EMaskEmpty -> "mask_empty" | EOversubMask -> "oversub_mask"
  | EOversubHw -> "oversub_hw" | ECountMismatch -> "count_mismatch" | EHang -> "hang"
  | EOutOfBounds -> "oob" | EPuTaken -> "pu_taken" | EDefaultPoolEmpty -> "default_pool_empty"
  | EPoolEmpty -> "empty_pool"
let hex_of_bits (l : nat list) =
  let bits = List.map int_of_nat l in
  let top = List.fold_left max (-1) bits in
  if top < 0 then "0" else begin
    let nd = top / 4 + 1 in
    let d = Array.make nd 0 in
    List.iter (fun b -> d.(b / 4) <- d.(b / 4) lor (1 lsl (b mod 4))) bits;
    String.init nd (fun i -> "0123456789abcdef".[d.(nd - 1 - i)])
  end
let () =
  try
    while true do
      let line = input_line stdin in
      match String.split_on_char ' ' line with
      | "IN" :: "BIND" :: id :: rest ->
        let kv = List.map (fun s -> match String.index_opt s '=' with
            | Some i -> (String.sub s 0 i, String.sub s (i + 1) (String.length s - i - 1))
            | None -> (s, "")) rest in
        let g k = List.assoc k kv in
        let topo = List.map (nats ',') (String.split_on_char '|' (g "topo")) in
        let osidx = nats ',' (g "osidx") in
        let use = g "use" = "1" in
        let total = int_of_nat (total_pus topo) in
        let full = g "mask" = "full" in
        let phys = if full then [] else nats ',' (g "mask") in
        let pmres =
          if full then Ok (fun i -> int_of_nat i < total)
          else set_process_mask topo osidx phys in
        (match pmres with
         | Err e -> Printf.printf "OUT BIND %s err=%s\n" id (err_name e)
         | Ok pm ->
           (* the converted (logical) process mask: topology::get_cpubind_mask_main_thread() *)
           let pmbits = if full then mask_bits topo pm else
               (match process_mask_bits topo osidx phys with Ok l -> l | Err _ -> failwith "pm") in
           let pmhex = hex_of_bits pmbits in
           let n = match g "n" with
             | "all" -> default_threads topo use pm
             | "cores" -> default_cores topo use pm
             | s -> nat_of_int (int_of_string s) in
           let b = match String.split_on_char ':' (g "bind") with
             | ["compact"] -> BindMode Compact | ["scatter"] -> BindMode Scatter
             | ["balanced"] -> BindMode Balanced | ["numa-balanced"] -> BindMode NumaBalanced
             | ["none"] -> BindNone
             | _ -> failwith "bind" in
           let specs = if g "pools" = "-" then [] else List.map (nats '.') (String.split_on_char ';' (g "pools")) in
           (* --pika:cores (max_cores): defaults to the thread count *)
           let mc = match List.assoc_opt "cores" kv with
             | Some c -> nat_of_int (int_of_string c) | None -> n in
           (* the theorem's function (set_process_mask, then startup) when the user gave a mask *)
           let res = if full then startup topo b use pm n mc specs
             else startup_os topo osidx phys b use n mc specs in
           (match res with
            | Err e -> Printf.printf "OUT BIND %s err=%s pm=%s\n" id (err_name e) pmhex
            | Ok st ->
              let ws = st.st_workers in
              let nw = List.length ws in
              let ex = exposed topo st.st_ad in
              let exs = if ex = [] then "-" else String.concat "." (List.map (fun p -> string_of_int (int_of_nat p)) ex) in
              let wstr = String.concat "|" (List.mapi (fun i w ->
                  let ow = owners st.st_pools O O (nat_of_int i) in
                  let ows = if ow = [] then "none" else String.concat "+" (List.map (fun k -> string_of_int (int_of_nat k)) ow) in
                  Printf.sprintf "%s:%d:%s" (hex_of_bits w.w_mask) (int_of_nat w.w_pu) ows) ws) in
              let off = ref 0 in
              let pstr = String.concat "|" (List.mapi (fun k p ->
                  let c = List.length p in
                  let s = Printf.sprintf "%s:%d:%d" (if k = 0 then "default" else "p" ^ string_of_int k) !off c in
                  off := !off + c; s) st.st_pools) in
              Printf.printf "OUT BIND %s ok pm=%s n=%d exposed=%s w=%s pools=%s\n" id pmhex nw exs wstr pstr))
      | _ -> ()
    done
  with End_of_file -> ()
