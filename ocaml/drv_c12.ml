(* C12 driver: replays the IN lines of harness/c12_swap.cpp on the extracted machine model
   (the routine is Gen/GenSwapctx.swapcontext, regenerated from the asm text) and prints OUT lines.
   Values travel as hexadecimal strings (64-bit). *)
let z_of_hex (s : string) : z = match n_of_hex s with N0 -> Z0 | Npos p -> Zpos p
let hex_of_z (x : z) : string =
  match x with Z0 -> "0" | Zpos p -> hex_of_n (Npos p) | Zneg p -> "-" ^ hex_of_n (Npos p)
let zs s = List.map z_of_hex (split_on ',' s)
let hs l = String.concat "," (List.map hex_of_z l)
let pairs s =
  List.map (fun kv -> match String.split_on_char ':' kv with
                      | [a; v] -> (z_of_hex a, z_of_hex v)
                      | _ -> failwith "pair") (split_on ';' s)
let z_of_int i = if i = 0 then Z0 else if i > 0 then Zpos (pos_of_int i) else Zneg (pos_of_int (-i))
let rec int_of_z = function Z0 -> 0 | Zpos p -> int_of_pos p | Zneg p -> - (int_of_pos p)

let () =
  try
    while true do
      let line = input_line stdin in
      match String.split_on_char ' ' line with
      | ["IN"; "SW"; id; retA; ra; mem; mxA; cwA; retB; rb; mxB; cwB; cellA; probes] ->
        (match run_two (z_of_hex retA) (zs ra) (pairs mem) (z_of_hex mxA) (z_of_hex cwA)
                 (z_of_hex retB) (zs rb) (z_of_hex mxB) (z_of_hex cwB) (z_of_hex cellA) (zs probes) with
         | Some (((t1, r1), (t2, r3)), (pr, (mx, cw))) ->
           Printf.printf "OUT SW %s t1=%s b=%s t2=%s a=%s probes=%s mx=%s cw=%s\n" id
             (hex_of_z t1) (hs r1) (hex_of_z t2) (hs r3) (hs pr) (hex_of_z mx) (hex_of_z cw)
         | None -> Printf.printf "OUT SW %s FAULT\n" id)
      | ["IN"; "FE"; id; stack; size; this; funp; ret; rl] ->
        (match run_fe (z_of_hex ret) (zs rl) (z_of_hex stack) (z_of_hex size) (z_of_hex this) (z_of_hex funp) with
         | Some ((sp, (cb, fi)), ((t, rdi), rsp)) ->
           let stack_z = z_of_hex stack and size_z = z_of_hex size in
           let top = int_of_z stack_z + int_of_z size_z in
           Printf.printf "OUT FE %s sp_off=%d cb_idx=%d funp_idx=%d target_is_funp=%d rdi_is_this=%d entry_aligned=%d\n"
             id (top - int_of_z sp) (int_of_z cb) (int_of_z fi)
             (if hex_of_z t = hex_of_z (z_of_hex funp) then 1 else 0)
             (if hex_of_z rdi = hex_of_z (z_of_hex this) then 1 else 0)
             (if (int_of_z rsp + 8) mod 16 = 0 then 1 else 0)
         | None -> Printf.printf "OUT FE %s FAULT\n" id)
      | ["IN"; "SZ"; id; sm; me; la; hu; cls] ->
        (* scheduler_base::get_stack_size for the configured sizes *)
        let p = function Small -> z_of_hex sm | Medium -> z_of_hex me | Large -> z_of_hex la
                       | Huge -> z_of_hex hu | Nostack -> z_of_hex "7fffffffffffffff" in
        let c = (match cls with "0" -> Small | "1" -> Medium | "2" -> Large | _ -> Huge) in
        Printf.printf "OUT SZ %s stack_size=%s\n" id (hex_of_z (get_stack_size p c))
      | ["IN"; "RB"; id] ->
        (* a recycled object that the previous task left dirty: pending interruption request,
           interruption disabled, exit callbacks run, non-empty callback list, data word set *)
        let dirty = function
          | F_requested_interrupt -> VB true | F_enabled_interrupt -> VB false
          | F_ran_exit_funcs -> VB true | F_exit_funcs -> VZ (z_of_int 3) | _ -> VZ (z_of_int 9) in
        let d = rebind_base (fun _ -> z_of_int 1) dirty in
        let b f = (match d f with VB true -> 1 | VB false -> 0 | _ -> -1) in
        let accepted = if b F_ran_exit_funcs = 0 && d F_exit_funcs = VNil then 1 else 0 in
        let cdirty = fun _ -> CJunk (z_of_int 5) in
        let c = coro_do_rebind (z_of_int 2) (coro_at_exit (z_of_int 1) cdirty) in
        let data = (match c C_thread_data with CV (CZero, _) -> "0" | _ -> "dirty") in
        Printf.printf "OUT RB %s start_intr_req=%d start_intr_enabled=%d start_data=%s exit_cb_accepted=%d\n"
          id (b F_requested_interrupt) (b F_enabled_interrupt) data accepted
      | ["IN"; "HP"; id; which; sm; me; la; hu; prev; next] ->
        (* may the object a task of class [prev] ran on be rebound to a task of class [next]?  The heap model of the queue
           implementation in use (q = thread_queue, mc = thread_queue_mc / queue_holder_thread) on create, terminate, create *)
        let p = function Small -> z_of_hex sm | Medium -> z_of_hex me | Large -> z_of_hex la
                       | Huge -> z_of_hex hu | Nostack -> z_of_hex "7fffffffffffffff" in
        let cls = function "0" -> Small | "1" -> Medium | "2" -> Large | _ -> Huge in
        let ops = [Create (cls prev); Terminate O; Create (cls next)] in
        let q = if which = "mc" then mc_q_run p ops else q_run p ops in
        (match q.qlog with
         | EvRebound (o, _, w) :: _ -> Printf.printf "OUT HP %s reuse=1 size=%s\n" id (hex_of_z o.osize); ignore w
         | _ -> Printf.printf "OUT HP %s reuse=0 size=-\n" id)
      | ["IN"; "CURMC"; id; path; creator; conv; req] ->
        (* the same question for thread_queue_mc (shared-priority scheduler): mc_created_class / mc_created_enum, built on
           Gen.mc_current_resolution (regenerated from thread_queue_mc.hpp) *)
        let cls = function "0" -> Small | "1" -> Medium | "2" -> Large | _ -> Huge in
        let ctx = function "-" -> None | x -> Some (cls x) in
        let num = function Small -> "0" | Medium -> "1" | Large -> "2" | Huge -> "3" | Nostack -> "4" in
        let p = if path = "R" then RunNow else Staged in
        let r = if req = "c" then Current else Explicit (cls req) in
        Printf.printf "OUT CUR %s cls=%s enum=%s\n" id (num (mc_created_class p (ctx creator) (ctx conv) r))
          (match mc_created_enum p (ctx creator) r with Some c -> num c | None -> "current")
      | ["IN"; "CUR"; id; path; creator; conv; req] ->
        (* class of a task created through [path] (R = at once, S = staged) by a task of class [creator] (- = no task),
           a staged description being converted in context [conv]; req = 0..3 explicit class, c = thread_stacksize::current *)
        let cls = function "0" -> Small | "1" -> Medium | "2" -> Large | _ -> Huge in
        let ctx = function "-" -> None | x -> Some (cls x) in
        let num = function Small -> "0" | Medium -> "1" | Large -> "2" | Huge -> "3" | Nostack -> "4" in
        let p = if path = "R" then RunNow else Staged in
        let r = if req = "c" then Current else Explicit (cls req) in
        Printf.printf "OUT CUR %s cls=%s enum=%s\n" id (num (created_class p (ctx creator) (ctx conv) r))
          (match created_enum p (ctx creator) r with Some c -> num c | None -> "current")
      | _ -> ()
    done
  with End_of_file -> ()
