(* C09 driver: replays the IN lines of the harnesses on the extracted models, prints OUT lines *)
let rec z_of_int n = if n = 0 then Z0 else if n > 0 then Zpos (pos_of_int n) else Zneg (pos_of_int (-n))
let int_of_z = function Z0 -> 0 | Zpos p -> int_of_pos p | Zneg p -> - (int_of_pos p)

(* ---- barrier: lock-step replay.  Hooked sites 900/901/902; the steps without a hook (phase
   load, expected_adjustment, completion, expected update, phase store) run together with the
   neighbouring hooked step of the same thread, exactly as on the real code. *)
let bar_case id e0 progs sched =
  let tbl = Hashtbl.create 64 in
  List.iter (fun s ->
    match String.split_on_char ':' s with
    | [tid; op] ->
      let o = if op = "d" then ODrop else OArrive (nat_of_int (int_of_string (String.sub op 1 (String.length op - 1)))) in
      Hashtbl.replace tbl (int_of_string tid) [o]
    | _ -> ()) (split_on ',' progs);
  let progf t = match Hashtbl.find_opt tbl (int_of_nat t) with Some l -> l | None -> [] in
  let c = ref (bar_init (nat_of_int e0), bar_locals progf) in
  let site t = int_of_nat (bpc_site (snd !c t)) in
  let steps = Buffer.create 256 in
  let first = ref true in
  let diverged = ref "" in
  List.iter (fun s ->
    match String.split_on_char '.' s with
    | [tid; st] ->
      let t = nat_of_int (int_of_string tid) in
      let guard = ref 0 in
      while (site t = 903 || site t = 904) && !guard < 10 do incr guard; c := step b_tstep !c (t, O) done;
      let si = site t in
      let (r, n) = bpc_args (snd !c t) in
      if not !first then Buffer.add_char steps ',';
      first := false;
      if si = 900 then Buffer.add_string steps "900.0.0"
      else Buffer.add_string steps (Printf.sprintf "%d.%d.%d" si (int_of_nat r) (int_of_nat n));
      if si < 900 || si > 902 then diverged := Printf.sprintf "thread %s scheduled but the model is at site %d" tid si;
      c := step b_tstep !c (t, nat_of_int (int_of_string st));
      let guard = ref 0 in
      while site t = 905 && !guard < 10 do incr guard; c := step b_tstep !c (t, O) done
    | _ -> ()) (split_on ',' sched);
  let g = fst !c in
  let wins = List.rev (List.filter_map (function EvCompl (t, k, _, _) -> Some (Printf.sprintf "%d:%d" (int_of_nat k) (int_of_nat t)) | _ -> None) g.blog) in
  Printf.printf "OUT BAR %s steps=%s wins=%s bad=%d final_expected=%d%s\n" id
    (if Buffer.length steps = 0 then "-" else Buffer.contents steps) (String.concat "," wins)
    (if g.bad then 1 else 0) (int_of_nat g.expected)
    (if !diverged = "" then "" else " diverged=" ^ !diverged)

(* ---- latch, sequential: one thread runs a program in which no operation blocks *)
let lop_of s =
  let n () = n_of_int (int_of_string (String.sub s 1 (String.length s - 1))) in
  match s.[0] with
  | 'c' -> LCountDown (n ()) | 'a' -> LArriveWait (n ()) | 'w' -> LWait | _ -> LTryWait
let lseq_case id count ops =
  let prog = List.map lop_of (split_on ',' ops) in
  let progf t = if int_of_nat t = 0 then prog else [] in
  let c = ref (latch_init (z_of_int count), latch_locals progf) in
  let fuel = ref (8 * (List.length prog + 2)) in
  while !fuel > 0 && l_enabled (fst !c) O (snd !c O) do
    decr fuel; c := step (latch_tstep true) !c (O, ONorm) done;
  let g = fst !c in
  let tries = List.rev (List.filter_map (function LTry (_, r) -> Some (if r then "1" else "0") | _ -> None) g.llog) in
  let rets = List.length (List.filter (function LRet _ -> true | _ -> false) g.llog) in
  Printf.printf "OUT LSEQ %s try=%s rets=%d done=%d\n" id
    (if tries = [] then "-" else String.concat "" tries) rets
    (if (snd !c O).lprog = [] then 1 else 0)

(* ---- latch, lock-step on OS threads: count_down / wait / try_wait / arrive_and_wait *)
let llock_case id count progs sched =
  let tn = List.length progs in
  let parr = Array.of_list (List.map (fun p -> List.map lop_of (split_on ',' p)) progs) in
  let progf t = let i = int_of_nat t in if i < tn then parr.(i) else [] in
  let c = ref (latch_init (z_of_int count), latch_locals progf) in
  let site t =
    let l = snd !c t in
    match l.lpcs with
    | LIdle -> (match l.lprog with [] -> 0 | LCountDown _ :: _ -> 911 | LWait :: _ -> 914 | LTryWait :: _ -> 915 | LArriveWait _ :: _ -> 917)
    | LNotify (true, _) -> 912 | LNotify (false, false) -> 913 | LNotify (false, true) -> 918 | LAwNotify -> 919
    | LSusp -> 9001 | LBlk -> 9002 | LRewait -> 916 in
  let sites = Buffer.create 64 in
  let first = ref true in
  let forced s = String.length s > 0 && s.[String.length s - 1] = 'f' in
  let view () =
    String.concat "," (List.init tn (fun i ->
      let t = nat_of_int i in
      if site t = 9002 && not ((fst !c).ag t).blocked then c := step (latch_tstep true) !c (t, ONorm);
      let l = snd !c t in
      let pos = List.length parr.(i) - List.length l.lprog in
      match site t with
      | 0 -> "D" | 9002 -> Printf.sprintf "%dB" pos | s -> Printf.sprintf "%d.%d" pos s)) in
  let views = ref [view ()] in
  let pending = ref false in
  List.iter (fun s ->
    if not (forced s) then begin
      if !pending then views := view () :: !views;
      pending := true end;
    let s = if forced s then String.sub s 0 (String.length s - 1) else s in
    let t = nat_of_int (int_of_string s) in
    (* a blocked waiter that was resumed continues to its next hook on its own *)
    if site t = 9002 then c := step (latch_tstep true) !c (t, ONorm);
    if not !first then Buffer.add_char sites ',';
    first := false;
    Buffer.add_string sites (string_of_int (site t));
    c := step (latch_tstep true) !c (t, ONorm);
    (* arrive_and_wait, last arriver: the critical section entered at 917 continues (lock held)
       with notified_ = true and the first notify_one: model steps AW0 and AWN in one entry *)
    if (snd !c t).lpcs = LAwNotify then c := step (latch_tstep true) !c (t, ONorm)) (split_on ',' sched);
  if !pending then views := view () :: !views;
  let g = fst !c in
  let tries = Array.make tn "" and rets = Array.make tn 0 in
  List.iter (function
    | LTry (t, r) -> let i = int_of_nat t in tries.(i) <- (if r then "1" else "0") ^ tries.(i)
    | LRet (t, _, _) -> let i = int_of_nat t in rets.(i) <- rets.(i) + 1) g.llog;
  Printf.printf "OUT LLOCK %s sites=%s try=%s rets=%s views=%s\n" id
    (if Buffer.length sites = 0 then "-" else Buffer.contents sites)
    (String.concat "|" (Array.to_list tries))
    (String.concat "," (Array.to_list (Array.map string_of_int rets)))
    (String.concat ";" (List.rev !views))

(* ---- call_once, sequential: thread 0 makes k calls, plan.[i] = the i-th run throws *)
let oseq_case id k plan =
  let c = ref (o_init, o_locals (fun t -> if int_of_nat t = 0 then nat_of_int k else O)) in
  let fuel = ref (40 * (k + 1)) in
  while !fuel > 0 && o_enabled (fst !c) O (snd !c O) do
    decr fuel;
    let runs = int_of_nat (nend (fst !c).olog) in
    let th = runs < String.length plan && plan.[runs] = '1' in
    c := step o_tstep !c (O, OONorm th) done;
  let s = String.concat "" (List.rev_map (function
    | OBegin _ -> "B" | OEnd (_, true) -> "E" | OEnd (_, false) -> "e" | ORet _ -> "R" | OThrown _ -> "T") (fst !c).olog) in
  Printf.printf "OUT OSEQ %s log=%s\n" id s

(* ---- event / call_once, lock-step on OS threads (harness/c09_evonce.cpp).
   A schedule entry "t" releases thread t at its hooked point: the model runs t's step there; a
   spinlock critical section of the real code is one entry (set(): ES1 and all ESN steps).  An
   entry "tf" is the forced suspend step of a waiter on which the notifier blocked inside
   default_agent::resume (model: the resume left a token, the suspend step consumes it).  "R" is
   the controller's rescue set() in a stuck state (thread id T).  After every macro step the view
   of all threads is printed: <progress>.<site> | <progress>B (blocked in suspend) | D. *)
let ev_site = function
  | EW0 -> "940" | EW1 -> "941" | ESusp -> "9001" | EBlk -> "B" | ERw -> "916"
  | ES0 -> "942" | ES1 -> "943" | ESN _ -> "943+" | ER0 -> "944" | EDone -> "done"

let entries sched = if sched = "-" then [] else split_on ',' sched
let is_forced s = String.length s > 0 && s.[String.length s - 1] = 'f'
let tid_of s = int_of_string (if is_forced s then String.sub s 0 (String.length s - 1) else s)

let replay_views ents exec view =
  let views = ref [view ()] in
  let pending = ref false in
  List.iter (fun s ->
    if not (is_forced s) then begin
      if !pending then views := view () :: !views;
      pending := true end;
    exec s) ents;
  if !pending then views := view () :: !views;
  String.concat ";" (List.rev !views)

let elock_case id progs sched =
  let tn = List.length progs in
  let eop_of = function 'w' -> EWait | 's' -> ESet | 'r' -> EReset | _ -> EOcc in
  let parr = Array.of_list (List.map (fun p -> List.init (String.length p) (fun i -> eop_of p.[i])) progs) in
  let ents = entries sched in
  let nresc = List.length (List.filter (fun s -> s = "R") ents) in
  let progf t = let i = int_of_nat t in
    if i < tn then parr.(i) else if i = tn then List.init nresc (fun _ -> ESet) else [] in
  let c = ref (e_init, e_locals progf) in
  let stp t = c := step e_tstep !c (t, ENorm) in
  let normalise t =
    let go = ref true and guard = ref 0 in
    while !go && !guard < 10 do
      incr guard;
      let l = snd !c t in
      match l.epcs with
      | None -> (match l.eprog with (EWait | ESet | EReset) :: _ -> stp t | _ -> go := false)
      | Some EBlk -> if ((fst !c).est.eag t).blocked then go := false else stp t
      | _ -> go := false
    done in
  let rec crit t k = if k > 0 then match (snd !c t).epcs with Some (ESN _) -> stp t; crit t (k - 1) | _ -> () in
  let view () =
    String.concat "," (List.init tn (fun i ->
      let t = nat_of_int i in
      normalise t;
      let l = snd !c t in
      let pos = List.length parr.(i) - List.length l.eprog in
      match l.epcs with
      | None -> (match l.eprog with [] -> "D" | _ -> Printf.sprintf "%d.945" pos)
      | Some EBlk -> Printf.sprintf "%dB" pos
      | Some pc -> Printf.sprintf "%d.%s" pos (ev_site pc))) in
  let exec s =
    if s = "R" then begin
      let t = nat_of_int tn in
      normalise t; stp t; stp t; crit t 100 end
    else begin
      let t = nat_of_int (tid_of s) in
      normalise t; stp t; crit t 100 end in
  let views = replay_views ents exec view in
  let occ = Array.make tn "" in
  List.iter (function
    | EOccurred (t, b) -> let i = int_of_nat t in if i < tn then occ.(i) <- (if b then "1" else "0") ^ occ.(i)
    | _ -> ()) (fst !c).elog;
  Printf.printf "OUT ELOCK %s views=%s occ=%s\n" id views (String.concat "|" (Array.to_list occ))

let olock_case id calls plan sched =
  let carr = Array.of_list (List.map int_of_string (split_on ',' calls)) in
  let tn = Array.length carr in
  let plan = if plan = "-" then "" else plan in
  let c = ref (o_init, o_locals (fun t -> let i = int_of_nat t in if i < tn then nat_of_int carr.(i) else O)) in
  let stp t =
    let runs = int_of_nat (nend (fst !c).olog) in
    let th = runs < String.length plan && plan.[runs] = '1' in
    c := step o_tstep !c (t, OONorm th) in
  let normalise t =
    let go = ref true and guard = ref 0 in
    while !go && !guard < 10 do
      incr guard;
      let l = snd !c t in
      match l.opc with
      | None -> (match l.calls with O -> go := false | S _ -> stp t)
      | Some (OWaitE EBlk) -> if ((fst !c).oev.eag t).blocked then go := false else stp t
      | _ -> go := false
    done in
  let rec crit t k =
    if k > 0 then match (snd !c t).opc with Some (OSet (_, ESN _)) -> stp t; crit t (k - 1) | _ -> () in
  let view () =
    String.concat "," (List.init tn (fun i ->
      let t = nat_of_int i in
      normalise t;
      let l = snd !c t in
      let pos = carr.(i) - int_of_nat l.calls - (match l.opc with None -> 0 | Some _ -> 1) in
      match l.opc with
      | None -> "D"
      | Some (OWaitE EBlk) -> Printf.sprintf "%dB" pos
      | Some pc ->
        Printf.sprintf "%d.%s" pos (match pc with
          | OC0 -> "931" | OC1 -> "932" | OR1 -> "944" | OBody -> "933"
          | OStore true -> "934" | OStore false -> "930"
          | OSet (_, sub) -> ev_site sub | OWaitE sub -> ev_site sub))) in
  let exec s = let t = nat_of_int (tid_of s) in normalise t; stp t; crit t 100 in
  let views = replay_views (entries sched) exec view in
  let log = String.concat "" (List.rev_map (function
    | OBegin _ -> ""
    | OEnd (t, true) -> Printf.sprintf "E%d" (int_of_nat t)
    | OEnd (t, false) -> Printf.sprintf "e%d" (int_of_nat t)
    | ORet t -> Printf.sprintf "R%d" (int_of_nat t)
    | OThrown t -> Printf.sprintf "T%d" (int_of_nat t)) (fst !c).olog) in
  Printf.printf "OUT OLOCK %s views=%s log=%s\n" id views (if log = "" then "-" else log)

(* ---- barrier: which path does wait() take?  (harness/c09_params.cpp, family wait_path)
   programs: a = arrive(1) (token kept), w0 / w1 = wait(token, timeout <= 0 / > 0), aw0 / aw1 =
   arrive_and_wait.  Order entries: R<t> = thread t runs (busy-wait timer not expired) until a poll
   finds the phase unchanged or its program is finished; X<t> = one step of t in which the timer of
   its busy wait has expired.  The trace of a thread is what hooks 906/907/908 of barrier::wait
   show: 906.b wait entered (b = 1: busy wait first), 907.b blocking wait entered (b = 1: after a
   timed-out busy wait), 908.b wait returns (b = 1: from the busy wait). *)
let wpath_case id e0 progs sched =
  let parr = Array.of_list (List.map (fun p ->
    List.map (function "a" -> OArrive (S O) | "w0" -> OWait | "w1" -> OWaitBusy | "aw0" -> OArriveWait
                     | _ -> OArriveWaitBusy) (split_on ',' p)) (split_on ';' progs)) in
  let tn = Array.length parr in
  let progf t = let i = int_of_nat t in if i < tn then parr.(i) else [] in
  let c = ref (bar_init (nat_of_int e0), bar_locals progf) in
  let traces = Array.make tn [] in
  let add i x = traces.(i) <- x :: traces.(i) in
  let is_spin = function BSpin _ -> true | _ -> false and is_poll = function BPoll _ -> true | _ -> false in
  let one i o =
    let t = nat_of_int i in
    let before = snd !c t in
    c := step b_tstep !c (t, o);
    let after = snd !c t in
    let p0 = before.pcb and p1 = after.pcb in
    if is_spin p1 && not (is_spin p0) then add i "906.1";
    if is_spin p0 && is_poll p1 then add i "907.1";
    if is_poll p1 && not (is_spin p0) && not (is_poll p0) then (add i "906.0"; add i "907.0");
    if is_spin p0 && p1 = BIdle then add i "908.1";
    if is_poll p0 && p1 = BIdle then add i "908.0";
    (* stutter: a poll that found the phase unchanged *)
    before.pcb = after.pcb && List.length before.bprog = List.length after.bprog in
  List.iter (fun e ->
    if String.length e >= 2 then begin
      let i = int_of_string (String.sub e 1 (String.length e - 1)) in
      if i < tn then
        if e.[0] = 'X' then ignore (one i (S O))
        else begin
          let fuel = ref 400 and go = ref true in
          while !go && !fuel > 0 do
            decr fuel;
            let l = snd !c (nat_of_int i) in
            if l.pcb = BIdle && l.bprog = [] then go := false
            else if one i O then go := false
          done
        end
    end) (split_on ',' sched);
  let g = fst !c in
  Printf.printf "OUT WPATH %s%s%s\n" id
    (String.concat "" (List.init tn (fun i ->
       Printf.sprintf " t%d=%s" i (if traces.(i) = [] then "-" else String.concat "," (List.rev traces.(i))))))
    (if g.bad then " model_bad=1" else "")

(* ---- stand-alone tree with the ticket claims shaped as the source has them (trx_tstep src_claims:
   a load; store claim is two steps): runs a given schedule of (thread, start-node hash) entries, every
   thread 0..n-1 performs one arrival; prints the ghost log (thread:result:arrivals started) *)
let treex_case id e n sched =
  let progf t = if int_of_nat t < n then S O else O in
  let p = n_of_int 0 in
  let c = ref (tr_init p, trx_locals progf) in
  List.iter (fun s ->
    match String.split_on_char '.' s with
    | [tid; st] -> c := step (trx_tstep src_claims (nat_of_int e) p) !c (nat_of_int (int_of_string tid), nat_of_int (int_of_string st))
    | _ -> ()) (split_on ',' sched);
  let g = fst !c in
  let pend = List.length (List.filter (fun i -> (snd !c (nat_of_int i)).tpx <> None) (List.init n (fun i -> i))) in
  let log = List.rev_map (fun ((t, b), s) -> Printf.sprintf "%d:%d:%d" (int_of_nat t) (if b then 1 else 0) (int_of_nat s)) g.trlog in
  Printf.printf "OUT TREEX %s E=%d started=%d pending=%d log=%s\n" id e (int_of_nat g.tre.started) pend
    (if log = [] then "-" else String.concat "," log)

let () =
  try
    while true do
      let line = input_line stdin in
      match String.split_on_char ' ' line with
      | ["IN"; "BAR"; id; e0; _p; progs; sched] -> bar_case id (int_of_string e0) progs sched
      | ["IN"; "TREEX"; id; e; n; sched] -> treex_case id (int_of_string e) (int_of_string n) sched
      | ["IN"; "LSEQ"; id; count; ops] -> lseq_case id (int_of_string count) ops
      | ["IN"; "WPATH"; id; e0; progs; sched] -> wpath_case id (int_of_string e0) progs sched
      | ["IN"; "OSEQ"; id; k; plan] -> oseq_case id (int_of_string k) plan
      | "IN" :: "ELOCK" :: id :: t :: rest ->
        let tn = int_of_string t in
        elock_case id (List.filteri (fun i _ -> i < tn) rest) (List.nth rest tn)
      | ["IN"; "OLOCK"; id; _t; calls; plan; sched] -> olock_case id calls plan sched
      | "IN" :: "LLOCK" :: id :: count :: t :: rest ->
        let tn = int_of_string t in
        let progs = List.filteri (fun i _ -> i < tn) rest in
        llock_case id (int_of_string count) progs (List.nth rest tn)
      | _ -> ()
    done
  with End_of_file -> ()
