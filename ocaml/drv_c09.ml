(* C09 driver: replays the IN lines of the harnesses on the extracted models, prints OUT lines *)
let rec z_of_int n = if n = 0 then Z0 else if n > 0 then Zpos (pos_of_int n) else Zneg (pos_of_int (-n))
let int_of_z = function Z0 -> 0 | Zpos p -> int_of_pos p | Zneg p -> - (int_of_pos p)

(* ---- barrier: lock-step replay.  Hooked sites 900/901/902; the steps without a hook (phase
   load, expected_adjustment, completion, expected update, phase store) run together with the
   neighbouring hooked step of the same thread, exactly as on the real code. *)
let bar_case id e0 progs sched =
  let tbl = Hashtbl.create 64 in
  List.iter (fun s ->
    match String.split_on_char ':' s with
    | [tid; op] ->
      let o = if op = "d" then ODrop else OArrive (nat_of_int (int_of_string (String.sub op 1 (String.length op - 1)))) in
      Hashtbl.replace tbl (int_of_string tid) [o]
    | _ -> ()) (split_on ',' progs);
  let progf t = match Hashtbl.find_opt tbl (int_of_nat t) with Some l -> l | None -> [] in
  let c = ref (bar_init (nat_of_int e0), bar_locals progf) in
  let site t = int_of_nat (bpc_site (snd !c t)) in
  let steps = Buffer.create 256 in
  let first = ref true in
  let diverged = ref "" in
  List.iter (fun s ->
    match String.split_on_char '.' s with
    | [tid; st] ->
      let t = nat_of_int (int_of_string tid) in
      let guard = ref 0 in
      while (site t = 903 || site t = 904) && !guard < 10 do incr guard; c := step b_tstep !c (t, O) done;
      let si = site t in
      let (r, n) = bpc_args (snd !c t) in
      if not !first then Buffer.add_char steps ',';
      first := false;
      if si = 900 then Buffer.add_string steps "900.0.0"
      else Buffer.add_string steps (Printf.sprintf "%d.%d.%d" si (int_of_nat r) (int_of_nat n));
      if si < 900 || si > 902 then diverged := Printf.sprintf "thread %s scheduled but the model is at site %d" tid si;
      c := step b_tstep !c (t, nat_of_int (int_of_string st));
      let guard = ref 0 in
      while site t = 905 && !guard < 10 do incr guard; c := step b_tstep !c (t, O) done
    | _ -> ()) (split_on ',' sched);
  let g = fst !c in
  let wins = List.rev (List.filter_map (function EvCompl (t, k, _, _) -> Some (Printf.sprintf "%d:%d" (int_of_nat k) (int_of_nat t)) | _ -> None) g.blog) in
  Printf.printf "OUT BAR %s steps=%s wins=%s bad=%d final_expected=%d%s\n" id
    (if Buffer.length steps = 0 then "-" else Buffer.contents steps) (String.concat "," wins)
    (if g.bad then 1 else 0) (int_of_nat g.expected)
    (if !diverged = "" then "" else " diverged=" ^ !diverged)

(* ---- latch, sequential: one thread runs a program in which no operation blocks *)
let lop_of s =
  let n () = n_of_int (int_of_string (String.sub s 1 (String.length s - 1))) in
  match s.[0] with
  | 'c' -> LCountDown (n ()) | 'a' -> LArriveWait (n ()) | 'w' -> LWait | _ -> LTryWait
let lseq_case id count ops =
  let prog = List.map lop_of (split_on ',' ops) in
  let progf t = if int_of_nat t = 0 then prog else [] in
  let c = ref (latch_init (z_of_int count), latch_locals progf) in
  let fuel = ref (8 * (List.length prog + 2)) in
  while !fuel > 0 && l_enabled (fst !c) O (snd !c O) do
    decr fuel; c := step (latch_tstep true) !c (O, ONorm) done;
  let g = fst !c in
  let tries = List.rev (List.filter_map (function LTry (_, r) -> Some (if r then "1" else "0") | _ -> None) g.llog) in
  let rets = List.length (List.filter (function LRet _ -> true | _ -> false) g.llog) in
  Printf.printf "OUT LSEQ %s try=%s rets=%d done=%d\n" id
    (if tries = [] then "-" else String.concat "" tries) rets
    (if (snd !c O).lprog = [] then 1 else 0)

(* ---- latch, lock-step on OS threads: count_down / wait / try_wait *)
let llock_case id count progs sched =
  let tn = List.length progs in
  let parr = Array.of_list (List.map (fun p -> List.map lop_of (split_on ',' p)) progs) in
  let progf t = let i = int_of_nat t in if i < tn then parr.(i) else [] in
  let c = ref (latch_init (z_of_int count), latch_locals progf) in
  let site t =
    let l = snd !c t in
    match l.lpcs with
    | LIdle -> (match l.lprog with [] -> 0 | LCountDown _ :: _ -> 911 | LWait :: _ -> 914 | LTryWait :: _ -> 915 | LArriveWait _ :: _ -> 917)
    | LNotify (true, _) -> 912 | LNotify (false, _) -> 913 | LAwNotify -> 918
    | LSusp -> 9001 | LBlk -> 9002 | LRewait -> 916 in
  let sites = Buffer.create 64 in
  let first = ref true in
  List.iter (fun s ->
    let t = nat_of_int (int_of_string s) in
    (* a blocked waiter that was resumed continues to its next hook on its own *)
    if site t = 9002 then c := step (latch_tstep true) !c (t, ONorm);
    if not !first then Buffer.add_char sites ',';
    first := false;
    Buffer.add_string sites (string_of_int (site t));
    c := step (latch_tstep true) !c (t, ONorm)) (split_on ',' sched);
  let g = fst !c in
  let tries = Array.make tn "" and rets = Array.make tn 0 in
  List.iter (function
    | LTry (t, r) -> let i = int_of_nat t in tries.(i) <- (if r then "1" else "0") ^ tries.(i)
    | LRet (t, _, _) -> let i = int_of_nat t in rets.(i) <- rets.(i) + 1) g.llog;
  Printf.printf "OUT LLOCK %s sites=%s try=%s rets=%s\n" id
    (if Buffer.length sites = 0 then "-" else Buffer.contents sites)
    (String.concat "|" (Array.to_list tries))
    (String.concat "," (Array.to_list (Array.map string_of_int rets)))

(* ---- call_once, sequential: thread 0 makes k calls, plan.[i] = the i-th run throws *)
let oseq_case id k plan =
  let c = ref (o_init, o_locals (fun t -> if int_of_nat t = 0 then nat_of_int k else O)) in
  let fuel = ref (40 * (k + 1)) in
  while !fuel > 0 && o_enabled (fst !c) O (snd !c O) do
    decr fuel;
    let runs = int_of_nat (nend (fst !c).olog) in
    let th = runs < String.length plan && plan.[runs] = '1' in
    c := step o_tstep !c (O, OONorm th) done;
  let s = String.concat "" (List.rev_map (function
    | OBegin _ -> "B" | OEnd (_, true) -> "E" | OEnd (_, false) -> "e" | ORet _ -> "R" | OThrown _ -> "T") (fst !c).olog) in
  Printf.printf "OUT OSEQ %s log=%s\n" id s

let () =
  try
    while true do
      let line = input_line stdin in
      match String.split_on_char ' ' line with
      | ["IN"; "BAR"; id; e0; _p; progs; sched] -> bar_case id (int_of_string e0) progs sched
      | ["IN"; "LSEQ"; id; count; ops] -> lseq_case id (int_of_string count) ops
      | ["IN"; "OSEQ"; id; k; plan] -> oseq_case id (int_of_string k) plan
      | "IN" :: "LLOCK" :: id :: count :: t :: rest ->
        let tn = int_of_string t in
        let progs = List.filteri (fun i _ -> i < tn) rest in
        llock_case id (int_of_string count) progs (List.nth rest tn)
      | _ -> ()
    done
  with End_of_file -> ()
