(* C18 driver: replays the IN lines of harness/c18_erased.cpp on the extracted model and prints
   the OUT lines in the harness's format; SPEC lines give the trace of the option-value
   specification (outcome and emptiness only) for the same history *)
let z_of_int i = if i = 0 then Z0 else if i > 0 then Zpos (pos_of_int i) else Zneg (pos_of_int (-i))
let int_of_z = function Z0 -> 0 | Zpos p -> int_of_pos p | Zneg p -> - (int_of_pos p)
let field line key =
  let k = " " ^ key ^ "=" in
  let n = String.length line and m = String.length k in
  let rec find i = if i + m > n then None else if String.sub line i m = k then Some (i + m) else find (i + 1) in
  match find 0 with
  | None -> ""
  | Some p -> let e = (try String.index_from line p ' ' with Not_found -> n) in String.sub line p (e - p)
let ints s = List.map int_of_string (String.split_on_char ',' s)
let b i = i <> 0
let oval big cpy beh k = { vbig = b big; vcpy = b cpy; vbeh = n_of_int beh; vpay = z_of_int k; vcalls = Z0 }
let nat = nat_of_int
let sop_of nu s =
  match String.split_on_char ',' s with
  | "st" :: r -> (match List.map int_of_string r with
      | [j; big; cpy; beh; k; mv; via] ->
        let cpy = if j >= nu then 1 else cpy in
        SStore (nat j, oval big cpy beh k, b mv, via = 0)
      | _ -> failwith "st")
  | ["mv"; j; i; _] -> SMove (nat (int_of_string j), nat (int_of_string i))
  | ["ma"; j; i; _] -> SMoveFromAny (nat (int_of_string j), nat (int_of_string i))
  | ["cp"; j; i; _] -> SCopy (nat (int_of_string j), nat (int_of_string i))
  | ["rs"; j] -> SReset (nat (int_of_string j))
  | ["cr"; j] -> SConnectRv (nat (int_of_string j))
  | ["cl"; j] -> SConnectLv (nat (int_of_string j))
  | _ -> failwith ("sop " ^ s)
let fop_of s =
  match String.split_on_char ',' s with
  | "st" :: r -> (match List.map int_of_string r with
      | [j; big; cpy; beh; k; mv; via] -> FStore (nat j, oval big cpy beh k, b mv, via = 0)
      | _ -> failwith "st")
  | ["cc"; j; i] -> FCopyCtor (nat (int_of_string j), nat (int_of_string i))
  | ["mc"; j; i] -> FMoveCtor (nat (int_of_string j), nat (int_of_string i))
  | ["ca"; j; i] -> FCopyAssign (nat (int_of_string j), nat (int_of_string i))
  | ["ma"; j; i] -> FMoveAssign (nat (int_of_string j), nat (int_of_string i))
  | ["sw"; j; i] -> FSwap (nat (int_of_string j), nat (int_of_string i))
  | ["rs"; j; _] -> FReset (nat (int_of_string j))
  | ["iv"; j; a] -> FInvoke (nat (int_of_string j), z_of_int (int_of_string a))
  | _ -> failwith ("fop " ^ s)
let fxop_of s =
  match String.split_on_char ',' s with
  | ["cx"; j; i] -> FXCopyAssignThrow (nat (int_of_string j), nat (int_of_string i))
  | _ -> FX (fop_of s)
let out_str = function
  | ONone -> "-" | OValue v -> "V" ^ string_of_int (int_of_z v) | OError e -> "E" ^ string_of_int (int_of_z e)
  | OStopped -> "S" | OThrewBad -> "TB" | OThrew e -> "T" ^ string_of_int (int_of_z e)
let ev_str = function
  | ECtor i -> "C" ^ string_of_int (int_of_nat i)
  | ECopy (i, s) -> "K" ^ string_of_int (int_of_nat i) ^ "<" ^ string_of_int (int_of_nat s)
  | EMove (i, s) -> "M" ^ string_of_int (int_of_nat i) ^ "<" ^ string_of_int (int_of_nat s)
  | EDtor i -> "D" ^ string_of_int (int_of_nat i)
let evs l = if l = [] then "-" else String.concat "." (List.map ev_str l)
let bits l = String.concat "" (List.map (fun e -> if e then "1" else "0") l)
let emit kind id tr fin =
  let steps = List.map (fun ((o, e), em) -> out_str o ^ "|" ^ evs e ^ "|" ^ bits em) tr in
  let fin' = destroy_all fin in
  let last = "-|" ^ evs (new_events fin.led fin'.led) ^ "|-" in
  Printf.printf "OUT %s %s %s\n" kind id (String.concat ";" (steps @ [last]))
let emit_spec kind id tr =
  Printf.printf "SPEC %s %s %s\n" kind id
    (String.concat ";" (List.map (fun (o, em) -> out_str o ^ "|" ^ bits em) tr))
let () =
  try
    while true do
      let line = input_line stdin in
      match String.split_on_char ' ' line with
      | "IN" :: "SND" :: id :: _ ->
        let sbo = field line "sbo" = "1" in
        let nu = int_of_string (field line "nu") and na = int_of_string (field line "na") in
        let ops = List.map (sop_of nu) (List.filter (fun s -> s <> "") (String.split_on_char ';' (field line "ops"))) in
        let (tr, fin) = trace (sstep sbo) ops (init (nat (nu + na))) in
        emit "SND" id tr fin;
        emit_spec "SND" id (spec_trace sspec ops (List.init (nu + na) (fun _ -> None)))
      | "IN" :: "FUNX" :: id :: _ ->
        let n = int_of_string (field line "n") in
        let ops = List.map fxop_of (List.filter (fun s -> s <> "") (String.split_on_char ';' (field line "ops"))) in
        let (tr, fin) = trace fxstep ops (init (nat n)) in
        emit "FUNX" id tr fin
      | "IN" :: "FUN" :: id :: _ ->
        let n = int_of_string (field line "n") in
        let ops = List.map fop_of (List.filter (fun s -> s <> "") (String.split_on_char ';' (field line "ops"))) in
        let (tr, fin) = trace fstep ops (init (nat n)) in
        emit "FUN" id tr fin;
        emit_spec "FUN" id (spec_trace fspec ops (List.init n (fun _ -> None)))
      | _ -> ()
    done
  with End_of_file -> ()
