(* C18 driver: replays the IN lines of harness/c18_erased.cpp on the extracted model and prints
   the OUT lines in the harness's format; SPEC lines give the trace of the option-value
   specification (outcome and emptiness only) for the same history *)
let z_of_int i = if i = 0 then Z0 else if i > 0 then Zpos (pos_of_int i) else Zneg (pos_of_int (-i))
let int_of_z = function Z0 -> 0 | Zpos p -> int_of_pos p | Zneg p -> - (int_of_pos p)
let field line key =
  let k = " " ^ key ^ "=" in
  let n = String.length line and m = String.length k in
  let rec find i = if i + m > n then None else if String.sub line i m = k then Some (i + m) else find (i + 1) in
  match find 0 with
  | None -> ""
  | Some p -> let e = (try String.index_from line p ' ' with Not_found -> n) in String.sub line p (e - p)
let ints s = List.map int_of_string (String.split_on_char ',' s)
let b i = i <> 0
let oval big cpy aln beh k = { vbig = b big; vcpy = b cpy; valn = b aln; vbeh = n_of_int beh; vpay = z_of_int k; vcalls = Z0 }
let nat = nat_of_int
let ios = int_of_string
let sxop_of nu s =
  match String.split_on_char ',' s with
  | ("st" | "sx" as nm) :: r -> (match List.map ios r with
      | [j; big; cpy; beh; k; mv; via; aln] ->
        let cpy = if j >= nu then 1 else cpy in
        if nm = "st" then SX (SStore (nat j, oval big cpy aln beh k, b mv, via = 0))
        else SXStoreThrow (nat j, oval big cpy aln beh k, via = 0)
      | _ -> failwith "st")
  | ["mv"; j; i; _] -> SX (SMove (nat (ios j), nat (ios i)))
  | ["ma"; j; i; _] -> SX (SMoveFromAny (nat (ios j), nat (ios i)))
  | ["cp"; j; i; _] -> SX (SCopy (nat (ios j), nat (ios i)))
  | ["ns"; j; i; _] -> SX (SNest (nat (ios j), nat (ios i)))
  | ["mx"; j; i; _] -> SXMoveThrow (nat (ios j), nat (ios i))
  | ["ax"; j; i; _] -> SXMoveFromAnyThrow (nat (ios j), nat (ios i))
  | ["cx"; j; i; _] -> SXCopyThrow (nat (ios j), nat (ios i))
  | ["nx"; j; i; _] -> SXNestThrow (nat (ios j), nat (ios i))
  | ["rs"; j] -> SX (SReset (nat (ios j)))
  | ["cr"; j] -> SX (SConnectRv (nat (ios j)))
  | ["rx"; j] -> SXConnectRvThrow (nat (ios j))
  | ["cl"; j] -> SX (SConnectLv (nat (ios j)))
  | _ -> failwith ("sop " ^ s)
let sop_of nu s = match sxop_of nu s with SX op -> Some op | _ -> None
let tq q = if q = 0 then None else
  let q = q - 1 in Some ((b ((q lsr 2) land 1), b ((q lsr 1) land 1)), b (q land 1))
let gop_of s =
  match String.split_on_char ',' s with
  | ("st" | "sx" as nm) :: r -> (match List.map ios r with
      | [j; big; cpy; beh; k; mv; via; aln] ->
        if nm = "st" then GF (FStore (nat j, oval big cpy aln beh k, b mv, via = 0))
        else GStoreThrow (nat j, oval big cpy aln beh k, via = 0)
      | _ -> failwith "st")
  | "nf" :: r -> (match List.map ios r with
      | [j; big; cpy; beh; k; ie; mvi; mv; _; aln] ->
        GF (FStoreFn (nat j, oval big cpy aln beh k, b ie, b mvi, b mv))
      | _ -> failwith "nf")
  | ["tg"; j; q] -> GTarget (nat (ios j), tq (ios q))
  | ["cc"; j; i] -> GF (FCopyCtor (nat (ios j), nat (ios i)))
  | ["kx"; j; i] -> GCopyCtorThrow (nat (ios j), nat (ios i))
  | ["mc"; j; i] -> GF (FMoveCtor (nat (ios j), nat (ios i)))
  | ["ca"; j; i] -> GF (FCopyAssign (nat (ios j), nat (ios i)))
  | ["cx"; j; i] -> GCopyAssignThrow (nat (ios j), nat (ios i))
  | ["ma"; j; i] -> GF (FMoveAssign (nat (ios j), nat (ios i)))
  | ["sw"; j; i] -> GF (FSwap (nat (ios j), nat (ios i)))
  | ["rs"; j; _] -> GF (FReset (nat (ios j)))
  | ["iv"; j; a] -> GF (FInvoke (nat (ios j), z_of_int (ios a)))
  | _ -> failwith ("fop " ^ s)
let fop_of s = match gop_of s with GF op -> Some op | _ -> None
let out_str = function
  | ONone -> "-" | OValue v -> "V" ^ string_of_int (int_of_z v) | OError e -> "E" ^ string_of_int (int_of_z e)
  | OStopped -> "S" | OThrewBad -> "TB" | OThrew e -> "T" ^ string_of_int (int_of_z e) | OUndef -> "UNDEF"
let ev_str = function
  | ECtor i -> "C" ^ string_of_int (int_of_nat i)
  | ECopy (i, s) -> "K" ^ string_of_int (int_of_nat i) ^ "<" ^ string_of_int (int_of_nat s)
  | EMove (i, s) -> "M" ^ string_of_int (int_of_nat i) ^ "<" ^ string_of_int (int_of_nat s)
  | EDtor i -> "D" ^ string_of_int (int_of_nat i)
let evs l = if l = [] then "-" else String.concat "." (List.map ev_str l)
let bits l = String.concat "" (List.map (fun e -> if e then "1" else "0") l)
let emit kind id tr fin =
  let steps = List.map (fun ((o, e), em) -> out_str o ^ "|" ^ evs e ^ "|" ^ bits em) tr in
  let fin' = destroy_all fin in
  let last = "-|" ^ evs (new_events fin.led fin'.led) ^ "|-" in
  Printf.printf "OUT %s %s %s\n" kind id (String.concat ";" (steps @ [last]))
(* the block ledger: live heap blocks after every step, blocks nobody owns any more at scope exit *)
let emit_blk kind id lives leaked =
  Printf.printf "BLK %s %s %s %d\n" kind id
    (String.concat "." (List.map (fun n -> string_of_int (int_of_nat n)) lives)) (int_of_nat leaked)
let emit_spec kind id tr =
  Printf.printf "SPEC %s %s %s\n" kind id
    (String.concat ";" (List.map (fun (o, em) -> out_str o ^ "|" ^ bits em) tr))
let all_some l = List.for_all (fun x -> x <> None) l
let get = function Some x -> x | None -> failwith "get"
let nn i = n_of_int i
let types_line line =
  let sbo = field line "sbo" = "1" in
  let ptr = ios (field line "ptr") in
  let items = List.filter (fun s -> s <> "") (String.split_on_char ';' (field line "items")) in
  let dec it = match String.split_on_char ',' it with
    | [k; size; align; big; aln] ->
      let size = ios size and align = ios align and big = ios big <> 0 and aln = ios aln <> 0 in
      if k = "F" then
        let inl = function_inline (nn size) in
        (if inl then "1" else "0") ^ (if inl = not big then "" else "!")
        ^ (if function_misplaced (nn size) (nn align) = (aln && inl) then "" else "!m")
      else
        let wk = if k = "U" then KUnique else if k = "A" then KAny else KOpState in
        let e = sender_embeds sbo wk (nn size) (nn align) in
        (if e then "1" else "0") ^ (if class_ok sbo wk (nn size) (nn align) big aln then "" else "!")
    | _ -> "?" in
  Printf.printf "OUT TYPES t %s%s\n" (String.concat "" (List.map dec items))
    (if nn ptr = ptr_size then "" else "!ptr")
let () =
  try
    while true do
      let line = input_line stdin in
      match String.split_on_char ' ' line with
      | "IN" :: "TYPES" :: _ -> types_line line
      | "IN" :: "SND" :: id :: _ ->
        let sbo = field line "sbo" = "1" in
        let nu = int_of_string (field line "nu") and na = int_of_string (field line "na") in
        let strs = List.filter (fun s -> s <> "") (String.split_on_char ';' (field line "ops")) in
        let ops = List.map (sxop_of nu) strs in
        let (tr, fin) = trace (sxstep sbo) ops (init (nat (nu + na))) in
        emit "SND" id tr fin;
        (let (lv, (fs, fb)) = sblive sbo ops (init (nat (nu + na))) b0 in emit_blk "SND" id lv (leaked_at_exit fs fb));
        let plain = List.map (sop_of nu) strs in
        if all_some plain then
          emit_spec "SND" id (spec_trace sspec (List.map get plain) (List.init (nu + na) (fun _ -> None)))
      | "IN" :: (("FUN" | "FUNX" | "FUNA" | "FUNK" | "FUNL") as kind) :: id :: _ ->
        let n = int_of_string (field line "n") in
        let strs = List.filter (fun s -> s <> "") (String.split_on_char ';' (field line "ops")) in
        let ops = List.map gop_of strs in
        let (tr, fin) = gtrace ops (xinit (nat n)) in
        emit kind id tr fin.xs;
        (let (lv, (fx, fb)) = gblive ops (xinit (nat n)) b0 in emit_blk kind id lv (leaked_at_exit fx.xs fb));
        let plain = List.map fop_of strs in
        if all_some plain then
          emit_spec kind id (spec_trace fspec (List.map get plain) (List.init n (fun _ -> None)))
      | _ -> ()
    done
  with End_of_file -> ()
