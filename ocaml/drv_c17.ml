(* C17 driver: replays the IN lines of the harnesses on the extracted model, prints OUT lines *)
let side_of_char = function 'L' -> SL | _ -> SR
let () =
  try
    while true do
      let line = input_line stdin in
      match String.split_on_char ' ' line with
      | "IN" :: "IQ" :: id :: f :: l :: t :: rest ->
        let tn = int_of_string t in
        let progs = Array.make tn [] in
        let rest = Array.of_list rest in
        for i = 0 to tn - 1 do
          progs.(i) <- List.map side_of_char (List.init (String.length rest.(i)) (String.get rest.(i)))
        done;
        let sched = List.map (fun s -> (nat_of_int (int_of_string s), false)) (split_on ',' rest.(tn)) in
        let progf = fun t -> let i = int_of_nat t in if i < tn then progs.(i) else [] in
        let c0 = (iq_init (n_of_int (int_of_string f)) (n_of_int (int_of_string l)), iq_locals progf) in
        let (sites, (g, _)) = iq_trace sched c0 [] in
        let per = Array.make tn [] in
        List.iter (fun e ->
          let i = int_of_nat e.ev_tid in
          per.(i) <- (match e.ev_res with Some x -> string_of_int (int_of_n x) | None -> "n") :: per.(i))
          g.iqlog;   (* log is newest first, so consing restores program order *)
        let resstr = String.concat "|" (Array.to_list (Array.map (String.concat ",") per)) in
        let rec drain r acc = match seq_pop SL r with
          | (Some x, r') -> drain r' (string_of_int (int_of_n x) :: acc)
          | (None, _) -> List.rev acc in
        let restl = drain g.cur [] in
        Printf.printf "OUT IQ %s sites=%s res=%s rest=%s\n" id
          (String.concat "," (List.map (fun s -> string_of_int (int_of_nat s)) sites))
          resstr (if restl = [] then "-" else String.concat "," restl)
      | _ -> ()
    done
  with End_of_file -> ()
