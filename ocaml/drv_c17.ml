(* C17 driver: replays the IN lines of the harnesses on the extracted model, prints OUT lines *)
let side_of_char = function 'L' -> SL | _ -> SR
let iq_line id f l t rest =

        let tn = int_of_string t in
        let progs = Array.make tn [] in
        let rest = Array.of_list rest in
        for i = 0 to tn - 1 do
          progs.(i) <- List.map side_of_char (List.init (String.length rest.(i)) (String.get rest.(i)))
        done;
        let sched = List.map (fun s -> (nat_of_int (int_of_string s), false)) (split_on ',' rest.(tn)) in
        let progf = fun t -> let i = int_of_nat t in if i < tn then progs.(i) else [] in
        let c0 = (iq_init (n_of_int (int_of_string f)) (n_of_int (int_of_string l)), iq_locals progf) in
        let (sites, (g, _)) = iq_trace sched c0 [] in
        let per = Array.make tn [] in
        List.iter (fun e ->
          let i = int_of_nat e.ev_tid in
          per.(i) <- (match e.ev_res with Some x -> string_of_int (int_of_n x) | None -> "n") :: per.(i))
          g.iqlog;   (* log is newest first, so consing restores program order *)
        let resstr = String.concat "|" (Array.to_list (Array.map (String.concat ",") per)) in
        let rec drain r acc = match seq_pop SL r with
          | (Some x, r') -> drain r' (string_of_int (int_of_n x) :: acc)
          | (None, _) -> List.rev acc in
        let restl = drain g.cur [] in
        Printf.printf "OUT IQ %s sites=%s res=%s rest=%s\n" id
          (String.concat "," (List.map (fun s -> string_of_int (int_of_nat s)) sites))
          resstr (if restl = [] then "-" else String.concat "," restl)

(* ------------------------------------------------------------------ lock-free deque *)
let op_of_string (s : string) : dop =
  match s.[0] with
  | 'l' -> Push (SL, n_of_int (int_of_string (String.sub s 1 (String.length s - 1))))
  | 'r' -> Push (SR, n_of_int (int_of_string (String.sub s 1 (String.length s - 1))))
  | 'L' -> Pop SL
  | _ -> Pop SR
let prog_of_string s = List.map op_of_string (split_on ',' s)
let string_of_op = function
  | Push (SL, v) -> "l" ^ string_of_int (int_of_n v) | Push (SR, v) -> "r" ^ string_of_int (int_of_n v)
  | Pop SL -> "L" | Pop SR -> "R"
let res_string (ops : dop list) (rs : n option list) : string =
  (* one token per completed operation of the thread, in program order *)
  let rec go ops rs acc = match ops, rs with
    | o :: ot, r :: rt ->
      let s = (match o, r with
          | Push _, _ -> "t"
          | Pop _, Some v -> string_of_int (int_of_n v)
          | Pop _, None -> "n") in go ot rt (s :: acc)
    | _, _ -> List.rev acc in
  String.concat "," (go ops rs [])
let rec count_pushes = function [] -> 0 | Push _ :: r -> 1 + count_pushes r | _ :: r -> count_pushes r
(* first-appearance canonicalisation of node addresses, exactly as the harness does with pointers *)
let canon_obs (obs : ((nat * nat) * n) list) : string =
  let tbl = Hashtbl.create 16 in
  let next = ref 0 in
  String.concat "," (List.map (fun ((k, f), a) ->
      let ai = int_of_n a in
      let kk = int_of_nat k in
      let c = if ai = 0 then 0 else if kk = 4 || kk = 8 then ai else
          (match Hashtbl.find_opt tbl ai with
           | Some c -> c
           | None -> incr next; Hashtbl.add tbl ai !next; !next) in
      Printf.sprintf "%d.%d.%d" (int_of_nat k) (int_of_nat f) c) obs)
let drain_results (rs : n option list) : string =
  let rec go = function Some v :: r -> string_of_int (int_of_n v) :: go r | _ -> [] in
  match go rs with [] -> "-" | l -> String.concat "," l

let dq_case kind id k tn (progs : string array) (sched : int list) =
  let init = prog_of_string progs.(0) in
  let ps = Array.init tn (fun i -> prog_of_string progs.(i + 1)) in
  let npush = Array.fold_left (fun a p -> a + count_pushes p) (count_pushes init) ps in
  let ndrain = npush + 2 in
  let drainp = List.init ndrain (fun _ -> Pop SL) in
  let progf = fun t -> let i = int_of_nat t in
    if i < tn then ps.(i) else if i = tn then init else if i = tn + 1 then drainp else [] in
  let c0 = (dq_init (n_of_int k), dq_locals progf) in
  let c1 = dq_solo (nat_of_int (40 * (List.length init + 1))) (nat_of_int tn) c0 in
  let (obs, c2) = dq_trace (List.map nat_of_int sched) c1 [] in
  let c3 = dq_solo (nat_of_int (40 * (ndrain + 1))) (nat_of_int (tn + 1)) c2 in
  let g = fst c3 in
  let per = Array.to_list (Array.init tn (fun i -> res_string ps.(i) (dq_results (nat_of_int i) g.dlog))) in
  let alldone = List.for_all (fun i -> dq_done (snd c2 (nat_of_int i))) (List.init tn (fun i -> i)) in
  let initres = res_string init (dq_results (nat_of_int tn) g.dlog) in
  Printf.printf "OUT %s %s obs=%s init=%s res=%s rest=%s\n" kind id
    (if obs = [] then "-" else canon_obs obs) (if initres = "" then "-" else initres) (String.concat "|" per)
    (drain_results (dq_results (nat_of_int (tn + 1)) g.dlog));
  Printf.printf "MOD %s %s aba=%d done=%d\n" kind id (if (fst c2).aba then 1 else 0) (if alldone then 1 else 0)

let () =
  try
    while true do
      let line = input_line stdin in
      match String.split_on_char ' ' line with
      | "IN" :: "IQ" :: id :: f :: l :: t :: rest -> iq_line id f l t rest
      | "IN" :: "DQ" :: id :: k :: t :: rest ->
        (* rest = initprog prog0 .. prog(T-1) sched *)
        let tn = int_of_string t in
        let a = Array.of_list rest in
        let sched = List.map int_of_string (split_on ',' a.(tn + 1)) in
        dq_case "DQ" id (int_of_string k) tn (Array.sub a 0 (tn + 1)) sched
      | "IN" :: "DS" :: id :: k :: prog :: _ ->
        (* sequential: one thread runs the whole program alone *)
        let p = prog_of_string prog in
        let progs = [| "-"; prog |] in
        let c0 = (dq_init (n_of_int (int_of_string k)), dq_locals (fun t -> if int_of_nat t = 0 then p else [])) in
        let c1 = dq_solo (nat_of_int (40 * (List.length p + 1))) O c0 in
        let npush = count_pushes p in
        let drainp = List.init (npush + 2) (fun _ -> Pop SL) in
        let c1' = (fst c1, (fun t -> if int_of_nat t = 1 then { dtodo = drainp; dpc = DIdle } else snd c1 t)) in
        let c2 = dq_solo (nat_of_int (40 * (npush + 3))) (S O) c1' in
        ignore progs;
        Printf.printf "OUT DS %s res=%s rest=%s\n" id (res_string p (dq_results O (fst c2).dlog))
          (drain_results (dq_results (S O) (fst c2).dlog))
      | "IN" :: w :: _ when w = "WITNESS" || w = "WITNESS2" || w = "WITNESS3" || w = "WITNESS4" ->
        let (pr, sc) = match w with
          | "WITNESS" -> (aba_progs, aba_sched) | "WITNESS2" -> (aba2_progs, aba2_sched)
          | "WITNESS3" -> (aba3_progs, aba3_sched) | _ -> (aba4_progs, aba4_sched) in
        Printf.printf "OUT %s k=%d init=%s p0=%s p1=%s sched=%s\n" w (int_of_n aba_k)
          (String.concat "," (List.map string_of_op (pr (nat_of_int 2))))
          (String.concat "," (List.map string_of_op (pr O)))
          (String.concat "," (List.map string_of_op (pr (S O))))
          (String.concat "," (List.map (fun t -> string_of_int (int_of_nat t)) sc))
      | _ -> ()
    done
  with End_of_file -> ()
