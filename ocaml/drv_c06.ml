(* C06 driver: replays the IN lines of the harnesses on the extracted models, prints OUT lines.
   IN SL id T prog.. sched      (lock-step, spinlock: L lock, T try_lock, U unlock-if-held)
   IN RM id T prog.. sched      (lock-step, recursive mutex: L, T, U)
   IN MX id T prog.. tids       (trace: the task ids of the critical sections / error returns, in order) *)
let si = string_of_int
let chars s = List.init (String.length s) (String.get s)
let upd_arr a t l = a.(t) <- l

let run_sl id tn progs sched =
  let ops = Array.map (fun p -> List.map (function 'L' -> SLock | 'T' -> STry | _ -> SUnlock) (chars p)) progs in
  let ls = Array.init tn (fun t -> sl_locals (fun _ -> ops.(t)) O) in
  let g = ref sl_init in
  let sites = ref [] in
  let stepi t = let (g', l') = sl_tstep () (nat_of_int t) !g ls.(t) in g := g'; ls.(t) <- l' in
  let skip t = while int_of_nat (sl_site ls.(t)) = 0 && ls.(t).sl_todo <> [] do stepi t done in
  List.iter (fun t -> skip t; sites := int_of_nat (sl_site ls.(t)) :: !sites; stepi t) sched;
  for t = 0 to tn - 1 do skip t done;
  let per = Array.make tn [] in
  List.iter (fun e -> let i = int_of_nat e.sl_tid in
    per.(i) <- ((match e.sl_kind with SLock -> "L" | STry -> if e.sl_res then "T1" else "T0" | SUnlock -> "U")) :: per.(i)) (!g).sllog;
  Printf.printf "OUT SL %s sites=%s res=%s left=%s\n" id
    (String.concat "," (List.rev_map si !sites))
    (String.concat "|" (Array.to_list (Array.map (String.concat ",") per)))
    (String.concat "," (Array.to_list (Array.map (fun l -> si (List.length l.sl_todo)) ls)))

let run_rm id tn progs sched =
  let ops = Array.map (fun p -> List.map (function 'L' -> RLock | 'T' -> RTry | _ -> RUnlock) (chars p)) progs in
  let ls = Array.init tn (fun t -> rm_locals (fun _ -> ops.(t)) O) in
  let g = ref rm_init in
  let sites = ref [] in
  let stepi t = let (g', l') = rm_tstep () (nat_of_int t) !g ls.(t) in g := g'; ls.(t) <- l' in
  let skip t = while int_of_nat (rm_site ls.(t)) = 0 && ls.(t).rm_todo <> [] do stepi t done in
  List.iter (fun t -> skip t; sites := int_of_nat (rm_site ls.(t)) :: !sites; stepi t) sched;
  for t = 0 to tn - 1 do skip t done;
  let per = Array.make tn [] in
  List.iter (fun e -> let i = int_of_nat e.rm_tid in
    per.(i) <- ((match e.rm_kind with RLock -> "L" | RTry -> if e.rm_res then "T1" else "T0" | RUnlock -> "U")
                ^ ":" ^ si (int_of_n e.rm_cnt)) :: per.(i)) (!g).rmlog;
  Printf.printf "OUT RM %s sites=%s res=%s left=%s\n" id
    (String.concat "," (List.rev_map si !sites))
    (String.concat "|" (Array.to_list (Array.map (String.concat ",") per)))
    (String.concat "," (Array.to_list (Array.map (fun l -> si (List.length l.rm_todo)) ls)))

let ev_str = function
  | EWait t -> "W" ^ si (int_of_nat t)
  | EAcq (t, _) -> "A" ^ si (int_of_nat t)
  | ETry (t, r, _) -> "T" ^ si (int_of_nat t) ^ ":" ^ (if r then "1" else "0")
  | ETWait t -> "S" ^ si (int_of_nat t)
  | ETimed (t, r, _) -> "D" ^ si (int_of_nat t) ^ ":" ^ si (int_of_nat r)
  | ERel (t, _, q) -> "R" ^ si (int_of_nat t) ^ ":" ^ si (int_of_nat q)
  | EDead t -> "X" ^ si (int_of_nat t)
  | EErr t -> "E" ^ si (int_of_nat t)

let run_mx id tn progs tids =
  let ops = Array.map (fun p -> List.map (function
      'L' -> OLock | 'T' -> OTry | 'D' -> OTimed | 'U' -> OUnlock | 'W' -> OWrite | _ -> OYield) (chars p)) progs in
  let ls = Array.init tn (fun t -> mx_locals (fun _ -> ops.(t)) O) in
  let g = ref mx_init in
  (* a resume aimed at a task that is not suspended (a notified timed waiter spinning in sleep_until) is
     retried by a helper task of the scheduler; if that helper is delayed it wakes a LATER suspension of the
     target (set_active_state only gives up when it finds the target active with another tag).  The acceptor
     therefore keeps one credit per such resume and delivers it (a_resume, the model's own operation) when
     the implementation shows the task running although the model has it blocked. *)
  let credit = Array.make tn 0 in
  let late = ref 0 in
  let stepi t =
    let q0 = (!g).queue in
    let (g', l') = mx_tstep true (nat_of_int t) !g ls.(t) in
    (match q0 with
     | w :: _ when not (List.mem w g'.queue) && int_of_nat w <> t ->
         let wi = int_of_nat w in
         (match ls.(wi).pc with PSleep | PWake -> credit.(wi) <- credit.(wi) + 1 | _ -> ())
     | _ -> ());
    g := g'; ls.(t) <- l' in
  let out = ref [] in
  List.iter (fun t ->
    let n0 = List.length (!g).mxlog in
    let k = ref 0 in
    while List.length (!g).mxlog = n0 && !k < 200 do stepi t; incr k done;
    if List.length (!g).mxlog = n0 && credit.(t) > 0 && ls.(t).pc = PSusp then begin
      credit.(t) <- credit.(t) - 1; incr late;
      g := mx_set_ag !g (nat_of_int t) (a_resume ((!g).ag (nat_of_int t)));
      k := 0;
      while List.length (!g).mxlog = n0 && !k < 200 do stepi t; incr k done
    end;
    if List.length (!g).mxlog = n0 then out := ("blocked" ^ si t) :: !out
    else out := ev_str (List.hd (!g).mxlog) :: !out) tids;
  (* run every task to the end of its program (only silent operations may remain) *)
  let n1 = List.length (!g).mxlog in
  for t = 0 to tn - 1 do
    let k = ref 0 in
    while (ls.(t).todo <> [] || ls.(t).pc <> PIdle) && !k < 400 do stepi t; incr k done
  done;
  let extra = List.length (!g).mxlog - n1 in
  let per = Array.make tn [] in
  List.iter (fun e -> match e with
    | EAcq (t, v) | ETry (t, true, v) | ETimed (t, S (S O), v) ->
        let i = int_of_nat t in per.(i) <- si (int_of_n v) :: per.(i)
    | _ -> ()) (!g).mxlog;
  Printf.printf "OUT MX %s ev=%s seen=%s final=%d owner=%s unfinished=%d extra=%d #late=%d\n" id
    (String.concat "," (List.rev !out))
    (String.concat "|" (Array.to_list (Array.map (String.concat ",") per)))
    (int_of_n (!g).ver)
    (match (!g).owner with None -> "-" | Some t -> si (int_of_nat t))
    (Array.fold_left (fun a l -> a + (if l.todo <> [] || l.pc <> PIdle then 1 else 0)) 0 ls) extra !late

let () =
  try
    while true do
      let line = input_line stdin in
      match String.split_on_char ' ' line with
      | "IN" :: kind :: id :: t :: rest ->
        let tn = int_of_string t in
        let rest = Array.of_list rest in
        let progs = Array.init tn (fun i -> if rest.(i) = "-" then "" else rest.(i)) in
        let sched = List.map int_of_string (split_on ',' rest.(tn)) in
        (match kind with
         | "SL" -> run_sl id tn progs sched
         | "RM" -> run_rm id tn progs sched
         | "MX" -> run_mx id tn progs sched
         | _ -> ())
      | _ -> ()
    done
  with End_of_file -> ()
