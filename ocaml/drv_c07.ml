(* C07 driver: replays the lock-step schedules of harness/c07_ls.cpp on the extracted model.
   IN CV id T prog0 .. progT-1 sched     programs: W detail wait, 1 notify_one, A notify_all; thread T (one more
   than the harness threads) is the controller itself issuing a rescuing notify_all when everything is blocked.
   After every scheduled step all threads that are not at a parking point run on until they park, block or
   finish (exactly what happens on the real code between two decisions of the controller); the view of every
   thread (0 finished, 1 blocked, 3 parked at the start of an operation, 4 parked before suspend, 5 parked after
   suspend returned) is printed and compared with what the controller saw. *)
let si = string_of_int
let chars s = List.init (String.length s) (String.get s)
let isos _ = true

let run_cv id tn progs sched =
  let n = tn + 1 in
  let nresc = List.length (List.filter (fun t -> t = tn) sched) in
  let ops = Array.init n (fun t ->
    if t = tn then List.init nresc (fun _ -> CNotifyAll)
    else List.map (function 'W' -> CDWait | '1' -> CNotifyOne | _ -> CNotifyAll) (chars progs.(t))) in
  let ls = Array.init n (fun t -> cv_locals (fun _ -> ops.(t)) O) in
  let g = ref cv_init in
  let stepi t = let (g', l') = cv_tstep isos false (nat_of_int t) !g ls.(t) in g := g'; ls.(t) <- l' in
  let view t = int_of_nat (cv_view isos (nat_of_int t) !g ls.(t)) in
  let closure () =
    let moved = ref true and fuel = ref 10000 in
    while !moved && !fuel > 0 do
      moved := false;
      for t = 0 to n - 1 do
        (* the controller thread (tn) parks nowhere: it runs its whole operation *)
        let transient = view t = 2 || (t = tn && ls.(t).cpc <> CIdle) in
        if transient && cv_enabled isos (nat_of_int t) !g ls.(t) then (stepi t; moved := true; decr fuel)
      done
    done in
  let views = ref [] in
  let snapshot () = views := String.concat "" (List.init tn (fun t -> si (view t))) :: !views in
  snapshot ();
  List.iter (fun t ->
    if cv_enabled isos (nat_of_int t) !g ls.(t) then stepi t;
    closure (); snapshot ()) sched;
  let per = Array.make n [] in
  List.iter (fun e -> match e with
    | ERet (t, _, r) -> let i = int_of_nat t in per.(i) <- (if r then "S" else "T") :: per.(i)
    | _ -> ()) (!g).cvlog;
  Printf.printf "OUT CV %s views=%s res=%s\n" id (String.concat ";" (List.rev !views))
    (String.concat "|" (Array.to_list (Array.map (String.concat "") (Array.sub per 0 tn))))

let () =
  try
    while true do
      let line = input_line stdin in
      match String.split_on_char ' ' line with
      | "IN" :: "CV" :: id :: t :: rest ->
        let tn = int_of_string t in
        let rest = Array.of_list rest in
        let progs = Array.init tn (fun i -> if rest.(i) = "-" then "" else rest.(i)) in
        let sched = List.map int_of_string (split_on ',' rest.(tn)) in
        run_cv id tn progs sched
      | "IN" :: "TPRED" :: id :: cls :: scr :: ws :: _ ->
        (* round h12a, Model/TimedPredLoop.v: the loop of the timed predicate waits with the on-timeout expression of the header
           (cls: cv / cva / cvs, regenerated into Gen/GenTimedPred.v); scr = scripted predicate values (i-th evaluation), ws = outcomes
           of the inner timed waits (t = time-out); printed: the trace of evaluations (P0/P1) and inner waits (W), the returned value *)
        let ot = match cls with "cv" -> cv_on_timeout | "cva" -> cva_on_timeout | _ -> cvs_on_timeout in
        let bl s c = List.map (fun x -> x = c) (chars s) in
        (match tp_call ot (nat_of_int 64) (script (bl scr '1') false) (script (bl ws 't') true) with
         | None -> Printf.printf "OUT TPRED %s trace=? ret=? (out of fuel)\n" id
         | Some (r, tr) ->
           Printf.printf "OUT TPRED %s trace=%s ret=%d\n" id
             (String.concat "" (List.rev_map (function TpPred v -> if v then "P1" else "P0" | TpWait _ -> "W") tr)) (if r then 1 else 0))
      | ["IN"; "ABORT"; id; n; os] ->
        (* round w11c, Model/CondVarAbort.v: n waiters (threads 1..n; OS threads iff os = 1) perform one detail wait each and run
           until they block; then thread 0 runs abort_all to its end; then everybody runs on.  Printed: abort() calls, waits ended
           by the yield_aborted exception, entries erased by the waiters themselves, waiters still blocked, waiters finished, the
           final queue length; sticky = the agents still carrying the abort reason (OS threads: default_agent::aborted_) *)
        let n = int_of_string n in
        let isos _ = (os = "1") in
        let a = nat_of_int 0 in
        let ls = Array.init (n + 1) (fun t -> ab_locals a (fun t -> if int_of_nat t >= 1 then S O else O) (nat_of_int t)) in
        let g = ref ab_init in
        let stepi t = let (g', l') = ab_tstep a isos false (nat_of_int t) !g ls.(t) in g := g'; ls.(t) <- l' in
        (* the waiters take the internal lock one after the other: 2 rounds each, plus the steps without the lock *)
        for _ = 1 to 4 * n + 8 do for t = 1 to n do stepi t done done;
        for _ = 1 to 6 * n + 8 do stepi 0 done;
        for _ = 1 to 4 * n + 8 do for t = 1 to n do stepi t done done;
        let sum f = List.fold_left (+) 0 (List.init n (fun i -> f (nat_of_int (i + 1)))) in
        Printf.printf "OUT ABORT %s aborts=%d thrown=%d selfrem=%d blocked=%d finished=%d queue=%d sticky=%d aborter_done=%d\n" id
          (sum (fun t -> int_of_nat (!g.aborts t))) (sum (fun t -> int_of_nat (!g.thrown t))) (sum (fun t -> int_of_nat (!g.selfrem t)))
          (sum (fun t -> if (!g.aag t).blocked then 1 else 0))
          (List.length (List.filter (fun t -> ls.(t).apc = QDone) (List.init n (fun i -> i + 1))))
          (List.length !g.aq) (sum (fun t -> if !g.areason t then 1 else 0)) (if ls.(0).apc = ADone then 1 else 0)
      | _ -> ()
    done
  with End_of_file -> ()
