(* C07 driver: replays the lock-step schedules of harness/c07_ls.cpp on the extracted model.
   IN CV id T prog0 .. progT-1 sched     programs: W detail wait, 1 notify_one, A notify_all; thread T (one more
   than the harness threads) is the controller itself issuing a rescuing notify_all when everything is blocked.
   After every scheduled step all threads that are not at a parking point run on until they park, block or
   finish (exactly what happens on the real code between two decisions of the controller); the view of every
   thread (0 finished, 1 blocked, 3 parked at the start of an operation, 4 parked before suspend, 5 parked after
   suspend returned) is printed and compared with what the controller saw. *)
let si = string_of_int
let chars s = List.init (String.length s) (String.get s)
let isos _ = true

let run_cv id tn progs sched =
  let n = tn + 1 in
  let nresc = List.length (List.filter (fun t -> t = tn) sched) in
  let ops = Array.init n (fun t ->
    if t = tn then List.init nresc (fun _ -> CNotifyAll)
    else List.map (function 'W' -> CDWait | '1' -> CNotifyOne | _ -> CNotifyAll) (chars progs.(t))) in
  let ls = Array.init n (fun t -> cv_locals (fun _ -> ops.(t)) O) in
  let g = ref cv_init in
  let stepi t = let (g', l') = cv_tstep isos false (nat_of_int t) !g ls.(t) in g := g'; ls.(t) <- l' in
  let view t = int_of_nat (cv_view isos (nat_of_int t) !g ls.(t)) in
  let closure () =
    let moved = ref true and fuel = ref 10000 in
    while !moved && !fuel > 0 do
      moved := false;
      for t = 0 to n - 1 do
        (* the controller thread (tn) parks nowhere: it runs its whole operation *)
        let transient = view t = 2 || (t = tn && ls.(t).cpc <> CIdle) in
        if transient && cv_enabled isos (nat_of_int t) !g ls.(t) then (stepi t; moved := true; decr fuel)
      done
    done in
  let views = ref [] in
  let snapshot () = views := String.concat "" (List.init tn (fun t -> si (view t))) :: !views in
  snapshot ();
  List.iter (fun t ->
    if cv_enabled isos (nat_of_int t) !g ls.(t) then stepi t;
    closure (); snapshot ()) sched;
  let per = Array.make n [] in
  List.iter (fun e -> match e with
    | ERet (t, _, r) -> let i = int_of_nat t in per.(i) <- (if r then "S" else "T") :: per.(i)
    | _ -> ()) (!g).cvlog;
  Printf.printf "OUT CV %s views=%s res=%s\n" id (String.concat ";" (List.rev !views))
    (String.concat "|" (Array.to_list (Array.map (String.concat "") (Array.sub per 0 tn))))

let () =
  try
    while true do
      let line = input_line stdin in
      match String.split_on_char ' ' line with
      | "IN" :: "CV" :: id :: t :: rest ->
        let tn = int_of_string t in
        let rest = Array.of_list rest in
        let progs = Array.init tn (fun i -> if rest.(i) = "-" then "" else rest.(i)) in
        let sched = List.map int_of_string (split_on ',' rest.(tn)) in
        run_cv id tn progs sched
      | _ -> ()
    done
  with End_of_file -> ()
