(* C05 driver: IN API lines -> answers of the extracted API automaton; IN SIM lines -> the extracted
   concurrent model run on the same task programs (schedule-independent summary) *)
let z_of_int i = if i = 0 then Z0 else if i > 0 then Zpos (pos_of_int i) else Zneg (pos_of_int (-i))
let int_of_z = function Z0 -> 0 | Zpos p -> int_of_pos p | Zneg p -> - (int_of_pos p)

let call_of_tok (tok : string) : caller * call =
  let from_task = String.length tok > 0 && tok.[0] = 't' in
  let body = if from_task then String.sub tok 1 (String.length tok - 1) else tok in
  let c = if from_task then FromTask else FromOs in
  match String.split_on_char ':' body with
  | ["S"; cfg; res] -> (c, CStart (n_of_int (int_of_string cfg), z_of_int (int_of_string res)))
  | ["T"; n] -> (c, CSubmit (n_of_int (int_of_string n)))
  | ["F"] -> (c, CFinalize)
  | ["W"] -> (c, CWait)
  | ["U"] -> (c, CSuspend)
  | ["R"] -> (c, CResume)
  | ["P"] -> (c, CStop)
  | _ -> failwith ("bad call " ^ tok)

let str_of_resp = function
  | ROk -> "O" | RErr -> "E" | RBlock -> "B" | RRet v -> "R" ^ string_of_int (int_of_z v)

(* task programs: w body, y yield, z sleep (no model step), W wait, F finalize, ( prog ) spawn *)
let parse_prog (s : string) : action list =
  let n = String.length s in
  let rec go i acc =
    if i >= n || s.[i] = ')' then (List.rev acc, i)
    else match s.[i] with
      | '(' -> let (child, j) = go (i + 1) [] in
               let j' = if j < n && s.[j] = ')' then j + 1 else j in
               go j' (ASpawn child :: acc)
      | 'w' -> go (i + 1) (AWork :: acc)
      | 'y' -> go (i + 1) (AYield :: acc)
      | 'W' -> go (i + 1) (AWait :: acc)
      | 'F' -> go (i + 1) (AFinalize :: acc)
      | _ -> go (i + 1) acc in
  fst (go 0 [])

let rec size_prog (p : action list) : int =
  List.fold_left (fun a x -> a + 1 + (match x with ASpawn c -> 3 + size_prog c | _ -> 0)) 0 p

let field k fields = List.assoc k fields

let () =
  try
    while true do
      let line = input_line stdin in
      match String.split_on_char ' ' line with
      | "IN" :: "API" :: id :: toks ->
        let h = List.map call_of_tok (List.filter (fun s -> s <> "") toks) in
        let rs = api_resps h api0 in
        (* phases after each call, for the generator's filter *)
        let rec phases h s acc = match h with
          | [] -> List.rev acc
          | (c, k) :: r -> let (s', _) = api_step s c k in
            phases r s' ((match s'.ph with NoRt -> "N" | Running -> "R" | Sleeping -> "S") :: acc) in
        Printf.printf "OUT API %s resps=%s\n" id (String.concat "," (List.map str_of_resp rs));
        Printf.printf "PH %s %s\n" id (String.concat "," (phases h api0 []))
      | "IN" :: "SIM" :: id :: rest ->
        let fields = List.map (fun s -> match String.index_opt s '=' with
            | Some i -> (String.sub s 0 i, String.sub s (i + 1) (String.length s - i - 1))
            | None -> (s, "")) rest in
        let w = int_of_string (field "w" fields) in
        let res = int_of_string (field "res" fields) in
        let entry = parse_prog (field "entry" fields) in
        let subs = List.map parse_prog (split_on '|' (field "subs" fields)) in
        let seed = int_of_string (field "seed" fields) in
        (* the harness waits for a wait-from-task helper before it goes on: two tasks inside pika::wait() at the
           same time would wait for each other forever *)
        let xprog = List.concat_map (fun p -> if p = [AWait] then [XSubmit p; XWait] else [XSubmit p]) subs @ [XFinalize; XStop] in
        let ext = w + 1 in
        let xs = fun t -> if int_of_nat t = ext then xprog else [] in
        let total = size_prog entry + List.fold_left (fun a p -> a + 4 + size_prog p) 0 subs in
        let fuel = (w + 2) * (40 * total + 400) in
        let st = ref (Random.State.make [| seed |]) in
        let c = ref (lc_init (nat_of_int w) entry (z_of_int res), lc_locals xs []) in
        let nats = Array.init (w + 8) nat_of_int in
        let i = ref 0 in
        let fin = ref false in
        while not !fin && !i < fuel do
          let t = !i mod (w + 2) in
          let pick = Random.State.int !st 5 in
          c := step lc_tstep !c (nats.(t), (nats.(pick), false));
          incr i;
          if t = ext && (match (fst !c).log with EvStopRet _ :: _ -> true | _ -> false) then fin := true
        done;
        let (((created, destroyed), (bodies, cnt)), (rets, bad)) = sim_summary (fst !c) in
        if not !fin then Printf.printf "OUT INC %s model-did-not-finish steps=%d\n" id !i
        else
          (* created counts the entry task too; the external operation ids are tasks here *)
          Printf.printf "OUT INC %s created=%d destroyed=%d bodies=%d stop=%s%s\n" id (int_of_nat created)
            (int_of_nat destroyed) (int_of_nat bodies)
            (match rets with v :: _ -> "R" ^ string_of_int (int_of_z v) | [] -> "none")
            (if bad || int_of_n cnt <> 0 then " MODEL-MONITOR-FAILED" else "")
      | _ -> ()
    done
  with End_of_file -> ()
