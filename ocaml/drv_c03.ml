(* C03 driver: evaluates the IN lines of the harnesses on the extracted model, prints OUT lines.
   IN PIPE <id> <mode> <sexpr>   -> OUT PIPE <id> r=<...>  and  DEN PIPE <id> <c1>;<c2>;...  *)
type sx = Atom of string | L of sx list

let parse (s : string) : sx =
  let n = String.length s in
  let i = ref 0 in
  let rec skip () = if !i < n && s.[!i] = ' ' then (incr i; skip ()) in
  let rec one () =
    skip ();
    if !i < n && s.[!i] = '(' then begin
      incr i;
      let acc = ref [] in
      let fin = ref false in
      while not !fin do
        skip ();
        if !i >= n then fin := true
        else if s.[!i] = ')' then (incr i; fin := true)
        else acc := one () :: !acc
      done;
      L (List.rev !acc)
    end else begin
      let j = ref !i in
      while !j < n && s.[!j] <> ' ' && s.[!j] <> '(' && s.[!j] <> ')' do incr j done;
      let a = String.sub s !i (!j - !i) in
      i := !j; Atom a
    end in
  one ()

let num = function Atom a -> int_of_string a | _ -> failwith "num"
let ints (vs : n list) = List.map int_of_n vs
let ns (xs : int list) = List.map n_of_int xs
let sum xs = List.fold_left (+) 0 xs

let mkfn (f : sx) : n list -> (n list, n) sum =
  match f with
  | L [Atom "add"; k] -> let k = num k in fun vs -> Inl (ns (List.map (fun x -> x + k) (ints vs)))
  | L [Atom "thr"; e] -> let e = num e in fun _ -> Inr (n_of_int e)
  | L [Atom "thrif"; m; e] -> let m = num m and e = num e in
    fun vs -> let xs = ints vs in if sum xs mod m = 0 then Inr (n_of_int e) else Inl (ns (List.map (fun x -> x + 1) xs))
  | L [Atom "sum"] -> fun vs -> Inl [n_of_int (sum (ints vs))]
  | L [Atom "rev"] -> fun vs -> Inl (List.rev vs)
  | _ -> failwith "fn"

let sched_of (l : sx list) : sched * sx list =
  match l with
  | Atom k :: rest ->
    let k = if String.length k > 1 && k.[0] = 'a' then String.sub k 1 (String.length k - 1) else k in
    (match k, rest with
     | "o", r -> (SchedOk, r)
     | "e", e :: r -> (SchedErr (n_of_int (num e)), r)
     | "s", r -> (SchedStopped, r)
     | _ -> failwith "sched")
  | _ -> failwith "sched"

let rec term_of (args : n list) (x : sx) : term =
  match x with
  | L (Atom "J" :: _ :: vs) -> Just (ns (List.map num vs))
  | L [Atom "A"; _] -> Just args
  | L [Atom "E"; _; e] -> JustErr (n_of_int (num e))
  | L [Atom "S"; _] -> JustStopped
  | L (Atom "SC" :: r) -> let (s, _) = sched_of r in Schedule s
  | L [Atom "T"; f; t] -> Then (mkfn f, term_of args t)
  | L [Atom "LV"; k; t] ->
    (match k with
     | L [Atom "kthr"; e] -> let e = n_of_int (num e) in LetValue ((fun _ -> Some e), (fun _ -> Just []), term_of args t)
     | L [Atom "ksel"; x0; x1] ->
       LetValue ((fun _ -> None), (fun vs -> term_of vs (if sum (ints vs) mod 2 = 0 then x0 else x1)), term_of args t)
     | _ -> failwith "kont")
  | L [Atom "LE"; k; t] ->
    (match k with
     | L [Atom "kthr"; e] -> let e = n_of_int (num e) in LetError ((fun _ -> Some e), (fun _ -> Just []), term_of args t)
     | L [Atom "ksel"; x0; x1] ->
       LetError ((fun _ -> None), (fun e -> term_of [e] (if int_of_n e mod 2 = 0 then x0 else x1)), term_of args t)
     | _ -> failwith "kont")
  | L (Atom "WA" :: ts) -> WhenAll (List.map (term_of args) ts)
  | L (Atom "WV" :: ts) -> WhenAllVector (List.map (term_of args) ts)
  | L [Atom "SP"; n; t] -> Split (nat_of_int (num n), term_of args t)
  | L [Atom "ST"; t] -> SplitTuple (term_of args t)
  | L [Atom "ES"; t] -> EnsureStarted (term_of args t)
  | L [Atom "DV"; t] -> DropValue (term_of args t)
  | L [Atom "DO"; t] -> DropOpState (term_of args t)
  | L [Atom "RS"; t] -> RequireStarted (term_of args t)
  | L [Atom "UN"; t] -> Unpack (term_of args t)
  | L (Atom "CO" :: r) ->
    let (s, r') = sched_of r in
    (match r' with [t] -> ContinuesOn (s, term_of args t) | _ -> failwith "CO")
  | L [Atom "BK"; n; bf; t] ->
    let f = (match bf with
        | L [Atom "none"] -> (fun _ _ -> None)
        | L [Atom "at"; i; e] -> let i = num i and e = n_of_int (num e) in
          (fun idx _ -> if int_of_n idx = i then Some e else None)
        | _ -> failwith "bfn") in
    Bulk (n_of_int (num n), f, term_of args t)
  | L [Atom "ER"; t] -> Erased (term_of args t)
  | _ -> failwith "term"

let str_vals vs = String.concat "," (List.map (fun v -> string_of_int (int_of_n v)) vs)
let str_c = function
  | CVal vs -> "V:" ^ str_vals vs
  | CErr e -> "E:" ^ string_of_int (int_of_n e)
  | CStopped -> "S"
let str_evs (evs : ev list) =
  if List.exists (fun e -> e = Abort) evs then "abort"
  else match evs with
    | [] -> "none"
    | [Sig c] -> str_c c
    | l -> "multi" ^ string_of_int (List.length l)

(* the ledger predicted by Model/SenderLedger.v for the harness-observable object classes:
   leaf / scheduler operation states constructed, alive when the terminal receiver is called,
   alive after the receiver destroyed the operation state (mode rd) *)
let led_line (id : string) (mode : string) (t : term) : unit =
  let rd = (mode = "rd") in
  match ledger rd t with
  | None -> Printf.printf "LED PIPE %s none\n" id
  | Some tr ->
    let cnt k l = List.fold_left (fun (c, lv) e -> match e with
        | New (_, k') when k' = k -> (c + 1, lv + 1)
        | Del (_, k') when k' = k -> (c, lv - 1)
        | _ -> (c, lv)) (0, 0) l in
    let (lc, _) = cnt KLeaf tr and (sc, _) = cnt KSched tr in
    let pre = upto_term tr in
    let (_, ls) = cnt KLeaf pre and (_, ss) = cnt KSched pre in
    (* after the Term event of an rd trace come the destruction of the operation state, then the
       unwinding; leaf / scheduler operation states are never touched by the unwinding *)
    let (_, ld) = cnt KLeaf tr and (_, sd) = cnt KSched tr in
    Printf.printf "LED PIPE %s lc=%d sc=%d ls=%d ss=%d ld=%d sd=%d nouse=%d\n" id lc sc ls ss
      (if rd then ld else -1) (if rd then sd else -1) (if nouse_ok tr then 1 else 0)

let () =
  try
    while true do
      let line = input_line stdin in
      if String.length line > 8 && String.sub line 0 8 = "IN PIPE " then begin
        let rest = String.sub line 8 (String.length line - 8) in
        let sp1 = String.index rest ' ' in
        let id = String.sub rest 0 sp1 in
        let rest2 = String.sub rest (sp1 + 1) (String.length rest - sp1 - 1) in
        let sp2 = String.index rest2 ' ' in
        let mode = String.sub rest2 0 sp2 in
        let sxs = String.sub rest2 (sp2 + 1) (String.length rest2 - sp2 - 1) in
        let t = term_of [] (parse sxs) in
        let evs = sigs t in
        let r = match mode with
          | "run" | "rd" -> str_evs evs
          | "sw" -> (match sync_wait evs with
              | SwRet vs -> "ret:" ^ str_vals vs
              | SwThrow e -> "throw:" ^ string_of_int (int_of_n e)
              | SwAbort -> "abort"
              | SwHang -> "hang")
          | "sd" -> (match start_detached evs with
              | SdReleased _ -> "released"
              | SdTerminate -> "died"
              | SdAbort -> "abort")
          | _ -> "?" in
        Printf.printf "OUT PIPE %s r=%s\n" id r;
        if mode = "run" || mode = "rd" then led_line id mode t;
        Printf.printf "DEN PIPE %s %s\n" id (String.concat ";" (List.sort_uniq compare (List.map str_c (den t))))
      end
      else if String.length line > 6 && String.sub line 0 6 = "IN HO " then begin
        match String.split_on_char ' ' line with
        | [_; _; id; kind; chan; ncons; sch] ->
          let k = (match kind with "SP" -> HSplit | "ES" -> HEnsure | _ -> HTuple) in
          let nc = int_of_string ncons in
          let c = (match chan with
              | "V" -> CVal (ns [1; 2]) | "E" -> CErr (n_of_int 105) | _ -> CStopped) in
          let sched = List.map (fun s -> nat_of_int (int_of_string s)) (split_on ',' sch) in
          let (sites, (g, _)) = h_trace k c sched (h_init k, h_locals) [] in
          (* what consumer i (1-based) of this adaptor kind receives when the stored completion is delivered *)
          let project i (e : ev) : string =
            match e with
            | Abort -> "abort"
            | Sig (CVal vs) when k = HTuple ->
              (match List.nth_opt vs (i - 1) with Some v -> "V:" ^ str_vals [v] | None -> "V:")
            | Sig c0 -> str_c c0 in
          let log = List.rev g.h_log in   (* oldest first *)
          let per = List.init nc (fun j ->
              let i = j + 1 in
              let es = List.filter (fun ((cn, _), _) -> int_of_nat cn = i) log in
              match es with
              | [] -> "0:-:-1"
              | ((_, by), e) :: _ -> Printf.sprintf "%d:%s:%d" (List.length es) (project i e) (int_of_nat by)) in
          let order = List.map (fun ((cn, _), _) -> string_of_int (int_of_nat cn)) log in
          Printf.printf "OUT HO %s sites=%s sig=%s order=%s led=0\n" id
            (let l = List.map (fun s -> string_of_int (int_of_nat s)) sites in if l = [] then "-" else String.concat "," l)
            (if per = [] then "-" else String.concat "|" per)
            (if order = [] then "-" else String.concat "," order)
        | _ -> ()
      end
      else if String.length line > 6 && String.sub line 0 6 = "IN HL " then begin
        (* lifetime of the shared state (Model/HandoffLife.v): oracle bit i-1 = consumer i's receiver destroys its
           operation state inside the signal *)
        match String.split_on_char ' ' line with
        | [_; _; id; kind; chan; ncons; obits; sch] ->
          let k = (match kind with "SP" -> HSplit | "ES" -> HEnsure | _ -> HTuple) in
          let nc = int_of_string ncons in
          let c = (match chan with
              | "V" -> CVal (ns [1; 2]) | "E" -> CErr (n_of_int 105) | _ -> CStopped) in
          let inside i = i >= 1 && i <= String.length obits && obits.[i - 1] = '1' in
          let o (cn : nat) : bool = inside (int_of_nat cn) in
          let sched = List.map (fun s -> nat_of_int (int_of_string s)) (split_on ',' sch) in
          let (sites, ((g, lf), _)) = hl_trace k c (nat_of_int nc) o sched ((h_init k, hl_init k (nat_of_int nc)), hl_locals) [] in
          let project i (e : ev) : string =
            match e with
            | Abort -> "abort"
            | Sig (CVal vs) when k = HTuple ->
              (match List.nth_opt vs (i - 1) with Some v -> "V:" ^ str_vals [v] | None -> "V:")
            | Sig c0 -> str_c c0 in
          let log = List.rev g.h_log in
          let by_of i = (match List.filter (fun ((cn, _), _) -> int_of_nat cn = i) log with
              | ((_, by), _) :: _ -> int_of_nat by | [] -> -1) in
          let per = List.init nc (fun j ->
              let i = j + 1 in
              let es = List.filter (fun ((cn, _), _) -> int_of_nat cn = i) log in
              match es with
              | [] -> "0:-:-1"
              | ((_, by), e) :: _ -> Printf.sprintf "%d:%s:%d" (List.length es) (project i e) (int_of_nat by)) in
          (* the thread on which the last reference was released *)
          let freed = if lf.l_alive then "-" else
              (match lf.l_rel with
               | [] -> "?"
               | h :: _ -> let h = int_of_nat h in
                 string_of_int (if h = 0 then 0 else if inside h then by_of h else h)) in
          let bad = List.rev_map (fun (t, pc) -> Printf.sprintf "%d.%d" (int_of_nat t) (int_of_nat (h_site pc))) lf.l_bad in
          let rec dedup l = (match l with a :: (b :: _ as r) -> if a = b then dedup r else a :: dedup r | _ -> l) in
          let bad = dedup bad in
          Printf.printf "OUT HL %s sites=%s sig=%s freed=%s bad=%s allocs=1\n" id
            (let l = List.map (fun s -> string_of_int (int_of_nat s)) sites in if l = [] then "-" else String.concat "," l)
            (if per = [] then "-" else String.concat "|" per)
            freed (if bad = [] then "-" else String.concat "," bad)
        | _ -> ()
      end
      else if String.length line > 6 && String.sub line 0 6 = "IN JN " then begin
        match String.split_on_char ' ' line with
        | [_; _; id; _kind; n; comps; sch] ->
          let n = int_of_string n in
          let cs (t : nat) : completion =
            let i = int_of_nat t in
            if i >= n then CStopped else
            match comps.[i] with
            | 'V' -> CVal (ns [10 * i + 1]) | 'E' -> CErr (n_of_int (100 + i)) | _ -> CStopped in
          let sched = List.map (fun s -> nat_of_int (int_of_string s)) (split_on ',' sch) in
          let nn = nat_of_int n in
          let (sites, (g, _)) = w_trace nn cs sched (w_init nn, w_locals) [] in
          let out = List.rev g.w_out in
          let (r, by) = (match out with
              | [] -> ("-", -1)
              | (t, e) :: _ -> ((match e with Abort -> "abort" | Sig c0 -> str_c c0), int_of_nat t)) in
          Printf.printf "OUT JN %s sites=%s n=%d r=%s by=%d led=0\n" id
            (let l = List.map (fun s -> string_of_int (int_of_nat s)) sites in if l = [] then "-" else String.concat "," l)
            (List.length out) r by
        | _ -> ()
      end
    done
  with End_of_file -> ()
