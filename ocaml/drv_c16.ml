(* C16 driver: reads `IN CFG <id> keys=k,k env=K:hex,.. mach=pus,cores,maskcount,maskcores coremasks=hex;hex arg0=hex args=hex,hex`
   prints `OUT CFG <id> ...` from the extracted model (Model/Config.v: run). *)
let ascii_of_char (c : char) : ascii =
  let n = Char.code c in
  let b i = (n lsr i) land 1 = 1 in
  Ascii (b 0, b 1, b 2, b 3, b 4, b 5, b 6, b 7)
let char_of_ascii (Ascii (b0, b1, b2, b3, b4, b5, b6, b7)) : char =
  let v b i = if b then 1 lsl i else 0 in
  Char.chr (v b0 0 + v b1 1 + v b2 2 + v b3 3 + v b4 4 + v b5 5 + v b6 6 + v b7 7)
let cs_of_string (s : string) : cstring =
  let r = ref EmptyString in
  for i = String.length s - 1 downto 0 do r := String (ascii_of_char s.[i], !r) done;
  !r
let string_of_cs (s : cstring) : string =
  let b = Buffer.create 16 in
  let rec go = function EmptyString -> () | String (c, r) -> Buffer.add_char b (char_of_ascii c); go r in
  go s; Buffer.contents b
let unhex (h : string) : string =
  if h = "-" then "" else
  String.init (String.length h / 2) (fun i -> Char.chr (int_of_string ("0x" ^ String.sub h (2 * i) 2)))
let hex (s : string) : string =
  if s = "" then "-" else String.concat "" (List.map (fun c -> Printf.sprintf "%02x" (Char.code c)) (List.of_seq (String.to_seq s)))
let field (fs : string list) (k : string) : string =
  let p = k ^ "=" in
  let l = String.length p in
  match List.find_opt (fun f -> String.length f >= l && String.sub f 0 l = p) fs with
  | Some f -> String.sub f l (String.length f - l)
  | None -> ""
let rec dec_of_n (x : n) : string =
  (* decimal through repeated division on OCaml ints is not possible above 2^62: values here are
     sizes and counts; larger ones are printed in hex with a marker *)
  let h = hex_of_n x in
  if String.length h <= 15 then string_of_int (int_of_string ("0x" ^ h)) else "0x" ^ h
let reject_name = function
  | RMultiple -> "multiple_occurrences" | RSyntax -> "syntax" | RBadCast -> "bad_cast" | RInvalid -> "invalid"
  | RIniUnknown -> "ini_unknown" | RBadMask -> "bad_mask" | RResources -> "resources"
  | RLateUnknown -> "late_unknown" | RLateSplit -> "late_split"
  | RExpandLoop -> "expand_loop"
let () =
  try
    while true do
      let line = input_line stdin in
      let fs = String.split_on_char ' ' line in
      match fs with
      | "IN" :: "CFG" :: id :: rest ->
        let keys = split_on ',' (field rest "keys") in
        let env = List.map (fun kv -> match String.index_opt kv ':' with
            | Some i -> (cs_of_string (String.sub kv 0 i), cs_of_string (unhex (String.sub kv (i + 1) (String.length kv - i - 1))))
            | None -> (cs_of_string kv, cs_of_string "")) (split_on ',' (field rest "env")) in
        let mach = List.map int_of_string (split_on ',' (field rest "mach")) in
        let m = match mach with
          | [a; b; c; d] -> { m_pus = n_of_int a; m_cores = n_of_int b; m_maskcount = n_of_int c; m_maskcores = n_of_int d;
                              m_coremasks = List.map n_of_hex (split_on ';' (field rest "coremasks")) }
          | _ -> failwith "mach" in
        let arg0 = cs_of_string (unhex (field rest "arg0")) in
        let args = List.map (fun h -> cs_of_string (unhex h)) (split_on ',' (field rest "args")) in
        (match run env m arg0 args with
         | Started c ->
           Printf.printf "OUT CFG %s started threads=%s cores=%s policy=%d stacks=%s argv=%s cfg=%s\n" id
             (dec_of_n c.c_threads) (dec_of_n c.c_cores) (int_of_nat c.c_policy)
             (String.concat "," (List.map dec_of_n c.c_stacks))
             (match c.c_argv with [] -> "-" | l -> String.concat "," (List.map (fun a -> hex (string_of_cs a)) l))
             (match keys with [] -> "-" | _ ->
                String.concat "," (List.map (fun k ->
                    let v = match List.find_opt (fun (a, _) -> string_of_cs a = k) c.c_entries with
                      | Some (_, v) -> string_of_cs v | None -> "<unset>" in
                    k ^ ":" ^ hex v) keys))
         | Rejected r -> Printf.printf "OUT CFG %s rejected %s\n" id (reject_name r)
         | Unsupported -> Printf.printf "OUT CFG %s unsupported\n" id);
        flush stdout
      | "IN" :: "EXPAND" :: id :: rest ->
        let env = List.map (fun kv -> match String.index_opt kv ':' with
            | Some i -> (cs_of_string (String.sub kv 0 i), cs_of_string (unhex (String.sub kv (i + 1) (String.length kv - i - 1))))
            | None -> (cs_of_string kv, cs_of_string "")) (split_on ',' (field rest "env")) in
        (* what get_entry returns for an entry [key] after [s] was stored in it (no other entries) *)
        (match read_x env no_entries (cs_of_string (field rest "key")) (cs_of_string (unhex (field rest "s"))) with
         | XOk v -> Printf.printf "OUT EXPAND %s ok %s\n" id (hex (string_of_cs v))
         | XFuel -> Printf.printf "OUT EXPAND %s loop\n" id);
        flush stdout
      | "IN" :: "TABLE" :: id :: _ ->
        Printf.printf "OUT TABLE %s optkey=%s builtin=%s\n" id
          (String.concat "," (List.map (fun (a, b) -> string_of_cs a ^ ">" ^ string_of_cs b) opt_key))
          (String.concat "," (List.map (fun (a, b) -> string_of_cs a ^ ">" ^ hex (string_of_cs b)) builtin_ini));
        flush stdout
      | _ -> ()
    done
  with End_of_file -> ()
