(* C04 driver: replays the schedule of an IN RW line (commands + parked-thread releases chosen
   by the lock-step controller on the real async_rw_mutex) on the extracted model, one
   controller release = the command/parked step followed by every step of the same thread up
   to its next hook.  Prints the OUT line in the harness's format. *)
let ios = int_of_string
let () =
  try
    while true do
      let line = input_line stdin in
      match String.split_on_char ' ' line with
      | "IN" :: "RW" :: id :: mode :: _nt :: sched :: _ ->
        let entries = if sched = "-" then [] else split_on ',' sched in
        let c = ref (rw_init, rw_locals) in
        let acc2tok = Hashtbl.create 64 and tok2acc = Hashtbl.create 64 in
        let silent = Hashtbl.create 16 in
        let nacc = ref 0 in
        let sites = ref [] and evs = ref [] in
        let tokof a = try nat_of_int (Hashtbl.find acc2tok a) with Not_found -> nat_of_int 1000000 in
        let newacc g0 = let tk = int_of_nat g0.ntok in
          Hashtbl.replace acc2tok !nacc tk; Hashtbl.replace tok2acc tk !nacc; incr nacc in
        List.iteri (fun i ent ->
          match String.split_on_char ':' ent with
          | [ts; op] ->
            let t = nat_of_int (ios ts) in
            let arg () = ios (String.sub op 1 (String.length op - 1)) in
            let g0 = fst !c in
            let len0 = List.length g0.elog in
            let cmd = match op.[0] with
              | '.' -> CStep false
              | 'q' -> newacc g0; CReq (if op.[1] = 'R' then KR else KW)
              | 's' -> CStart (tokof (arg ()), false, false)
              | 't' -> CStart (tokof (arg ()), true, true)
              | 'D' -> Hashtbl.replace silent (arg ()) true; CStart (tokof (arg ()), true, false)
              | 'o' -> CDropOp (tokof (arg ()))
              | 'c' -> newacc g0; CCopy (tokof (arg ()))
              | 'r' -> CRelease (tokof (arg ()))
              | 'u' -> CUse (tokof (arg ()))
              | 'x' -> CDestroy
              | _ -> CStep false in
            c := step rw_tstep !c (t, cmd);
            let fuel = ref 100000 in
            let continue = ref true in
            while !continue && !fuel > 0 do
              decr fuel;
              (match snd !c t with
               | [] -> continue := false
               | w :: _ -> if is_point w then continue := false else c := step rw_tstep !c (t, CStep false))
            done;
            sites := string_of_int (int_of_nat (site_of (snd !c t))) :: !sites;
            let g1 = fst !c in
            let len1 = List.length g1.elog in
            let rec take n l = if n <= 0 then [] else match l with [] -> [] | x :: r -> x :: take (n - 1) r in
            let fresh = List.rev (take (len1 - len0) g1.elog) in
            let accof e = try Hashtbl.find tok2acc (int_of_nat e) with Not_found -> -1 in
            List.iter (fun ev ->
              let s = match ev with
                | EGrant (e, _, _) -> let a = accof e in if Hashtbl.mem silent a then "" else Printf.sprintf "%d:g%d" i a
                | EUse (e, _, v, _) -> Printf.sprintf "%d:u%d:%d" i (accof e) (int_of_nat v)
                | ERel e -> let a = accof e in if Hashtbl.mem silent a then "" else Printf.sprintf "%d:r%d" i a
                | EVfree -> if mode = "T" then Printf.sprintf "%d:v" i else "" in
              if s <> "" then evs := s :: !evs) fresh
          | _ -> ()) entries;
        let g = fst !c in
        let ng = int_of_nat g.ngrp and nt = int_of_nat g.ntok in
        let live = ref 0 in
        for k = 0 to ng - 1 do if int_of_nat (g.grp (nat_of_int k)).refs > 0 then incr live done;
        if mode = "T" && not g.vfreed then incr live;
        let ung = ref [] in
        for e = nt - 1 downto 0 do
          match (g.tok (nat_of_int e)).tst with
          | TStarting _ | TQueued | TGranting _ ->
            (match Hashtbl.find_opt tok2acc e with
             | Some a when not (Hashtbl.mem silent a) -> ung := string_of_int a :: !ung
             | _ -> ())
          | _ -> ()
        done;
        Printf.printf "OUT RW %s sites=%s ev=%s live=%d ungranted=%s bad=%d\n" id
          (if !sites = [] then "-" else String.concat "," (List.rev !sites))
          (if !evs = [] then "-" else String.concat ";" (List.rev !evs))
          !live (if !ung = [] then "-" else String.concat "," !ung) (if g.bad then 1 else 0)
      | _ -> ()
    done
  with End_of_file -> ()
