(* C08 driver: replays the IN lines of harness/c08_lockstep.cpp on the extracted model *)
let z_of_int i = if i = 0 then Z0 else if i > 0 then Zpos (pos_of_int i) else Zneg (pos_of_int (-i))
let int_of_z = function Z0 -> 0 | Zpos p -> int_of_pos p | Zneg p -> - (int_of_pos p)
let op_of_string s =
  let arg = String.sub s 1 (String.length s - 1) in
  if s.[0] = 'M' then                      (* M<md>:<lo> = set_max_difference(md, lo) *)
    (match String.split_on_char ':' arg with
     | [a; b] -> SlSetMaxDiff (z_of_int (int_of_string a), z_of_int (int_of_string b))
     | _ -> failwith "op M")
  else
  let n = z_of_int (int_of_string arg) in
  match s.[0] with
  | 'Z' -> SlSignalAll                     (* signal_all(); result printed as [value] *)
  | 'A' -> Acquire n | 'Y' -> TryAcquire | 'W' -> TryWait n | 'R' -> Release n
  | 'S' -> SlWait n | 'T' -> SlTryWait n | 'G' -> SlSignal n
  | 'D' -> TimedAcquire n
  | _ -> failwith "op"
let () =
  try
    while true do
      let line = input_line stdin in
      match String.split_on_char ' ' line with
      | "IN" :: "LS" :: id :: fam :: v0 :: lo0 :: md :: t :: rest ->
        let tn = int_of_string t in
        let rest = Array.of_list rest in
        let progs = Array.init tn (fun i -> List.map op_of_string (split_on ',' rest.(i))) in
        let sched = List.map (fun s -> nat_of_int (int_of_string s)) (split_on ',' rest.(tn)) in
        let progf = fun t -> let i = int_of_nat t in if i < tn then progs.(i) else [] in
        let kind = fun _ -> OsThr in
        let c0 = (sem_init (z_of_int (int_of_string v0)) (z_of_int (int_of_string lo0)) (z_of_int (int_of_string md)),
                  sem_locals progf) in
        let (sites, c) = sem_trace kind sched c0 [] in
        let (g, _) = c in
        let per = Array.make tn [] in
        List.iter (fun e ->
          let i = int_of_nat e.ev_tid in
          if i < tn then per.(i) <- (match e.ev_op with
                                     | SlSignalAll -> Printf.sprintf "[%d]" (int_of_z e.ev_lower)
                                     | _ -> if e.ev_res then "1" else "0") :: per.(i)) g.slog;
        let blocked = List.filter (fun i -> is_blocked_thread c (nat_of_int i)) (List.init tn (fun i -> i)) in
        let fin = if fam = "S" then int_of_z g.lower else int_of_z g.value in
        Printf.printf "OUT LS %s sites=%s res=%s blocked=%s final=%d\n" id
          (if sites = [] then "-" else String.concat "," (List.map (fun s -> string_of_int (int_of_nat s)) sites))
          (String.concat "|" (Array.to_list (Array.map (String.concat "") per)))
          (if blocked = [] then "-" else String.concat "," (List.map string_of_int blocked))
          fin
      | _ -> ()
    done
  with End_of_file -> ()
