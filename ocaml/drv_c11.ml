(* C11 driver: replays the IN lines of the harnesses on the extracted model, prints OUT lines.
   Kinds: AR  (pure arithmetic), LK (lock-step schedule of the worker tasks),
          E2E (end-to-end run on the real pool: schedule-independent outputs + per-chunk acceptor),
          GEN (generic bulk loop). *)
let nat_tr n = let rec go acc k = if k <= 0 then acc else go (S acc) (k - 1) in go O n
let dec_of_n x = string_of_int (int_of_n x)
let hx = hex_of_n
let n_of_dec s = n_of_int (int_of_string s)
let rec n_eq (a : n) (b : n) = (a = b)

(* throwing sets: none | all | set:<hex>.<hex>... | mod:<m>:<r> (decimal) *)
let throws_of_spec (spec : string) : n -> bool =
  match String.split_on_char ':' spec with
  | ["none"] -> (fun _ -> false)
  | ["all"] -> (fun _ -> true)
  | ["set"; l] ->
    let xs = List.map n_of_hex (List.filter (fun s -> s <> "") (String.split_on_char '.' l)) in
    (fun i -> List.exists (fun x -> x = i) xs)
  | ["mod"; m; r] ->
    let m = n_of_dec m and r = n_of_dec r in
    (fun i -> N.modulo i m = r)
  | _ -> failwith ("bad throw spec " ^ spec)

let list_str f l = if l = [] then "-" else String.concat "," (List.map f l)

let rec drain r acc = match seq_pop SL r with
  | (Some x, r') -> drain r' (dec_of_n x :: acc)
  | (None, _) -> List.rev acc

let sig_str s =
  (match s.sg with
   | SValue _ -> "V"
   | SError (Some x) -> "E" ^ dec_of_n x
   | SError None -> "Enone"
   | SBad -> "B") ^ ":" ^ string_of_int (int_of_nat s.sg_calls) ^ ":" ^ string_of_int (int_of_nat s.sg_exits)

let () =
  try
    while true do
      let line = input_line stdin in
      match String.split_on_char ' ' line with
      | ["IN"; "AR"; id; _ty; bits; w; nhex; idxs] ->
        let idxl = List.map n_of_dec (split_on ',' idxs) in
        let r = arith (n_of_dec bits) (n_of_dec w) (n_of_hex nhex) idxl in
        (match r.ao_chunk with
         | None -> Printf.printf "OUT AR %s diverges\n" id
         | Some c ->
           Printf.printf "OUT AR %s c=%s k=%s parts=%s chunks=%s\n" id (hx c) (dec_of_n r.ao_nchunks)
             (String.concat "," (List.map (fun (b, e) -> dec_of_n b ^ "-" ^ dec_of_n e) r.ao_parts))
             (String.concat "," (List.map (fun (i, (b, e)) -> dec_of_n i ^ ":" ^ hx b ^ ":" ^ hx e) r.ao_chunks)))
      | ["IN"; ("LK" | "TR" as kind); id; w; nn; bits; loc; spec; sched] ->
        (* LK: schedule chosen by the lock-step controller (harness/c11_lock.cpp);
           TR: schedule = the logged order of the atomic accesses of the real set_value / task_functions on a
               real pool (harness/c11_trace.cpp); "sites" = for every logged event the site at which the model
               has that thread parked (the event is enabled iff they agree) *)
        let wn = int_of_string w in
        let cf = { cW = nat_of_int wn; cn = n_of_dec nn; cbits = n_of_dec bits; clocal = nat_of_int (int_of_string loc);
                   cthrows = throws_of_spec spec; cvals = n_of_int 7 } in
        let sl = List.map (fun s -> nat_of_int (int_of_string s)) (split_on ',' sched) in
        let (sites, (g, _)) = lock_trace cf sl (binit cf) [] in
        let qs = List.init wn (fun q -> let l = drain (g.queues (nat_of_int q)).cur [] in
                                if l = [] then "e" else String.concat "." l) in
        Printf.printf "OUT %s %s sites=%s calls=%s exits=%s thrown=%s sigs=%s fin=%s" kind id
          (list_str (fun s -> string_of_int (int_of_nat s)) sites)
          (list_str (fun (i, _) -> dec_of_n i) (List.rev g.calls))
          (list_str dec_of_n (List.rev g.exits))
          (list_str dec_of_n (List.rev g.thrown))
          (if g.sigs = [] then "-" else String.concat "|" (List.map sig_str (List.rev g.sigs)))
          (list_str (fun x -> string_of_int (int_of_nat x)) (List.rev g.fin));
        if kind = "LK" then Printf.printf " rem=%s q=%s\n" (dec_of_n g.remaining) (String.concat "," qs)
        else
          (* the real operation state is gone when the harness prints: the counter is compared with
             W minus the number of logged decrements; queue rests (possible after a throw) are not observable *)
          Printf.printf " rem=%s\n" (dec_of_n g.remaining)
      | ["IN"; "E2E"; id; _ty; bits; w; nhex; spec; obs] ->
        let bitsn = n_of_dec bits and wn = n_of_dec w and nn = n_of_hex nhex in
        if nn = N0 then Printf.printf "OUT E2E %s c=- k=- parts=- chunks=- kind=V\n" id
        else begin
          let throws = throws_of_spec spec in
          let idxl = List.map n_of_dec (split_on ',' obs) in
          let r = arith bitsn wn nn idxl in
          match r.ao_chunk with
          | None -> Printf.printf "OUT E2E %s diverges\n" id
          | Some c ->
            let anythrew = ref false in
            let chunk_str (i, (b, e)) =
              let d = if N.leb e b then N0 else N.sub e b in
              (* fuel: the harness keeps the first throwing index of a chunk within 5*10^6 of its begin *)
              let len = if N.leb (n_of_int 5000000) d then 5000000 else int_of_n d in
              let (calls, threw) =
                if spec = "none" then (d, false)
                else if spec = "all" then ((if d = N0 then N0 else n_of_int 1), d <> N0)
                else chunk_calls throws b (nat_tr len) N0 in
              if threw then anythrew := true;
              dec_of_n i ^ ":" ^ hx b ^ ":" ^ hx e ^ ":" ^ hx calls ^ ":" ^ (if threw then "1" else "0") in
            let cs = List.map chunk_str r.ao_chunks in
            Printf.printf "OUT E2E %s c=%s k=%s parts=%s chunks=%s kind=%s\n" id (hx c) (dec_of_n r.ao_nchunks)
              (String.concat "," (List.map (fun (b, e) -> dec_of_n b ^ "-" ^ dec_of_n e) r.ao_parts))
              (if cs = [] then "-" else String.concat "," cs)
              (if !anythrew then "E" else "V")
        end
      | ["IN"; "GEN"; id; nn; spec] ->
        let (cs, sg) = gen_bulk (throws_of_spec spec) (n_of_dec nn) (n_of_int 7) in
        let last = match List.rev cs with [] -> "-" | x :: _ -> dec_of_n x in
        (* the calls must be 0,1,2,... in order: report the length and whether it is the canonical prefix *)
        let rec canon i = function [] -> true | x :: r -> int_of_n x = i && canon (i + 1) r in
        Printf.printf "OUT GEN %s calls=%d last=%s inorder=%d kind=%s\n" id (List.length cs) last
          (if canon 0 cs then 1 else 0)
          (match sg with SValue _ -> "V" | SError (Some x) -> "E" ^ dec_of_n x | _ -> "B")
      | _ -> ()
    done
  with End_of_file -> ()
