(* C19 driver: replays the IN lines of harness/c19_sr.cpp on the extracted model (Model/SuspendResume.v).
   SEQ: every op is executed by a fresh client thread; all threads are scheduled round-robin (only enabled ones)
   until nobody is enabled; then the error flag of the call, the worker states and the number of executed tasks
   are printed.  GATE: the scripted hand-shake schedules of the harness.  LOWP: the schedule of the low-priority finding
   (Proofs: lowprio_suspend_stuck_refuted). *)
let kv s = match String.index_opt s '=' with
  | Some i -> (String.sub s 0 i, String.sub s (i + 1) (String.length s - i - 1)) | None -> (s, "")
let ios = int_of_string

type sys = { cfg : cfg; mutable g : gst; ls : lstate array; mutable ctr : int }

let rst = Random.State.make [| 19 |]

let mk cfgv nclients =
  let n = int_of_nat cfgv.nw in
  { cfg = cfgv; g = sr_g0; ls = Array.init (n + nclients) (fun t -> if t < n then LWorker WTop else LNone); ctr = 0 }

let stept s t =
  s.ctr <- s.ctr + 1;
  let o = (false, nat_of_int (Random.State.int rst 64)) in
  let (g', l') = sr_tstep s.cfg o (nat_of_int t) s.g s.ls.(t) in
  s.g <- g'; s.ls.(t) <- l'

let en s t = enabled s.cfg (nat_of_int t) s.g s.ls.(t)

(* round-robin over all threads until nobody is enabled (or the predicate stops it) *)
let run_quiet ?(stop = fun () -> false) s =
  let fuel = ref 200000 in
  let again = ref true in
  (try
    while !again && !fuel > 0 do
      again := false;
      for t = 0 to Array.length s.ls - 1 do
        if en s t then begin again := true; decr fuel; stept s t; if stop () then raise Exit end
      done
    done
  with Exit -> ());
  !fuel > 0

let states s =
  let n = int_of_nat s.cfg.nw in
  String.concat "," (List.init n (fun i -> string_of_int (int_of_n (rs_ord (s.g.st (nat_of_int i))) - 1)))

let api_of tok =
  let who = tok.[0] in
  let op = String.sub tok 1 (String.length tok - 1) in
  let self = (who = 's') in
  let num k = nat_of_int (ios (String.sub op k (String.length op - k))) in
  if String.length op >= 2 && String.sub op 0 2 = "SP" then ASuspendPU (num 2, self)
  else if String.length op >= 2 && String.sub op 0 2 = "RP" then AResumePU (num 2)
  else if op = "SA" then ASuspendPool self
  else if op = "RA" then AResumePool
  else if op = "TN" then ASubmit None
  else ASubmit (Some (num 1))

let is_call = function ASubmit _ | ASubmitLow _ -> false | _ -> true
let done_cl = function LClient cl -> cl.todo = [] | _ -> true
let client s t a = s.ls.(t) <- LClient { todo = expand s.cfg a; ph = Ph0; err = false; vl = false }
let nexec s = List.length s.g.executed
let last_err s = match s.g.calls with ((_, _), e) :: _ -> e | [] -> false

let () =
  try
    while true do
      let line = input_line stdin in
      match String.split_on_char ' ' line with
      | "IN" :: "SEQ" :: id :: rest ->
        let f = List.map kv rest in
        let n = ios (List.assoc "nw" f) in
        let cfgv = { nw = nat_of_int n; elastic = (List.assoc "el" f = "1"); stealing = (List.assoc "st" f = "1") } in
        let ops = String.split_on_char ',' (List.assoc "ops" f) in
        let s = mk cfgv (List.length ops) in
        let blocked = ref false in
        let res = List.mapi (fun i tok ->
          if !blocked then "skipped" else begin
            let a = api_of tok in
            let t = n + i in
            client s t a;
            let ok = run_quiet s in
            if not ok then (blocked := true; "FUEL")
            else if not (done_cl s.ls.(t)) then (blocked := true; "BLOCKED")
            else Printf.sprintf "e%d:%s:%d" (if is_call a && last_err s then 1 else 0) (states s) (nexec s)
          end) ops in
        Printf.printf "OUT SEQ %s r=%s\n" id (String.concat "|" res)
      | "IN" :: "GATE" :: id :: rest ->
        let f = List.map kv rest in
        let n = ios (List.assoc "nw" f) in
        let kind = ios (List.assoc "kind" f) in
        let cfgv = { nw = nat_of_int n; elastic = (List.assoc "el" f = "1"); stealing = (List.assoc "st" f = "1") } in
        let s = mk cfgv (n + 4) in
        let last = n - 1 in
        for w = 0 to last - 1 do client s (n + w) (ASuspendPU (nat_of_int w, false)); ignore (run_quiet s) done;
        let tS = n + last and tT = n + last + 1 and tR = n + last + 2 in
        if kind = 3 then begin
          (* nobody sleeps in this scenario: undo the preparatory suspends *)
          let s = mk cfgv (n + 4) in
          let in_hold () = match s.ls.(tT) with LClient cl -> (match cl.ph with PhHold _ -> true | _ -> false) | _ -> false in
          client s tT (ASubmit (Some (nat_of_int last)));
          let k = ref 0 in
          while not (in_hold ()) && !k < 10000 do stept s tT; incr k done;
          let reached = in_hold () in
          client s tS (ASuspendPU (nat_of_int last, false));
          k := 0;
          while en s tS && !k < 1000 do stept s tS; incr k done;
          let early = done_cl s.ls.(tS) in
          let st_parked = states s in
          k := 0;
          while not (done_cl s.ls.(tT)) && !k < 10000 do stept s tT; incr k done;
          let dar = ref (-1) and sar = ref "" in
          ignore (run_quiet ~stop:(fun () -> if !dar < 0 && done_cl s.ls.(tS) then (dar := nexec s; sar := states s); false) s);
          Printf.printf "OUT GATE %s reached=%d returned_while_parked=%d states_while_parked=%s done_without_resume=%d states_at_return=%s err=%d\n" id
            (if reached then 1 else 0) (if early then 1 else 0) st_parked (if nexec s = 1 then 1 else 0) !sar (if last_err s then 1 else 0)
        end else
        if kind = 1 then begin
          client s tS (ASuspendPU (nat_of_int last, false));
          (* the suspender runs until it waits; the worker runs until it is in the idle branch with running = false *)
          let k = ref 0 in
          while en s tS && !k < 1000 do stept s tS; incr k done;
          k := 0;
          while s.ls.(last) <> LWorker (WIdle false) && !k < 1000 do stept s last; incr k done;
          let reached = (s.ls.(last) = LWorker (WIdle false)) in
          let st_gate = states s in
          client s tT (ASubmit (Some (nat_of_int last)));
          k := 0;
          while not (done_cl s.ls.(tT)) && !k < 10000 do stept s tT; incr k done;
          let dar = ref (-1) and sar = ref "" in
          ignore (run_quiet ~stop:(fun () -> if !dar < 0 && done_cl s.ls.(tS) then (dar := nexec s; sar := states s); false) s);
          Printf.printf "OUT GATE %s reached=%d states_at_gate=%s done_at_return=%d states_at_return=%s err=%d\n" id
            (if reached then 1 else 0) st_gate !dar !sar (if last_err s then 1 else 0)
        end else begin
          client s tS (ASuspendPU (nat_of_int last, false));
          (* the worker stops after it stored `sleeping`, before it waits *)
          let k = ref 0 in
          while not (done_cl s.ls.(tS)) && !k < 10000 do
            if en s tS then stept s tS;
            if s.ls.(last) <> LWorker WEnterWait then stept s last;
            incr k done;
          let reached = (s.ls.(last) = LWorker WEnterWait) && done_cl s.ls.(tS) in
          client s tR (AResumePU (nat_of_int last));
          for _ = 1 to 8 do if en s tR then stept s tR done;      (* notifications into the void *)
          let early = done_cl s.ls.(tR) in
          ignore (run_quiet s);
          let st_ret = states s in
          client s tT (ASubmit (Some (nat_of_int last)));
          ignore (run_quiet s);
          Printf.printf "OUT GATE %s reached=%d early_return=%d states_at_return=%s ran_after_resume=%d err=%d\n" id
            (if reached then 1 else 0) (if early then 1 else 0) st_ret (if nexec s = 1 then 1 else 0) (if last_err s then 1 else 0)
        end
      | "IN" :: "LOWP" :: id :: rest ->
        let f = List.map kv rest in
        let n = ios (List.assoc "nw" f) in
        let k = ios (List.assoc "n" f) in
        let cfgv = { nw = nat_of_int n; elastic = (List.assoc "el" f = "1"); stealing = (List.assoc "st" f = "1") } in
        let s = mk cfgv (k + 2) in
        let last = n - 1 in
        (* the last worker runs to its idle branch with running = true and is parked there *)
        let j = ref 0 in
        while s.ls.(last) <> LWorker (WIdle true) && !j < 1000 do stept s last; incr j done;
        let reached = (s.ls.(last) = LWorker (WIdle true)) in
        (* k low-priority tasks are staged (the other workers keep polling) *)
        for i = 0 to k - 1 do
          client s (n + i) (ASubmitLow None);
          j := 0;
          while not (done_cl s.ls.(n + i)) && !j < 10000 do
            stept s (n + i);
            for w = 0 to last - 1 do stept s w done;
            incr j done
        done;
        (* suspend_processing_unit(last): CAS under the PU lock, then the caller waits *)
        let tS = n + k in
        client s tS (ASuspendPU (nat_of_int last, false));
        j := 0;
        while en s tS && !j < 1000 do stept s tS; incr j done;
        (* the worker is released; everybody runs until nobody is enabled *)
        let quiet = run_quiet s in
        let ret = done_cl s.ls.(tS) in
        Printf.printf "OUT LOWP %s reached=%d returned=%d done_then=%d of=%d states_then=%s no_progress=%d\n" id
          (if reached then 1 else 0) (if ret then 1 else 0) (nexec s) k (states s) (if quiet && not ret then 1 else 0)
      | "IN" :: "HPQ" :: id :: rest ->
        (* round w11c, Model/SuspendResumeHP.v: nw workers, nhp high-priority queues, elasticity + stealing; one client suspends PU 0
           and then submits n tasks (priority high iff high=1) with hint 1; everybody is scheduled round-robin for a fixed number of
           rounds (a sleeping / polling worker only stutters); printed: tasks executed without a resume, worker states *)
        let f = List.map kv rest in
        let n = ios (List.assoc "nw" f) in
        let nhp = ios (List.assoc "nhp" f) in
        let high = (List.assoc "high" f = "1") in
        let k = ios (List.assoc "n" f) in
        let cfgv = { nw = nat_of_int n; elastic = true; stealing = true } in
        let prog = expand cfgv (ASuspendPU (nat_of_int 0, false)) @ List.concat (List.init k (fun _ -> expand cfgv (ASubmit (Some (nat_of_int 1))))) in
        let ls = Array.init (n + 1) (fun t -> if t < n then HWorker (HBase WTop) else HClient ({ todo = prog; ph = Ph0; err = false; vl = false }, high)) in
        let g = ref sr_g0 in
        for _ = 1 to 60 * (k + 4) do
          for t = 0 to n do
            let o = (false, nat_of_int (Random.State.int rst 64)) in
            let (g', l') = hp_tstep cfgv (nat_of_int nhp) o (nat_of_int t) !g ls.(t) in
            g := g'; ls.(t) <- l'
          done
        done;
        let returned = (match ls.(n) with HClient (cl, _) -> cl.todo = [] | _ -> false) in
        Printf.printf "OUT HPQ %s returned=%d done_before_resume=%d of=%d states=%s\n" id (if returned then 1 else 0)
          (List.length !g.executed) k
          (String.concat "," (List.init n (fun i -> string_of_int (int_of_n (rs_ord (!g.st (nat_of_int i))) - 1))))
      | _ -> ()
    done
  with End_of_file -> ()
