(* C20 driver: replays the harness's IN lines on the extracted model (Model/Mpi.v), prints OUT lines.
   IN TRACE <case> n=.. psz=.. <tokens>   hook trace of the real poller -> acceptor built from [mstep]
   IN STRACE <case> n=.. psz=1 <tokens>   hook trace of the real poll_singlethreaded -> acceptor built from [sstep]
                                          with inl = (fun _ -> false) (no callback registers inline) and ONE thread
   IN TM <id> <flags> <events>            one transform_mpi operation: events D0 D1 D2 P0 P1 C0 C1 W R
   IN CMP <id> <slots>                    compaction: slots "n" (null) or a request number *)
let ios = int_of_string
let nat = nat_of_int
let index_of p l =
  let rec go i = function [] -> None | x :: r -> if p x then Some i else go (i + 1) r in
  go 0 l
let rec last = function [] -> None | [x] -> Some x | _ :: r -> last r

let trace id toks =
  let g = ref m_init in
  let idmap = Hashtbl.create 64 and rev = Hashtbl.create 64 in
  let reject = ref None in
  let pend = ref [] and after = ref 0 and ndone = ref 0 in
  let chunk = int_of_nat max_poll_requests in
  let fail k msg = if !reject = None then reject := Some (Printf.sprintf "%d:%s" k msg) in
  let mreq k hid =
    match Hashtbl.find_opt idmap (ios hid) with
    | Some r -> Some r
    | None -> fail k ("unknown-request-" ^ hid); None in
  List.iteri (fun k tok ->
    if !reject = None then
      match String.split_on_char ',' tok with
      | ["E"; t; hid; st] ->
        if st <> "0" then fail k "single-thread-mode-enqueue-in-multithreaded-trace" else begin
          let t = nat (ios t) in
          let r = int_of_nat !g.next_req in
          Hashtbl.replace idmap (ios hid) r; Hashtbl.replace rev r (ios hid);
          let (g1, l1) = mstep OSubmit t !g Idle in
          let (g2, l2) = mstep ONoTest t g1 l1 in
          let (g3, l3) = mstep ONoTest t g2 l2 in
          (match l3 with Idle -> g := g3 | _ -> fail k "submit-not-idle") end
      | ["L"; t] ->
        (match mstep ONoTest (nat (ios t)) !g PLock with
         | (g1, PDrain) -> g := g1
         | _ -> fail k "lock-acquired-while-held-in-model")
      | ["V"; t; hid; size] ->
        (match mreq k hid with None -> () | Some r ->
          if !g.lock <> Some (nat (ios t)) then fail k "vector-push-without-the-lock" else
          match index_of (fun (a, _) -> int_of_nat a = r) !g.rq with
          | None -> fail k "request-not-in-model-queue"
          | Some i ->
            (match mstep (OPick (nat i)) (nat (ios t)) !g PDrain with
             | (g1, PDrain) ->
               if List.length g1.vreq <> ios size then fail k "vector-size-differs" else g := g1
             | _ -> fail k "drain-step"))
      | ["D"; hid] ->
        (match mreq k hid with None -> () | Some r ->
          incr ndone; g := fst (mstep (OMpi (nat r, false)) O !g Idle))
      | ["T"; t; pos; hid] ->
        (match mreq k hid with None -> () | Some r ->
          if !g.lock <> Some (nat (ios t)) then fail k "test-without-the-lock" else
          let pos = ios pos in
          (match mstep (OTest (nat (pos / chunk), nat (pos mod chunk))) (nat (ios t)) !g (PTest false) with
           | (g1, PTest true) ->
             (match last g1.ready with
              | Some x when int_of_nat x.rc_req = r && int_of_nat x.rc_cb = r -> g := g1
              | _ -> fail k "ready-entry-pairs-the-wrong-callback")
           | _ -> fail k "test-reported-a-slot-the-model-does-not-hold-complete"))
      | ["C"; t; before; aft] ->
        if !g.lock <> Some (nat (ios t)) then fail k "compact-without-the-lock"
        else if List.length !g.vreq <> ios before then fail k "vector-size-before-compaction-differs"
        else begin pend := []; after := ios aft end
      | ["P"; _; i; a; b] -> pend := (ios i, ios a, ios b) :: !pend
      | ["X"; t] ->
        (match mstep ONoTest (nat (ios t)) !g PCompact with
         | (g1, PReady true) ->
           let exp = List.rev !pend in
           if List.length g1.vreq <> !after || List.length exp <> !after then fail k "compacted-size-differs"
           else begin
             let ok = ref true in
             List.iteri (fun i (pi, a, b) ->
               let mr = (match List.nth g1.vreq i with Some r -> Hashtbl.find_opt rev (int_of_nat r) | None -> None) in
               let mc = Hashtbl.find_opt rev (int_of_nat (snd (List.nth g1.vcb i))) in
               if pi <> i || mr <> Some a || mc <> Some b then ok := false) exp;
             if !ok then g := g1 else fail k "compaction-pairing-differs"
           end
         | _ -> fail k "compact-step")
      | ["H"; t; hid; err] ->
        (match mreq k hid with None -> () | Some r ->
          match index_of (fun x -> int_of_nat x.rc_req = r) !g.ready with
          | None -> fail k "callback-taken-for-a-request-that-is-not-ready-in-the-model"
          | Some i ->
            let t = nat (ios t) in
            (match mstep (OPick (nat i)) t !g (PReady false) with
             | (g1, (PDec (_, x) as l1)) ->
               if x.rc_err <> (err <> "0") then fail k "callback-error-status-differs" else begin
                 let (g2, l2) = mstep ONoTest t g1 l1 in
                 let (g3, l3) = mstep ONoTest t g2 l2 in
                 let (g4, _) = mstep ONoTest t g3 l3 in
                 g := g4 end
             | _ -> fail k "dequeue-step"))
      | ["K"; wc; nc] ->
        if int_of_nat !g.in_flight <> ios wc then
          fail k (Printf.sprintf "all_in_flight-differs-impl-%s-model-%d" wc (int_of_nat !g.in_flight))
        else if List.length (calls !g.mlog) <> ios nc then
          fail k (Printf.sprintf "callback-count-differs-impl-%s-model-%d" nc (List.length (calls !g.mlog)))
      | ["S"; _; _; _] -> fail k "single-threaded-poll-event-in-multithreaded-trace"
      | _ -> ()) toks;
  match !reject with
  | Some m -> Printf.printf "OUT TRACE %s reject@%s\n" id m
  | None ->
    let cl = List.sort compare (List.map (fun r -> match Hashtbl.find_opt rev (int_of_nat r) with Some h -> h | None -> -1) (calls !g.mlog)) in
    let rec dups = function a :: (b :: _ as r) -> (if a = b then 1 else 0) + dups r | _ -> 0 in
    Printf.printf "OUT TRACE %s calls=%s dup=%d inflight=%d lost=%d\n" id
      (if cl = [] then "-" else String.concat "," (List.map string_of_int cl)) (dups cl)
      (int_of_nat !g.in_flight) (!ndone - List.length cl)

(* poll_singlethreaded: tokens E (2001: counted, single flag), V (2002: pushed), D (harness: MPI completes),
   S (2009: Testany hit), B (harness callback entered), R (2011: callback returned), C/P/X (compaction), K *)
let strace id toks =
  let g = ref m_init and l = ref SIdle in
  let inl = fun _ -> false in
  let idmap = Hashtbl.create 64 and rev = Hashtbl.create 64 in
  let reject = ref None in
  let pend = ref [] and after = ref 0 and ndone = ref 0 in
  let t0 = ref (-1) in
  let fail k msg = if !reject = None then reject := Some (Printf.sprintf "%d:%s" k msg) in
  let st o = let (g1, l1) = sstep inl o (nat (max !t0 0)) !g !l in g := g1; l := l1 in
  let thread k t =
    let t = ios t in
    if !t0 < 0 then t0 := t;
    if t <> !t0 then (fail k (Printf.sprintf "second-os-thread-%d-in-the-single-threaded-poller" t); false) else true in
  let mreq k hid =
    match Hashtbl.find_opt idmap (ios hid) with
    | Some r -> Some r
    | None -> fail k ("unknown-request-" ^ hid); None in
  (* bring the poller to the MPI_Testany call: enter the polling function if the thread is outside *)
  let to_test k =
    (match !l with SIdle -> st SoPoll | _ -> ());
    (match !l with SCheck -> st SoNoTest | _ -> ());
    (match !l with
     | SDrain -> st (SoPick O)
     | SIdle -> fail k "poll-works-while-the-model-counter-is-zero"
     | _ -> ());
    (match !l with STest -> true | _ -> fail k "poller-not-at-testany"; false) in
  List.iteri (fun k tok ->
    if !reject = None then
      match String.split_on_char ',' tok with
      | ["E"; t; hid; sm] ->
        if thread k t then begin
          if sm <> "1" then fail k "registration-took-the-queue-branch-(single_thread_mode_-is-off)" else
          match !l with
          | SIdle ->
            let r = int_of_nat !g.next_req in
            Hashtbl.replace idmap (ios hid) r; Hashtbl.replace rev r (ios hid);
            st SoSubmit; st SoNoTest;
            (match !l with SSPush (_, None) -> () | _ -> fail k "submit-steps")
          | SInCb (_, _) -> fail k "registration-from-inside-a-running-callback-(no_inline_add-violated)"
          | _ -> fail k "registration-while-the-model-thread-is-inside-the-poller"
        end
      | ["V"; t; hid; size] ->
        if thread k t then
        (match mreq k hid, !l with
         | Some r, SSPush (r', None) when int_of_nat r' = r ->
           st SoNoTest;
           if List.length !g.vreq <> ios size || List.length !g.vcb <> ios size then fail k "vector-size-differs"
         | Some _, _ -> fail k "vector-push-without-a-pending-registration"
         | None, _ -> ())
      | ["D"; hid] ->
        (match mreq k hid with None -> () | Some r ->
          incr ndone; g := fst (sstep inl (SoMpi (nat r, false)) (nat (max !t0 0)) !g !l))
      | ["S"; t; idx; hid] ->
        if thread k t then
        (match mreq k hid with None -> () | Some r ->
          if to_test k then begin
            st (SoTest (nat (ios idx)));
            match !l with
            | SDec (i, r', _) when int_of_nat i = ios idx && int_of_nat r' = r -> st SoNoTest
            | SDec (_, _, _) -> fail k "testany-slot-holds-another-request-in-the-model"
            | _ -> fail k "testany-reported-a-slot-the-model-does-not-hold-complete"
          end)
      | ["B"; hid; err] ->
        (match mreq k hid, !l with
         | Some r, SCall (_, r', e) when int_of_nat r' = r ->
           if e <> (err <> "0") then fail k "callback-error-status-differs" else begin
             st SoNoTest;
             match !g.mlog with
             | EvCall (c, rr, _) :: _ when int_of_nat c = r && int_of_nat rr = r -> ()
             | _ -> fail k "callback-in-the-slot-is-not-the-one-registered-with-the-request"
           end
         | Some _, _ -> fail k "callback-entered-but-the-model-thread-is-not-at-the-invocation"
         | None, _ -> ())
      | ["R"; t; idx; size] ->
        if thread k t then
        (match !l with
         | SInCb (i, _) when int_of_nat i = ios idx ->
           if List.length !g.vcb <> ios size then fail k "callbacks_-size-changed-while-the-callback-ran"
           else begin st SoRet; st SoNoTest end
         | _ -> fail k "callback-returned-but-the-model-thread-is-not-inside-it")
      | ["C"; t; before; aft] ->
        if thread k t then begin
          if to_test k then begin
            st SoNoTest;
            if List.length !g.vreq <> ios before then fail k "vector-size-before-compaction-differs"
            else begin pend := []; after := ios aft end
          end
        end
      | ["P"; _; i; a; b] -> pend := (ios i, ios a, ios b) :: !pend
      | ["X"; t] ->
        if thread k t then
        (match !l with
         | SCompact ->
           st SoNoTest;
           let exp = List.rev !pend in
           if List.length !g.vreq <> !after || List.length exp <> !after then fail k "compacted-size-differs"
           else begin
             let ok = ref true in
             List.iteri (fun i (pi, a, b) ->
               let mr = (match List.nth !g.vreq i with Some r -> Hashtbl.find_opt rev (int_of_nat r) | None -> None) in
               let mc = Hashtbl.find_opt rev (int_of_nat (snd (List.nth !g.vcb i))) in
               if pi <> i || mr <> Some a || mc <> Some b then ok := false) exp;
             if not !ok then fail k "compaction-pairing-differs"
           end
         | _ -> fail k "compaction-end-but-the-model-thread-is-not-compacting")
      | ["K"; wc; nc] ->
        if int_of_nat !g.in_flight <> ios wc then
          fail k (Printf.sprintf "all_in_flight-differs-impl-%s-model-%d" wc (int_of_nat !g.in_flight))
        else if List.length (calls !g.mlog) <> ios nc then
          fail k (Printf.sprintf "callback-count-differs-impl-%s-model-%d" nc (List.length (calls !g.mlog)))
      | ["L"; _] | ["T"; _; _; _] | ["H"; _; _; _] -> fail k "multithreaded-poll-event-in-single-threaded-trace"
      | _ -> ()) toks;
  match !reject with
  | Some m -> Printf.printf "OUT STRACE %s reject@%s\n" id m
  | None ->
    let cl = List.sort compare (List.map (fun r -> match Hashtbl.find_opt rev (int_of_nat r) with Some h -> h | None -> -1) (calls !g.mlog)) in
    let rec dups = function a :: (b :: _ as r) -> (if a = b then 1 else 0) + dups r | _ -> 0 in
    Printf.printf "OUT STRACE %s calls=%s dup=%d inflight=%d lost=%d\n" id
      (if cl = [] then "-" else String.concat "," (List.map string_of_int cl)) (dups cl)
      (int_of_nat !g.in_flight) (!ndone - List.length cl)

let tm id flags evs =
  match decode_mode (n_of_int (ios flags)) with
  | None -> Printf.printf "OUT TM %s invalid-mode\n" id
  | Some m ->
    let ev = function
      | "D0" -> EDispatch DOk | "D1" -> EDispatch DErr | "D2" -> EDispatch DThrow
      | "P0" -> EPoll false | "P1" -> EPoll true | "C0" -> ECallback false | "C1" -> ECallback true
      | "W" -> EWake | _ -> ERunTask in
    let s = tm_run_cur m (List.map ev evs) in
    Printf.printf "OUT TM %s nsig=%d done=%b tested=%b sigs=%s st=%b\n" id (List.length s.t_sigs)
      (s.t_pc = TDone) s.t_tested
      (String.concat "" (List.map (function SigValue -> "v" | SigError -> "e") s.t_sigs))
      (single_threaded true m)

let cmp id slots =
  let rs = List.map (fun s -> if s = "n" then None else Some (nat (ios s))) slots in
  let cs = List.mapi (fun i ro -> match ro with Some r -> (r, r) | None -> (nat (1000 + i), nat (1000 + i))) rs in
  let show (a, b) =
    String.concat "," (List.map (function Some r -> string_of_int (int_of_nat r) | None -> "n") a) ^ "/" ^
    String.concat "," (List.map (fun (c, r) -> string_of_int (int_of_nat c) ^ ":" ^ string_of_int (int_of_nat r)) b) in
  Printf.printf "OUT CMP %s spec=%s inplace=%s\n" id (show (compact rs cs)) (show (compact_inplace rs cs))

let () =
  try
    while true do
      let line = input_line stdin in
      match String.split_on_char ' ' line with
      | "IN" :: "TRACE" :: id :: _ :: _ :: toks -> trace id toks
      | "IN" :: "STRACE" :: id :: _ :: _ :: toks -> strace id toks
      | "IN" :: "TM" :: id :: flags :: evs -> tm id flags evs
      | "IN" :: "CMP" :: id :: slots -> cmp id (List.filter (fun s -> s <> "") slots)
      | _ -> ()
    done
  with End_of_file -> ()
