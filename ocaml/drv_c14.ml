(* C14 driver: replays the IN lines of the harnesses on the extracted models, prints OUT lines *)
let parse_op (s : string) : op =
  let num () = nat_of_int (int_of_string (String.sub s 1 (String.length s - 1))) in
  match s.[0] with
  | 'Q' -> OpReq | 'A' -> OpAdd (num ()) | 'R' -> OpRem (num ())
  | 't' -> OpTokCopy | 'u' -> OpTokDrop | 's' -> OpSrcCopy | _ -> OpSrcDrop
let parse_ops (s : string) : op list =
  if s = "-" || s = "" then [] else List.map parse_op (String.split_on_char '.' s)
let ints l = String.concat "," (List.map string_of_int l)

let handle_LS (id : string) (fields : string list) : unit =
  let kv = List.filter_map (fun f -> match String.index_opt f '=' with
    | Some i -> Some (String.sub f 0 i, String.sub f (i + 1) (String.length f - i - 1)) | None -> None) fields in
  let get k = try List.assoc k kv with Not_found -> "" in
  let tn = int_of_string (get "T") and cn = int_of_string (get "C") in
  let w0 = n_of_hex (get "w0") in
  let srcs = get "srcs" in
  let progs = Array.of_list (List.map parse_ops (String.split_on_char '|' (get "progs"))) in
  let bodies = if cn = 0 then [||] else Array.of_list (List.map parse_ops (String.split_on_char '|' (get "bodies"))) in
  let sched = List.map (fun s -> (nat_of_int (int_of_string s), false)) (split_on ',' (get "sched")) in
  let p = { cb_body = (fun c -> let i = int_of_nat c in if i < Array.length bodies then bodies.(i) else []);
            pika_id = (fun _ -> None); os_id = (fun t -> t) } in
  let progf t = let i = int_of_nat t in if i < Array.length progs then progs.(i) else [] in
  let srcf t = let i = int_of_nat t in if i < String.length srcs && srcs.[i] = '1' then S O else O in
  let (sites, (g, ls)) = st_trace p sched (st_init w0, st_locals progf srcf) [] in
  let per = Array.make tn [] in
  List.iter (fun e -> match e with
    | EvReq (t, r) -> let i = int_of_nat t in if i < tn then per.(i) <- (if r then 1 else 0) :: per.(i)
    | _ -> ()) g.log;
  let cbl f = ints (List.init cn (fun c -> f (g.cb (nat_of_int c)))) in
  let b2i b = if b then 1 else 0 in
  let alldone = List.for_all (fun t -> thread_done (ls (nat_of_int t))) (List.init tn (fun t -> t)) in
  Printf.printf "OUT LS %s sites=%s req=%s runs=%s inctor=%s ctor=%s dtor=%s bad=%d%d freq=%d fposs=%d stuck=%d\n" id
    (if sites = [] then "-" else ints (List.map (fun s -> let v = int_of_nat s in if v = 0 then -1 else v - 1400) sites))
    (String.concat "|" (Array.to_list (Array.map ints per)))
    (cbl (fun r -> int_of_nat r.cb_runs)) (cbl (fun r -> b2i r.cb_inctor))
    (cbl (fun r -> int_of_nat r.cb_ctor)) (cbl (fun r -> int_of_nat r.cb_dtor))
    (b2i g.bad_run_after_dtor) (b2i g.bad_dtor_during_run)
    (b2i (w_stop_requested g.word)) (b2i (w_stop_possible g.word)) (b2i (not alldone))

(* ---- handle histories (DIFF) ---- *)
(* C14 handle histories: replay `IN H <id> <op> ...` on the extracted model (Model/StopHandles.v,
   h_trace) and print the same `OUT H <id> ...` line as harness/c14_handles.cpp.
   Needs in the Extraction list: h_trace (brings hop, hstate, h_step, h_obs ...). *)
let hop_of_string (s : string) : hop option =
  let n = String.length s in
  if n < 3 then None else
  let args = String.split_on_char ',' (String.sub s 2 (n - 2)) in
  let nat x = nat_of_int (int_of_string x) in
  try
    match s.[0], s.[1], args with
    | 's', 'n', [i] -> Some (SrcNew (nat i))
    | 's', 'z', [i] -> Some (SrcNoState (nat i))
    | 's', 'c', [i; j] -> Some (SrcCopy (nat i, nat j))
    | 's', 'm', [i; j] -> Some (SrcMove (nat i, nat j))
    | 's', 'a', [i; j] -> Some (SrcAssign (nat i, nat j))
    | 's', 'v', [i; j] -> Some (SrcMoveAssign (nat i, nat j))
    | 's', 'x', [i; j] -> Some (SrcSwap (nat i, nat j))
    | 's', 'd', [i] -> Some (SrcDestroy (nat i))
    | 's', 'r', [i] -> Some (SrcRequest (nat i))
    | 't', 'z', [i] -> Some (TokDefault (nat i))
    | 't', 'g', [i; j] -> Some (TokGet (nat i, nat j))
    | 't', 'c', [i; j] -> Some (TokCopy (nat i, nat j))
    | 't', 'm', [i; j] -> Some (TokMove (nat i, nat j))
    | 't', 'a', [i; j] -> Some (TokAssign (nat i, nat j))
    | 't', 'v', [i; j] -> Some (TokMoveAssign (nat i, nat j))
    | 't', 'x', [i; j] -> Some (TokSwap (nat i, nat j))
    | 't', 'd', [i] -> Some (TokDestroy (nat i))
    | _ -> None
  with _ -> None

let handle_H (id : string) (ops : string list) : unit =
  let ops = List.filter (fun s -> s <> "") ops in
  let hs = List.map hop_of_string ops in
  if List.mem None hs then () else begin
    let h = List.map (function Some x -> x | None -> assert false) hs in
    let (obss, reqs) = h_trace h in
    let b x = if x then "1" else "0" in
    let side l =
      if l = [] then "-" else
      String.concat "," (List.map (fun (i, (p, r)) -> string_of_int (int_of_nat i) ^ ":" ^ b p ^ b r) l) in
    let obs (s, t) = side s ^ "|" ^ side t in
    let rs = if reqs = [] then "-" else String.concat "" (List.map b reqs) in
    Printf.printf "OUT H %s %s req=%s\n" id (String.concat ";" (List.map obs obss)) rs
  end

let () =
  try
    while true do
      let line = input_line stdin in
      match String.split_on_char ' ' line with
      | "IN" :: "LS" :: id :: rest -> handle_LS id rest
      | "IN" :: "H" :: id :: rest -> handle_H id rest
      | _ -> ()
    done
  with End_of_file -> ()
