(* C13 driver: replays the IN lines of harness/c13_join.cpp on the extracted model (Model/Join.v,
   fixed code lp = true, pf = true).
   IN SEQ  id m ini ops self   -> OUT SEQ id main=<results of task 0> self=<results of the self-joiner>
   IN RACE id J=<events> T=<events> -> OUT RACE id accept | reject:<why>
     acceptor: is there an interleaving of the joiner's and the target's observed event sequences
     (with the observed values: add accepted/refused, flag read) that the model can execute?
     spurious wake-ups are supplied by an environment task (AResume), as the agent contract allows. *)
let n0 = nat_of_int 0
let n1 = nat_of_int 1
let n2 = nat_of_int 2
let stepc tgt c t = step (tstep true true tgt) c (t, ())
let rec rev_events = function [] -> [] | e :: r -> rev_events r @ [e]

let str_of_ev tk e =
  let i = int_of_nat in
  match e with
  | EJoinRet (t, k) when t = tk -> Some (Printf.sprintf "J%d:ok" (i k))
  | EErr (t, k, NotJoinable) when t = tk -> Some (Printf.sprintf "J%d:NJ" (i k))
  | EErr (t, k, SelfJoin) when t = tk -> Some (Printf.sprintf "J%d:SELF" (i k))
  | EDetach (t, k) when t = tk -> Some (Printf.sprintf "D%d" (i k))
  | EJoinable (t, k, b) when t = tk -> Some (Printf.sprintf "Q%d:%d" (i k) (if b then 1 else 0))
  | _ -> None

let results g tk =
  let l = List.filter_map (str_of_ev tk) (List.rev g.log) in
  if l = [] then "-" else String.concat "," l

let op_of_string s =
  let k = nat_of_int (int_of_string (String.sub s 1 (String.length s - 1))) in
  match s.[0] with 'J' -> AJoin k | 'D' -> ADetach k | _ -> AJoinable k

let pcj c = (snd c n0).pc
let pct c = (snd c n1).pc

let apply_j tgt c e =
  let rec adv c fuel =
    if fuel = 0 then c else
    match pcj c with
    | PBody when (snd c n0).prog <> [] -> adv (stepc tgt c n0) (fuel - 1)
    | PJoinIP (_, _) -> adv (stepc tgt c n0) (fuel - 1)
    | _ -> c in
  match e with
  | "a0" | "a1" ->
    let c = adv c 4 in
    (match pcj c with
     | PJoinAdd (_, _) ->
       let c' = stepc tgt c n0 in
       (match pcj c', e with
        | PJoinChk (_, _, _), "a1" -> Some c'
        | PJoinDet (_, _), "a0" -> Some c'
        | _ -> None)
     | _ -> None)
  | "c0" | "c1" ->
    (match pcj c with
     | PJoinChk (_, _, _) ->
       let c' = stepc tgt c n0 in
       (match pcj c', e with
        | PJoinDet (_, _), "c1" -> Some c'
        | PJoinSusp (_, _), "c0" -> Some (stepc tgt c' n0)    (* the suspension itself *)
        | _ -> None)
     | _ -> None)
  | "w" ->
    (match pcj c with
     | PJoinWake (_, _) ->
       let c = if ((fst c).ag n0).blocked then stepc tgt c n2 else c in   (* spurious wake-up: environment *)
       if ((fst c).ag n0).blocked then None else Some (stepc tgt c n0)
     | _ -> None)
  | "r" ->
    (match pcj c with PJoinDet (_, _) -> Some (stepc tgt c n0) | _ -> None)
  | _ -> None

let apply_t tgt c e =
  let st () = stepc tgt c n1 in
  match e, pct c with
  | "b", PBody when (snd c n1).prog = [] -> Some (st ())
  (* k: 1312, unlocked, before the invocation: the entry was taken out of the list under the lock *)
  | "k", (PExit | PCbPop) -> let c' = st () in (match pct c' with PCbRun (_, _) -> Some c' | _ -> None)
  | "f", PCbRun (_, _) -> let c' = st () in (match pct c' with PCbRes _ -> Some c' | _ -> None)
  | "p", PCbRes _ -> Some (st ())
  | "n", (PExit | PCbPop) -> let c' = st () in (match pct c' with PFree -> Some c' | _ -> None)
  | _ -> None

let rec go tgt c js ts =
  match js, ts with
  | [], [] -> true
  | _ ->
    (match js with
     | e :: r -> (match apply_j tgt c e with Some c' -> go tgt c' r ts | None -> false)
     | [] -> false)
    ||
    (match ts with
     | e :: r -> (match apply_t tgt c e with Some c' -> go tgt c' js r | None -> false)
     | [] ->
       (* the target's records may be cut off when logging stops: unobserved suffix *)
       (match pct c with
        | PDone | PIdle -> false
        | _ -> if ((fst c).ag n1).blocked then false else go tgt (stepc tgt c n1) js []))

let field s pre =
  let lp = String.length pre in
  if String.length s >= lp && String.sub s 0 lp = pre then String.sub s lp (String.length s - lp) else "-"

let () =
  try
    while true do
      let line = input_line stdin in
      match String.split_on_char ' ' line with
      | ["IN"; "SEQ"; id; m; ini; ops; self] ->
        let m = int_of_string m in
        let self = self = "1" in
        let n = m + 1 + (if self then 1 else 0) in
        let st = nat_of_int (m + 1) in
        let tgt t k = if t = n0 then S k else t in
        let h0 t k =
          if t = n0 then (let ki = int_of_nat k in ki < m && ini.[ki] = '1')
          else self && t = st && k = n0 in
        let progs t =
          if t = n0 then List.map op_of_string (split_on ',' ops)
          else if self && t = st then [AJoin n0; AJoinable n0; ADetach n0; AJoinable n0]
          else [AWork; AYield; AWork] in
        let c0 = jrun true true tgt h0 (nat_of_int n) progs [] in
        let c = round_robin true true tgt (nat_of_int 60) (nat_of_int n) c0 in
        let ok = join_ok_b tgt (fst c) in
        Printf.printf "OUT SEQ %s main=%s self=%s%s\n" id (results (fst c) n0)
          (if self then results (fst c) st else "-") (if ok then "" else " MODEL-MONITOR-FAILED")
      | ["IN"; "RACE"; id; j; t] ->
        let js = split_on ',' (field j "J=") and ts = split_on ',' (field t "T=") in
        let tgt _ _ = n1 in
        let h0 _ _ = true in
        let progs x = if x = n0 then [AJoin n0] else if x = n1 then [] else List.init 64 (fun _ -> AResume n0) in
        let c0 = jrun true true tgt h0 (nat_of_int 3) progs [] in
        let acc = go tgt c0 js ts in
        Printf.printf "OUT RACE %s %s\n" id (if acc then "accept" else "reject")
      | _ -> ()
    done
  with End_of_file -> ()
