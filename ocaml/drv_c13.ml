(* C13 driver: replays the IN lines of harness/c13_join.cpp on the extracted model (Model/Join.v,
   fixed code lp = true, pf = true).
   IN SEQ  id m ini ops self   -> OUT SEQ id main=<results of task 0> self=<results of the self-joiner>
   IN RACE id J=<events> T=<events> -> OUT RACE id accept | reject:<why>
     acceptor: is there an interleaving of the joiner's and the target's observed event sequences
     (with the observed values: add accepted/refused, flag read) that the model can execute?
     spurious wake-ups are supplied by an environment task (AResume), as the agent contract allows. *)
let n0 = nat_of_int 0
let n1 = nat_of_int 1
let n2 = nat_of_int 2
let stepc tgt c t = step (tstep true true tgt) c (t, ())
let rec rev_events = function [] -> [] | e :: r -> rev_events r @ [e]

let str_of_ev tk e =
  let i = int_of_nat in
  match e with
  | EJoinRet (t, k) when t = tk -> Some (Printf.sprintf "J%d:ok" (i k))
  | EErr (t, k, NotJoinable) when t = tk -> Some (Printf.sprintf "J%d:NJ" (i k))
  | EErr (t, k, SelfJoin) when t = tk -> Some (Printf.sprintf "J%d:SELF" (i k))
  | EDetach (t, k) when t = tk -> Some (Printf.sprintf "D%d" (i k))
  | EJoinable (t, k, b) when t = tk -> Some (Printf.sprintf "Q%d:%d" (i k) (if b then 1 else 0))
  | _ -> None

let results g tk =
  let l = List.filter_map (str_of_ev tk) (List.rev g.log) in
  if l = [] then "-" else String.concat "," l

let op_of_string s =
  let k = nat_of_int (int_of_string (String.sub s 1 (String.length s - 1))) in
  match s.[0] with 'J' -> AJoin k | 'D' -> ADetach k | _ -> AJoinable k

let pcj c = (snd c n0).pc
let pct c = (snd c n1).pc

let apply_j tgt c e =
  let rec adv c fuel =
    if fuel = 0 then c else
    match pcj c with
    | PBody when (snd c n0).prog <> [] -> adv (stepc tgt c n0) (fuel - 1)
    | PJoinIP (_, _) -> adv (stepc tgt c n0) (fuel - 1)
    | _ -> c in
  match e with
  | "a0" | "a1" ->
    let c = adv c 4 in
    (match pcj c with
     | PJoinAdd (_, _) ->
       let c' = stepc tgt c n0 in
       (match pcj c', e with
        | PJoinChk (_, _, _), "a1" -> Some c'
        | PJoinDet (_, _), "a0" -> Some c'
        | _ -> None)
     | _ -> None)
  | "c0" | "c1" ->
    (match pcj c with
     | PJoinChk (_, _, _) ->
       let c' = stepc tgt c n0 in
       (match pcj c', e with
        | PJoinDet (_, _), "c1" -> Some c'
        | PJoinSusp (_, _), "c0" -> Some (stepc tgt c' n0)    (* the suspension itself *)
        | _ -> None)
     | _ -> None)
  | "w" ->
    (match pcj c with
     | PJoinWake (_, _) ->
       let c = if ((fst c).ag n0).blocked then stepc tgt c n2 else c in   (* spurious wake-up: environment *)
       if ((fst c).ag n0).blocked then None else Some (stepc tgt c n0)
     | _ -> None)
  | "r" ->
    (match pcj c with PJoinDet (_, _) -> Some (stepc tgt c n0) | _ -> None)
  | _ -> None

let apply_t tgt c e =
  let st () = stepc tgt c n1 in
  match e, pct c with
  | "b", PBody when (snd c n1).prog = [] -> Some (st ())
  (* k: 1312, unlocked, before the invocation: the entry was taken out of the list under the lock *)
  | "k", (PExit | PCbPop) -> let c' = st () in (match pct c' with PCbRun (_, _) -> Some c' | _ -> None)
  | "f", PCbRun (_, _) -> let c' = st () in (match pct c' with PCbRes _ -> Some c' | _ -> None)
  | "p", PCbRes _ -> Some (st ())
  | "n", (PExit | PCbPop) -> let c' = st () in (match pct c' with PFree -> Some c' | _ -> None)
  | _ -> None

let rec go tgt c js ts =
  match js, ts with
  | [], [] -> true
  | _ ->
    (match js with
     | e :: r -> (match apply_j tgt c e with Some c' -> go tgt c' r ts | None -> false)
     | [] -> false)
    ||
    (match ts with
     | e :: r -> (match apply_t tgt c e with Some c' -> go tgt c' js r | None -> false)
     | [] ->
       (* the target's records may be cut off when logging stops: unobserved suffix *)
       (match pct c with
        | PDone | PIdle -> false
        | _ -> if ((fst c).ag n1).blocked then false else go tgt (stepc tgt c n1) js []))

(* ---------------------------------------------------------------------------------------------
   IN REJOIN id var=<v> E=<tok>,...  -> OUT REJOIN id accept | reject      (+ GAP REJOIN id <n> <why>)
   Acceptor for the re-join-after-interruption traces of harness/c13_rejoin.cpp.  The tokens are the
   hook records of one case in GLOBAL log order, tagged with the task that executed the hook:
     J (task 0, program [AJoin 0; ACatch] x 8)   a1/a0 c0/c1 w r x
     T (task 1 = tgt 0 0, empty body)             b k f p n
     I (task 2, program [AIntr 0] x 8)            i  (request step + the wake-up step PIntrWake)
   task 3 is the environment ([AResume 0] x 64: spurious returns of J's suspension, as the agent
   contract allows).  Model: jrun true true (both fixes), h0 = everything joinable.
   WHAT IS CHECKED (driver-side search, not a Coq function): there is an execution of the extracted
   model  tstep true true  from the initial configuration in which
     (1) every token is matched, in the order of its role, by the model transition of that task it
         stands for, with the observed value: a1 = PJoinAdd pushes (J, S gen) / a0 = refused because
         ran || terminated; c1/c0 = PJoinChk reads flag J T (gen J) = true/false; w = the suspension
         (PJoinSusp: interruption point not taken, a_suspend) returned (J not blocked: woken by the
         model's own resumes or by the environment) and PJoinWake's interruption point is not taken;
         x = an interruption point of join throws (PJoinIP, PJoinSusp or PJoinWake with
         en && req; control continues behind ACatch); r = PJoinDet; b = thread function returned;
         k = PExit/PCbPop take the front entry out of the list (list non-empty); f = PCbRun sets the
         flag OF THAT ENTRY (its generation); p = PCbRes resumes; n = the list is empty, ran := true;
         i = AIntr accepted (interruption enabled) followed by the wake-up;
     (2) the cross-role order respects what the log proves: every hook is logged AFTER its
         transition's effect (x, r: no effect another task reads), and a task's transition happens
         after that task's previous hook returned; so if token A (role X) is logged before the
         PREDECESSOR of token B in B's own role (Y <> X), A's transition precedes B's.  Nothing else
         about the cross-role order is assumed (a hook may be logged late);
     (3) unobserved steps: J's body steps up to the join, the suspension itself, T's steps once its
         records are exhausted (logging stops while its exit phase may still run).
   A trace that stops early (J hangs, logging cut) is accepted if the observed prefix is an execution:
   hangs are judged by the monitors.  Tokens outside the vocabulary (?<site>) are dropped and reported
   on a GAP line (coverage gap, never an alarm); a search that exceeds its node budget answers
   accept + GAP. *)
let n3 = nat_of_int 3
type rjev = { role : int; code : string; pos : int; pred : int }

let rj_budget = ref 0
exception Rj_budget

let rj_accept (evs : rjev array) =
  let tgt _ _ = n1 in
  let h0 _ _ = true in
  let rec rep k l = if k = 0 then [] else l @ rep (k - 1) l in
  let progs x =
    if x = n0 then rep 8 [AJoin n0; ACatch]
    else if x = n1 then []
    else if x = n2 then List.init 8 (fun _ -> AIntr n0)
    else List.init 64 (fun _ -> AResume n0) in
  let c0 = jrun true true tgt h0 (nat_of_int 4) progs [] in
  let by_role r = List.filter (fun e -> e.role = r) (Array.to_list evs) in
  let seqs = [| Array.of_list (by_role 0); Array.of_list (by_role 1); Array.of_list (by_role 2) |] in
  let pcof c t = (snd c t).pc in
  let blocked_j c = ((fst c).ag n0).blocked in
  let unblock c = if blocked_j c then stepc tgt c n3 else c in
  (* J: run the unobserved body steps up to the interruption point at the entry of join *)
  let rec adv_ip c fuel =
    if fuel = 0 then c else
    match pcof c n0 with
    | PBody -> (match (snd c n0).prog with
                | (AJoin _ | ACatch) :: _ -> adv_ip (stepc tgt c n0) (fuel - 1)
                | _ -> c)
    | _ -> c in
  let is_body c = (match pcof c n0 with PBody -> true | _ -> false) in
  let apply_j c e =
    match e with
    | "a0" | "a1" ->
      let c = adv_ip c 4 in
      (match pcof c n0 with
       | PJoinIP (_, _) ->
         let c1 = stepc tgt c n0 in
         (match pcof c1 n0 with
          | PJoinAdd (_, _) ->
            let c2 = stepc tgt c1 n0 in
            (match pcof c2 n0, e with
             | PJoinChk (_, _, _), "a1" -> [c2]
             | PJoinDet (_, _), "a0" -> [c2]
             | _ -> [])
          | _ -> [])
       | _ -> [])
    | "c0" | "c1" ->
      (match pcof c n0 with
       | PJoinChk (_, _, _) ->
         let c1 = stepc tgt c n0 in
         (match pcof c1 n0, e with
          | PJoinDet (_, _), "c1" -> [c1]
          | PJoinSusp (_, _), "c0" -> [c1]
          | _ -> [])
       | _ -> [])
    | "w" ->
      let from_wake c =
        let c = unblock c in
        let c1 = stepc tgt c n0 in
        (match pcof c1 n0 with PJoinChk (_, _, _) -> [c1] | _ -> []) in
      (match pcof c n0 with
       | PJoinSusp (_, _) ->
         let c1 = stepc tgt c n0 in
         (match pcof c1 n0 with PJoinWake (_, _) -> from_wake c1 | _ -> [])
       | PJoinWake (_, _) -> from_wake c
       | _ -> [])
    | "x" ->
      (match pcof c n0 with
       | PJoinSusp (_, _) ->
         let c1 = stepc tgt c n0 in if is_body c1 then [c1] else []
       | PJoinWake (_, _) ->
         let c1 = stepc tgt (unblock c) n0 in if is_body c1 then [c1] else []
       | _ ->
         let c = adv_ip c 4 in
         (match pcof c n0 with
          | PJoinIP (_, _) -> let c1 = stepc tgt c n0 in if is_body c1 then [c1] else []
          | _ -> []))
    | "r" -> (match pcof c n0 with PJoinDet (_, _) -> [stepc tgt c n0] | _ -> [])
    | _ -> [] in
  let apply_t c e = (match apply_t tgt c e with Some c' -> [c'] | None -> []) in
  let apply_i c e =
    match e, pcof c n2 with
    | "i", PBody ->
      let c1 = stepc tgt c n2 in
      (match pcof c1 n2 with PIntrWake _ -> [stepc tgt c1 n2] | _ -> [])
    | _ -> [] in
  let len r = Array.length seqs.(r) in
  (* position of the next unconsumed token of role r (max_int: none) *)
  let nextpos idx r = if idx.(r) < len r then seqs.(r).(idx.(r)).pos else max_int in
  let enabled idx r =
    let b = seqs.(r).(idx.(r)) in
    List.for_all (fun r' -> r' = r || nextpos idx r' > b.pred) [0; 1; 2] in
  let rec go c idx =
    decr rj_budget;
    if !rj_budget <= 0 then raise Rj_budget;
    if idx.(0) >= len 0 && idx.(1) >= len 1 && idx.(2) >= len 2 then true
    else begin
      (* candidates in log order *)
      let roles = List.filter (fun r -> idx.(r) < len r) [0; 1; 2] in
      let roles = List.sort (fun a b -> compare (nextpos idx a) (nextpos idx b)) roles in
      List.exists (fun r ->
          enabled idx r &&
          (let e = seqs.(r).(idx.(r)) in
           let succ = (match r with 0 -> apply_j c e.code | 1 -> apply_t c e.code | _ -> apply_i c e.code) in
           let idx' = Array.copy idx in
           idx'.(r) <- idx.(r) + 1;
           List.exists (fun c' -> go c' idx') succ)) roles
      ||
      (* J suspends unobserved: the interruption may be delivered after the suspension *)
      (idx.(0) < len 0 && seqs.(0).(idx.(0)).code = "x" &&
       (match pcof c n0 with
        | PJoinSusp (_, _) ->
          let c1 = stepc tgt c n0 in
          (match pcof c1 n0 with PJoinWake (_, _) -> go c1 idx | _ -> false)
        | _ -> false))
      ||
      (* the target's records are exhausted: it goes on unobserved *)
      (idx.(1) >= len 1 &&
       (match pcof c n1 with
        | PDone | PIdle -> false
        | PBody -> false                      (* its body ends only at the observed b *)
        | _ -> if ((fst c).ag n1).blocked then false else go (stepc tgt c n1) idx))
    end in
  go c0 [| 0; 0; 0 |]

let rejoin_line id e =
  let toks = if e = "-" then [] else split_on ',' e in
  let gaps = ref [] in
  let last = [| -1; -1; -1 |] in
  let evs = ref [] in
  List.iteri (fun pos tk ->
      let known r code =
        evs := { role = r; code = code; pos = pos; pred = last.(r) } :: !evs;
        last.(r) <- pos in
      let body = if String.length tk > 1 then String.sub tk 1 (String.length tk - 1) else "" in
      match tk.[0], body with
      | 'J', ("a0" | "a1" | "c0" | "c1" | "w" | "r" | "x") -> known 0 body
      | 'T', ("b" | "k" | "f" | "p" | "n") -> known 1 body
      | 'I', "i" -> known 2 body
      | _ -> gaps := tk :: !gaps) toks;
  let evs = Array.of_list (List.rev !evs) in
  rj_budget := 2000000;
  let acc = (try rj_accept evs with Rj_budget -> (gaps := "search-budget" :: !gaps; true)) in
  if !gaps <> [] then
    Printf.printf "GAP REJOIN %s %d %s\n" id (List.length !gaps) (String.concat "," (List.rev !gaps));
  Printf.printf "OUT REJOIN %s %s\n" id (if acc then "accept" else "reject")

let field s pre =
  let lp = String.length pre in
  if String.length s >= lp && String.sub s 0 lp = pre then String.sub s lp (String.length s - lp) else "-"


(* IN HUSE id workers= tb= who= when= ops=<member>,...   (harness/c13_huse.cpp)
   -> OUT HUSE id calls_returned= target_interrupted= join_returned= joinable_after=  [MODEL-MONITOR-FAILED ...]
   The layered model (Model/JoinLock.v) with the locking shape read from the source (join_unlocks_before_wait):
   task 0 = the joiner (handle (0,0) -> task 1), task 1 = the target, blocked in an interruptible wait (modelled as a
   join on something that never terminates, whatever the facility), thread 2 = the third party. *)
let huse_line id fields =
  let get k = List.fold_left (fun acc f -> let v = field f (k ^ "=") in if v <> "-" then v else acc) "-" fields in
  let ops = split_on ',' (get "ops") and whenv = get "when" in
  let unl = join_unlocks_before_wait in
  let tgt t _ = if t = n0 then n1 else nat_of_int 7 in
  let detached = ref false in
  let hops = List.concat_map (fun o ->
      match o with
      | "swap" | "move" -> [HObs (n0, n0); HObs (n0, n0)]
      | "detach" -> detached := true; [HDetach (n0, n0)]
      | "interrupt" -> if !detached then [HIntrId n1] else [HIntr (n0, n0)]
      | _ -> [HObs (n0, n0)]) ops in
  let n3 = nat_of_int 3 in
  let c0 = (lg_init (fun _ _ -> true), ll_init n2 (fun _ -> [AJoin n0]) (fun t -> if t = n2 then hops else [])) in
  let fuel = nat_of_int 1000 in
  let c = lrun_task unl tgt fuel n1 c0 in
  let c =
    if whenv = "suspended" then lrun_task unl tgt fuel n0 c
    else begin
      (* hook 1302: callback accepted, the wait loop not yet entered *)
      let rec adv c k =
        if k = 0 then c else
        match ((snd c n0).bl).pc with
        | PJoinSusp (_, _) | PJoinWake (_, _) -> c
        | PJoinChk (_, _, _) when not unl || (fst c).hlk n0 n0 = None -> c
        | _ -> adv (step (ltstep unl tgt) c (n0, ())) (k - 1) in
      adv c 20
    end in
  let c = lrun_task unl tgt fuel n2 c in
  let c = lround_robin unl tgt (nat_of_int 12) n3 c in
  let g = (fst c).bg in
  let calls = calls_returned (snd c n2) in
  let tint = List.exists (function EIntrAt (t, _, _) when t = n1 -> true | _ -> false) g.log in
  let jret = List.exists (function EJoinRet (t, k) when t = n0 && k = n0 -> true | _ -> false) g.log in
  let b x = if x then 1 else 0 in
  Printf.printf "OUT HUSE %s calls_returned=%d target_interrupted=%d join_returned=%d joinable_after=%s%s\n" id (b calls) (b tint) (b jret)
    (if jret then string_of_int (b (g.hid n0 n0)) else "-")
    (match first_waiter unl tgt n3 c with
     | Some (t, (o, k)) ->
       Printf.sprintf " MODEL-MONITOR-FAILED stuck: thread %d waits for the lock of handle (%d,%d) owned by %s; join_unlocks_before_wait=%b"
         (int_of_nat t) (int_of_nat o) (int_of_nat k)
         (match (fst c).hlk o k with
          | Some h -> Printf.sprintf "task %d (suspended=%b)" (int_of_nat h) ((g.ag h).blocked)
          | None -> "nobody") unl
     | None -> "")

let () =
  try
    while true do
      let line = input_line stdin in
      match String.split_on_char ' ' line with
      | ["IN"; "SEQ"; id; m; ini; ops; self] ->
        let m = int_of_string m in
        let self = self = "1" in
        let n = m + 1 + (if self then 1 else 0) in
        let st = nat_of_int (m + 1) in
        let tgt t k = if t = n0 then S k else t in
        let h0 t k =
          if t = n0 then (let ki = int_of_nat k in ki < m && ini.[ki] = '1')
          else self && t = st && k = n0 in
        let progs t =
          if t = n0 then List.map op_of_string (split_on ',' ops)
          else if self && t = st then [AJoin n0; AJoinable n0; ADetach n0; AJoinable n0]
          else [AWork; AYield; AWork] in
        let c0 = jrun true true tgt h0 (nat_of_int n) progs [] in
        let c = round_robin true true tgt (nat_of_int 60) (nat_of_int n) c0 in
        let ok = join_ok_b tgt (fst c) in
        Printf.printf "OUT SEQ %s main=%s self=%s%s\n" id (results (fst c) n0)
          (if self then results (fst c) st else "-") (if ok then "" else " MODEL-MONITOR-FAILED")
      | "IN" :: "HUSE" :: id :: fields -> huse_line id fields
      | ["IN"; "REJOIN"; id; _var; e] -> rejoin_line id (field e "E=")
      | ["IN"; "RACE"; id; j; t] ->
        let js = split_on ',' (field j "J=") and ts = split_on ',' (field t "T=") in
        let tgt _ _ = n1 in
        let h0 _ _ = true in
        let progs x = if x = n0 then [AJoin n0] else if x = n1 then [] else List.init 64 (fun _ -> AResume n0) in
        let c0 = jrun true true tgt h0 (nat_of_int 3) progs [] in
        let acc = go tgt c0 js ts in
        Printf.printf "OUT RACE %s %s\n" id (if acc then "accept" else "reject")
      | _ -> ()
    done
  with End_of_file -> ()
