(* C14 handle histories: replay `IN H <id> <op> ...` on the extracted model (Model/StopHandles.v,
   h_trace) and print the same `OUT H <id> ...` line as harness/c14_handles.cpp.
   Needs in the Extraction list: h_trace (brings hop, hstate, h_step, h_obs ...). *)
let hop_of_string (s : string) : hop option =
  let n = String.length s in
  if n < 3 then None else
  let args = String.split_on_char ',' (String.sub s 2 (n - 2)) in
  let nat x = nat_of_int (int_of_string x) in
  try
    match s.[0], s.[1], args with
    | 's', 'n', [i] -> Some (SrcNew (nat i))
    | 's', 'z', [i] -> Some (SrcNoState (nat i))
    | 's', 'c', [i; j] -> Some (SrcCopy (nat i, nat j))
    | 's', 'm', [i; j] -> Some (SrcMove (nat i, nat j))
    | 's', 'a', [i; j] -> Some (SrcAssign (nat i, nat j))
    | 's', 'v', [i; j] -> Some (SrcMoveAssign (nat i, nat j))
    | 's', 'x', [i; j] -> Some (SrcSwap (nat i, nat j))
    | 's', 'd', [i] -> Some (SrcDestroy (nat i))
    | 's', 'r', [i] -> Some (SrcRequest (nat i))
    | 't', 'z', [i] -> Some (TokDefault (nat i))
    | 't', 'g', [i; j] -> Some (TokGet (nat i, nat j))
    | 't', 'c', [i; j] -> Some (TokCopy (nat i, nat j))
    | 't', 'm', [i; j] -> Some (TokMove (nat i, nat j))
    | 't', 'a', [i; j] -> Some (TokAssign (nat i, nat j))
    | 't', 'v', [i; j] -> Some (TokMoveAssign (nat i, nat j))
    | 't', 'x', [i; j] -> Some (TokSwap (nat i, nat j))
    | 't', 'd', [i] -> Some (TokDestroy (nat i))
    | _ -> None
  with _ -> None

let handle_H (id : string) (ops : string list) : unit =
  let ops = List.filter (fun s -> s <> "") ops in
  let hs = List.map hop_of_string ops in
  if List.mem None hs then () else begin
    let h = List.map (function Some x -> x | None -> assert false) hs in
    let (obss, reqs) = h_trace h in
    let b x = if x then "1" else "0" in
    let side l =
      if l = [] then "-" else
      String.concat "," (List.map (fun (i, (p, r)) -> string_of_int (int_of_nat i) ^ ":" ^ b p ^ b r) l) in
    let obs (s, t) = side s ^ "|" ^ side t in
    let rs = if reqs = [] then "-" else String.concat "" (List.map b reqs) in
    Printf.printf "OUT H %s %s req=%s\n" id (String.concat ";" (List.map obs obss)) rs
  end
