(* Props/Properties_C01.v — C01: every submitted task runs exactly once, on one worker at a time.
   Only statements; each is closed by [exact] of a lemma from Proofs/SchedProofs.v and followed
   by Print Assumptions.  All theorems quantify over every schedule (list (thread * oracle)),
   every assignment of threads to {worker, external submitter/waker} (ext : nat -> option
   program; every nat is a thread), every task program (yield, yield-boost, suspend, register,
   spawn run-now / staged, resume of any task) and every choice of the element a pop returns
   (the oracle: FIFO, LIFO, stealing from any queue).
   Thread objects are recycled: `tasks` is indexed by thread OBJECT, every handle carries an object
   id, reference counts / terminated_items / heaps / rebind are modelled (Model/Sched.v); t, a, b,
   x below are objects, i is an incarnation (task) number: gid g x = the task x is bound to.
   Two models: sched_run (Model/Sched.v) is the fragment WITHOUT yield_to — an act `YieldTo u` is
   executed there as a plain yield (the hint is ignored); sched_runY (Model/SchedY.v) adds the
   hand-over through next_thrd (the target's queue entry stays behind: duplicate handles).
   C01_sched_yield_to_fragment: on programs without YieldTo the two coincide, so every theorem
   stated for sched_run below holds of sched_runY for such programs.  For ALL programs of the
   extended model: C01_sched_yield_to_handles / _no_drop / C01_sched_cas_failure_absorbs_duplicate;
   single runner and entered-once are FALSE there (C01_sched_single_runner_yield_to_refuted). *)
From Coq Require Import List NArith.
From Pika Require Import Base.Conc Gen.GenEnums Model.Sched Model.SchedY Proofs.SchedProofs Proofs.SchedWakeProofs
  Proofs.SchedRecycleProofs Proofs.SchedDeltaProofs Proofs.SchedAbortProofs Proofs.SchedAcceptProofs
  Proofs.SchedYProofs.
Import ListNotations.

(* at most one worker is between a successful pending->active CAS and the matching store for
   a given task, in every reachable configuration *)
Theorem C01_sched_single_runner : forall sched ext a b t,
  let c := sched_run sched ext in
  running (snd c a) t -> running (snd c b) t -> a = b.
Proof. exact sched_single_runner. Qed.
Print Assumptions C01_sched_single_runner.

(* the phase events of every task (incarnation i; events are keyed by incarnation, so this holds
   per task across recycling of its object), in chronological order, are exactly a prefix of
   Enter 0, Exit 0, Enter 1, Exit 1, ...: the body is entered for phase 0 at most once, and
   phase k+1 is entered only after phase k returned *)
Theorem C01_sched_entered_once : forall sched ext i,
  let g := fst (sched_run sched ext) in
  phases_of i (rev (log g)) = alt (length (phases_of i (log g))).
Proof. exact sched_entered_once. Qed.
Print Assumptions C01_sched_entered_once.

(* a pending / pending_boost / active task is referenced by exactly one handle (a queue entry,
   a worker's thrd, or a waker about to enqueue it); a suspended or terminated one by none;
   there is no other state *)
Theorem C01_sched_handles : forall sched ext t,
  let c := sched_run sched ext in
  t < ntasks (fst c) ->
  (live_st (st (tw_of (fst c) t)) ->
     (In t (pend (fst c)) \/ exists a, holds (snd c a) t) /\
     NoDup (pend (fst c)) /\
     (forall a, holds (snd c a) t -> ~ In t (pend (fst c))) /\
     (forall a b, holds (snd c a) t -> holds (snd c b) t -> a = b)) /\
  (st (tw_of (fst c) t) = st_suspended \/ st (tw_of (fst c) t) = st_terminated ->
     ~ In t (pend (fst c)) /\ forall a, ~ holds (snd c a) t) /\
  (live_st (st (tw_of (fst c) t)) \/ st (tw_of (fst c) t) = st_suspended \/ st (tw_of (fst c) t) = st_terminated).
Proof. exact sched_handles. Qed.
Print Assumptions C01_sched_handles.

(* nothing is dropped: when nothing can move any more (and the pool has a worker), the queues
   and the staged list are empty and every task ever created is terminated or suspended
   (C02 shows that a suspended one has no wake-up issued for that suspension) *)
Theorem C01_sched_no_drop : forall sched ext w,
  ext w = None ->
  let c := sched_run sched ext in
  stuck c ->
  pend (fst c) = [] /\ staged (fst c) = [] /\
  forall t, t < ntasks (fst c) ->
    st (tw_of (fst c) t) = st_suspended \/ st (tw_of (fst c) t) = st_terminated.
Proof. exact sched_no_drop. Qed.
Print Assumptions C01_sched_no_drop.

(* in the fragment without yield_to (sched_run) the two "some other worker got in between"
   branches of the scheduling loop are dead: the pending->active CAS and the store never fail.
   With yield_to this is false: C01_sched_cas_fails_with_yield_to *)
Theorem C01_sched_cas_never_fails : forall sched ext a,
  let c := sched_run sched ext in
  (forall t w0, snd c a = WLoaded t w0 -> tw_of (fst c) t = w0 /\ st w0 = st_pending) /\
  (forall t orig ret cur, snd c a = WStoreC t orig ret cur -> tw_of (fst c) t = orig /\ cur = orig).
Proof. exact sched_cas_never_fails. Qed.
Print Assumptions C01_sched_cas_never_fails.

(* recycling: an object that waits for cleanup or sits in a heap — the only objects
   create_thread_object ever rebinds (new_slot) — is terminated, has reference count 0, and no
   handle of any kind refers to it: no queue entry, no worker's thrd (wref: from the pop to the
   release, WRelease included), no waker between its CAS and schedule_thread (holds), no staged
   retry helper, no helper body (until set_active_state has returned), no do_yield frame.  So
   no transition through a counted handle of the old task can hit the new one. *)
Theorem C01_sched_recycle_fresh : forall sched ext x,
  let c := sched_run sched ext in
  In x (term (fst c) ++ heap (fst c)) ->
  x < ntasks (fst c) /\ st (tw_of (fst c) x) = st_terminated /\ rc (fst c) x = 0 /\
  ~ In x (pend (fst c)) /\
  (forall a, wref (snd c a) <> Some x /\ ~ holds (snd c a) x) /\
  (forall b, In b (staged (fst c)) -> href b <> Some x) /\
  (forall y, y < ntasks (fst c) -> href (todo (tasks (fst c) y)) <> Some x) /\
  sref (fst c) x = 0 /\
  NoDup (term (fst c) ++ heap (fst c)).
Proof. exact sched_recycle_fresh. Qed.
Print Assumptions C01_sched_recycle_fresh.

(* conversely the count is exact enough: any counted reference (and any worker running the
   object, any waker about to enqueue it) keeps the count positive and the object out of
   terminated_items and the heaps — it cannot be rebound under a handle *)
Theorem C01_sched_refcount_guards : forall sched ext x,
  let c := sched_run sched ext in
  (In x (pend (fst c)) \/ (exists a, wref (snd c a) = Some x) \/
   (exists b, In b (staged (fst c)) /\ href b = Some x) \/
   (exists y, y < ntasks (fst c) /\ href (todo (tasks (fst c) y)) = Some x) \/
   1 <= sref (fst c) x \/ (exists a, running (snd c a) x) \/ (exists a, holds (snd c a) x)) ->
  1 <= rc (fst c) x /\ ~ In x (term (fst c) ++ heap (fst c)).
Proof. exact sched_refcount_guards. Qed.
Print Assumptions C01_sched_refcount_guards.

(* an incarnation is bound to at most one object *)
Theorem C01_sched_gid_inj : forall sched ext x y,
  let g := fst (sched_run sched ext) in
  x < ntasks g -> y < ntasks g -> gid g x = gid g y -> x = y.
Proof. exact sched_gid_inj. Qed.
Print Assumptions C01_sched_gid_inj.

(* NOT covered by the reference count, and false: "no waker in flight refers to a recycled
   object".  set_thread_state takes a thread_id_type (no reference; execution_agent::do_resume
   passes self_.get_thread_id()).  Witness: OS thread 1 loads (suspended,2) of task 0 and is
   delayed; thread 2 wakes task 0, it terminates, its object is cleaned up and rebound to task 1
   (tag back to 0), which runs and suspends at (suspended,2) again: the CAS prepared for task 0
   succeeds on task 1 and task 1 is enqueued (a spurious wake-up, allowed by C02's contract;
   single runner / entered once are unaffected: the CAS hands over exactly one handle). *)
Theorem C01_sched_waker_in_flight_stale_refuted :
  exists sched1 sched2 ext a x prev,
    let c1 := sched_run sched1 ext in
    let c2 := sched_run (sched1 ++ sched2) ext in
    let c3 := sched_run (sched1 ++ sched2 ++ [(a, oP)]) ext in
    sub_of (snd c1 a) = SCas x prev /\ gid (fst c1) x = 0 /\ tw_of (fst c1) x = prev /\
    (forall so, In so sched2 -> fst so <> a) /\
    In (SiteStore, {| st := st_active; tag := 4 |}, {| st := st_terminated; tag := 5 |}) (chain_of 0 (log (fst c2))) /\
    gid (fst c2) x = 1 /\ ntasks (fst c2) = 1 /\
    tw_of (fst c2) x = prev /\ ~ In (SiteSet, prev, w_pending prev) (chain_of 1 (log (fst c2))) /\
    In (SiteSet, prev, w_pending prev) (chain_of 1 (log (fst c3))) /\
    sub_of (snd c3 a) = SEnq x.
Proof. exact waker_in_flight_stale_refuted. Qed.
Print Assumptions C01_sched_waker_in_flight_stale_refuted.

(* acceptor completeness: for every schedule and every incarnation i, the extracted acceptor
   `accepts` (the function the harness compares the real runtime's per-incarnation chains against)
   accepts the chain of state-word transitions that the model's own log contains for i —
   chain_of i (log g) is exactly the projection the harness builds from hooks 101..104 — and the
   number of pending->active transitions of that chain equals the number of body entries of i in
   the log (`acts=` of the harness line).  So the acceptor never rejects a behaviour of the
   proved model: no false alarm can come from the acceptor itself. *)
Theorem C01_accepts_complete : forall sched ext i,
  let g := fst (sched_run sched ext) in
  accepts (chain_of i (log g)) = true /\
  activations (chain_of i (log g)) = enters_of i (log g).
Proof. exact accepts_complete. Qed.
Print Assumptions C01_accepts_complete.

(* and the accepted chain is the whole history of the word: it ends at the current word of the
   object the incarnation is bound to; an incarnation not yet created has the empty chain *)
Theorem C01_chain_exact : forall sched ext,
  let g := fst (sched_run sched ext) in
  (forall x, x < ntasks g -> chain_end w_init (chain_of (gid g x) (log g)) = tw_of g x) /\
  (forall i, ninc g <= i -> chain_of i (log g) = []).
Proof. exact chain_exact. Qed.
Print Assumptions C01_chain_exact.

(* ------------------------------------------------------------------ yield_to (Model/SchedY.v) *)
(* conservativity: on programs without YieldTo (nyt_ext: no YieldTo in any external program, at
   any nesting depth of Spawn) the extended model makes exactly the runs of the fragment model *)
Theorem C01_sched_yield_to_fragment : forall sched ext,
  nyt_ext ext ->
  fst (sched_runY sched ext) = fst (sched_run sched ext) /\
  forall a, snd (sched_runY sched ext) a = Base (snd (sched_run sched ext) a).
Proof. exact yield_to_fragment. Qed.
Print Assumptions C01_sched_yield_to_fragment.

(* the weakened handle invariant, for ALL programs of the extended model: a pending /
   pending_boost / active task has AT LEAST ONE current handle — a queue entry, or a thread whose
   handle the code will not drop while the word stays what it is (choldsY: a worker that has
   already loaded a word with which its CAS must fail, or that is on a drop branch, does not
   count); a pending_boost task is held by the worker that stored that state and is about to
   call set_state(pending); there is no state besides the five.  Duplicates exist (yield_to leaves
   the target's queue entry behind); uniqueness of handles is gone. *)
Theorem C01_sched_yield_to_handles : forall sched ext t,
  let c := sched_runY sched ext in
  t < ntasks (fst c) ->
  (live_st (st (tw_of (fst c) t)) ->
     In t (pend (fst c)) \/ exists a, choldsY (tw_of (fst c) t) (snd c a) t) /\
  (st (tw_of (fst c) t) = st_pending_boost -> exists a, boostsY (snd c a) t) /\
  (live_st (st (tw_of (fst c) t)) \/ st (tw_of (fst c) t) = st_suspended \/ st (tw_of (fst c) t) = st_terminated).
Proof. exact yield_to_handles. Qed.
Print Assumptions C01_sched_yield_to_handles.

(* nothing is dropped, with yield_to, for all programs: when nothing can move any more (and the
   pool has a worker) the queues and the staged list are empty and every task is suspended or
   terminated *)
Theorem C01_sched_yield_to_no_drop : forall sched ext w,
  ext w = None ->
  let c := sched_runY sched ext in
  stuckY c ->
  pend (fst c) = [] /\ staged (fst c) = [] /\
  forall t, t < ntasks (fst c) ->
    st (tw_of (fst c) t) = st_suspended \/ st (tw_of (fst c) t) = st_terminated.
Proof. exact yield_to_no_drop. Qed.
Print Assumptions C01_sched_yield_to_no_drop.

(* the failure branches absorb duplicates: a handle that a worker drops without running the task —
   its pending->active CAS must fail (the word moved on since it was loaded), the word it loaded is
   neither pending nor active (leftover branch), or its store must fail — is never the last
   current handle of a live task; the step changes nothing but the worker's pc *)
Theorem C01_sched_cas_failure_absorbs_duplicate : forall sched ext a t,
  let c := sched_runY sched ext in
  let g := fst c in
  t < ntasks g -> live_st (st (tw_of g t)) ->
  (forall w0, snd c a = Base (WLoaded t w0) ->
     (st w0 = st_pending -> tw_of g t <> w0) -> st w0 <> st_active ->
     (forall o, tstepY o a g (snd c a) = (g, Base (WRelease t))) /\
     (In t (pend g) \/ exists b, b <> a /\ choldsY (tw_of g t) (snd c b) t)) /\
  (forall orig ret cur, snd c a = Base (WStoreC t orig ret cur) -> tw_of g t <> orig ->
     (forall o, tstepY o a g (snd c a) = (g, Base (WRelease t))) /\
     (In t (pend g) \/ exists b, b <> a /\ choldsY (tw_of g t) (snd c b) t)) /\
  (forall orig cur nx, snd c a = WStoreCY t orig cur nx -> tw_of g t <> orig ->
     (forall o, tstepY o a g (snd c a) = (g, WReleaseY t nx)) /\
     (In t (pend g) \/ exists b, b <> a /\ choldsY (tw_of g t) (snd c b) t)).
Proof. exact cas_failure_absorbs_duplicate. Qed.
Print Assumptions C01_sched_cas_failure_absorbs_duplicate.

(* C01_sched_cas_never_fails is false with yield_to: worker 1 holds T in next_thrd and has
   loaded (pending,0); worker 2 popped T's queue entry and won the CAS *)
Theorem C01_sched_cas_fails_with_yield_to :
  exists sched ext a t w0,
    let c := sched_runY sched ext in
    snd c a = Base (WLoaded t w0) /\ st w0 = st_pending /\ tw_of (fst c) t <> w0 /\
    (exists b, b <> a /\ runningY (snd c b) t).
Proof. exact cas_fails_with_yield_to. Qed.
Print Assumptions C01_sched_cas_fails_with_yield_to.

(* single runner and entered once are FALSE of the extended model (hence of the code as read):
   yield_to (duplicate handle) + a pending_boost yield + a concurrent set_thread_state(pending).
   The worker that stored pending_boost calls set_state(pending), a blind load / CAS loop; between
   its store and that call a waker turns pending_boost into pending and the holder of the
   duplicate wins the tagged CAS and runs the task; set_state(pending) then overwrites `active`
   with `pending`, the task is pushed, a third worker wins the CAS again: two workers inside one
   body (phase events Enter 1, Enter 2 with no Exit between).  See notes/design/C01.md. *)
Theorem C01_sched_single_runner_yield_to_refuted :
  exists sched ext a b t,
    let c := sched_runY sched ext in
    runningY (snd c a) t /\ runningY (snd c b) t /\ a <> b /\
    phases_of (gid (fst c) t) (rev (log (fst c))) = [PEnter 0; PExit 0; PEnter 1; PEnter 2].
Proof. exact single_runner_yield_to_refuted. Qed.
Print Assumptions C01_sched_single_runner_yield_to_refuted.

(* ------------------------------------------------------------------ non-vacuity *)
(* the duplicate is absorbed and everything still runs exactly once: continuation of the witness
   of C01_sched_cas_fails_with_yield_to to a stuck configuration *)
Example C01_example_yield_to :
  let c := sched_runY (cf_sched1 ++ cf_sched2) cf_ext in
  stuckY c /\
  map (fun t => st (tw_of (fst c) t)) [0; 1] = [st_terminated; st_terminated] /\
  phases_of 0 (rev (log (fst c))) = [PEnter 0; PExit 0] /\
  phases_of 1 (rev (log (fst c))) = [PEnter 0; PExit 0; PEnter 1; PExit 1] /\
  rc (fst c) 0 = 0 /\ rc (fst c) 1 = 0 /\ heap (fst c) = [0; 1].
Proof.
  split; [|vm_compute; repeat split].
  rewrite (surjective_pairing (sched_runY (cf_sched1 ++ cf_sched2) cf_ext)).
  apply stuckY_intro; [vm_compute; reflexivity | vm_compute; reflexivity | vm_compute; reflexivity |].
  intros a. destruct a as [|[|[|a]]]; vm_compute; auto.
Qed.

(* one external submitter (thread 0), workers 1 and 2; the root task yields once, spawns a staged
   child that suspends itself after registering, and a run-now child that yields with
   pending_boost; round-robin schedule *)
Definition ex_ext : nat -> option (list act) :=
  fun i => match i with
           | 0 => Some [Spawn [Yield; Spawn [YieldBoost] true; Spawn [Register; Suspend] false] true]
           | _ => None end.
Definition ex_sched (n : nat) : list (nat * oracle) :=
  flat_map (fun _ => [(0, o_pop0); (1, o_pop0); (2, o_conv0); (2, o_pop0); (1, o_conv0)]) (seq 0 n).

Example C01_example_run :
  let c := sched_run (ex_sched 40) ex_ext in
  ntasks (fst c) = 3 /\
  map (fun t => st (tw_of (fst c) t)) [0; 1; 2] = [st_terminated; st_terminated; st_suspended] /\
  phases_of 0 (rev (log (fst c))) = [PEnter 0; PExit 0; PEnter 1; PExit 1] /\
  phases_of 1 (rev (log (fst c))) = [PEnter 0; PExit 0; PEnter 1; PExit 1] /\
  phases_of 2 (rev (log (fst c))) = [PEnter 0; PExit 0] /\
  pend (fst c) = [] /\ staged (fst c) = [].
Proof. vm_compute. repeat split. Qed.

(* the hypotheses of C01_sched_no_drop are satisfiable: that run ends in a stuck configuration *)
Example C01_example_stuck : stuck (sched_run (ex_sched 40) ex_ext).
Proof.
  rewrite (surjective_pairing (sched_run (ex_sched 40) ex_ext)).
  apply stuck_intro; [vm_compute; reflexivity | vm_compute; reflexivity | vm_compute; reflexivity |].
  intros a. destruct a as [|[|[|a]]]; vm_compute; auto.
Qed.

(* the acceptor accepts the state-word chains of that run *)
Example C01_example_accepts :
  let g := fst (sched_run (ex_sched 40) ex_ext) in
  forallb (fun t => accepts (chain_of t (log g))) [0; 1; 2] = true /\
  map (fun t => activations (chain_of t (log g))) [0; 1; 2] = [2; 2; 1].
Proof. vm_compute. split; reflexivity. Qed.

(* recycling really happens in the model: object 0 runs task 0 ([Yield]) to termination, is
   released (count 0), cleaned up, and rebound to task 1 ([]): one object, two incarnations, each
   entered once per phase; the premise of C01_sched_recycle_fresh is met on the way *)
Example C01_example_recycle :
  let c1 := sched_run rc_sched rc_ext in
  let c2 := sched_run (rc_sched ++ [(0, oP)] ++ rep 9 (1, oP)) rc_ext in
  heap (fst c1) = [0] /\ rc (fst c1) 0 = 0 /\ st (tw_of (fst c1) 0) = st_terminated /\
  ntasks (fst c2) = 1 /\ ninc (fst c2) = 2 /\ term (fst c2) = [0] /\
  phases_of 0 (rev (log (fst c2))) = [PEnter 0; PExit 0; PEnter 1; PExit 1] /\
  phases_of 1 (rev (log (fst c2))) = [PEnter 0; PExit 0] /\
  mon_ok 2 c2 = true.
Proof. vm_compute. repeat split. Qed.

(* ------------------------------------------------------------------------------------------
   Round p13a: the conversion batch loop thread_queue::add_new / thread_queue_mc::add_new
   (Model/AddNewBatch.v interprets the loop shape regenerated into Gen/GenAddNew.v: operand
   order of `while (add_count-- && addfrom->Q.pop(task, steal))`, post-decrement, early-return
   guard, counter updates of the body in source order). *)
From Coq Require Import ZArith.
From Pika Require Gen.GenAddNew Model.AddNewBatch Proofs.AddNewBatchProofs.

(* For BOTH regenerated loops, every description type, every staged list, pending list and
   budget (negative = no budget), with new_tasks_count_ = |staged| at the call: exactly
   n = min(budget, |staged|) descriptions (all when budget < 0) move to the back of the pending
   queue in order, the staged queue keeps the rest, nothing is dropped or duplicated
   (pending' ++ staged' = pending ++ staged), new_tasks_count_ = |staged'| again, the return
   value is n and the n new threads are in the thread map. *)
Theorem C01_add_new_batch_conserves :
  forall (D : Type) (sh : GenAddNew.add_new_shape),
    sh = GenAddNew.tq_add_new \/ sh = GenAddNew.mc_add_new ->
    forall (budget : Z) (staged : list D) (s : AddNewBatch.bst D),
      AddNewBatch.b_count s = Z.of_nat (length staged) ->
      let n := AddNewBatch.batch_size budget (length staged) in
      let r := AddNewBatch.add_new sh budget staged s in
      fst r = skipn n staged /\
      AddNewBatch.b_pending (snd r) = AddNewBatch.b_pending s ++ firstn n staged /\
      AddNewBatch.b_pending (snd r) ++ fst r = AddNewBatch.b_pending s ++ staged /\
      AddNewBatch.b_count (snd r) = Z.of_nat (length (fst r)) /\
      AddNewBatch.b_added (snd r) = n /\
      AddNewBatch.b_map (snd r) = rev (firstn n staged) ++ AddNewBatch.b_map s.
Proof. exact (@AddNewBatchProofs.add_new_batch_conserves). Qed.
Print Assumptions C01_add_new_batch_conserves.

(* Without the counter hypothesis (new_tasks_count_ is incremented after the push, so it may
   lag): nothing is dropped, duplicated or reordered, the offset between the counter and the
   staged queue is unchanged and the return value is the number of decrements. *)
Theorem C01_add_new_batch_never_drops :
  forall (D : Type) (sh : GenAddNew.add_new_shape),
    sh = GenAddNew.tq_add_new \/ sh = GenAddNew.mc_add_new ->
    forall (budget : Z) (staged : list D) (s : AddNewBatch.bst D),
      let r := AddNewBatch.add_new sh budget staged s in
      AddNewBatch.b_pending (snd r) ++ fst r = AddNewBatch.b_pending s ++ staged /\
      (AddNewBatch.b_count (snd r) - Z.of_nat (length (fst r)) =
        AddNewBatch.b_count s - Z.of_nat (length staged))%Z /\
      (Z.of_nat (AddNewBatch.b_added (snd r)) = AddNewBatch.b_count s - AddNewBatch.b_count (snd r))%Z.
Proof. exact (@AddNewBatchProofs.add_new_batch_never_drops). Qed.
Print Assumptions C01_add_new_batch_never_drops.

(* The other operand order (`while (addfrom->Q.pop(task, steal) && add_count--)`, everything else
   as regenerated): with budget 2 and three staged descriptions the third is popped and then
   dropped — it is in neither queue afterwards and new_tasks_count_ still counts it. *)
Theorem C01_add_new_pop_then_budget_drops_refuted :
  forall (sh : GenAddNew.add_new_shape),
    sh = GenAddNew.tq_add_new \/ sh = GenAddNew.mc_add_new ->
    exists (budget : Z) (staged : list nat) (s : AddNewBatch.bst nat),
      AddNewBatch.b_count s = Z.of_nat (length staged) /\
      (0 <= budget < Z.of_nat (length staged))%Z /\
      let r := AddNewBatch.add_new (AddNewBatch.swap_order sh) budget staged s in
      fst r = [] /\ AddNewBatch.b_pending (snd r) = [1; 2] /\
      In 3 (AddNewBatch.b_pending s ++ staged) /\
      ~ In 3 (AddNewBatch.b_pending (snd r) ++ fst r) /\
      AddNewBatch.b_count (snd r) = 1%Z /\ AddNewBatch.b_added (snd r) = 2.
Proof. exact AddNewBatchProofs.add_new_pop_then_budget_drops. Qed.
Print Assumptions C01_add_new_pop_then_budget_drops_refuted.

(* ... and that is what every call with 0 < budget < |staged| does with that operand order:
   exactly one description (the one after the budgeted n) is lost and new_tasks_count_ stays one
   too high (the runtime signature of seed c01d: staged count stuck, tasks that never run). *)
Theorem C01_add_new_pop_then_budget_loses_one :
  forall (D : Type) (sh : GenAddNew.add_new_shape),
    sh = GenAddNew.tq_add_new \/ sh = GenAddNew.mc_add_new ->
    forall (budget : Z) (staged : list D) (s : AddNewBatch.bst D),
      AddNewBatch.b_count s = Z.of_nat (length staged) ->
      (0 < budget < Z.of_nat (length staged))%Z ->
      let n := Z.to_nat budget in
      let r := AddNewBatch.add_new (AddNewBatch.swap_order sh) budget staged s in
      fst r = skipn (S n) staged /\
      AddNewBatch.b_pending (snd r) = AddNewBatch.b_pending s ++ firstn n staged /\
      S (length (AddNewBatch.b_pending (snd r) ++ fst r)) = length (AddNewBatch.b_pending s ++ staged) /\
      AddNewBatch.b_count (snd r) = (Z.of_nat (length (fst r)) + 1)%Z.
Proof. exact (@AddNewBatchProofs.add_new_pop_then_budget_loses_one). Qed.
Print Assumptions C01_add_new_pop_then_budget_loses_one.

(* non-vacuity: a batch of 64 out of 70 staged descriptions through thread_queue_mc::add_new, and
   an unbudgeted (-1) batch through thread_queue::add_new *)
Example C01_example_add_new_batch :
  let s := AddNewBatch.mkB [100; 101] 70%Z [] 0%Z 0 None in
  let r := AddNewBatch.add_new GenAddNew.mc_add_new 64%Z (seq 0 70) s in
  AddNewBatch.b_pending (snd r) = [100; 101] ++ seq 0 64 /\ fst r = seq 64 6 /\
  AddNewBatch.b_count (snd r) = 6%Z /\ AddNewBatch.b_added (snd r) = 64 /\
  let r2 := AddNewBatch.add_new GenAddNew.tq_add_new (-1)%Z (seq 0 70) s in
  AddNewBatch.b_pending (snd r2) = [100; 101] ++ seq 0 70 /\ fst r2 = [] /\
  AddNewBatch.b_count (snd r2) = 0%Z /\ AddNewBatch.b_mapcount (snd r2) = 70%Z.
Proof. vm_compute. repeat split. Qed.
