(* Props/Properties_C01.v — C01: every submitted task runs exactly once, on one worker at a time.
   Only statements; each is closed by [exact] of a lemma from Proofs/SchedProofs.v and followed
   by Print Assumptions.  All theorems quantify over every schedule (list (thread * oracle)),
   every assignment of threads to {worker, external submitter/waker} (ext : nat -> option
   program; every nat is a thread), every task program (yield, yield-boost, suspend, register,
   spawn run-now / staged, resume of any task) and every choice of the element a pop returns
   (the oracle: FIFO, LIFO, stealing from any queue).
   Fragment: no yield_to; thread-object recycling and reference counts are not modelled
   (sched_recycle_fresh is NOT proved: see notes/design/C01.md). *)
From Coq Require Import List NArith.
From Pika Require Import Base.Conc Gen.GenEnums Model.Sched Proofs.SchedProofs.
Import ListNotations.

(* at most one worker is between a successful pending->active CAS and the matching store for
   a given task, in every reachable configuration *)
Theorem C01_sched_single_runner : forall sched ext a b t,
  let c := sched_run sched ext in
  running (snd c a) t -> running (snd c b) t -> a = b.
Proof. exact sched_single_runner. Qed.
Print Assumptions C01_sched_single_runner.

(* the phase events of every task, in chronological order, are exactly a prefix of
   Enter 0, Exit 0, Enter 1, Exit 1, ...: the body is entered for phase 0 at most once, and
   phase k+1 is entered only after phase k returned *)
Theorem C01_sched_entered_once : forall sched ext t,
  let g := fst (sched_run sched ext) in
  phases_of t (rev (log g)) = alt (length (phases_of t (log g))).
Proof. exact sched_entered_once. Qed.
Print Assumptions C01_sched_entered_once.

(* a pending / pending_boost / active task is referenced by exactly one handle (a queue entry,
   a worker's thrd, or a waker about to enqueue it); a suspended or terminated one by none;
   there is no other state *)
Theorem C01_sched_handles : forall sched ext t,
  let c := sched_run sched ext in
  t < ntasks (fst c) ->
  (live_st (st (tw_of (fst c) t)) ->
     (In t (pend (fst c)) \/ exists a, holds (snd c a) t) /\
     NoDup (pend (fst c)) /\
     (forall a, holds (snd c a) t -> ~ In t (pend (fst c))) /\
     (forall a b, holds (snd c a) t -> holds (snd c b) t -> a = b)) /\
  (st (tw_of (fst c) t) = st_suspended \/ st (tw_of (fst c) t) = st_terminated ->
     ~ In t (pend (fst c)) /\ forall a, ~ holds (snd c a) t) /\
  (live_st (st (tw_of (fst c) t)) \/ st (tw_of (fst c) t) = st_suspended \/ st (tw_of (fst c) t) = st_terminated).
Proof. exact sched_handles. Qed.
Print Assumptions C01_sched_handles.

(* nothing is dropped: when nothing can move any more (and the pool has a worker), the queues
   and the staged list are empty and every task ever created is terminated or suspended
   (C02 shows that a suspended one has no wake-up issued for that suspension) *)
Theorem C01_sched_no_drop : forall sched ext w,
  ext w = None ->
  let c := sched_run sched ext in
  stuck c ->
  pend (fst c) = [] /\ staged (fst c) = [] /\
  forall t, t < ntasks (fst c) ->
    st (tw_of (fst c) t) = st_suspended \/ st (tw_of (fst c) t) = st_terminated.
Proof. exact sched_no_drop. Qed.
Print Assumptions C01_sched_no_drop.

(* in this fragment the two "some other worker got in between" branches of the scheduling loop
   are dead: the pending->active CAS and the store never fail *)
Theorem C01_sched_cas_never_fails : forall sched ext a,
  let c := sched_run sched ext in
  (forall t w0, snd c a = WLoaded t w0 -> tw_of (fst c) t = w0 /\ st w0 = st_pending) /\
  (forall t orig ret cur, snd c a = WStoreC t orig ret cur -> tw_of (fst c) t = orig /\ cur = orig).
Proof. exact sched_cas_never_fails. Qed.
Print Assumptions C01_sched_cas_never_fails.

(* ------------------------------------------------------------------ non-vacuity *)
(* one external submitter (thread 0), workers 1 and 2; the root task yields once, spawns a staged
   child that suspends itself after registering, and a run-now child that yields with
   pending_boost; round-robin schedule *)
Definition ex_ext : nat -> option (list act) :=
  fun i => match i with
           | 0 => Some [Spawn [Yield; Spawn [YieldBoost] true; Spawn [Register; Suspend] false] true]
           | _ => None end.
Definition ex_sched (n : nat) : list (nat * oracle) :=
  flat_map (fun _ => [(0, o_pop0); (1, o_pop0); (2, o_conv0); (2, o_pop0); (1, o_conv0)]) (seq 0 n).

Example C01_example_run :
  let c := sched_run (ex_sched 40) ex_ext in
  ntasks (fst c) = 3 /\
  map (fun t => st (tw_of (fst c) t)) [0; 1; 2] = [st_terminated; st_terminated; st_suspended] /\
  phases_of 0 (rev (log (fst c))) = [PEnter 0; PExit 0; PEnter 1; PExit 1] /\
  phases_of 1 (rev (log (fst c))) = [PEnter 0; PExit 0; PEnter 1; PExit 1] /\
  phases_of 2 (rev (log (fst c))) = [PEnter 0; PExit 0] /\
  pend (fst c) = [] /\ staged (fst c) = [].
Proof. vm_compute. repeat split. Qed.

(* the hypotheses of C01_sched_no_drop are satisfiable: that run ends in a stuck configuration *)
Example C01_example_stuck : stuck (sched_run (ex_sched 40) ex_ext).
Proof.
  rewrite (surjective_pairing (sched_run (ex_sched 40) ex_ext)).
  apply stuck_intro; [vm_compute; reflexivity | vm_compute; reflexivity |].
  intros a. destruct a as [|[|[|a]]]; vm_compute; auto.
Qed.

(* the acceptor accepts the state-word chains of that run *)
Example C01_example_accepts :
  let g := fst (sched_run (ex_sched 40) ex_ext) in
  forallb (fun t => accepts (chain_of t (log g))) [0; 1; 2] = true /\
  map (fun t => activations (chain_of t (log g))) [0; 1; 2] = [2; 2; 1].
Proof. vm_compute. split; reflexivity. Qed.
