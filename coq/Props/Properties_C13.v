(* Props/Properties_C13.v — C13: pika::thread and jthread: join waits for completion.
   Only statements; each is closed by [exact] of a lemma from Proofs/JoinProofs.v.
   Model: Model/Join.v, code after the `fix:` commit for F13 (lp = true), over the agent
   contract of Base/Agent.v: any task may resume any other task at any time (AResume), so a
   suspension may return spuriously; tokens left by resumes aimed at a running task are kept.
   Every task count n, every program, every schedule. *)
From Coq Require Import List Arith Bool.
From Pika Require Import Base.Conc Base.Agent Model.Join Proofs.JoinProofs Proofs.JoinProgress.
Import ListNotations.

(* join() returned  ==>  the target's thread function has returned and its exit callbacks ran
   (all of them: ran/terminated, or at least the one registered by this join) — unguarded:
   holds although suspensions may return spuriously *)
Theorem C13_join_after_body : forall tgt h0 n progs sched t k,
  let g := fst (jrun true tgt h0 n progs sched) in
  In (EJoinRet t k) (log g) ->
  bdone g (tgt t k) = true /\
  (ran g (tgt t k) = true \/ term g (tgt t k) = true \/ cbrun g t (tgt t k) = true).
Proof. exact join_after_body. Qed.
Print Assumptions C13_join_after_body.

(* after join or detach the handle is not joinable (and never becomes joinable again) *)
Theorem C13_not_joinable_after : forall tgt h0 n progs sched t k,
  let g := fst (jrun true tgt h0 n progs sched) in
  In (EJoinRet t k) (log g) \/ In (EDetach t k) (log g) -> hid g t k = false.
Proof. exact not_joinable_after. Qed.
Print Assumptions C13_not_joinable_after.

(* joining twice / after detach: reported as an error (invalid_status), state unchanged *)
Theorem C13_double_join_error : forall lp tgt t k g rest,
  blocked (ag g t) = false -> hid g t k = false ->
  tstep lp tgt tt t g (mkL PBody (AJoin k :: rest)) = (w_log g (EErr t k NotJoinable), mkL PBody rest).
Proof. exact double_join_error. Qed.
Print Assumptions C13_double_join_error.

(* joining oneself: reported as an error (thread_resource_error), state unchanged *)
Theorem C13_self_join_error : forall lp tgt t k g rest,
  blocked (ag g t) = false -> hid g t k = true -> tgt t k = t ->
  tstep lp tgt tt t g (mkL PBody (AJoin k :: rest)) = (w_log g (EErr t k SelfJoin), mkL PBody rest).
Proof. exact self_join_error. Qed.
Print Assumptions C13_self_join_error.

(* ~jthread returned (for a joinable jthread)  ==>  stop was requested, the body has returned,
   the handle is not joinable *)
Theorem C13_jthread_dtor_stops_and_joins : forall tgt h0 n progs sched t k,
  let g := fst (jrun true tgt h0 n progs sched) in
  In (EDtorRet t k) (log g) ->
  stopreq g (tgt t k) = true /\ bdone g (tgt t k) = true /\ hid g t k = false.
Proof. exact jthread_dtor_stops_and_joins. Qed.
Print Assumptions C13_jthread_dtor_stops_and_joins.

(* thread_interrupted is raised only by an interruption point (the only steps that log EIntrAt:
   explicit point, join entry, before and after a suspension), only while interruption is
   enabled, and only in a task for which some interrupt request was accepted *)
Theorem C13_interrupt_only_at_points_when_enabled : forall tgt h0 n progs sched t p e,
  let g := fst (jrun true tgt h0 n progs sched) in
  In (EIntrAt t p e) (log g) -> e = true /\ exists r, In (EIntrReq r t) (log g).
Proof. exact interrupt_only_when_enabled_and_requested. Qed.
Print Assumptions C13_interrupt_only_at_points_when_enabled.

(* an interrupt request changes only the target's request flag (and the log), its wake-up only
   the target's agent; while disabled it is refused *)
Theorem C13_interrupt_is_local : forall lp tgt t u g rest,
  blocked (ag g t) = false ->
  (en g u = true ->
     tstep lp tgt tt t g (mkL PBody (AIntr u :: rest)) =
       (w_log (w_req g (set1 (req g) u true)) (EIntrReq t u), mkL (PIntrWake u) rest)) /\
  (en g u = false ->
     tstep lp tgt tt t g (mkL PBody (AIntr u :: rest)) = (w_log g (EIntrRefused t u), mkL PBody rest)) /\
  tstep lp tgt tt t g (mkL (PIntrWake u) rest) = (w_ag g (set1 (ag g) u (a_resume (ag g u))), mkL PBody rest).
Proof.
  exact (fun lp tgt t u g rest Hb =>
    conj (interrupt_is_local_req lp tgt t u g rest Hb)
      (conj (interrupt_refused_when_disabled lp tgt t u g rest Hb) (interrupt_is_local_wake lp tgt t u g rest Hb))).
Qed.
Print Assumptions C13_interrupt_is_local.

(* join() does return (safety form).  [stuck c]: no task can take a non-stutter step.
   [inj_handles tgt h0]: a task is referred to by at most one valid handle (pika::thread is
   move-only; two handles for one thread cannot exist).  [acyclic_targets tgt h0 n]: a valid handle
   (t,k) refers to a task created later than t (t < tgt t k < n): no join cycles, no joins on
   things that are not tasks.  In every reachable stuck state of the fixed code, for every task
   count, program (bodies, yields, joins, detaches, ~jthread, interrupts, stale resumes by anybody
   at any time = spurious returns of the suspension) and schedule — i.e. for all three orders of
   the target's exit-callback run versus the joiner's add_thread_exit_callback / suspend —
   nobody is blocked in join() and every task has terminated. *)
Theorem C13_join_returns : forall tgt h0 n, inj_handles tgt h0 ->
  forall progs sched, acyclic_targets tgt h0 n ->
  let c := jrun true tgt h0 n progs sched in
  stuck true tgt c ->
  (forall t, blocked (ag (fst c) t) = false) /\ (forall t, t < n -> pc (snd c t) = PDone).
Proof. exact join_returns. Qed.
Print Assumptions C13_join_returns.

(* without the acyclicity assumption (join cycles are legitimate deadlocks): a task that is blocked
   in a stuck state sits in join()'s suspension on a valid handle whose target is not a task at
   all or is itself blocked in a join — never on a target that has finished or could still run.
   In particular a joiner is never left blocked by a target that ran its exit callbacks. *)
Theorem C13_join_blocked_only_on_blocked_target : forall tgt h0 n, inj_handles tgt h0 ->
  forall progs sched,
  let c := jrun true tgt h0 n progs sched in
  stuck true tgt c ->
  forall t, blocked (ag (fst c) t) = true ->
    exists k d, pc (snd c t) = PJoinWake k d /\ h0 t k = true /\
                (pc (snd c (tgt t k)) = PIdle \/ blocked (ag (fst c) (tgt t k)) = true).
Proof. exact join_blocked_only_on_blocked. Qed.
Print Assumptions C13_join_blocked_only_on_blocked_target.

(* why inj_handles is needed (E4 of the notes, API misuse only): two tasks joining the SAME target;
   the second registers between the target's front()() and pop_front(); pop_front removes the new
   entry; the second joiner is never resumed: stuck, task 1 blocked in join(), target PDone. *)
Theorem C13_join_returns_shared_target_refuted :
  let c := jrun true shared_tgt all_valid 3 shared_progs shared_sched in
  stuck true shared_tgt c /\ blocked (ag (fst c) 1) = true /\ pc (snd c 1) = PJoinWake 0 false /\
  pc (snd c 2) = PDone /\ pc (snd c 0) = PDone /\ bdone (fst c) 2 = true /\ flag (fst c) 1 2 = false.
Proof. exact join_returns_shared_target_refuted. Qed.
Print Assumptions C13_join_returns_shared_target_refuted.

(* non-vacuity: the hypotheses are satisfiable (chain 0 joins 1 joins 2) and a stuck state with
   everything terminated is reached after both joiners were blocked in join() *)
Example C13_join_returns_hyps : inj_handles chain_tgt chain_h0 /\ acyclic_targets chain_tgt chain_h0 3.
Proof. exact chain_hyps. Qed.
Example C13_join_returns_example :
  let c := jrun true chain_tgt chain_h0 3 chain_progs chain_sched in
  stuck true chain_tgt c /\ pc (snd c 0) = PDone /\ pc (snd c 1) = PDone /\ pc (snd c 2) = PDone /\
  In (EJoinRet 0 0) (log (fst c)) /\ In (EJoinRet 1 0) (log (fst c)) /\
  let c1 := jrun true chain_tgt chain_h0 3 chain_progs (jp_sch (jp_rep 5 0 ++ jp_rep 5 1)) in
  blocked (ag (fst c1) 0) = true /\ blocked (ag (fst c1) 1) = true.
Proof. exact join_returns_example. Qed.

(* the three orders are also exercised below as Examples (tests) and by the run-time watchdog. *)

Definition tg1 : nat -> nat -> nat := fun _ _ => 1%nat.
Definition all1 : nat -> nat -> bool := fun _ _ => true.
Definition progs3 : nat -> list act :=
  fun t => match t with 0%nat => [AJoin 0] | 1%nat => [AWork] | _ => [AResume 0] end.
Definition sch (l : list nat) : list (nat * unit) := map (fun t => (t, tt)) l.

(* regression witness F13 (code BEFORE the fix, lp = false): task 2 resumes the running joiner
   (a notified timed wait leaves such a token), the joiner registers its callback, its single
   suspension returns at once, join returns while the target has not even started *)
Example C13_F13_unfixed_early_return :
  let g := fst (jrun false tg1 all1 3 progs3 (sch [2;0;0;0;0;0;0;0;0]%nat)) in
  In (EJoinRet 0 0) (log g) /\ bdone g 1 = false /\ join_ok_b tg1 g = false.
Proof. vm_compute. repeat split. now left. Qed.

(* same schedule on the fixed code: the joiner re-checks the flag and blocks *)
Example C13_F13_fixed_blocks :
  let c := jrun true tg1 all1 3 progs3 (sch [2;0;0;0;0;0;0;0;0;0;0;0]%nat) in
  log (fst c) = [] /\ blocked (ag (fst c) 0) = true /\ pc (snd c 0%nat) = PJoinWake 0 false.
Proof. vm_compute. repeat split. Qed.

(* the three orders, fixed code: callbacks ran before add (refused) / between add and suspend
   (token) / after suspend (normal wake-up); all tasks finish, monitor holds *)
Example C13_three_orders :
  let run s := round_robin true tg1 20 3 (jrun true tg1 all1 3 progs3 (sch s)) in
  let ok c := all_done 3 c && join_ok_b tg1 (fst c) in
  ok (run [1;1;1;1;1;1;0;0;0]%nat) = true /\                       (* target done first *)
  ok (run [0;0;0;0;1;1;1;1;1;0]%nat) = true /\                     (* callback between add/check and suspend *)
  ok (run [0;0;0;0;0;1;1;1;1;1]%nat) = true.                       (* joiner suspended first *)
Proof. vm_compute. repeat split. Qed.
