(* Props/Properties_C13.v — C13: pika::thread and jthread: join waits for completion.
   Only statements; each is closed by [exact] of a lemma from Proofs/JoinProofs.v.
   Model: Model/Join.v, code after the `fix:` commits for F13 (lp = true: join loops on a per-call
   completion flag) and for the exit-callback loop (pf = true: a callback is taken out of the list
   under the lock before it is invoked), over the agent
   contract of Base/Agent.v: any task may resume any other task at any time (AResume), so a
   suspension may return spuriously; tokens left by resumes aimed at a running task are kept.
   Every task count n, every program, every schedule. *)
From Coq Require Import List Arith Bool.
From Pika Require Import Base.Conc Base.Agent Model.Join Proofs.JoinProofs Proofs.JoinProgress.
Import ListNotations.

(* join() returned  ==>  the target's thread function has returned and its exit callbacks ran
   (all of them: ran/terminated, or at least the one registered by this join) — unguarded:
   holds although suspensions may return spuriously *)
Theorem C13_join_after_body : forall tgt h0 n progs sched t k,
  let g := fst (jrun true true tgt h0 n progs sched) in
  In (EJoinRet t k) (log g) ->
  bdone g (tgt t k) = true /\
  (ran g (tgt t k) = true \/ term g (tgt t k) = true \/ cbrun g t (tgt t k) = true).
Proof. exact join_after_body. Qed.
Print Assumptions C13_join_after_body.

(* after join or detach the handle is not joinable (and never becomes joinable again) *)
Theorem C13_not_joinable_after : forall tgt h0 n progs sched t k,
  let g := fst (jrun true true tgt h0 n progs sched) in
  In (EJoinRet t k) (log g) \/ In (EDetach t k) (log g) -> hid g t k = false.
Proof. exact not_joinable_after. Qed.
Print Assumptions C13_not_joinable_after.

(* joining twice / after detach: reported as an error (invalid_status), state unchanged *)
Theorem C13_double_join_error : forall lp pf tgt t k g rest,
  blocked (ag g t) = false -> hid g t k = false ->
  tstep lp pf tgt tt t g (mkL PBody (AJoin k :: rest)) = (w_log g (EErr t k NotJoinable), mkL PBody rest).
Proof. exact double_join_error. Qed.
Print Assumptions C13_double_join_error.

(* joining oneself: reported as an error (thread_resource_error), state unchanged *)
Theorem C13_self_join_error : forall lp pf tgt t k g rest,
  blocked (ag g t) = false -> hid g t k = true -> tgt t k = t ->
  tstep lp pf tgt tt t g (mkL PBody (AJoin k :: rest)) = (w_log g (EErr t k SelfJoin), mkL PBody rest).
Proof. exact self_join_error. Qed.
Print Assumptions C13_self_join_error.

(* ~jthread returned (for a joinable jthread)  ==>  stop was requested, the body has returned,
   the handle is not joinable *)
Theorem C13_jthread_dtor_stops_and_joins : forall tgt h0 n progs sched t k,
  let g := fst (jrun true true tgt h0 n progs sched) in
  In (EDtorRet t k) (log g) ->
  stopreq g (tgt t k) = true /\ bdone g (tgt t k) = true /\ hid g t k = false.
Proof. exact jthread_dtor_stops_and_joins. Qed.
Print Assumptions C13_jthread_dtor_stops_and_joins.

(* thread_interrupted is raised only by an interruption point (the only steps that log EIntrAt:
   explicit point, join entry, before and after a suspension), only while interruption is
   enabled, and only in a task for which some interrupt request was accepted *)
Theorem C13_interrupt_only_at_points_when_enabled : forall tgt h0 n progs sched t p e,
  let g := fst (jrun true true tgt h0 n progs sched) in
  In (EIntrAt t p e) (log g) -> e = true /\ exists r, In (EIntrReq r t) (log g).
Proof. exact interrupt_only_when_enabled_and_requested. Qed.
Print Assumptions C13_interrupt_only_at_points_when_enabled.

(* an interrupt request changes only the target's request flag (and the log), its wake-up only
   the target's agent; while disabled it is refused *)
Theorem C13_interrupt_is_local : forall lp pf tgt t u g rest,
  blocked (ag g t) = false ->
  (en g u = true ->
     tstep lp pf tgt tt t g (mkL PBody (AIntr u :: rest)) =
       (w_log (w_req g (set1 (req g) u true)) (EIntrReq t u), mkL (PIntrWake u) rest)) /\
  (en g u = false ->
     tstep lp pf tgt tt t g (mkL PBody (AIntr u :: rest)) = (w_log g (EIntrRefused t u), mkL PBody rest)) /\
  tstep lp pf tgt tt t g (mkL (PIntrWake u) rest) = (w_ag g (set1 (ag g) u (a_resume (ag g u))), mkL PBody rest).
Proof.
  exact (fun lp pf tgt t u g rest Hb =>
    conj (interrupt_is_local_req lp pf tgt t u g rest Hb)
      (conj (interrupt_refused_when_disabled lp pf tgt t u g rest Hb) (interrupt_is_local_wake lp pf tgt t u g rest Hb))).
Qed.
Print Assumptions C13_interrupt_is_local.

(* join() does return (safety form).  [stuck c]: no task can take a non-stutter step.
   [acyclic_targets tgt h0 n]: a valid handle (t,k) refers to a task created later than t
   (t < tgt t k < n): no join cycles, no joins on things that are not tasks.  In every reachable
   stuck state of the fixed code, for every task count, program (bodies, yields, joins, detaches,
   ~jthread, interrupts, try/catch of thread_interrupted followed by further joins, stale resumes by
   anybody at any time = spurious returns of the suspension) and schedule — i.e. for all three
   orders of the target's exit-callback run versus the joiner's add_thread_exit_callback / suspend —
   nobody is blocked in join() and every task has terminated.  (Session c13e: the former hypothesis
   inj_handles — one valid handle per thread — is no longer needed: after the second fix every
   registered callback is invoked exactly once, however many there are.) *)
Theorem C13_join_returns : forall tgt h0 n progs sched, acyclic_targets tgt h0 n ->
  let c := jrun true true tgt h0 n progs sched in
  stuck true true tgt c ->
  (forall t, blocked (ag (fst c) t) = false) /\ (forall t, t < n -> pc (snd c t) = PDone).
Proof. exact join_returns. Qed.
Print Assumptions C13_join_returns.

(* without the acyclicity assumption (join cycles are legitimate deadlocks): a task that is blocked
   in a stuck state sits in join()'s suspension on a valid handle whose target is not a task at
   all or is itself blocked in a join — never on a target that has finished or could still run.
   In particular a joiner is never left blocked by a target that ran its exit callbacks. *)
Theorem C13_join_blocked_only_on_blocked_target : forall tgt h0 n progs sched,
  let c := jrun true true tgt h0 n progs sched in
  stuck true true tgt c ->
  forall t, blocked (ag (fst c) t) = true ->
    exists k d, pc (snd c t) = PJoinWake k d /\ h0 t k = true /\
                (pc (snd c (tgt t k)) = PIdle \/ blocked (ag (fst c) (tgt t k)) = true).
Proof. exact join_blocked_only_on_blocked. Qed.
Print Assumptions C13_join_blocked_only_on_blocked_target.

(* Join again after an interruption.  A joiner t that was interrupted inside join() (the
   interruption points before/after the suspension throw thread_interrupted out of join(), the
   handle stays joinable), catches it ([ACatch]) and calls join() again registers a SECOND exit
   callback with its own completion flag ([gen g t] = number of registrations made by t, the flag
   of the current one is [flag g t u (gen g t)]); the first, stale entry stays registered.
   (1) In EVERY reachable state the current registration of a joiner that waits inside join()
       — first or repeated, wherever the target is in its exit loop — is not lost: the flag is set
       and t is runnable (with a token if it is about to suspend), or the entry (t, gen t) is still
       in the target's list and the target's exit loop is not over, or the target holds exactly this
       entry and is about to invoke it, or the target has set the flag and is about to resume t.
   (2) Hence (acyclic targets) every reachable stuck state has nobody blocked and every task
       terminated: the second join returns once the target has finished.
   Stale callbacks only set their own flag and resume t spuriously (absorbed by the loop). *)
Theorem C13_rejoin_after_interrupt_returns : forall tgt h0 n progs sched,
  let c := jrun true true tgt h0 n progs sched in
  (forall t k, waitpc (pc (snd c t)) = Some k ->
     let g := fst c in let ls := snd c in let u := tgt t k in let cur := gen g t in
     (flag g t u cur = true /\ blocked (ag g t) = false /\ (issusp (pc (ls t)) = true -> tok (ag g t) = true)) \/
     (In (t, cur) (cbs g u) /\ postcb (pc (ls u)) = false) \/
     pc (ls u) = PCbRun t cur \/
     (pc (ls u) = PCbRes t /\ flag g t u cur = true)) /\
  (acyclic_targets tgt h0 n -> stuck true true tgt c ->
     (forall t, blocked (ag (fst c) t) = false) /\ (forall t, t < n -> pc (snd c t) = PDone)).
Proof. exact rejoin_after_interrupt_returns. Qed.
Print Assumptions C13_rejoin_after_interrupt_returns.

(* regression witnesses for the second fix (code BEFORE it: pf = false).
   Public API: task 0 `try { t.join(); } catch (thread_interrupted const&) {} t.join();`, task 1
   interrupts task 0, task 2 is the target; the second registration lands between the target's
   front()() and pop_front(): pop_front removes it, the stale callback is invoked twice, the flag of
   the second join is never set: stuck with task 0 blocked in join() and the target terminated.
   Replayed on the real code by harness/c13_join.cpp (mode rejoin, variant 0). *)
Example C13_rejoin_unfixed_hangs :
  let c := jrun true false rj_tgt rj_h0 3 rj_progs rj_sched in
  stuck true false rj_tgt c /\ blocked (ag (fst c) 0) = true /\ pc (snd c 0) = PJoinWake 0 false /\
  pc (snd c 2) = PDone /\ pc (snd c 1) = PDone /\ term (fst c) 2 = true /\
  In (EIntrAt 0 IPSuspendPost true) (log (fst c)) /\ gen (fst c) 0 = 2 /\
  flag (fst c) 0 2 1 = true /\ flag (fst c) 0 2 2 = false /\ ~ In (EJoinRet 0 0) (log (fst c)).
Proof. exact rejoin_unfixed_hangs. Qed.
(* the same programs and schedule on the fixed code *)
Example C13_rejoin_fixed_returns :
  let c := jrun true true rj_tgt rj_h0 3 rj_progs rj_sched in
  stuck true true rj_tgt c /\ pc (snd c 0) = PDone /\ pc (snd c 1) = PDone /\ pc (snd c 2) = PDone /\
  In (EIntrAt 0 IPSuspendPost true) (log (fst c)) /\ In (EJoinRet 0 0) (log (fst c)) /\ gen (fst c) 0 = 2 /\
  flag (fst c) 0 2 1 = true /\ flag (fst c) 0 2 2 = true /\ hid (fst c) 0 0 = false /\
  let c1 := jrun true true rj_tgt rj_h0 3 rj_progs (jp_sch (jp_rep 5 0 ++ jp_rep 4 2 ++ jp_rep 2 1 ++ jp_rep 9 0)) in
  cbs (fst c1) 2 = [(0, 2)] /\ pc (snd c1 2) = PCbPop /\ blocked (ag (fst c1) 0) = true.
Proof. exact rejoin_fixed_returns. Qed.
(* the original code (before the F13 fix, lp = false, pf = false) returns on this schedule: every
   callback just resumed the joiner, so the one invoked twice replaced the one dropped *)
Example C13_rejoin_original_code_returns :
  let c := jrun false false rj_tgt rj_h0 3 rj_progs rj_sched in
  pc (snd c 0) = PDone /\ pc (snd c 2) = PDone /\ In (EJoinRet 0 0) (log (fst c)) /\ join_ok_b rj_tgt (fst c) = true.
Proof. exact rejoin_original_code_returns. Qed.
Example C13_rejoin_hyps : acyclic_targets rj_tgt rj_h0 3.
Proof. exact rj_hyps. Qed.
(* E4 in its small form (two joiners of one target, API misuse): strands the second joiner before
   the second fix, returns after it *)
Example C13_shared_target_unfixed_strands :
  let c := jrun true false shared_tgt all_valid 3 shared_progs shared_sched in
  stuck true false shared_tgt c /\ blocked (ag (fst c) 1) = true /\ pc (snd c 1) = PJoinWake 0 false /\
  pc (snd c 2) = PDone /\ pc (snd c 0) = PDone /\ bdone (fst c) 2 = true /\ flag (fst c) 1 2 1 = false.
Proof. exact shared_target_unfixed_strands. Qed.
Example C13_shared_target_fixed_returns :
  let c := jrun true true shared_tgt all_valid 3 shared_progs shared_sched in
  stuck true true shared_tgt c /\ pc (snd c 0) = PDone /\ pc (snd c 1) = PDone /\ pc (snd c 2) = PDone /\
  In (EJoinRet 0 0) (log (fst c)) /\ In (EJoinRet 1 0) (log (fst c)).
Proof. exact shared_target_fixed_returns. Qed.

(* non-vacuity: the hypotheses are satisfiable (chain 0 joins 1 joins 2) and a stuck state with
   everything terminated is reached after both joiners were blocked in join() *)
Example C13_join_returns_hyps : acyclic_targets chain_tgt chain_h0 3.
Proof. exact chain_hyps. Qed.
Example C13_join_returns_example :
  let c := jrun true true chain_tgt chain_h0 3 chain_progs chain_sched in
  stuck true true chain_tgt c /\ pc (snd c 0) = PDone /\ pc (snd c 1) = PDone /\ pc (snd c 2) = PDone /\
  In (EJoinRet 0 0) (log (fst c)) /\ In (EJoinRet 1 0) (log (fst c)) /\
  let c1 := jrun true true chain_tgt chain_h0 3 chain_progs (jp_sch (jp_rep 5 0 ++ jp_rep 5 1)) in
  blocked (ag (fst c1) 0) = true /\ blocked (ag (fst c1) 1) = true.
Proof. exact join_returns_example. Qed.

(* the three orders are also exercised below as Examples (tests) and by the run-time watchdog. *)

Definition tg1 : nat -> nat -> nat := fun _ _ => 1%nat.
Definition all1 : nat -> nat -> bool := fun _ _ => true.
Definition progs3 : nat -> list act :=
  fun t => match t with 0%nat => [AJoin 0] | 1%nat => [AWork] | _ => [AResume 0] end.
Definition sch (l : list nat) : list (nat * unit) := map (fun t => (t, tt)) l.

(* regression witness F13 (code BEFORE the fix, lp = false): task 2 resumes the running joiner
   (a notified timed wait leaves such a token), the joiner registers its callback, its single
   suspension returns at once, join returns while the target has not even started *)
Example C13_F13_unfixed_early_return :
  let g := fst (jrun false false tg1 all1 3 progs3 (sch [2;0;0;0;0;0;0;0;0]%nat)) in
  In (EJoinRet 0 0) (log g) /\ bdone g 1 = false /\ join_ok_b tg1 g = false.
Proof. vm_compute. repeat split. now left. Qed.

(* same schedule on the fixed code: the joiner re-checks the flag and blocks *)
Example C13_F13_fixed_blocks :
  let c := jrun true true tg1 all1 3 progs3 (sch [2;0;0;0;0;0;0;0;0;0;0;0]%nat) in
  log (fst c) = [] /\ blocked (ag (fst c) 0) = true /\ pc (snd c 0%nat) = PJoinWake 0 false.
Proof. vm_compute. repeat split. Qed.

(* the three orders, fixed code: callbacks ran before add (refused) / between add and suspend
   (token) / after suspend (normal wake-up); all tasks finish, monitor holds *)
Example C13_three_orders :
  let run s := round_robin true true tg1 20 3 (jrun true true tg1 all1 3 progs3 (sch s)) in
  let ok c := all_done 3 c && join_ok_b tg1 (fst c) in
  ok (run [1;1;1;1;1;1;0;0;0]%nat) = true /\                       (* target done first *)
  ok (run [0;0;0;0;1;1;1;1;1;0]%nat) = true /\                     (* callback between add/check and suspend *)
  ok (run [0;0;0;0;0;1;1;1;1;1]%nat) = true.                       (* joiner suspended first *)
Proof. vm_compute. repeat split. Qed.

(* ================= the handle's internal spinlock (Model/JoinLock.v, Proofs/JoinLockProofs.v) =================
   Model/Join.v plus, per pika::thread object (o,k), the owner of its mtx_, and third parties (any thread that is
   not a task of the base model: a pika task or an OS thread) calling joinable / get_id / native_handle /
   interruption_requested / swap / move (HObs), detach (HDetach), interrupt (HIntr) on handles they do not own.
   Whether join() releases mtx_ (`unlock_guard ul(l)`) between the accepted registration of its exit callback and
   its wait loop is read from thread.cpp on every run (Gen.GenJoin.join_unlocks_before_wait); the release is a
   step of its own.  Every task count, program, third-party call list and schedule. *)
From Pika Require Import Model.JoinLock Gen.GenJoin Proofs.JoinLockProofs.

(* in every reachable state: the owner of a handle lock is the handle's own task, it is not suspended, no
   unlock_guard re-lock is pending, and it stands inside join() between the entry and the release before the wait
   (interruption point / registration / the release itself) or in the final detach_locked();
   hence no task that is suspended or about to suspend (PJoinSusp) or just woken (PJoinWake) owns a handle lock *)
Theorem C13_no_suspend_holding_handle_lock : forall tgt h0 n progs hprogs sched,
  let c := ljrun join_unlocks_before_wait tgt h0 n progs hprogs sched in
  (forall o k t, hlk (fst c) o k = Some t ->
     o = t /\ blocked (ag (bg (fst c)) t) = false /\ relock (snd c t) = None /\ mayhold (pc (bl (snd c t))) k = true) /\
  (forall t, suspending (fst c) (snd c t) t -> forall o k, hlk (fst c) o k <> Some t).
Proof. exact no_suspend_holding_handle_lock. Qed.
Print Assumptions C13_no_suspend_holding_handle_lock.

(* a reachable state in which nothing can move: no handle lock is owned, nobody waits (spins) for one, and every
   third party has made all its calls — joinable(), get_id(), ..., interrupt() called during a join return *)
Theorem C13_handle_calls_return_during_join : forall tgt h0 n progs hprogs sched,
  let c := ljrun join_unlocks_before_wait tgt h0 n progs hprogs sched in
  lstuck join_unlocks_before_wait tgt c ->
  (forall o k, hlk (fst c) o k = None) /\
  (forall t, waits_for (fst c) t (snd c t) = None) /\
  (forall t, pc (bl (snd c t)) = PIdle -> calls_returned (snd c t) = true).
Proof. exact handle_calls_return_during_join. Qed.
Print Assumptions C13_handle_calls_return_during_join.

(* why the release matters (the shape join_unlocks_before_wait = false): J suspended owning its handle's lock, the
   target blocked for ever, the third party spinning in its first call, the interrupt never issued; nothing moves *)
Example C13_lock_held_across_suspend_blocks_handle_calls :
  let c := ljrun false w_tgt (fun _ _ => true) 2 w_progs w_hprogs w_sched_held in
  hlk (fst c) 0 0 = Some 0 /\ blocked (ag (bg (fst c)) 0) = true /\ blocked (ag (bg (fst c)) 1) = true /\
  waits_for (fst c) 2 (snd c 2) = Some (0, 0) /\ hops (snd c 2) = [HObs 0 0; HIntr 0 0] /\
  lstuck false w_tgt c.
Proof. exact witness_lock_held_across_suspend. Qed.

(* non-vacuity, the source's shape: the observer returns, the interrupt ends the blocked target at the interruption
   point after its suspension, the join returns *)
Example C13_handle_calls_during_join_example :
  let c := ljrun true w_tgt (fun _ _ => true) 2 w_progs w_hprogs w_sched_ok in
  calls_returned (snd c 2) = true /\ pc (bl (snd c 0)) = PDone /\ pc (bl (snd c 1)) = PDone /\
  log (bg (fst c)) = [EBodyDone 0; EJoinRet 0 0; EBodyDone 1; EIntrAt 1 IPSuspendPost true; EIntrReq 2 1] /\
  hlog (fst c) = [HObserved 2 0 0 true] /\ hlk (fst c) 0 0 = None.
Proof. exact witness_unlocked_returns. Qed.

(* ================= join() returns, over the handle-lock layer (Proofs/JoinLockProgress.v, round p13a) =================
   C13_join_returns re-stated for the layer run [ljrun] (the source's locking shape, read from thread.cpp): Model/Join.v
   plus the owner of every handle's mtx_, the release before join()'s wait and the re-lock after it as steps of their
   own, spinning on a lock that is not free, and third parties (threads that are not tasks of the base model) calling
   joinable/get_id/native_handle/... (HObs), detach (HDetach — also on a handle whose owner is inside join() on it),
   interrupt (HIntr, HIntrId) on handles they do not own, at any time.  [lstuck c]: no thread can take a step that
   changes the state (spinning and suspended threads do not move).  Hypothesis as for the base theorem:
   [acyclic_targets tgt h0 n] (a handle that is valid INITIALLY refers to a task created later than its owner).
   In every reachable layer-stuck state, for every task count, program, third-party call list and schedule:
   nobody is blocked in join(), every task has terminated (and has no ~unlock_guard re-lock pending), no handle lock
   is owned, and every third party has made all its calls. *)
From Pika Require Import Proofs.JoinLockProgress.

Theorem C13_join_returns_over_lock_layer : forall tgt h0 n progs hprogs sched, acyclic_targets tgt h0 n ->
  let c := ljrun join_unlocks_before_wait tgt h0 n progs hprogs sched in
  lstuck join_unlocks_before_wait tgt c ->
  (forall t, blocked (ag (bg (fst c)) t) = false) /\
  (forall t, t < n -> pc (bl (snd c t)) = PDone /\ relock (snd c t) = None) /\
  (forall o k, hlk (fst c) o k = None) /\
  (forall t, pc (bl (snd c t)) = PIdle -> calls_returned (snd c t) = true).
Proof. exact join_returns_over_lock_layer. Qed.
Print Assumptions C13_join_returns_over_lock_layer.

(* without acyclicity, over the layer: a thread that is blocked in a layer-stuck state sits in join()'s suspension on
   a handle that was valid initially and whose target is not a task at all or is itself blocked (in a join) — never
   on a target that has finished or could still run, and never because of a handle lock *)
Theorem C13_join_blocked_only_on_blocked_target_over_lock_layer : forall tgt h0 n progs hprogs sched,
  let c := ljrun join_unlocks_before_wait tgt h0 n progs hprogs sched in
  lstuck join_unlocks_before_wait tgt c ->
  forall t, blocked (ag (bg (fst c)) t) = true ->
    exists k d, pc (bl (snd c t)) = PJoinWake k d /\ h0 t k = true /\
                (pc (bl (snd c (tgt t k))) = PIdle \/ blocked (ag (bg (fst c)) (tgt t k)) = true).
Proof. exact layer_join_blocked_only_on_blocked. Qed.
Print Assumptions C13_join_blocked_only_on_blocked_target_over_lock_layer.

(* non-vacuity: the hypotheses hold (C13_join_returns_hyps: acyclic_targets chain_tgt chain_h0 3) on the chain 0 joins
   1 joins 2 with a third party (thread 3) that calls joinable() on task 0's handle, detach()es task 0's handle WHILE
   task 0 is suspended inside join() on it, and interrupt()s task 2 through task 1's handle; a layer-stuck state is
   reached with all tasks terminated, both joins returned, all calls made *)
Example C13_join_returns_over_lock_layer_example :
  let c := ljrun join_unlocks_before_wait chain_tgt chain_h0 3 chain_progs lc_hprogs lc_sched in
  lstuck join_unlocks_before_wait chain_tgt c /\
  pc (bl (snd c 0)) = PDone /\ pc (bl (snd c 1)) = PDone /\ pc (bl (snd c 2)) = PDone /\
  calls_returned (snd c 3) = true /\
  In (EJoinRet 0 0) (log (bg (fst c))) /\ In (EJoinRet 1 0) (log (bg (fst c))) /\ In (EIntrReq 3 2) (log (bg (fst c))) /\
  hlog (fst c) = [HDetached 3 0 0; HObserved 3 0 0 true] /\
  let c1 := ljrun join_unlocks_before_wait chain_tgt chain_h0 3 chain_progs lc_hprogs lc_sched1 in
  blocked (ag (bg (fst c1)) 0) = true /\ blocked (ag (bg (fst c1)) 1) = true /\
  pc (bl (snd c1 0)) = PJoinWake 0 false /\ hid (bg (fst c1)) 0 0 = false.
Proof. exact layer_join_returns_example. Qed.
