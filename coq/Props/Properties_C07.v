(* Props/Properties_C07.v — C07: condition variables never lose a notification.
   Only statements; each is closed by [exact] of a lemma from Proofs/CondVarProofs.v.
   Quantification: every number of waiters and notifiers, every mix of pika tasks and plain OS threads
   ([isos]), every program (user-lock operations, predicate writes, all wait forms, notify_one/notify_all,
   request_stop, yields, stale wake-up tokens), every schedule and deadline oracle.  The user lock is any
   Lockable: the model only uses lock (blocks while owned) and unlock. *)
From Coq Require Import List NArith Bool Arith.
From Pika Require Import Base.Conc Base.Agent Model.CondVar
  Proofs.CondVarInvA Proofs.CondVarInvB Proofs.CondVarInvC Proofs.CondVarProofs Proofs.CondVarStop
  Proofs.CondVarTimedStop.
From Pika Require Import Model.CondVarAbort Proofs.CondVarAbortProofs.
From Pika Require Import Gen.GenTimedPred Model.TimedPredLoop Proofs.TimedPredLoopProofs Proofs.CondVarTimedPred.
Import ListNotations.

(* releasing the user lock and becoming a waiter is atomic with respect to notifiers: whenever another
   thread is inside a critical section of the internal lock (every notify is), a waiter that has released
   the user lock in its current wait is queued, or a notifier has already taken its entry *)
Theorem C07_cv_atomic_release : forall isos progs sched t n,
  let c := cv_run isos sched progs in
  hu (snd c t) = false ->
  (cpc (snd c t) = CPush \/ released_waiting (cpc (snd c t)) = true) ->
  holds_i (cpc (snd c n)) = true -> n <> t ->
  In t (cqueue (fst c)) \/ sig (fst c) t = true.
Proof. exact cv_atomic_release. Qed.
Print Assumptions C07_cv_atomic_release.

Theorem C07_cv_released_is_queued : forall isos progs sched t,
  let c := cv_run isos sched progs in
  released_waiting (cpc (snd c t)) = true ->
  In t (cqueue (fst c)) \/ sig (fst c) t = true.
Proof. exact cv_released_is_queued. Qed.
Print Assumptions C07_cv_released_is_queued.

(* notify_one takes exactly the first waiter, marks it notified and resumes it; notify_all takes all *)
Theorem C07_notify_one_wakes_one : forall isos late t g td reps il h r w q,
  cqueue g = w :: q ->
  let l := {| ctodo := td; cpc := NPop false reps il; hu := h; reg := r |} in
  let s := cv_tstep isos late t g l in
  cqueue (fst s) = q /\ pend (fst s) = [w] /\ sig (fst s) w = true /\
  cvlog (fst s) = ENotify t false 1 :: cvlog g /\ cpc (snd s) = NRes false reps il.
Proof. exact notify_one_pops_head. Qed.
Print Assumptions C07_notify_one_wakes_one.

Theorem C07_notify_all_wakes_all : forall isos late t g td reps il h r,
  let l := {| ctodo := td; cpc := NPop true reps il; hu := h; reg := r |} in
  let s := cv_tstep isos late t g l in
  cqueue (fst s) = [] /\ pend (fst s) = cqueue g /\ (forall w, In w (cqueue g) -> sig (fst s) w = true) /\
  cvlog (fst s) = ENotify t true (length (cqueue g)) :: cvlog g /\ cpc (snd s) = NRes true reps il.
Proof. exact notify_all_pops_all. Qed.
Print Assumptions C07_notify_all_wakes_all.

Theorem C07_resume_unblocks_head : forall isos late t g l a reps il w rest,
  cpc l = NRes a reps il -> pend g = w :: rest -> (isos w = false \/ blocked (cag g w) = true) ->
  let s := cv_tstep isos late t g l in
  pend (fst s) = rest /\ blocked (cag (fst s) w) = false /\ cqueue (fst s) = cqueue g /\ snd s = l.
Proof. exact resume_unblocks_head. Qed.
Print Assumptions C07_resume_unblocks_head.

(* ... and the wake-up is never lost: a blocked thread is still queued and was never notified, or a notifier
   holding the internal lock is about to resume it; once the notifier has left, a notified waiter runs *)
Theorem C07_blocked_registered : forall isos progs sched t,
  let c := cv_run isos sched progs in
  blocked (cag (fst c) t) = true ->
  cpc (snd c t) = CSusp /\
  ((In t (cqueue (fst c)) /\ sig (fst c) t = false) \/
   (In t (pend (fst c)) /\ exists n, ilock (fst c) = Some n /\ is_nres (cpc (snd c n)) = true)).
Proof. exact cv_blocked_registered. Qed.
Print Assumptions C07_blocked_registered.

Theorem C07_notified_not_blocked : forall isos progs sched t,
  let c := cv_run isos sched progs in
  sig (fst c) t = true -> in_wait (cpc (snd c t)) = true -> ilock (fst c) = None ->
  blocked (cag (fst c) t) = false.
Proof. exact cv_notified_not_blocked. Qed.
Print Assumptions C07_notified_not_blocked.

Theorem C07_stuck_blocked_never_notified : forall isos progs sched t,
  (forall w, isos w = false) ->
  let c := cv_run isos sched progs in
  cv_stuck isos (fst c) (snd c) -> blocked (cag (fst c) t) = true ->
  In t (cqueue (fst c)) /\ sig (fst c) t = false /\ pend (fst c) = [].
Proof. exact stuck_blocked_never_notified. Qed.
Print Assumptions C07_stuck_blocked_never_notified.

(* every public wait form returns with the user lock re-acquired, and the predicate forms (also the timed
   and the stop-token form) return the value the predicate has at that moment *)
Theorem C07_wait_returns_with_lock_and_pred : forall isos progs sched late t op b,
  let c := cv_run isos sched progs in
  let s := cv_tstep isos late t (fst c) (snd c t) in
  cvlog (fst s) = ERet t op b :: cvlog (fst c) -> op <> CDWait ->
  uowner (fst s) = Some t /\ hu (snd s) = true /\ (is_pred_op op = true -> b = flag (fst s)).
Proof. exact wait_returns_with_lock_and_pred. Qed.
Print Assumptions C07_wait_returns_with_lock_and_pred.

(* a timed wait reports no_timeout exactly when a notifier took its entry before it looked *)
Theorem C07_timed_notified_no_timeout : forall isos progs sched t,
  let c := cv_run isos sched progs in
  cpc (snd c t) = CCheck -> negb (cmem t (cqueue (fst c))) = sig (fst c) t.
Proof. exact timed_check_is_notified. Qed.
Print Assumptions C07_timed_notified_no_timeout.

Theorem C07_timed_wait_reports : forall isos late t g td h r sg,
  uowner g = None ->
  let l := {| ctodo := CWaitFor :: td; cpc := CLockU sg; hu := h; reg := r |} in
  cvlog (fst (cv_tstep isos late t g l)) = ERet t CWaitFor sg :: cvlog g.
Proof. exact timed_wait_reports. Qed.
Print Assumptions C07_timed_wait_reports.

(* stop-token wait (pika tasks): once stop has been requested, no stop-token waiter stays blocked — in every
   state in which nothing can move any more every wait(lock, stop_token, pred) has been released (and by
   C07_wait_returns_with_lock_and_pred it returns pred() holding the lock) *)
Theorem C07_stop_wait_returns : forall isos progs sched t,
  (forall w, isos w = false) ->
  let c := cv_run isos sched progs in
  cv_stuck isos (fst c) (snd c) -> stopreq (fst c) = true ->
  cur_op (snd c t) = CWaitStop -> blocked (cag (fst c) t) = false.
Proof. exact stop_wait_returns. Qed.
Print Assumptions C07_stop_wait_returns.

(* timed stop-token wait  condition_variable_any::wait_until / wait_for (lock, stop_token, t, pred)  (pika
   tasks), in every reachable state of every program / schedule / deadline oracle, for a thread t inside it:
   (1) it is never blocked in suspend (it sleeps; the deadline oracle always enables it — C07_timed_stop_wait_steps);
   (2) when nothing can move any more it is waiting for the user lock held by ANOTHER thread: nothing of the
       condition variable or of the stop machinery holds it up;
   (3) past the stop_requested() re-check (made under the internal lock) its stop_callback is registered, so a
       request_stop issued from then on runs it;
   (4) whenever stop has been requested while it is queued (or about to be) a notify_all that will take its
       entry is pending — the stop request issued after the registration is not lost;
   (5) once stop has been requested it is on a loop-free path to its return: each enabled step of its own
       (deadline passed when it looks at the clock) returns or strictly decreases a rank <= 11;
   (6) when it returns the caller owns the user lock and the value is pred() at that moment. *)
Theorem C07_timed_stop_wait_returns : forall isos progs sched t,
  (forall w, isos w = false) ->
  let c := cv_run isos sched progs in
  cur_op (snd c t) = CWaitStopFor ->
  blocked (cag (fst c) t) = false /\
  (cv_stuck isos (fst c) (snd c) ->
     exists sg n, cpc (snd c t) = CLockU sg /\ uowner (fst c) = Some n /\ n <> t) /\
  (past_chk (cpc (snd c t)) = true -> reg (snd c t) = true /\ In t (cbs (fst c))) /\
  (stopreq (fst c) = true ->
     (cpc (snd c t) = CUnlockU \/ cpc (snd c t) = CPush \/
      (in_wait (cpc (snd c t)) = true /\ In t (cqueue (fst c)))) ->
     exists n, pending_all (cpc (snd c n)) = true) /\
  (stopreq (fst c) = true -> 1 <= ts_rank (cpc (snd c t)) -> cv_enabled isos t (fst c) (snd c t) = true ->
     let s := cv_tstep isos true t (fst c) (snd c t) in
     stopreq (fst s) = true /\
     ((exists b, cvlog (fst s) = ERet t CWaitStopFor b :: cvlog (fst c) /\
                 ctodo (snd s) = tl (ctodo (snd c t)) /\ cpc (snd s) = CIdle) \/
      (cur_op (snd s) = CWaitStopFor /\ 1 <= ts_rank (cpc (snd s)) < ts_rank (cpc (snd c t))))) /\
  (forall late b, let s := cv_tstep isos late t (fst c) (snd c t) in
     cvlog (fst s) = ERet t CWaitStopFor b :: cvlog (fst c) ->
     uowner (fst s) = Some t /\ hu (snd s) = true /\ b = flag (fst s)).
Proof. exact timed_stop_wait_returns. Qed.
Print Assumptions C07_timed_stop_wait_returns.

(* the deciding steps of the timed stop-token wait, from any state: the re-check under the internal lock
   returns false once stop has been requested (and releases the internal lock); after the detail wait
   should_stop = timeout || stop_requested(); with should_stop the wait re-locks U and THEN, in a step of its own
   (CPredRet: the `return pred();` of the header, regenerated into Gen/GenTimedPred.v), returns pred(), without
   it re-evaluates the predicate; a sleeper is always enabled and leaves the sleep once the deadline passed *)
Theorem C07_timed_stop_wait_steps : forall isos late t g td h r,
  let at_pc p := {| ctodo := CWaitStopFor :: td; cpc := p; hu := h; reg := r |} in
  (stopreq g = true ->
     let s := cv_tstep isos late t g (at_pc CStopChk) in
     cvlog (fst s) = ERet t CWaitStopFor false :: cvlog g /\ ilock (fst s) = None /\ ctodo (snd s) = td) /\
  (forall sg, let s := cv_tstep isos late t g (at_pc (CStopChk2 sg)) in
     cpc (snd s) = CLockU (sg && negb (stopreq g)) /\ ilock (fst s) = None) /\
  (uowner g = None ->
     let s := cv_tstep isos late t g (at_pc (CLockU false)) in
     cpc (snd s) = CPredRet /\ uowner (fst s) = Some t /\ hu (snd s) = true /\ cvlog (fst s) = cvlog g) /\
  (let s := cv_tstep isos late t g (at_pc CPredRet) in
     cvlog (fst s) = ERet t CWaitStopFor (flag g) :: cvlog g /\ uowner (fst s) = uowner g /\ ctodo (snd s) = td) /\
  (uowner g = None -> cpc (snd (cv_tstep isos late t g (at_pc (CLockU true)))) = CPredTest) /\
  (cv_enabled isos t g (at_pc CSleep) = true /\ cpc (snd (cv_tstep isos true t g (at_pc CSleep))) = CRelockI).
Proof. exact timed_stop_steps. Qed.
Print Assumptions C07_timed_stop_wait_steps.

(* a timed wait (any of the three timed forms, tasks and OS threads) never suspends *)
Theorem C07_timed_never_blocked : forall isos progs sched t,
  let c := cv_run isos sched progs in
  is_timed (cur_op (snd c t)) = true -> blocked (cag (fst c) t) = false.
Proof. exact timed_never_blocked. Qed.
Print Assumptions C07_timed_never_blocked.

(* pika tasks: a notifier never blocks inside its critical section *)
Theorem C07_task_notify_never_blocks : forall isos t g l,
  (forall w, isos w = false) -> holds_i (cpc l) = true -> cv_enabled isos t g l = true.
Proof. exact task_notify_never_blocks. Qed.
Print Assumptions C07_task_notify_never_blocks.

(* F14 (known defect, OS-thread agent): the same statement is false when the waiter is a plain OS thread in a
   timed wait — notifier and waiter deadlock, the notifier inside resume() holding the internal lock *)
Theorem C07_os_timed_wait_blocks_notifier_refuted :
  exists progs sched,
    let c := cv_run (fun _ => true) sched progs in
    cv_stuck (fun _ => true) (fst c) (snd c) /\
    (exists a r i, cpc (snd c 1) = NRes a r i) /\ ilock (fst c) = Some 1 /\ pend (fst c) = [0] /\
    cpc (snd c 0) = CRelockI /\ ctodo (snd c 0) = [CWaitFor; CUnlockUOp] /\ ctodo (snd c 1) = [CNotifyOne].
Proof. exact os_timed_wait_blocks_notifier_refuted. Qed.
Print Assumptions C07_os_timed_wait_blocks_notifier_refuted.

Theorem C07_disabled_is_stutter : forall isos late t g l,
  cv_enabled isos t g l = false -> cv_tstep isos late t g l = (g, l).
Proof. exact disabled_is_stutter. Qed.
Print Assumptions C07_disabled_is_stutter.

(* ---- non-vacuity ---- *)
Definition rr (n t : nat) := repeat (t, false) n.
(* predicate wait + notify_one; then the waiter owns U again and the predicate holds *)
Example C07_example_pred_wait :
  let progs := fun t => match t with
     | 0 => [CLockUOp; CWaitPred; CUnlockUOp]
     | 1 => [CLockUOp; CSetFlag true; CUnlockUOp; CNotifyOne] | _ => [] end in
  let c := cv_run (fun _ => false) (rr 7 0 ++ rr 8 1 ++ rr 5 0) progs in
  rev (cvlog (fst c)) = [EPush 0; ENotify 1 false 1; ERet 0 CWaitPred true] /\
  uowner (fst c) = Some 0 /\ ctodo (snd c 0) = [CUnlockUOp].
Proof. vm_compute. repeat split. Qed.

(* the plain wait may return spuriously: a stale token makes suspend return although nobody notified;
   wait() then reports "not signalled" to the detail layer and returns to the user with U re-acquired *)
Example C07_example_spurious_wait :
  let progs := fun t => match t with 0 => [CSpur; CLockUOp; CWait] | _ => [] end in
  let c := cv_run (fun _ => false) (rr 12 0) progs in
  rev (cvlog (fst c)) = [EPush 0; ERet 0 CWait false] /\ uowner (fst c) = Some 0 /\ cqueue (fst c) = [].
Proof. vm_compute. repeat split. Qed.

(* notify_all with three registered waiters wakes all three; a timed waiter that was notified reports
   no_timeout, one that was not reports timeout *)
Example C07_example_notify_all_and_timed :
  let progs := fun t => match t with
     | 0 => [CLockUOp; CWait; CUnlockUOp] | 1 => [CLockUOp; CWaitFor; CUnlockUOp]
     | 2 => [CLockUOp; CWait; CUnlockUOp] | 3 => [CNotifyAll] | 4 => [CLockUOp; CWaitFor; CUnlockUOp] | _ => [] end in
  let c := cv_run (fun _ => false)
     (rr 7 0 ++ rr 6 1 ++ rr 7 2 ++ rr 7 3 ++ rr 6 4 ++ [(4,true)] ++ rr 4 4 ++ [(1,true)] ++ rr 4 1 ++ rr 5 0 ++ rr 5 2) progs in
  rev (cvlog (fst c)) =
    [EPush 0; EPush 1; EPush 2; ENotify 3 true 3; EPush 4; ERet 4 CWaitFor false; ERet 1 CWaitFor true;
     ERet 0 CWait true; ERet 2 CWait true].
Proof. vm_compute. repeat split. Qed.

(* stop-token wait: blocked waiter is released by request_stop and returns pred() = false holding U *)
Example C07_example_stop_wait :
  let progs := fun t => match t with 0 => [CLockUOp; CWaitStop] | 1 => [CRequestStop] | _ => [] end in
  let c := cv_run (fun _ => false) (rr 9 0 ++ rr 6 1 ++ rr 8 0) progs in
  rev (cvlog (fst c)) = [EPush 0; ENotify 1 true 1; ERet 0 CWaitStop false] /\
  uowner (fst c) = Some 0 /\ cbs (fst c) = [] /\ ctodo (snd c 0) = [] /\ ctodo (snd c 1) = [].
Proof. vm_compute. repeat split. Qed.

(* timed stop-token wait: the waiter registers its callback, passes the re-check, is queued and sleeps;
   request_stop (after the registration) takes its entry; at its deadline it sees stop_requested and returns
   pred() = false holding U, its callback removed *)
Example C07_example_timed_stop_request_after_registration :
  let progs := fun t => match t with 0 => [CLockUOp; CWaitStopFor] | 1 => [CRequestStop] | _ => [] end in
  let c := cv_run (fun _ => false) (rr 10 0 ++ rr 5 1 ++ [(0,true)] ++ rr 5 0) progs in
  rev (cvlog (fst c)) = [EPush 0; ENotify 1 true 1; ERet 0 CWaitStopFor false] /\
  uowner (fst c) = Some 0 /\ cbs (fst c) = [] /\ ilock (fst c) = None /\ cqueue (fst c) = [] /\
  ctodo (snd c 0) = [] /\ ctodo (snd c 1) = [].
Proof. vm_compute. repeat split. Qed.

(* ... a request_stop that arrives between the callback registration and the re-check under the internal lock
   finds nobody queued, but the re-check sees it: the wait returns false without ever sleeping *)
Example C07_example_timed_stop_request_before_recheck :
  let progs := fun t => match t with 0 => [CLockUOp; CWaitStopFor] | 1 => [CRequestStop] | _ => [] end in
  let c := cv_run (fun _ => false) (rr 4 0 ++ rr 4 1 ++ rr 2 0) progs in
  rev (cvlog (fst c)) = [ENotify 1 true 0; ERet 0 CWaitStopFor false] /\
  uowner (fst c) = Some 0 /\ cbs (fst c) = [] /\ ilock (fst c) = None /\ ctodo (snd c 0) = [].
Proof. vm_compute. repeat split. Qed.

(* ... nobody notifies, nobody requests stop: at the deadline the wait returns pred() — false when the
   predicate is still false, true when somebody set it (without notifying) in the meantime *)
Example C07_example_timed_stop_deadline :
  let progs := fun t => match t with
     | 0 => [CLockUOp; CWaitStopFor; CUnlockUOp] | 1 => [CLockUOp; CSetFlag true; CUnlockUOp]
     | 2 => [CLockUOp; CWaitStopFor] | _ => [] end in
  let c := cv_run (fun _ => false) (rr 10 0 ++ rr 3 1 ++ [(0,true)] ++ rr 6 0 ++ [(1,false)]) progs in
  let d := cv_run (fun _ => false) (rr 10 2 ++ [(2,true)] ++ rr 5 2) (fun t => match t with 2 => progs 2 | _ => [] end) in
  rev (cvlog (fst c)) = [EPush 0; ERet 0 CWaitStopFor true] /\ uowner (fst c) = None /\ cbs (fst c) = [] /\
  rev (cvlog (fst d)) = [EPush 2; ERet 2 CWaitStopFor false] /\ uowner (fst d) = Some 2 /\ cbs (fst d) = [].
Proof. vm_compute. repeat split. Qed.

(* ... and part (2) of C07_timed_stop_wait_returns is not vacuous: thread 1 takes the user lock while thread 0
   sleeps and never releases it; after its deadline thread 0 is stuck exactly at the re-lock of U (should_stop
   already decided), everything of the condition variable released *)
Example C07_example_timed_stop_stuck_on_user_lock :
  let progs := fun t => match t with 0 => [CLockUOp; CWaitStopFor] | 1 => [CLockUOp] | _ => [] end in
  let c := cv_run (fun _ => false) (rr 10 0 ++ rr 1 1 ++ [(0,true)] ++ rr 4 0) progs in
  cv_stuck (fun _ => false) (fst c) (snd c) /\ cur_op (snd c 0) = CWaitStopFor /\
  cpc (snd c 0) = CLockU false /\ uowner (fst c) = Some 1 /\ ilock (fst c) = None /\ cqueue (fst c) = [] /\
  blocked (cag (fst c) 0) = false.
Proof.
  cbv zeta. split; [|vm_compute; repeat split].
  intros t. destruct t as [|[|t]]; vm_compute; reflexivity.
Qed.

(* ======== round w11c: abort_all — a detail condition variable destroyed (or aborted) with waiters queued ========
   Model/CondVarAbort.v: the aborter [a] (abort_all(lock): swap the queue out under I, per entry: pop under I, RELEASE I,
   ctx.abort(), re-lock I; repeat while queue_ is not empty) against any number of waiters performing any number of detail waits
   (pika tasks or plain OS threads, spurious returns of suspend), every schedule.
   Reachability, as read: pika::condition_variable / condition_variable_any keep the detail object in a reference-counted
   condition_variable_data and every waiter holds a reference for the whole wait (`auto data = data_;`), so their destructor
   (= default) never runs ~detail::condition_variable with a non-empty queue; nothing in the library calls abort_all(lock).  The
   path is reached only (a) by destroying a pika::mutex / counting_semaphore / latch / event / barrier ... (they embed a detail
   condition variable by value) while tasks are blocked in it — a precondition violation of those classes — or (b) by driving
   pika::detail::condition_variable directly, which is what harness/c07_abort.cpp does.  Kept as model-level theorems + that harness. *)

(* every entry ever queued is accounted for exactly once at every moment: aborted (one abort() call), erased by its own waiter,
   still in queue_, in the aborter's local list, or the one being aborted right now *)
Theorem C07_abort_all_accounting : forall a isos waits sched,
  ABinv a (fst (ab_run a isos waits sched)) (snd (ab_run a isos waits sched)).
Proof. exact ab_inv. Qed.
Print Assumptions C07_abort_all_accounting.

(* abort_all has returned: its local list is empty; every entry ever queued was aborted — exactly one abort() per entry, never
   more abort() calls than entries (next theorem) — or was erased by its own waiter, or sits in queue_ (pushed after abort_all's
   last look at the queue; with the destructor's precondition "nobody starts a new wait" queue_ is empty and the sum is exact) *)
Theorem C07_abort_all_wakes_all : forall a isos waits sched,
  let cf := ab_run a isos waits sched in
  apc (snd cf a) = ADone ->
  apend (fst cf) = [] /\
  forall t, pushes (fst cf) t = aborts (fst cf) t + selfrem (fst cf) t + count_occ Nat.eq_dec (aq (fst cf)) t.
Proof. exact abort_all_wakes_all. Qed.
Print Assumptions C07_abort_all_wakes_all.

Theorem C07_abort_never_more_than_queued : forall a isos waits sched t,
  aborts (fst (ab_run a isos waits sched)) t <= pushes (fst (ab_run a isos waits sched)) t.
Proof. exact aborts_le_pushes. Qed.
Print Assumptions C07_abort_never_more_than_queued.

(* the abort() call: the target is not blocked afterwards and its agent carries the abort reason *)
Theorem C07_abort_resumes_with_reason : forall a isos spur g l w,
  apc l = AAbort w -> apc (snd (ab_tstep a isos spur a g l)) = ARelock ->
  let g' := fst (ab_tstep a isos spur a g l) in
  blocked (aag g' w) = false /\ areason g' w = true /\ aborts g' w = S (aborts g w).
Proof. exact abort_resumes_with_reason. Qed.
Print Assumptions C07_abort_resumes_with_reason.

(* ... and the waiter's suspension then ends with the yield_aborted exception; for a pika task the reason is consumed, for a plain
   OS thread it stays (default_agent::aborted_ is never reset: every later suspension of that thread throws as well) *)
Theorem C07_aborted_wait_throws : forall a isos spur t g l,
  Nat.eqb t a = false -> apc l = QSusp -> areason g t = true -> apc (snd (ab_tstep a isos spur t g l)) = QRelock ->
  thr (snd (ab_tstep a isos spur t g l)) = true /\
  thrown (fst (ab_tstep a isos spur t g l)) t = S (thrown g t) /\
  areason (fst (ab_tstep a isos spur t g l)) t = isos t.
Proof. exact aborted_wait_throws. Qed.
Print Assumptions C07_aborted_wait_throws.

(* three OS-thread waiters (1, 2, 3) queue up and block; thread 0 calls abort_all; everybody runs to the end: three abort() calls,
   three exceptions, nobody blocked, queue empty *)
Example C07_example_abort_all :
  let rr := fun k => flat_map (fun _ => [(1, false); (2, false); (3, false)]) (seq 0 k) in
  let cf := ab_run 0 (fun _ => true) (fun t => if Nat.leb 1 t && Nat.leb t 3 then 1 else 0)
              (rr 6 ++ repeat (0, false) 14 ++ rr 8) in
  map (aborts (fst cf)) [1; 2; 3] = [1; 1; 1] /\ map (thrown (fst cf)) [1; 2; 3] = [1; 1; 1] /\
  map (fun t => blocked (aag (fst cf) t)) [1; 2; 3] = [false; false; false] /\
  map (fun t => apc (snd cf t)) [0; 1; 2; 3] = [ADone; QDone; QDone; QDone] /\ aq (fst cf) = [] /\ ai (fst cf) = None.
Proof. vm_compute. repeat split; reflexivity. Qed.

(* ======== round p12a: the global invariant of abort_all left open in round w11c =   Proofs/CondVarAbortGlobal.v, invariant GI over every schedule: the accounting invariant + roles + the internal lock (its holder is
   inside a critical section) + W1: a BLOCKED waiter is at its suspension point and its entry is still pending (in queue_, in the
   aborter's local list, or the one being aborted right now) + W2: between push and suspend the entry is pending or the wake-up token
   is already there + for pika tasks: exceptions (+ undelivered reason) <= abort() calls. *)
From Pika Require Import Model.CondVarAbortStuck Proofs.CondVarAbortGlobal.

Theorem C07_abort_all_global_invariant : forall a isos waits sched,
  GI a isos (fst (ab_run a isos waits sched)) (snd (ab_run a isos waits sched)).
Proof. exact ab_gi. Qed.
Print Assumptions C07_abort_all_global_invariant.

(* abort_all has returned: every waiter is unblocked (running, or finished) UNLESS its entry is still in queue_ — pushed after
   abort_all's last look at the queue —, in which case it is suspended in exactly that wait *)
Theorem C07_abort_all_no_waiter_left_blocked : forall a isos waits sched,
  let cf := ab_run a isos waits sched in
  apc (snd cf a) = ADone ->
  forall t, t <> a ->
    (blocked (aag (fst cf) t) = true -> apc (snd cf t) = QSusp /\ In t (aq (fst cf))) /\
    (blocked (aag (fst cf) t) = false \/ In t (aq (fst cf))).
Proof. exact abort_all_no_waiter_left_blocked. Qed.
Print Assumptions C07_abort_all_no_waiter_left_blocked.

(* [ab_enabled] / [ab_stuck] (Model/CondVarAbortStuck.v): a thread that is not enabled only stutters *)
Theorem C07_abort_disabled_only_stutters : forall a isos t g l,
  ab_enabled a isos t g l = false -> ab_tstep a isos false t g l = (g, l).
Proof. exact ab_disabled_stutter. Qed.
Print Assumptions C07_abort_disabled_only_stutters.

(* stuck, abort_all returned, queue_ empty: the internal lock is free, every waiter has FINISHED all its waits and is not blocked,
   every entry ever queued was ended by exactly one abort() call or erased by its own waiter (spurious return), and a pika task saw
   at most as many yield_aborted exceptions as abort() calls were aimed at it.  (Exactly one exception per wait holds on the runs
   without spurious returns of C07_example_abort_all; with a spurious return the waiter erases its own entry and ends normally.) *)
Theorem C07_abort_all_stuck_all_done : forall a isos waits sched,
  let cf := ab_run a isos waits sched in
  ab_stuck a isos cf -> apc (snd cf a) = ADone -> aq (fst cf) = [] ->
  ai (fst cf) = None /\
  forall t, t <> a ->
    apc (snd cf t) = QDone /\ blocked (aag (fst cf) t) = false /\
    pushes (fst cf) t = aborts (fst cf) t + selfrem (fst cf) t /\
    (isos t = false -> thrown (fst cf) t <= aborts (fst cf) t).
Proof. exact abort_all_stuck_all_done. Qed.
Print Assumptions C07_abort_all_stuck_all_done.

(* non-vacuity: the run of C07_example_abort_all ends in such a stuck state (stuck for ALL threads) ... *)
Example C07_example_abort_all_stuck :
  let cf := ab_run 0 (fun _ => true) ab_ex_waits (ab_ex_rr 6 ++ repeat (0, false) 14 ++ ab_ex_rr 8) in
  ab_stuck 0 (fun _ => true) cf /\ apc (snd cf 0) = ADone /\ aq (fst cf) = [] /\
  map (fun t => apc (snd cf t)) [1; 2; 3] = [QDone; QDone; QDone] /\ map (thrown (fst cf)) [1; 2; 3] = [1; 1; 1].
Proof. exact ab_example_stuck. Qed.

(* ... and the `unless` clause cannot be dropped: a waiter that queues up after abort_all returned blocks for ever *)
Example C07_example_abort_all_late_waiter :
  let cf := ab_run 0 (fun _ => true) (fun t => if Nat.eqb t 1 then 1 else 0) (repeat (0, false) 2 ++ repeat (1, false) 4) in
  ab_stuck 0 (fun _ => true) cf /\ apc (snd cf 0) = ADone /\ blocked (aag (fst cf) 1) = true /\ apc (snd cf 1) = QSusp /\ aq (fst cf) = [1].
Proof. exact ab_example_late_waiter. Qed.

(* "the wait ended with the abort exception exactly once", for plain OS threads (no spurious return, no wake-up token: every
   suspension blocks and is ended by an abort() whose reason is there when the suspension ends): at every moment the exceptions
   seen plus the suspensions still ahead ([remaining]) add up to the waits of the thread; a finished OS waiter saw exactly one
   exception per wait.  With C07_abort_all_stuck_all_done: stuck, abort_all returned, queue_ empty => thrown t = waits t. *)
Theorem C07_abort_all_os_waiter_throws_every_wait : forall a isos waits sched t, t <> a -> isos t = true ->
  let cf := ab_run a isos waits sched in
  thrown (fst cf) t + remaining (snd cf t) = waits t /\ (apc (snd cf t) = QDone -> thrown (fst cf) t = waits t).
Proof. exact os_waiter_throws_every_wait. Qed.
Print Assumptions C07_abort_all_os_waiter_throws_every_wait.
(* ---- the timed predicate forms  wait_until / wait_for (lock, t, pred)  and  (lock, stop_token, t, pred) ----
   (round h12a; the expression returned after a time-out is regenerated from the header into Gen/GenTimedPred.v on
   every run: these statements — and C07_wait_returns_with_lock_and_pred above — are about the header as it is now) *)

(* concurrent model, any state: after the time-out the waiter FIRST re-acquires the user lock (that step returns and
   logs nothing; it stutters while another thread owns the lock) and THEN, in a step of its own (CPredRet = the
   `return pred();` of the header), returns the value the predicate has at that step, the lock still owned *)
Theorem C07_timed_pred_reevaluates_with_lock : forall isos late t g o td h r,
  is_timed_pred o = true ->
  let at_pc p := {| ctodo := o :: td; cpc := p; hu := h; reg := r |} in
  (uowner g = None ->
     let s := cv_tstep isos late t g (at_pc (CLockU false)) in
     cpc (snd s) = CPredRet /\ uowner (fst s) = Some t /\ hu (snd s) = true /\ cvlog (fst s) = cvlog g /\
     flag (fst s) = flag g) /\
  (forall n, uowner g = Some n -> cv_tstep isos late t g (at_pc (CLockU false)) = (g, at_pc (CLockU false))) /\
  (let s := cv_tstep isos late t g (at_pc CPredRet) in
     cvlog (fst s) = ERet t o (flag g) :: cvlog g /\ uowner (fst s) = uowner g /\ flag (fst s) = flag g /\
     ctodo (snd s) = td /\ cpc (snd s) = CIdle).
Proof. exact timed_pred_reevaluates_with_lock. Qed.
Print Assumptions C07_timed_pred_reevaluates_with_lock.

(* ... and in every reachable state the thread that is about to evaluate that final predicate owns the user lock *)
Theorem C07_timed_pred_final_evaluation_owns_lock : forall isos progs sched t,
  let c := cv_run isos sched progs in
  cpc (snd c t) = CPredRet -> uowner (fst c) = Some t /\ hu (snd c t) = true.
Proof. exact predret_owns_lock. Qed.
Print Assumptions C07_timed_pred_final_evaluation_owns_lock.

(* the loop of the header on its own (Model/TimedPredLoop.v: scripted predicate p, oracle w for the inner timed
   waits), for each of the three loops with the expression it has now: whenever the call returns, the newest event
   of its trace is an evaluation of the predicate — made after the last inner wait, i.e. with the user lock
   re-acquired — and the call returns THAT value; every earlier evaluation was false *)
Theorem C07_timed_pred_returns_last_evaluation : forall fuel p w res,
  (tp_call cv_on_timeout fuel p w = Some res \/ tp_call cva_on_timeout fuel p w = Some res \/
   tp_call cvs_on_timeout fuel p w = Some res) ->
  exists n rest, snd res = TpPred (fst res) :: rest /\ fst res = p n /\ (forall k, k < n -> p k = false) /\
                 tp_evals (snd res) = S n.
Proof. exact timed_pred_returns_last_evaluation. Qed.
Print Assumptions C07_timed_pred_returns_last_evaluation.

(* the loop returns as soon as an inner wait times out (hypothesis satisfiable: every deadline passes) *)
Theorem C07_timed_pred_terminates : forall ot k p w i j tr,
  w (j + k) = true -> exists res, tp_run ot (S k) p w i j tr = Some res.
Proof. exact tp_terminates. Qed.
Print Assumptions C07_timed_pred_terminates.

(* non-vacuity / the late scenario: predicate false at the first evaluation, the inner wait times out, predicate true
   when the lock is re-acquired: the loop as written returns true, a loop returning a constant returns a stale false *)
Example C07_example_timed_pred_late_loop :
  let p := script [false; true] false in let w := script [true] true in
  tp_call (OT_Const false) 3 p w = Some (false, [TpWait true; TpPred false]) /\
  tp_call OT_Reeval 3 p w = Some (true, [TpPred true; TpWait true; TpPred false]).
Proof. exact const_false_is_stale. Qed.

(* the late scenario in the concurrent model (tasks and OS threads): the notifier takes the user lock while the waiter
   sleeps and keeps it across the deadline; the waiter times out and spins on the user lock (predicate still false);
   the notifier sets the predicate, notifies (nobody is queued any more), unlocks; the waiter re-acquires the lock,
   evaluates the predicate in a step of its own and returns TRUE *)
Example C07_example_timed_pred_late : forall os : bool,
  let isos := fun _ : nat => os in
  let c1 := cv_run isos late_sched_1 late_progs in
  let c2 := cv_run isos (late_sched_1 ++ late_sched_2) late_progs in
  let c3 := cv_run isos (late_sched_1 ++ late_sched_2 ++ [(0, false)]) late_progs in
  (cpc (snd c1 0) = CLockU false /\ flag (fst c1) = false /\ uowner (fst c1) = Some 1 /\ cvlog (fst c1) = [EPush 0]) /\
  (cpc (snd c2 0) = CPredRet /\ flag (fst c2) = true /\ uowner (fst c2) = Some 0 /\ ctodo (snd c2 1) = []) /\
  (hd_error (cvlog (fst c3)) = Some (ERet 0 CWaitForPred true) /\ uowner (fst c3) = Some 0).
Proof. exact late_scenario. Qed.
