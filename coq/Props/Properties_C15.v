(* Props/Properties_C15.v — C15: workers are pinned to distinct PUs inside the process mask.
   Only statements; each is closed by [exact] of a lemma from Proofs/AffinityProofs.v.
   [sound_masks t use pm n ms] (Proofs): ms = [{p_0}; ...; {p_(n-1)}] with the p_i pairwise different,
   existing PUs, inside the process mask pm when it is in use.
   All theorems quantify over EVERY topology (list of sockets of cores of PU counts, regular or not),
   every process mask, every thread count, every max_cores; "accepted" = the model returns Ok. *)
From Coq Require Import List Arith Bool.
From Pika Require Import Model.Affinity Proofs.AffinityProofs.
Import ListNotations.

(* compact: the decoder may sweep the cores a second time and then hands out a PU twice; this is
   excluded by check_num_threads when the process mask is in use, and by the default
   --pika:cores (= number of threads) otherwise — exactly the two cases of the hypothesis *)
Theorem C15_decode_compact_sound : forall t use pm n mc ad,
  (use = true \/ (n <= mc /\ wf_topo t)) ->
  affinity_init t (BindMode Compact) use pm n mc = Ok ad ->
  sound_masks t use pm n (ad_masks ad) /\ ad_noaff ad = [] /\ ad_n ad = n.
Proof. exact compact_sound. Qed.
Print Assumptions C15_decode_compact_sound.

Theorem C15_decode_scatter_sound : forall t use pm n mc ad,
  affinity_init t (BindMode Scatter) use pm n mc = Ok ad ->
  sound_masks t use pm n (ad_masks ad) /\ ad_noaff ad = [] /\ ad_n ad = n.
Proof. exact scatter_sound. Qed.
Print Assumptions C15_decode_scatter_sound.

Theorem C15_decode_balanced_sound : forall t use pm n mc ad,
  affinity_init t (BindMode Balanced) use pm n mc = Ok ad ->
  sound_masks t use pm n (ad_masks ad) /\ ad_noaff ad = [] /\ ad_n ad = n.
Proof. exact balanced_sound. Qed.
Print Assumptions C15_decode_balanced_sound.

(* no regularity hypothesis: holds for sockets that differ in cores and in PUs per core (with the
   fix commit; before it the real decoder looped forever on [[1;1];[2;2]] with 4 threads) *)
Theorem C15_decode_numabalanced_sound : forall t use pm n mc ad,
  affinity_init t (BindMode NumaBalanced) use pm n mc = Ok ad ->
  sound_masks t use pm n (ad_masks ad) /\ ad_noaff ad = [] /\ ad_n ad = n.
Proof. exact numabalanced_sound. Qed.
Print Assumptions C15_decode_numabalanced_sound.

(* more threads than PUs in the mask (or on the machine when the mask is ignored): an error, in every mode *)
Theorem C15_oversubscription_rejected : forall t m (use : bool) pm n mc,
  (if use then count_mask t pm else total_pus t) < n ->
  exists e, affinity_init t (BindMode m) use pm n mc = Err e /\ (e = EOversubMask \/ e = EOversubHw).
Proof. exact oversubscription_rejected. Qed.
Print Assumptions C15_oversubscription_rejected.

Theorem C15_bind_none_unbound : forall t use pm n mc,
  n <= total_pus t ->
  exists ad, affinity_init t BindNone use pm n mc = Ok ad /\ forall i, i < n -> get_pu_mask ad i = [].
Proof. exact bind_none_unbound. Qed.
Print Assumptions C15_bind_none_unbound.

(* what pika reports (rp.get_pu_num) is the partitioner's recomputation: the member of the mask,
   and a PU that some pool owns — for every pool layout *)
Theorem C15_reported_pu_is_bound : forall ad pools w,
  ad_noaff ad = [] -> In w (workers_of ad pools) -> w_mask w = [w_pu w] /\ In (w_pu w) (concat pools).
Proof. exact workers_reported. Qed.
Print Assumptions C15_reported_pu_is_bound.

(* every worker number lies in the thread range of exactly one pool *)
Theorem C15_pools_partition_workers : forall pools i,
  i < length (concat pools) -> exists j, owners pools 0 0 i = [j].
Proof. exact pools_partition_workers. Qed.
Print Assumptions C15_pools_partition_workers.

(* ---- non-vacuity and recorded observations (vm_compute over concrete inputs) ---- *)
Definition full (k : nat) : nat -> bool := fun i => i <? k.
Definition pus_of (r : result started) : list (list nat * nat) :=
  match r with Ok s => map (fun w => (w_mask w, w_pu w)) (st_workers s) | Err _ => [] end.

(* irregular machine (socket 0: two 1-PU cores, socket 1: two 2-PU cores), all four modes accept 4 threads *)
Example C15_example_irregular :
  let t := [[1; 1]; [2; 2]] in
  pus_of (startup t (BindMode NumaBalanced) true (full 6) 4 4 []) = [([0], 0); ([2], 2); ([3], 3); ([4], 4)] /\
  pus_of (startup t (BindMode Scatter) true (full 6) 4 4 []) = [([0], 0); ([1], 1); ([2], 2); ([4], 4)] /\
  pus_of (startup t (BindMode Compact) true (fun i => negb (i =? 1)) 4 4 []) = [([0], 0); ([2], 2); ([3], 3); ([4], 4)] /\
  pus_of (startup t (BindMode Balanced) true (full 6) 5 5 [[1; 3]]) = [([0], 0); ([2], 2); ([4], 4); ([1], 1); ([3], 3)].
Proof. vm_compute. repeat split. Qed.

(* E3a: the numa-balanced decoder's own num_pus lack the socket's core offset, but they are not what is reported *)
Example C15_decoder_pu_num_not_reported :
  let t := [[2; 2]; [2; 2]] in
  (match decode t NumaBalanced true (full 8) 4 4 with Ok (_, nums) => nums | Err _ => [] end) = [0; 2; 0; 2] /\
  pus_of (startup t (BindMode NumaBalanced) true (full 8) 4 4 []) = [([0], 0); ([2], 2); ([4], 4); ([6], 6)].
Proof. vm_compute. repeat split. Qed.

(* E3b: numa-balanced rejects satisfiable requests when every socket's share rounds to 0 *)
Example C15_numa_rejects_satisfiable :
  startup [[1]; [1]; [1]; [1]; [1]; [1]; [1]; [1]] (BindMode NumaBalanced) true (full 8) 3 3 [] = Err ECountMismatch.
Proof. vm_compute. reflexivity. Qed.

(* finding C15:none:threads_gt_pus_truncated — bind=none with more threads than PUs is accepted and
   silently started with #PUs workers (replayed on the real code by the harness) *)
Example C15_none_more_threads_than_pus_truncated :
  length (pus_of (startup [[2; 2]; [2; 2]] BindNone true (full 8) 9 9 [])) = 8.
Proof. vm_compute. reflexivity. Qed.

(* thread-count keywords *)
Example C15_threads_keywords :
  let t := [[2; 2]; [2; 2]] in let pm := fun i => existsb (Nat.eqb i) [0; 1; 3; 4; 5] in
  default_threads t true pm = 5 /\ default_cores t true pm = 3 /\
  default_threads t false pm = 8 /\ default_cores t false pm = 4.
Proof. vm_compute. repeat split. Qed.
