(* Props/Properties_C15.v — C15: workers are pinned to distinct PUs inside the process mask.
   Only statements; each is closed by [exact] of a lemma from Proofs/AffinityProofs.v or
   Proofs/AffinityStartupProofs.v or Proofs/AffinityMaskProofs.v.
   [sound_masks t use pm n ms] (Proofs): ms = [{p_0}; ...; {p_(n-1)}] with the p_i pairwise different,
   existing PUs, inside the process mask pm when it is in use.
   All theorems quantify over EVERY topology (list of sockets of cores of PU counts, regular or not),
   every process mask, every thread count, every max_cores; "accepted" = the model returns Ok. *)
From Coq Require Import List Arith Bool Permutation.
From Pika Require Import Model.Affinity Proofs.AffinityProofs Proofs.AffinityStartupProofs Proofs.AffinityMaskProofs.
Import ListNotations.

(* compact: the decoder may sweep the cores a second time and then hands out a PU twice; this is
   excluded by check_num_threads when the process mask is in use, and by the default
   --pika:cores (= number of threads) otherwise — exactly the two cases of the hypothesis *)
Theorem C15_decode_compact_sound : forall t use pm n mc ad,
  (use = true \/ (n <= mc /\ wf_topo t)) ->
  affinity_init t (BindMode Compact) use pm n mc = Ok ad ->
  sound_masks t use pm n (ad_masks ad) /\ ad_noaff ad = [] /\ ad_n ad = n.
Proof. exact compact_sound. Qed.
Print Assumptions C15_decode_compact_sound.

Theorem C15_decode_scatter_sound : forall t use pm n mc ad,
  affinity_init t (BindMode Scatter) use pm n mc = Ok ad ->
  sound_masks t use pm n (ad_masks ad) /\ ad_noaff ad = [] /\ ad_n ad = n.
Proof. exact scatter_sound. Qed.
Print Assumptions C15_decode_scatter_sound.

Theorem C15_decode_balanced_sound : forall t use pm n mc ad,
  affinity_init t (BindMode Balanced) use pm n mc = Ok ad ->
  sound_masks t use pm n (ad_masks ad) /\ ad_noaff ad = [] /\ ad_n ad = n.
Proof. exact balanced_sound. Qed.
Print Assumptions C15_decode_balanced_sound.

(* no regularity hypothesis: holds for sockets that differ in cores and in PUs per core (with the
   fix commit; before it the real decoder looped forever on [[1;1];[2;2]] with 4 threads) *)
Theorem C15_decode_numabalanced_sound : forall t use pm n mc ad,
  affinity_init t (BindMode NumaBalanced) use pm n mc = Ok ad ->
  sound_masks t use pm n (ad_masks ad) /\ ad_noaff ad = [] /\ ad_n ad = n.
Proof. exact numabalanced_sound. Qed.
Print Assumptions C15_decode_numabalanced_sound.

(* more threads than PUs in the mask (or on the machine when the mask is ignored): an error, in every mode *)
Theorem C15_oversubscription_rejected : forall t m (use : bool) pm n mc,
  (if use then count_mask t pm else total_pus t) < n ->
  exists e, affinity_init t (BindMode m) use pm n mc = Err e /\ (e = EOversubMask \/ e = EOversubHw).
Proof. exact oversubscription_rejected. Qed.
Print Assumptions C15_oversubscription_rejected.

Theorem C15_bind_none_unbound : forall t use pm n mc,
  n <= total_pus t ->
  exists ad, affinity_init t BindNone use pm n mc = Ok ad /\ forall i, i < n -> get_pu_mask ad i = [].
Proof. exact bind_none_unbound. Qed.
Print Assumptions C15_bind_none_unbound.

(* what pika reports (rp.get_pu_num) is the partitioner's recomputation: the member of the mask,
   and a PU that some pool owns — for every pool layout *)
Theorem C15_reported_pu_is_bound : forall ad pools w,
  ad_noaff ad = [] -> In w (workers_of ad pools) -> w_mask w = [w_pu w] /\ In (w_pu w) (concat pools).
Proof. exact workers_reported. Qed.
Print Assumptions C15_reported_pu_is_bound.

(* every worker number lies in the thread range of exactly one pool *)
Theorem C15_pools_partition_workers : forall pools i,
  i < length (concat pools) -> exists j, owners pools 0 0 i = [j].
Proof. exact pools_partition_workers. Qed.
Print Assumptions C15_pools_partition_workers.

(* ---- decoder -> partitioner -> pools -> workers (Proofs/AffinityStartupProofs.v) ----
   Hypothesis [m = Compact -> ...] is the one of C15_decode_compact_sound; scatter, balanced and
   numa-balanced need none. *)

(* fill_topology_vectors + pu_exposed: the partitioner's exposed list has exactly n entries, namely
   the PUs the decoder put into the n masks *)
Theorem C15_exposed_count : forall t m use pm n mc ad,
  (m = Compact -> use = true \/ (n <= mc /\ wf_topo t)) ->
  affinity_init t (BindMode m) use pm n mc = Ok ad ->
  length (exposed t ad) = n /\ Permutation (exposed t ad) (concat (ad_masks ad)).
Proof. exact exposed_count. Qed.
Print Assumptions C15_exposed_count.

(* add_resource / setup_pools: for every pool layout the callback asks for, the pools (default
   first) are a partition of the exposed list: nothing lost, nothing in two pools *)
Theorem C15_pools_partition_exposed : forall ad ex specs pools,
  configure_pools ad ex specs = Ok pools -> NoDup ex -> Permutation (concat pools) ex.
Proof. exact configure_pools_perm. Qed.
Print Assumptions C15_pools_partition_exposed.

(* (i) every accepted start-up in one of the four binding modes runs exactly the requested number
   of workers, for every pool layout *)
Theorem C15_worker_count_is_requested : forall t m use pm n mc specs s,
  (m = Compact -> use = true \/ (n <= mc /\ wf_topo t)) ->
  startup t (BindMode m) use pm n mc specs = Ok s -> length (st_workers s) = n.
Proof. exact worker_count_is_requested. Qed.
Print Assumptions C15_worker_count_is_requested.

(* the compact hypothesis cannot be dropped: --pika:ignore-process-mask --pika:cores=1 --pika:threads=2
   --pika:bind=compact on one socket with two 1-PU cores sweeps core 0 twice, both masks are {0}, the
   count check passes and ONE worker starts.  Reproduced on the real code (HWLOC_SYNTHETIC
   "package:1 core:2 pu:1": OUT BIND ok n=1 exposed=0); outside the property's quantifier (explicit
   --pika:cores below the thread count). *)
Example C15_worker_count_compact_unguarded_refuted :
  exists t pm n mc s, startup t (BindMode Compact) false pm n mc [] = Ok s /\ length (st_workers s) <> n.
Proof. exists [[1; 1]], (fun _ => true), 2, 1. vm_compute. eexists. split; [reflexivity|discriminate]. Qed.

(* bind=none, what the code really does: min(n, #PUs of the machine) workers, none of them bound,
   each in exactly one pool, reporting the PU numbers 0 .. min(n, #PUs)-1 (each once).
   check_num_threads is never reached in this mode. *)
Theorem C15_none_startup_sound : forall t use pm n mc specs s,
  startup t BindNone use pm n mc specs = Ok s ->
  length (st_workers s) = Nat.min n (total_pus t) /\
  (forall i w, nth_error (st_workers s) i = Some w ->
     w_mask w = [] /\ exists j, owners (st_pools s) 0 0 i = [j]) /\
  Permutation (map w_pu (st_workers s)) (seq 0 (Nat.min n (total_pus t))).
Proof. exact startup_none_sound. Qed.
Print Assumptions C15_none_startup_sound.

Theorem C15_worker_count_is_requested_none : forall t use pm n mc specs s,
  n <= total_pus t ->
  startup t BindNone use pm n mc specs = Ok s -> length (st_workers s) = n.
Proof. exact none_worker_count. Qed.
Print Assumptions C15_worker_count_is_requested_none.

(* finding C15:none:threads_gt_pus_truncated: without the guard the statement is false *)
Example C15_worker_count_none_unguarded_refuted :
  exists t use pm n mc s, startup t BindNone use pm n mc [] = Ok s /\ length (st_workers s) <> n.
Proof. exists [[2; 2]; [2; 2]], true, (fun i => i <? 8), 9, 9. vm_compute. eexists. split; [reflexivity|discriminate]. Qed.

(* (iii) end to end, one theorem about [startup]: decode soundness + exposed list + pool bookkeeping +
   reconfigure_affinities + pool thread ranges.  For every accepted start-up in a binding mode:
   exactly n workers; worker i is bound to exactly the PU it reports, that PU exists, lies inside the
   process mask when one is in use, and is one of the PUs of the one and only pool whose thread range
   contains i; two different workers never share a PU; the workers' PUs are the pools' PUs in order,
   and as a set exactly the PUs the decoder chose. *)
Theorem C15_startup_sound : forall t m use pm n mc specs s,
  (m = Compact -> use = true \/ (n <= mc /\ wf_topo t)) ->
  startup t (BindMode m) use pm n mc specs = Ok s ->
  length (st_workers s) = n /\
  (forall i w, nth_error (st_workers s) i = Some w ->
     w_mask w = [w_pu w] /\ w_pu w < total_pus t /\ (use = true -> pm (w_pu w) = true) /\
     exists j pool, owners (st_pools s) 0 0 i = [j] /\ nth_error (st_pools s) j = Some pool /\ In (w_pu w) pool) /\
  (forall i j wi wj, nth_error (st_workers s) i = Some wi -> nth_error (st_workers s) j = Some wj ->
     i <> j -> w_pu wi <> w_pu wj) /\
  map w_pu (st_workers s) = concat (st_pools s) /\
  Permutation (map w_pu (st_workers s)) (concat (ad_masks (st_ad s))).
Proof. exact startup_sound. Qed.
Print Assumptions C15_startup_sound.

(* (ii) thread-count keywords.  --pika:threads=all: the number of PUs of the machine when the mask is
   ignored, otherwise the number of PUs inside the mask *)
Theorem C15_threads_all : forall t pm,
  default_threads t false pm = total_pus t /\
  exists ps, NoDup ps /\ (forall p, In p ps <-> p < total_pus t /\ pm p = true) /\
             default_threads t true pm = length ps.
Proof. exact default_threads_spec. Qed.
Print Assumptions C15_threads_all.

(* ... and it is the largest thread count the oversubscription check lets through *)
Theorem C15_threads_all_is_max_accepted : forall t use pm n,
  check_num_threads t use pm n = None <-> n <= default_threads t use pm.
Proof. exact default_threads_max. Qed.
Print Assumptions C15_threads_all_is_max_accepted.

(* --pika:threads=cores: the number of cores of the machine when the mask is ignored, otherwise the
   number of cores that have at least one PU inside the mask (core c owns the logical PUs
   prefix t c .. prefix t c + core_pus t c - 1) *)
Theorem C15_threads_cores : forall t pm,
  default_cores t false pm = ncores t /\
  exists cs, NoDup cs /\
    (forall c, In c cs <-> c < ncores t /\ exists q, prefix t c <= q < prefix t c + core_pus t c /\ pm q = true) /\
    default_cores t true pm = length cs.
Proof. exact default_cores_spec. Qed.
Print Assumptions C15_threads_cores.

(* cores <= all, so neither keyword is ever rejected as oversubscription (wf_topo: no core without
   PUs, needed only when the mask is ignored) *)
Theorem C15_threads_keywords_accepted : forall t use pm,
  (use = true \/ wf_topo t) ->
  check_num_threads t use pm (default_threads t use pm) = None /\
  check_num_threads t use pm (default_cores t use pm) = None.
Proof. exact keywords_pass_check. Qed.
Print Assumptions C15_threads_keywords_accepted.

(* ---- the user's process mask: OS indices -> logical indices (Proofs/AffinityMaskProofs.v) ----
   topology::set_cpubind_mask_main_thread = [set_process_mask t osidx phys]: [phys] = set bits of
   --pika:process-mask (OS indices), [osidx] = OS index of the logical PUs 0,1,2,...
   ARBITRARY numbering: one OS index per PU ([length osidx = total_pus t]), injective ([NoDup osidx]);
   nothing is assumed about order or density.  [os_of osidx j o] := the PU with logical index j has OS
   index o;  [mask_bits t pm] = set bits of the stored logical mask;  [names_pu osidx b] := bit b is
   the OS index of some PU.
   Outcomes, exactly as the code: (1) a set bit at or past the NUMBER of PUs -> "bits past the
   hardware concurrency"; (2) otherwise an empty USER mask -> "CPU mask is empty"; (3) otherwise
   accepted, and logical bit j is set iff PU j's OS index is set in the user's mask; the OS indices of
   the selected PUs are, each once, exactly the user's bits that name a PU (so the count is right).
   An empty RESULT is not rejected here (Example C15_process_mask_empty_result_accepted). *)
Theorem C15_process_mask_conversion : forall t osidx phys,
  length osidx = total_pus t -> NoDup osidx ->
  ((exists b, In b phys /\ total_pus t <= b) -> set_process_mask t osidx phys = Err EMaskPastHw) /\
  ((forall b, In b phys -> b < total_pus t) -> phys = [] -> set_process_mask t osidx phys = Err EMaskEmpty) /\
  ((forall b, In b phys -> b < total_pus t) -> phys <> [] ->
     exists pm, set_process_mask t osidx phys = Ok pm /\
       process_mask_bits t osidx phys = Ok (mask_bits t pm) /\
       (forall j, pm j = true <-> exists o, os_of osidx j o /\ In o phys) /\
       (forall j, In j (mask_bits t pm) <-> exists o, os_of osidx j o /\ In o phys) /\
       Permutation (map (fun j => nth j osidx 0) (mask_bits t pm))
                   (filter (names_pu osidx) (nodup Nat.eq_dec phys)) /\
       count_mask t pm = length (filter (names_pu osidx) (nodup Nat.eq_dec phys))).
Proof. exact process_mask_conversion. Qed.
Print Assumptions C15_process_mask_conversion.

(* accepted iff non-empty and every set bit below the number of PUs: the code looks at nothing else *)
Theorem C15_process_mask_accepted_iff : forall t osidx phys,
  (exists pm, set_process_mask t osidx phys = Ok pm) <->
  (phys <> [] /\ forall b, In b phys -> b < total_pus t).
Proof. exact process_mask_accepted_iff. Qed.
Print Assumptions C15_process_mask_accepted_iff.

(* dense numbering (OS indices are 0..#PUs-1 in ANY order, e.g. the "Intel" enumeration): every accepted
   mask keeps all its bits — the selected PUs' OS indices are the user's bits, as many as the user gave *)
Theorem C15_process_mask_dense_complete : forall t osidx phys pm,
  length osidx = total_pus t -> NoDup osidx ->
  (forall b, b < total_pus t -> In b osidx) ->
  set_process_mask t osidx phys = Ok pm ->
  Permutation (map (fun j => nth j osidx 0) (mask_bits t pm)) (nodup Nat.eq_dec phys) /\
  count_mask t pm = length (nodup Nat.eq_dec phys) /\ 0 < count_mask t pm.
Proof. exact process_mask_dense_complete. Qed.
Print Assumptions C15_process_mask_dense_complete.

(* sparse numbering — what the code does (reproduced on the real code, see notes/design/C15.md): a PU whose
   OS index is >= the number of PUs is never inside an accepted explicit mask, and the mask naming
   exactly the machine's PUs is rejected as "past the hardware concurrency" *)
Theorem C15_process_mask_sparse_unselectable : forall t osidx phys pm j o,
  length osidx = total_pus t ->
  os_of osidx j o -> total_pus t <= o ->
  set_process_mask t osidx phys = Ok pm -> pm j = false.
Proof. exact process_mask_sparse_unselectable. Qed.
Print Assumptions C15_process_mask_sparse_unselectable.

Theorem C15_process_mask_sparse_machine_mask_rejected : forall t osidx j o,
  os_of osidx j o -> total_pus t <= o ->
  set_process_mask t osidx osidx = Err EMaskPastHw.
Proof. exact process_mask_sparse_machine_mask_rejected. Qed.
Print Assumptions C15_process_mask_sparse_machine_mask_rejected.

(* (iii') C15_startup_sound about the mask the USER gave ([startup_os] = set_process_mask, then startup):
   every accepted start-up in a binding mode had a non-empty mask without bits at or past #PUs; exactly n
   workers; worker i is bound to exactly the PU it reports, that PU has an OS index, and when the mask is
   in use that OS index is one of the bits the user set; the worker is a member of the one pool whose
   thread range contains i; two different workers have different PUs AND different OS indices. *)
Theorem C15_startup_sound_os_mask : forall t osidx phys m use n mc specs s,
  length osidx = total_pus t -> NoDup osidx ->
  (m = Compact -> use = true \/ (n <= mc /\ wf_topo t)) ->
  startup_os t osidx phys (BindMode m) use n mc specs = Ok s ->
  (phys <> [] /\ forall b, In b phys -> b < total_pus t) /\
  length (st_workers s) = n /\
  (forall i w, nth_error (st_workers s) i = Some w ->
     w_mask w = [w_pu w] /\
     (exists o, os_of osidx (w_pu w) o /\ (use = true -> In o phys)) /\
     exists j pool, owners (st_pools s) 0 0 i = [j] /\ nth_error (st_pools s) j = Some pool /\ In (w_pu w) pool) /\
  (forall i j wi wj oi oj, nth_error (st_workers s) i = Some wi -> nth_error (st_workers s) j = Some wj ->
     i <> j -> os_of osidx (w_pu wi) oi -> os_of osidx (w_pu wj) oj -> w_pu wi <> w_pu wj /\ oi <> oj) /\
  map w_pu (st_workers s) = concat (st_pools s) /\
  Permutation (map w_pu (st_workers s)) (concat (ad_masks (st_ad s))).
Proof. exact startup_sound_os_mask. Qed.
Print Assumptions C15_startup_sound_os_mask.

(* more threads than distinct user bits that name a PU: an error, in every binding mode *)
Theorem C15_oversubscription_rejected_os_mask : forall t osidx phys m n mc specs,
  length osidx = total_pus t -> NoDup osidx ->
  length (filter (names_pu osidx) (nodup Nat.eq_dec phys)) < n ->
  exists e, startup_os t osidx phys (BindMode m) true n mc specs = Err e /\
            (e = EMaskPastHw \/ e = EMaskEmpty \/ e = EOversubMask).
Proof. exact oversubscription_rejected_os_mask. Qed.
Print Assumptions C15_oversubscription_rejected_os_mask.

(* ---- non-vacuity and recorded observations (vm_compute over concrete inputs) ---- *)
Definition full (k : nat) : nat -> bool := fun i => i <? k.
Definition pus_of (r : result started) : list (list nat * nat) :=
  match r with Ok s => map (fun w => (w_mask w, w_pu w)) (st_workers s) | Err _ => [] end.

(* irregular machine (socket 0: two 1-PU cores, socket 1: two 2-PU cores), all four modes accept 4 threads *)
Example C15_example_irregular :
  let t := [[1; 1]; [2; 2]] in
  pus_of (startup t (BindMode NumaBalanced) true (full 6) 4 4 []) = [([0], 0); ([2], 2); ([3], 3); ([4], 4)] /\
  pus_of (startup t (BindMode Scatter) true (full 6) 4 4 []) = [([0], 0); ([1], 1); ([2], 2); ([4], 4)] /\
  pus_of (startup t (BindMode Compact) true (fun i => negb (i =? 1)) 4 4 []) = [([0], 0); ([2], 2); ([3], 3); ([4], 4)] /\
  pus_of (startup t (BindMode Balanced) true (full 6) 5 5 [[1; 3]]) = [([0], 0); ([2], 2); ([4], 4); ([1], 1); ([3], 3)].
Proof. vm_compute. repeat split. Qed.

(* E3a: the numa-balanced decoder's own num_pus lack the socket's core offset, but they are not what is reported *)
Example C15_decoder_pu_num_not_reported :
  let t := [[2; 2]; [2; 2]] in
  (match decode t NumaBalanced true (full 8) 4 4 with Ok (_, nums) => nums | Err _ => [] end) = [0; 2; 0; 2] /\
  pus_of (startup t (BindMode NumaBalanced) true (full 8) 4 4 []) = [([0], 0); ([2], 2); ([4], 4); ([6], 6)].
Proof. vm_compute. repeat split. Qed.

(* E3b: numa-balanced rejects satisfiable requests when every socket's share rounds to 0 *)
Example C15_numa_rejects_satisfiable :
  startup [[1]; [1]; [1]; [1]; [1]; [1]; [1]; [1]] (BindMode NumaBalanced) true (full 8) 3 3 [] = Err ECountMismatch.
Proof. vm_compute. reflexivity. Qed.

(* finding C15:none:threads_gt_pus_truncated — bind=none with more threads than PUs is accepted and
   silently started with #PUs workers (replayed on the real code by the harness) *)
Example C15_none_more_threads_than_pus_truncated :
  length (pus_of (startup [[2; 2]; [2; 2]] BindNone true (full 8) 9 9 [])) = 8.
Proof. vm_compute. reflexivity. Qed.

(* thread-count keywords *)
Example C15_threads_keywords :
  let t := [[2; 2]; [2; 2]] in let pm := fun i => existsb (Nat.eqb i) [0; 1; 3; 4; 5] in
  default_threads t true pm = 5 /\ default_cores t true pm = 3 /\
  default_threads t false pm = 8 /\ default_cores t false pm = 4.
Proof. vm_compute. repeat split. Qed.

(* hypotheses of the start-up theorems are satisfiable: irregular machine, asymmetric mask (PU 1
   excluded), a user pool, every mode; and the compact case without mask (n <= max_cores, wf_topo) *)
Example C15_startup_hypotheses_satisfiable :
  let t := [[1; 1]; [2; 2]] in let pm := fun i => negb (i =? 1) in
  (forall m, exists s, startup t (BindMode m) true pm 4 4 [[1]] = Ok s /\ length (st_workers s) = 4 /\
                       length (st_pools s) = 2) /\
  (exists s, startup t (BindMode Compact) false pm 5 5 [] = Ok s /\ map w_pu (st_workers s) = [0; 1; 2; 3; 4]) /\
  wf_topo t /\
  (exists s, startup t BindNone true pm 3 3 [[0]] = Ok s /\ st_pools s = [[1; 2]; [0]]) /\
  (exists ad, affinity_init t (BindMode Scatter) true pm 4 4 = Ok ad /\ exposed t ad = [0; 2; 3; 4]).
Proof.
  cbv zeta. split; [|split; [|split; [|split]]].
  - intros m; destruct m; vm_compute; eexists; repeat split.
  - vm_compute. eexists. split; reflexivity.
  - repeat constructor.
  - vm_compute. eexists. split; reflexivity.
  - vm_compute. eexists. split; reflexivity.
Qed.

(* pool bookkeeping: hypotheses satisfiable (two user pools out of five exposed PUs) *)
Example C15_pools_partition_example :
  configure_pools {| ad_masks := []; ad_pu_nums := []; ad_noaff := []; ad_n := 0 |} [0; 2; 3; 4; 5] [[1; 3]; [0]]
  = Ok [[3; 5]; [2; 4]; [0]].
Proof. vm_compute. reflexivity. Qed.

(* non-monotone OS numbering (what hwloc shows for "package:1 core:2 pu:2(indexes=0,2,1,3)": core 0 owns
   OS 0 and 2): the user's mask 0x3 = OS {0,1} becomes the logical mask {0,2} = 0x5 — the two masks
   differ; 3 workers are too many, 2 workers sit on logical PUs 0 and 2 (the model's answer is the line
   the real code printed: w=1:0:0|4:2:0) *)
Example C15_process_mask_nonmonotone :
  let t := [[2; 2]] in let osidx := [0; 2; 1; 3] in
  length osidx = total_pus t /\ NoDup osidx /\
  process_mask_bits t osidx [0; 1] = Ok [0; 2] /\
  process_mask_bits t osidx [3; 2; 3] = Ok [1; 3] /\
  pus_of (startup_os t osidx [0; 1] (BindMode Compact) true 2 2 []) = [([0], 0); ([2], 2)] /\
  startup_os t osidx [0; 1] (BindMode Scatter) true 3 3 [] = Err EOversubMask /\
  process_mask_bits t osidx [0; 4] = Err EMaskPastHw /\ process_mask_bits t osidx [] = Err EMaskEmpty.
Proof.
  cbv zeta. split; [reflexivity|]. split; [repeat constructor; cbn; intuition discriminate|].
  vm_compute. repeat split.
Qed.

(* sparse numbering (hwloc: "package:1 core:2 pu:2(indexes=0,4,2,6)"), what the code does:
   0x55 (exactly the machine's four PUs) is rejected; 0x5 selects logical {0,2}; 0xa names no PU, is
   accepted by set_cpubind_mask_main_thread and yields the EMPTY logical mask (the start-up then fails in
   check_num_threads: "... larger than number of processing units available in process mask (0)") *)
Example C15_process_mask_empty_result_accepted :
  let t := [[2; 2]] in let osidx := [0; 4; 2; 6] in
  length osidx = total_pus t /\ NoDup osidx /\
  process_mask_bits t osidx [0; 2; 4; 6] = Err EMaskPastHw /\
  process_mask_bits t osidx [0; 2] = Ok [0; 2] /\
  process_mask_bits t osidx [1; 3] = Ok [] /\
  startup_os t osidx [1; 3] (BindMode Compact) true 1 1 [] = Err EOversubMask.
Proof.
  cbv zeta. split; [reflexivity|]. split; [repeat constructor; cbn; intuition discriminate|].
  vm_compute. repeat split.
Qed.
