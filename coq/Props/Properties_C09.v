(* Props/Properties_C09.v — C09: latch, barrier, event and call_once release exactly when due.
   Only statements; each is closed by [exact] of a lemma from Proofs/ and followed by
   Print Assumptions.  Every theorem quantifies over all schedules (lists of (thread, oracle)),
   all thread counts (threads are nat) and all programs. *)
From Coq Require Import List NArith ZArith Arith Bool.
From Pika Require Import Base.Conc Base.Agent Gen.GenBarrier Gen.GenOnce
  Model.Latch Model.BarrierTree Model.Event Model.Once
  Proofs.LatchProofs Proofs.BarrierTreeProofs Proofs.BarrierClaimsProofs Proofs.BarrierProofs Proofs.EventProofs Proofs.OnceProofs Proofs.OnceLiveProofs.
Import ListNotations.

(* ------------------------------------------------------------------ latch *)
(* Nobody returns from wait / arrive_and_wait while the count is above zero — for every mix of
   count_down(n) / wait / arrive_and_wait(n) / try_wait, and although a suspension may return
   spuriously at any time (oracle OSpur: a stale resume reaches the waiter's agent). *)
Theorem C09_latch_no_early_return : forall sched count progs, (0 <= count)%Z ->
  forall t op v, In (LRet t op v) (llog (fst (latch_run true sched count progs))) -> (v <= 0)%Z.
Proof. exact latch_no_early_return. Qed.
Print Assumptions C09_latch_no_early_return.

(* the counter never goes up: "v <= 0 when the call returned" means the count had reached zero *)
Theorem C09_latch_counter_monotone : forall f o t g l, (Latch.cnt (fst (latch_tstep f o t g l)) <= Latch.cnt g)%Z.
Proof. exact latch_cnt_mono. Qed.
Print Assumptions C09_latch_counter_monotone.

(* Every waiter returns once the count is zero: a state with count 0 in which no thread can take
   a step is a state in which every thread has finished its whole program. *)
Theorem C09_latch_all_return : forall sched count progs, (0 <= count)%Z ->
  let c := latch_run true sched count progs in
  Latch.cnt (fst c) = 0%Z -> (forall t, l_enabled (fst c) t (snd c t) = false) ->
  forall t, lprog (snd c t) = [] /\ lpcs (snd c t) = LIdle.
Proof. exact latch_all_return. Qed.
Print Assumptions C09_latch_all_return.

(* Granularity of the lock-step tie: the latch's spinlock is held ACROSS model steps exactly by an
   arrive_and_wait last arriver between its two steps (fetch_sub | first notify_one), and the
   second step always frees it.  The lock-step harness schedules that critical section as one
   entry (hook before the lock) and replays the two steps back to back. *)
Theorem C09_latch_lock_owner : forall sched count progs, (0 <= count)%Z ->
  let c := latch_run true sched count progs in
  forall t, Latch.lk (fst c) = Some t <-> lpcs (snd c t) = LAwNotify.
Proof. exact latch_lock_owner. Qed.
Print Assumptions C09_latch_lock_owner.

Theorem C09_latch_aw_section_releases : forall f t g l, lpcs l = LAwNotify ->
  Latch.lk (fst (latch_tstep f ONorm t g l)) = None /\ lpcs (snd (latch_tstep f ONorm t g l)) <> LAwNotify.
Proof. exact latch_aw_section_releases. Qed.
Print Assumptions C09_latch_aw_section_releases.

(* ------------------------------------------------------------------ barrier tree *)
(* For every participant count E >= 1 and every interleaving of the ticket CASes: among the
   arrivals of one phase at most one returns true; whoever returns true did its last CAS when
   all E arrivals had started; then no other arrival is still inside; and if all E arrivals have
   started and returned, exactly one returned true.  ([started <= E] is the precondition
   "update <= expected count" of barrier::arrive.) *)
Theorem C09_tree_one_winner : forall E p progs sched, 1 <= E -> (p < pmod)%N ->
  let c := tr_run E p sched progs in
  let g := fst c in
  started (tre g) <= E ->
  wins_of (trlog g) <= 1 /\
  (forall t s, In (t, true, s) (trlog g) -> s = E) /\
  (wins_of (trlog g) = 1 -> started (tre g) = E /\ forall t, tp (snd c t) = None) /\
  (started (tre g) = E -> (forall t, tp (snd c t) = None) -> wins_of (trlog g) = 1).
Proof. exact tree_one_winner. Qed.
Print Assumptions C09_tree_one_winner.

(* The ticket claims of arrive() — old -> full on the unpaired last node ("1 in 1"), old -> half
   ("1 in 2"), half -> full ("2 in 2") — are each ONE atomic read-modify-write in the source:
   the three flags are re-read from barrier.cpp on every run (Gen/GenBarrier.v).  A claim
   rewritten as load; store makes this statement (and with it this file) fail. *)
Theorem C09_tree_claims_are_cas :
  claim_last_is_cas = true /\ claim_first_is_cas = true /\ claim_second_is_cas = true.
Proof. exact claims_are_cas. Qed.
Print Assumptions C09_tree_claims_are_cas.

(* [treex_step cl] is the tree step for any shape cl of the three claims (a load; store claim
   is two steps, another arrival may run in between); for the shape the source has it is the
   step function [tree_step] used by every other theorem and by the lock-step tie. *)
Theorem C09_tree_step_matches_source : forall p t tr pc,
  treex_step src_claims p t tr (XP pc) = liftx (tree_step p t tr pc).
Proof. exact treex_step_matches_source. Qed.
Print Assumptions C09_tree_step_matches_source.

(* C09_tree_one_winner for the model whose claim steps have the shape read from the source *)
Theorem C09_tree_one_winner_src : forall E p progs sched, 1 <= E -> (p < pmod)%N ->
  let c := trx_run src_claims E p sched progs in
  let g := fst c in
  started (tre g) <= E ->
  wins_of (trlog g) <= 1 /\
  (forall t s, In (t, true, s) (trlog g) -> s = E) /\
  (wins_of (trlog g) = 1 -> started (tre g) = E /\ forall t, tpx (snd c t) = None) /\
  (started (tre g) = E -> (forall t, tpx (snd c t) = None) -> wins_of (trlog g) = 1).
Proof. exact tree_one_winner_src. Qed.
Print Assumptions C09_tree_one_winner_src.

(* ... and it is false for a load; store claim.  Unpaired last ticket, E = 3: arrivals 0 and 1
   both read the old phase on node 1 before either stores; both win the ticket (both are in
   round 1 afterwards), arrival 1 then returns true when 2 of the 3 arrivals have started. *)
Theorem C09_tree_nonatomic_last_ticket_two_winners :
  let c := trx_run cl_last_nonatomic 3 0%N sched_last (one_each 3) in
  tpx (snd c 0) = Some (XP (TScan 1 0 2)) /\ tpx (snd c 1) = Some (XP (TScan 1 0 2)) /\
  let c' := trx_run cl_last_nonatomic 3 0%N (sched_last ++ [(0, 0); (1, 0); (1, 0)]) (one_each 3) in
  started (tre (fst c')) = 2 /\ In (1, true, 2) (trlog (fst c')) /\
  ~ (forall t s, In (t, true, s) (trlog (fst c')) -> s = 3).
Proof. exact nonatomic_last_ticket_two_winners. Qed.
Print Assumptions C09_tree_nonatomic_last_ticket_two_winners.

(* first-of-pair claim as load; store, E = 2: both arrivals take the first half, nobody wins *)
Theorem C09_tree_nonatomic_first_ticket_no_winner :
  let c := trx_run cl_first_nonatomic 2 0%N [(0, 0); (1, 0); (0, 0); (1, 0); (0, 0); (1, 0)] (one_each 2) in
  started (tre (fst c)) = 2 /\ (forall t, t < 2 -> tpx (snd c t) = None) /\ tpx (snd c 2) = None /\
  wins_of (trlog (fst c)) = 0 /\ length (trlog (fst c)) = 2.
Proof. exact nonatomic_first_ticket_no_winner. Qed.
Print Assumptions C09_tree_nonatomic_first_ticket_no_winner.

(* second-of-pair claim as load; store, E = 4: a true after 3 of 4 arrivals *)
Theorem C09_tree_nonatomic_second_ticket_early_winner :
  let c := trx_run cl_second_nonatomic 4 0%N
             [(0, 0); (0, 0); (1, 0); (2, 0); (1, 0); (2, 0); (1, 0); (2, 0); (1, 0); (2, 0); (1, 0); (2, 0); (2, 0); (2, 0)]
             (one_each 4) in
  started (tre (fst c)) = 3 /\ In (2, true, 3) (trlog (fst c)).
Proof. exact nonatomic_second_ticket_early_winner. Qed.
Print Assumptions C09_tree_nonatomic_second_ticket_early_winner.

(* When the phase has its winner every ticket the phase used carries old_phase + 2 modulo 2^8,
   which is again a phase byte different from the old one: the next phase (any byte, also across
   the wrap 254 -> 0) starts from the state the theorem above assumes. *)
Theorem C09_tree_tickets_reset : forall E p progs sched, 1 <= E -> (p < pmod)%N ->
  let g := fst (tr_run E p sched progs) in
  started (tre g) <= E -> wins_of (trlog g) = 1 ->
  (forall r n, 2 <= cef E r -> n < nodes E r -> tk (tre g) r n = full_of p) /\
  (full_of p < pmod)%N /\ full_of p <> p.
Proof. exact tree_tickets_reset. Qed.
Print Assumptions C09_tree_tickets_reset.

(* the same tree state is a valid start state for the next phase value and any smaller or equal
   participant count (arrive_and_drop) *)
Theorem C09_tree_phases_compose : forall E E' p tr pcof pcof', (p < pmod)%N -> TInv E p tr pcof ->
  started tr <= E -> 1 <= wins tr -> E' <= E -> (forall t, pcof' t = pcof t) ->
  TInv E' (full_of p) (reset_tree tr) pcof' /\ (forall t, inactive (pcof t)).
Proof. exact TInv_next_phase. Qed.
Print Assumptions C09_tree_phases_compose.

(* every ticket access stays inside state[(E+1)>>1].tickets[ticket_slots] *)
Theorem C09_tree_in_bounds : forall E p progs sched t r c e, 1 <= E -> (p < pmod)%N ->
  E < 2 ^ (ticket_slots - 1) ->
  let cfg := tr_run E p sched progs in
  (tp (snd cfg t) = Some (TScan r c e) \/ tp (snd cfg t) = Some (TSecond r c e)) ->
  r < ticket_slots /\ (if Nat.eqb c ((e + 1) / 2) then 0 else c) < (E + 1) / 2.
Proof. exact tree_in_bounds. Qed.
Print Assumptions C09_tree_in_bounds.

(* ------------------------------------------------------------------ barrier *)
(* Programs: lists of OArrive n (arrive(n), the token is kept), OWait (wait(token)), OArriveWait,
   ODrop, and OWaitBusy / OArriveWaitBusy (wait / arrive_and_wait with busy_wait_timeout > 0: a
   busy wait with an oracle-chosen number of polls before the timer expires, then the blocking
   wait).
   [bad g = false]: the run respected the preconditions of [thread.barrier] (at most `expected`
   arrivals per phase, no arrival with the phase value of a completed phase, no arrive /
   arrive_and_drop while the completion step runs).
   A wait for phase k returns only after phase k was published, the publication came after
   exactly the expected number a of arrivals of phase k and after exactly one run of the
   completion function for phase k. *)
Theorem C09_barrier_no_early_departure : forall E sched progs,
  let g := fst (bar_run E sched progs) in bad g = false ->
  forall l1 l2 t k cur, blog g = l1 ++ EvDepart t k cur :: l2 ->
    k < cur /\
    exists a d l3 l4, l2 = l3 ++ EvPublish k 1 a a d (a - d) :: l4 /\ acount k l4 = a /\ ccount k l4 = 1.
Proof. exact barrier_no_early_departure. Qed.
Print Assumptions C09_barrier_no_early_departure.

Theorem C09_completion_once_per_phase_before_release : forall E sched progs,
  let g := fst (bar_run E sched progs) in bad g = false ->
  (forall k, k < phno g -> ccount k (blog g) = 1) /\
  ccount (phno g) (blog g) <= 1 /\ (forall k, phno g < k -> ccount k (blog g) = 0) /\
  (forall t k a e, In (EvCompl t k a e) (blog g) -> a = e) /\
  (forall l1 l2 k c a eo d en, blog g = l1 ++ EvPublish k c a eo d en :: l2 ->
     c = 1 /\ ccount k l2 = 1 /\ acount k l2 = eo /\ a = eo).
Proof. exact completion_once_per_phase_before_release. Qed.
Print Assumptions C09_completion_once_per_phase_before_release.

(* arrive_and_drop: the next phase expects eo - d participants, the tree invariant holds for the
   new count, so the two theorems above cover all later phases as well *)
Theorem C09_barrier_drop_reusable : forall E sched progs,
  let g := fst (bar_run E sched progs) in bad g = false ->
  (forall k c a eo d en, In (EvPublish k c a eo d en) (blog g) -> en = eo - d /\ a = eo) /\
  (cstage g = 0 -> expected g = eph g /\ adj g = (- Z.of_nat (drops g))%Z) /\
  TInv (eph g) (phase g) (btree g) (bpcs (snd (bar_run E sched progs))) /\
  started (btree g) <= eph g.
Proof. exact barrier_drop_reusable. Qed.
Print Assumptions C09_barrier_drop_reusable.

(* wait(token) leaves as soon as it polls after the token's phase completed — unless the token
   was held for 2^(phase_bits-1) = 128 phases (the phase byte has wrapped onto the token) *)
Theorem C09_barrier_wait_releases : forall E sched progs t old k,
  let c := bar_run E sched progs in bad (fst c) = false ->
  pcb (snd c t) = BPoll old k -> k < phno (fst c) -> phno (fst c) - k < 128 ->
  forall o, pcb (snd (b_tstep o t (fst c) (snd c t))) = BIdle /\
            blog (fst (b_tstep o t (fst c) (snd c t))) = EvDepart t k (phno (fst c)) :: blog (fst c).
Proof. exact barrier_wait_releases. Qed.
Print Assumptions C09_barrier_wait_releases.

(* wait(token, busy_wait_timeout) / arrive_and_wait(busy_wait_timeout) with a positive timeout
   (operations OWaitBusy / OArriveWaitBusy; C09_barrier_no_early_departure and the theorems above
   quantify over programs that contain them).  The busy wait is one more polling loop in front of
   the blocking wait; whether its timer has expired at an iteration is the oracle of the step.
   An expired timer never lets the caller out: the step changes nothing but the thread's program
   counter, which goes on with the blocking wait for the same token. *)
Theorem C09_barrier_busy_wait_timeout_falls_back : forall o t g (l : blocal) old k,
  pcb l = BSpin old k -> timed_out o = true ->
  fst (b_tstep o t g l) = g /\ snd (b_tstep o t g l) = setpc l (BPoll old k).
Proof. exact barrier_busy_wait_timeout_falls_back. Qed.
Print Assumptions C09_barrier_busy_wait_timeout_falls_back.

(* every iteration of the busy wait: keep spinning, fall back to the blocking wait, or return —
   and it returns only when the phase byte it read differs from the token and the timer had not
   expired *)
Theorem C09_barrier_busy_wait_step : forall o t g (l : blocal) old k,
  pcb l = BSpin old k ->
  (b_tstep o t g l = (g, l)) \/
  (b_tstep o t g l = (g, setpc l (BPoll old k))) \/
  (phase g <> old /\ timed_out o = false /\
   b_tstep o t g l = (blog_add g (EvDepart t k (phno g)),
                      {| bprog := tl (bprog l); pcb := BIdle; token := token l; tokk := tokk l |})).
Proof. exact barrier_busy_wait_step. Qed.
Print Assumptions C09_barrier_busy_wait_step.

(* a poll of the busy wait after the token's phase completed returns (same side condition as
   C09_barrier_wait_releases) *)
Theorem C09_barrier_busy_wait_releases : forall E sched progs t old k,
  let c := bar_run E sched progs in bad (fst c) = false ->
  pcb (snd c t) = BSpin old k -> k < phno (fst c) -> phno (fst c) - k < 128 ->
  forall o, timed_out o = false ->
            pcb (snd (b_tstep o t (fst c) (snd c t))) = BIdle /\
            blog (fst (b_tstep o t (fst c) (snd c t))) = EvDepart t k (phno (fst c)) :: blog (fst c).
Proof. exact barrier_busy_wait_releases. Qed.
Print Assumptions C09_barrier_busy_wait_releases.

(* only the operations with a positive timeout ever spin: wait(token) / arrive_and_wait() with
   the default (zero) timeout go to the blocking wait directly *)
Theorem C09_barrier_busy_wait_only_when_requested : forall E sched progs t old k,
  let c := bar_run E sched progs in
  pcb (snd c t) = BSpin old k -> busy_op (bprog (snd c t)) = true.
Proof. exact barrier_busy_wait_entered. Qed.
Print Assumptions C09_barrier_busy_wait_only_when_requested.

(* ------------------------------------------------------------------ event *)
Theorem C09_event_wait_saw_set : forall sched progs t b,
  In (ERet t b) (elog (fst (e_run sched progs))) -> b = true.
Proof. exact event_wait_saw_set. Qed.
Print Assumptions C09_event_wait_saw_set.

(* once set (and while it stays set) the event releases all current and future waiters *)
Theorem C09_event_releases_all : forall sched progs,
  let c := e_run sched progs in
  flag (est (fst c)) = true -> (forall t, e_enabled (fst c) t (snd c t) = false) ->
  forall t, eprog (snd c t) = [] /\ epcs (snd c t) = None.
Proof. exact event_releases_all. Qed.
Print Assumptions C09_event_releases_all.

(* the event's spinlock is held across model steps exactly by a thread inside set()'s notify_all *)
Theorem C09_event_lock_owner : forall sched progs,
  let c := e_run sched progs in
  forall t, elk (est (fst c)) = Some t <-> exists p, epcs (snd c t) = Some (ESN p).
Proof. exact event_lock_owner. Qed.
Print Assumptions C09_event_lock_owner.

(* ------------------------------------------------------------------ call_once *)
(* at most one successful run; a run begins only when every earlier run has ended, none of them
   successfully; at most one run is in progress *)
Theorem C09_once_exactly_once : forall sched ncalls,
  let g := fst (o_run sched ncalls) in
  nok (olog g) <= 1 /\
  (forall l1 l2 t, olog g = l1 ++ OBegin t :: l2 -> nbegin l2 = nend l2 /\ nok l2 = 0) /\
  nend (olog g) <= nbegin (olog g) <= S (nend (olog g)).
Proof. exact once_exactly_once. Qed.
Print Assumptions C09_once_exactly_once.

(* every call_once returns only after the successful run has finished *)
Theorem C09_once_others_wait : forall sched ncalls,
  let g := fst (o_run sched ncalls) in
  forall l1 l2 t, olog g = l1 ++ ORet t :: l2 -> nok l2 = 1.
Proof. exact once_others_wait. Qed.
Print Assumptions C09_once_others_wait.

(* retrying after a throw: when no thread can take a step, every call_once has returned or
   rethrown — no caller is left blocked (or about to block) in the flag's event, whatever the number
   of callers, the pattern of throwing runs and the stale resumes *)
Theorem C09_once_retry_after_throw : forall sched ncalls,
  let c := o_run sched ncalls in
  (forall t, o_enabled (fst c) t (snd c t) = false) ->
  forall t, opc (snd c t) = None /\ calls (snd c t) = 0.
Proof. exact once_all_return. Qed.
Print Assumptions C09_once_retry_after_throw.

(* how the flag is handed back: the thrower stores the value the CAS expects; the status is
   `running` only while a runner is between its CAS and its store; a caller whose CAS finds that
   value becomes the next runner *)
Theorem C09_once_handback_after_throw : forall sched ncalls,
  let c := o_run sched ncalls in
  once_after_throw = once_cas_expected /\
  (status (fst c) = once_running ->
     exists t, orun (fst c) = Some t /\ runner_pc (opc (snd c t)) = true) /\
  (forall t o, opc (snd c t) = Some (OStore false) ->
     status (fst (o_tstep (OONorm o) t (fst c) (snd c t))) = once_cas_expected) /\
  (forall t o, opc (snd c t) = Some OC1 -> status (fst c) = once_cas_expected ->
     orun (fst (o_tstep (OONorm o) t (fst c) (snd c t))) = Some t /\
     opc (snd (o_tstep (OONorm o) t (fst c) (snd c t))) = Some OR1).
Proof. exact once_handback_after_throw. Qed.
Print Assumptions C09_once_handback_after_throw.

(* ------------------------------------------------------------------ non-vacuity *)
Fixpoint rr {O} (o : O) (T rounds : nat) : list (nat * O) :=
  match rounds with 0 => [] | S r => map (fun t => (t, o)) (seq 0 T) ++ rr o T r end.

(* 3 arrivals (a non-power of two) from 3 threads, round robin: one winner, tickets reset *)
Example C09_tree_example :
  let c := tr_run 3 254%N (rr 0 3 6) (fun t => if t <? 3 then 1 else 0) in
  started (tre (fst c)) = 3 /\ wins_of (trlog (fst c)) = 1 /\ length (trlog (fst c)) = 3 /\
  tk (tre (fst c)) 0 0 = 0%N /\ tk (tre (fst c)) 0 1 = 0%N /\ tk (tre (fst c)) 1 0 = 0%N.
Proof. vm_compute. repeat split. Qed.

(* barrier(3): phase 0 with one arrive_and_drop, then phase 1 with the two remaining threads *)
Example C09_barrier_example :
  let progs := fun t => match t with 0 => [OArriveWait; OArriveWait] | 1 => [OArriveWait; OArriveWait]
                                | 2 => [ODrop] | _ => [] end in
  let g := fst (bar_run 3 (rr 0 3 40) progs) in
  bad g = false /\ phno g = 2 /\ expected g = 2 /\
  acount 0 (blog g) = 3 /\ acount 1 (blog g) = 2 /\ ccount 0 (blog g) = 1 /\ ccount 1 (blog g) = 1.
Proof. vm_compute. repeat split. Qed.

(* barrier(2), a straggler and a busy-wait timeout shorter than the skew: thread 0 arrives, polls
   twice, its timer expires (oracle 1) -> it is in the blocking wait, nobody has departed; then
   thread 1 arrives late and completes the phase (its own busy wait sees the new phase at its
   first poll); both leave phase 0 after the publication *)
Example C09_barrier_busy_wait_example :
  let progs := fun t => match t with 0 => [OArriveWaitBusy] | 1 => [OArriveWaitBusy] | _ => [] end in
  let s0 := [(0, 0); (0, 0); (0, 0); (0, 0); (0, 0); (0, 0); (0, 1)] in
  let c0 := bar_run 2 s0 progs in
  let c := bar_run 2 (s0 ++ rr 0 2 12) progs in
  pcb (snd c0 0) = BPoll phase_init 0 /\ blog (fst c0) = [EvArrive 0 0] /\
  pcb (snd (bar_run 2 (removelast s0) progs) 0) = BSpin phase_init 0 /\
  bad (fst c) = false /\ phno (fst c) = 1 /\
  blog (fst c) = [EvDepart 1 0 1; EvDepart 0 0 1; EvPublish 0 1 2 2 0 2; EvCompl 1 0 2 2; EvArrive 1 0; EvArrive 0 0] /\
  map (fun t => bprog (snd c t)) (seq 0 3) = [[]; []; []].
Proof. vm_compute. repeat split. Qed.

(* latch(2): two waiters (one hit by a stale resume), a count_down(1) and an arrive_and_wait *)
Example C09_latch_example :
  let progs := fun t => match t with 0 => [LWait] | 1 => [LWait; LTryWait] | 2 => [LCountDown 1]
                                | 3 => [LArriveWait 1] | _ => [] end in
  let c := latch_run true ([(0, ONorm); (0, OSpur); (0, ONorm); (0, ONorm); (0, ONorm)] ++ rr ONorm 4 12) 2 progs in
  Latch.cnt (fst c) = 0%Z /\ length (rets (llog (fst c))) = 3 /\
  map (fun t => l_enabled (fst c) t (snd c t)) (seq 0 5) = [false; false; false; false; false] /\
  map (fun t => lprog (snd c t)) (seq 0 5) = [[]; []; []; []; []].
Proof. vm_compute. repeat split. Qed.

(* F12 on the ORIGINAL latch code (wait suspends once without re-checking): a stale resume makes
   wait() return while the count is still 1.  (The repaired code is what the theorems are about.) *)
Example C09_latch_original_code_early_return :
  exists sched progs, In (LRet 0 LWait 1%Z) (llog (fst (latch_run false sched 1 progs))).
Proof. exact latch_single_early_return. Qed.

Example C09_event_example :
  let progs := fun t => match t with 0 => [EWait] | 1 => [EWait] | 2 => [ESet] | _ => [] end in
  let c := e_run (rr ENorm 3 12) progs in
  flag (est (fst c)) = true /\ length (elog (fst c)) = 3.
Proof. vm_compute. repeat split. Qed.

(* occurred() is one load: thread 3 reads false before the set and true after it; thread 0 waits
   and is released by thread 2's set (thread 1's reset comes before the store of the set) *)
Example C09_event_occurred_example :
  let progs := fun t => match t with 0 => [EWait] | 1 => [EReset] | 2 => [ESet] | 3 => [EOcc; EOcc] | _ => [] end in
  let c := e_run ([(3, ENorm)] ++ rr ENorm 3 12 ++ [(3, ENorm)]) progs in
  elog (fst c) = [EOccurred 3 true; ESetDone 2; ERet 0 true; EOccurred 3 false] /\ flag (est (fst c)) = true /\
  map (fun t => e_enabled (fst c) t (snd c t)) (seq 0 5) = [false; false; false; false; false].
Proof. vm_compute. repeat split. Qed.

(* call_once: thread 0's run throws, thread 1 retries and succeeds, thread 2 waits for it *)
Example C09_once_example :
  let sched := [(0, OONorm false); (0, OONorm false); (0, OONorm false); (1, OONorm false); (1, OONorm false);
                (1, OONorm false); (0, OONorm false); (0, OONorm true)] ++ rr (OONorm false) 3 30 in
  let g := fst (o_run sched (fun t => if t <? 3 then 1 else 0)) in
  nbegin (olog g) = 2 /\ nok (olog g) = 1 /\ status g = once_complete /\
  length (filter (fun e => match e with ORet _ => true | _ => false end) (olog g)) = 2 /\
  length (filter (fun e => match e with OThrown _ => true | _ => false end) (olog g)) = 1.
Proof. vm_compute. repeat split. Qed.
