(* Props/Properties_C04.v — C04: async_rw_mutex: exclusive writers, grouped readers,
   request-order grants.  Only statements; each is closed by [exact] of a lemma from
   Proofs/RwMutexProofs.v and followed by Print Assumptions.  All statements quantify over
   every schedule (list of (thread, command) pairs: every thread count, every request
   sequence, every placement of start / drop / copy / use / release / destroy, every
   interleaving of the atomic steps, spurious weak-CAS failures).

   Tokens are the shared_ptr references to a shared state ("group"); a token is a *wrapper*
   when its state is TLive (held by the program) or TAuto (inside set_value of a receiver that
   drops it); [gw] additionally covers an operation state whose continuation has been decided
   (sentinel seen / taken by the exchange) but not yet run; [alive] is any reference at all
   (sender, started or queued operation state, wrapper, temporary).  Groups are numbered in
   request order (request i belongs to a group >= the group of request j whenever i >= j).

   NOT proven here (see notes/design/C04.md; checked on every run by the lock-step replay and
   by the monitors of tools/props/c04.py only): the log forms rw_request_order (grant log
   sorted), rw_sees_prior_writes, rw_granted_once, rw_progress, the value-refcount form of
   rw_value_outlives, and "a read-write group has exactly one wrapper". *)
From Coq Require Import List Arith.
From Pika Require Import Base.Conc Model.RwMutex Proofs.RwMutexProofs.
Import ListNotations.

(* wrappers of two different groups never exist at the same time: a read-write access never
   overlaps an access of another request group, a read access overlaps only reads of its own
   group (= reads requested between the same two read-write requests) *)
Theorem C04_rw_exclusive : forall sched e1 e2, let g := fst (rw_run sched) in
  is_wrapper (tst (tok g e1)) = true -> is_wrapper (tst (tok g e2)) = true ->
  tgrp (tok g e1) = tgrp (tok g e2).
Proof. exact rw_exclusive. Qed.
Print Assumptions C04_rw_exclusive.

(* state form of request-order granting: while an access of group k is granted (or its grant
   has been decided), no reference of any kind to an earlier group exists any more — every
   earlier sender has been started or dropped, every earlier wrapper released — and all earlier
   shared states have reference count 0.  (The log form "the grant log is sorted by request
   group" is not proven; full statement:
     forall sched, StronglySorted ge (map group_of (grants (elog (fst (rw_run sched)))))) *)
Theorem C04_rw_request_order_partial : forall sched e e', let g := fst (rw_run sched) in
  gw (tst (tok g e)) = true -> alive (tst (tok g e')) = true ->
  tgrp (tok g e) <= tgrp (tok g e') /\ forall j, j < tgrp (tok g e) -> refs (grp g j) = 0.
Proof. exact rw_order_state. Qed.
Print Assumptions C04_rw_request_order_partial.

(* the reference count of every shared state is exactly the number of live references the
   model tracks (tokens, the mutex's `state` member, the predecessor's `next_state`): no
   reference is lost or counted twice by any interleaving of releases, copies and requests *)
Theorem C04_rw_refcount_exact : forall sched k, let g := fst (rw_run sched) in k < ngrp g ->
  refs (grp g k) = cnt (holdsf (tok g) k) (ntok g) + b2n (ms_is (mstate g) k) + b2n (lk (grp g) k).
Proof. exact rw_refcount. Qed.
Print Assumptions C04_rw_refcount_exact.

(* the shared state (which owns a reference to the wrapped value until its destructor runs)
   outlives every reference to it — in particular every access wrapper, whether or not the mutex
   still exists: its count is positive and its destructor has not started.  (The value's own
   reference count is not part of the proven invariant: partial form of rw_value_outlives.) *)
Theorem C04_rw_value_outlives_partial : forall sched e, let g := fst (rw_run sched) in
  alive (tst (tok g e)) = true ->
  1 <= refs (grp g (tgrp (tok g e))) /\ gphase (grp g (tgrp (tok g e))) = 0.
Proof. exact rw_group_outlives. Qed.
Print Assumptions C04_rw_value_outlives_partial.

(* the intrusive queue only ever contains operation states of its own group that are waiting:
   nothing is pushed after the sentinel exchange and nothing granted stays queued *)
Theorem C04_rw_queue_wellformed : forall sched k l e, let g := fst (rw_run sched) in
  head (grp g k) = HList l -> In e l -> tst (tok g e) = TQueued /\ tgrp (tok g e) = k.
Proof. exact rw_queue_wf. Qed.
Print Assumptions C04_rw_queue_wellformed.

(* non-vacuity: W, R, R requested; the writer is granted inline; both readers queue behind it
   (one CAS fails spuriously first); releasing the writer runs its destructor on thread 1, whose
   exchange hands the access to both readers in LIFO order; the mutex is destroyed while the
   readers still hold their wrappers *)
Example C04_rw_example :
  let sched := [(0, CReq KW); (0, CStep false); (0, CReq KR); (0, CStep false); (0, CReq KR);
                (0, CStart 0 false false); (0, CStep false); (0, CStep false);
                (1, CStart 1 false false); (2, CStart 3 false false);
                (1, CStep false); (2, CStep false); (1, CStep true); (1, CStep false); (2, CStep false);
                (2, CStep false);
                (1, CUse 0); (1, CRelease 0); (1, CStep false); (1, CStep false); (1, CStep false);
                (1, CStep false); (1, CStep false); (1, CStep false); (0, CDestroy); (0, CStep false);
                (0, CStep false); (2, CUse 1)] in
  let g := fst (rw_run sched) in
  tst (tok g 1) = TLive /\ tst (tok g 3) = TLive /\ tgrp (tok g 1) = 1 /\ refs (grp g 0) = 0 /\
  refs (grp g 1) = 2 /\ vfreed g = false /\ bad g = false /\
  elog g = [EUse 1 1 1 false; EGrant 1 1 1; EGrant 3 1 2; ERel 0; EUse 0 0 0 true; EGrant 0 0 0].
Proof. vm_compute. repeat split. Qed.
