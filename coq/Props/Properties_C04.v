(* Props/Properties_C04.v — C04: async_rw_mutex: exclusive writers, grouped readers,
   request-order grants.  Only statements; each is closed by [exact] of a lemma from
   Proofs/RwMutexProofs.v and followed by Print Assumptions.  All statements quantify over
   every schedule (list of (thread, command) pairs: every thread count, every request
   sequence, every placement of start / drop / copy / use / release / destroy, every
   interleaving of the atomic steps, spurious weak-CAS failures).

   Tokens are the shared_ptr references to a shared state ("group"); a token is a *wrapper*
   when its state is TLive (held by the program) or TAuto (inside set_value of a receiver that
   drops it); [gw] additionally covers an operation state whose continuation has been decided
   (sentinel seen / taken by the exchange) but not yet run; [alive] is any reference at all
   (sender, started or queued operation state, wrapper, temporary).  Groups are numbered in
   request order (request i belongs to a group >= the group of request j whenever i >= j).

   Client contract ([contract_from], Proofs/RwMutexWorkProofs.v; async_rw_mutex.hpp: "Retrieving senders from the
   mutex is not thread-safe"): a request or the destruction of the mutex is not issued while a thread is still
   inside the first request.  Under it the ownership guards of the model never fire (C04_rw_no_bad_guarded) and a
   started access is never stranded (C04_rw_progress); unconditionally [bad = false] is refuted below. *)
From Coq Require Import List Arith Sorted.
From Pika Require Import Base.Conc Model.RwMutex Proofs.RwMutexProofs Proofs.RwMutexLogProofs Proofs.RwMutexReqProofs Proofs.RwMutexQueueProofs Proofs.RwMutexDoneProofs
  Proofs.RwMutexWorkProofs.
Import ListNotations.

(* wrappers of two different groups never exist at the same time: a read-write access never
   overlaps an access of another request group, a read access overlaps only reads of its own
   group (= reads requested between the same two read-write requests) *)
Theorem C04_rw_exclusive : forall sched e1 e2, let g := fst (rw_run sched) in
  is_wrapper (tst (tok g e1)) = true -> is_wrapper (tst (tok g e2)) = true ->
  tgrp (tok g e1) = tgrp (tok g e2).
Proof. exact rw_exclusive. Qed.
Print Assumptions C04_rw_exclusive.

(* state form of request-order granting: while an access of group k is granted (or its grant
   has been decided), no reference of any kind to an earlier group exists any more — every
   earlier sender has been started or dropped, every earlier wrapper released — and all earlier
   shared states have reference count 0.  (The log form "the grant log is sorted by request
   group" is not proven; full statement:
     forall sched, StronglySorted ge (map group_of (grants (elog (fst (rw_run sched)))))) *)
Theorem C04_rw_request_order_partial : forall sched e e', let g := fst (rw_run sched) in
  gw (tst (tok g e)) = true -> alive (tst (tok g e')) = true ->
  tgrp (tok g e) <= tgrp (tok g e') /\ forall j, j < tgrp (tok g e) -> refs (grp g j) = 0.
Proof. exact rw_order_state. Qed.
Print Assumptions C04_rw_request_order_partial.

(* the reference count of every shared state is exactly the number of live references the
   model tracks (tokens, the mutex's `state` member, the predecessor's `next_state`): no
   reference is lost or counted twice by any interleaving of releases, copies and requests *)
Theorem C04_rw_refcount_exact : forall sched k, let g := fst (rw_run sched) in k < ngrp g ->
  refs (grp g k) = cnt (holdsf (tok g) k) (ntok g) + b2n (ms_is (mstate g) k) + b2n (lk (grp g) k).
Proof. exact rw_refcount. Qed.
Print Assumptions C04_rw_refcount_exact.

(* the shared state (which owns a reference to the wrapped value until its destructor runs)
   outlives every reference to it — in particular every access wrapper, whether or not the mutex
   still exists: its count is positive and its destructor has not started.  (The value's own
   reference count is not part of the proven invariant: partial form of rw_value_outlives.) *)
Theorem C04_rw_value_outlives_partial : forall sched e, let g := fst (rw_run sched) in
  alive (tst (tok g e)) = true ->
  1 <= refs (grp g (tgrp (tok g e))) /\ gphase (grp g (tgrp (tok g e))) = 0.
Proof. exact rw_group_outlives. Qed.
Print Assumptions C04_rw_value_outlives_partial.

(* the intrusive queue only ever contains operation states of its own group that are waiting:
   nothing is pushed after the sentinel exchange and nothing granted stays queued *)
Theorem C04_rw_queue_wellformed : forall sched k l e, let g := fst (rw_run sched) in
  head (grp g k) = HList l -> In e l -> tst (tok g e) = TQueued /\ tgrp (tok g e) = k.
Proof. exact rw_queue_wf. Qed.
Print Assumptions C04_rw_queue_wellformed.

(* ---- log forms (second invariant layer, Proofs/RwMutexLogProofs.v) ----
   [elog] is the ghost event log, newest first.  [grps l] = the request groups of the grant and
   use events of l, [grant_grps l] = those of the grant events only, [grant_toks l] = the tokens
   of the grant events, [nwrites l] = number of read-write uses in l, [ge_nat a b] = b <= a. *)

(* rw_request_order: accesses are granted in request order.  (1) the grant log, read from the
   newest entry, has non-increasing group numbers; (2) the same, positionally: a grant that was
   logged before another belongs to the same or an earlier request group; (3) the group and the
   request index recorded in a grant are those of the granted token (groups are numbered in
   request order: request i is in a group >= that of request j whenever i >= j).  Grants inside
   one read group may happen in any order, which the property allows. *)
Theorem C04_rw_request_order : forall sched, let g := fst (rw_run sched) in
  StronglySorted ge_nat (grant_grps (elog g)) /\
  (forall l1 l2 e k r e' k' r', elog g = l1 ++ EGrant e' k' r' :: l2 -> In (EGrant e k r) l2 -> k <= k') /\
  (forall e k r, In (EGrant e k r) (elog g) -> k = tgrp (tok g e) /\ r = treq (tok g e)).
Proof. exact rw_request_order. Qed.
Print Assumptions C04_rw_request_order.

(* group numbers follow request indices ([treq] = position of the request in the sequence of
   read()/readwrite() calls; a copy of a read sender/wrapper inherits it): of two granted
   accesses the one in the earlier group was requested earlier, and accesses with the same
   request index are in the same group.  Together with C04_rw_request_order: grants happen in
   the order of the requests, up to reordering inside one read group. *)
Theorem C04_rw_request_index : forall sched, let g := fst (rw_run sched) in
  forall e1 k1 r1 e2 k2 r2, In (EGrant e1 k1 r1) (elog g) -> In (EGrant e2 k2 r2) (elog g) ->
    (k1 < k2 -> r1 < r2) /\ (r1 = r2 -> k1 = k2) /\ r1 < nreq g /\ k1 < ngrp g.
Proof. exact rw_request_index. Qed.
Print Assumptions C04_rw_request_index.

(* grants AND uses of the value together are sorted by request group *)
Theorem C04_rw_log_sorted : forall sched, StronglySorted ge_nat (grps (elog (fst (rw_run sched)))).
Proof. exact rw_log_sorted. Qed.
Print Assumptions C04_rw_log_sorted.

(* rw_granted_once: no token is granted twice; a granted token exists and was started
   ([tstarted] is set by CStart only); a started token is either still waiting for its grant
   (starting / queued / grant decided) or has been granted; a waiting token has not been
   granted yet.  ("At least once" is the progress statement.) *)
Theorem C04_rw_granted_once : forall sched, let g := fst (rw_run sched) in
  NoDup (grant_toks (elog g)) /\
  (forall e k r, In (EGrant e k r) (elog g) -> e < ntok g /\ tstarted (tok g e) = true) /\
  (forall e, tstarted (tok g e) = true -> pend (tst (tok g e)) = true \/ In e (grant_toks (elog g))) /\
  (forall e, pend (tst (tok g e)) = true -> tstarted (tok g e) = true /\ ~ In e (grant_toks (elog g))).
Proof. exact rw_granted_once. Qed.
Print Assumptions C04_rw_granted_once.

(* rw_writer_alone: a read-write access never overlaps ANY other access.  The code makes the
   read-write sender and wrapper move-only (async_rw_mutex_copyability<readwrite> deletes the
   copy operations, the readwrite wrapper deletes them too), so a read-write group has a single
   access lineage: (1) two wrappers that exist at the same time, one of them of a read-write
   group, are the same wrapper; (2) a read-write group never has two access references (sender,
   operation state or wrapper) at all; (3) a read-write group is granted at most once. *)
Theorem C04_rw_writer_alone : forall sched, let g := fst (rw_run sched) in
  (forall e1 e2, is_wrapper (tst (tok g e1)) = true -> is_wrapper (tst (tok g e2)) = true ->
     gkind (grp g (tgrp (tok g e1))) = KW -> e1 = e2) /\
  (forall e1 e2, acc (tst (tok g e1)) = true -> acc (tst (tok g e2)) = true -> tgrp (tok g e1) = tgrp (tok g e2) ->
     gkind (grp g (tgrp (tok g e1))) = KW -> e1 = e2) /\
  (forall e1 e2 k r1 r2, In (EGrant e1 k r1) (elog g) -> In (EGrant e2 k r2) (elog g) -> gkind (grp g k) = KW -> e1 = e2).
Proof. exact rw_writer_alone. Qed.
Print Assumptions C04_rw_writer_alone.

(* rw_sees_prior_writes: take any use of the value in the log (l2 = what happened before it,
   l1 = what happened after it).  The version it saw is the number of modifications made before
   it; every modification made before it belongs to the same or an earlier request group,
   every modification made after it to the same or a later one, strictly earlier / later
   when the access is a read.  Hence a read of group k sees exactly the modifications of all
   read-write groups < k — all of them, and nothing else. *)
Theorem C04_rw_sees_prior_writes : forall sched, let g := fst (rw_run sched) in
  forall l1 l2 e k s wr, elog g = l1 ++ EUse e k s wr :: l2 ->
    s = nwrites l2 /\ wr = kind_eqb (gkind (grp g k)) KW /\
    (forall e' k' s', In (EUse e' k' s' true) l2 -> k' <= k /\ (wr = false -> k' < k)) /\
    (forall e' k' s', In (EUse e' k' s' true) l1 -> k <= k' /\ (wr = false -> k < k')).
Proof. exact rw_sees_prior_writes. Qed.
Print Assumptions C04_rw_sees_prior_writes.

(* rw_value_outlives: while any reference to a shared state exists (in particular an access
   wrapper), that shared state still holds its reference to the wrapped value, the value's
   reference count is positive and the value has not been destroyed — whether or not the mutex
   still exists; the count is exactly [mutex still holds it] + #shared states holding it. *)
Theorem C04_rw_value_outlives : forall sched e, let g := fst (rw_run sched) in
  alive (tst (tok g e)) = true ->
  vheld (grp g (tgrp (tok g e))) = true /\ 1 <= vrefs g /\ vfreed g = false /\
  vrefs g = b2n (mvheld g) + cnt (fun k => vheld (grp g k)) (ngrp g).
Proof. exact rw_value_outlives. Qed.
Print Assumptions C04_rw_value_outlives.

(* partial form of rw_progress (safety half: no grant is lost between the CAS-push and the
   sentinel exchange): an operation state that was pushed is in the list of its group, which the
   exchange in done() takes as a whole (every element gets its continuation, WDx); once the
   head is the sentinel no operation state of that group is waiting in the queue (a later start
   sees the sentinel and is granted inline).  The liveness-as-safety half is C04_rw_progress below. *)
Theorem C04_rw_progress_partial : forall sched, let g := fst (rw_run sched) in
  (forall e, tst (tok g e) = TQueued -> exists l, head (grp g (tgrp (tok g e))) = HList l /\ In e l) /\
  (forall e, head (grp g (tgrp (tok g e))) = HSent -> tst (tok g e) <> TQueued).
Proof. exact rw_no_lost_push. Qed.
Print Assumptions C04_rw_progress_partial.

(* shared-state layer of the work-list invariant: done() is issued at most once per shared state and in destructor
   order.  In every reachable state (all schedules, no contract assumed)
   - a group has at most one "local taken from next_state" (TDone token): its predecessor's destructor took
     next_state once;
   - such a local for group S p exists only after the destructor body of p has finished (phase 3, count 0);
   - the sentinel of a successor group S p is set (done() ran) only after the destructor body of p finished. *)
Theorem C04_rw_done_once : forall sched, let g := fst (rw_run sched) in
  (forall e e' t t', tst (tok g e) = TDone t -> tst (tok g e') = TDone t' -> tgrp (tok g e) = tgrp (tok g e') -> e = e') /\
  (forall e t, tst (tok g e) = TDone t -> exists p, tgrp (tok g e) = S p /\ gphase (grp g p) = 3 /\ refs (grp g p) = 0) /\
  (forall p, S p < ngrp g -> head (grp g (S p)) = HSent -> gphase (grp g p) = 3 /\ refs (grp g p) = 0).
Proof. exact rw_done_once. Qed.
Print Assumptions C04_rw_done_once.

(* [bad = false] in every reachable state is FALSE for the model as written: it lets other
   threads use the sender of a request and issue mutex calls while the requesting thread is
   still inside read()/readwrite() (the first group's done() is a separate work item), which
   C++ does not allow (the sender has not been returned yet; concurrent calls on the mutex
   object are excluded by its contract).  Witness: thread 0 requests; thread 1 drops that
   sender and destroys the mutex; thread 0 then runs done() on the destroyed first group.  The
   lock-step harness never produces such a schedule (it issues a mutex call only when no thread
   is inside one); `bad = 0` is compared on every replayed schedule. *)
Theorem C04_rw_no_bad_refuted : exists sched, bad (fst (rw_run sched)) = true.
Proof. exact rw_no_bad_refuted. Qed.
Print Assumptions C04_rw_no_bad_refuted.

(* ---- the work-list layer (Proofs/RwMutexWorkProofs.v) ----
   [contract_from c sched] is evaluated along the run: whenever the scheduled thread is idle (its work list is
   empty, so it executes the command) and the command is a request (CReq) or the destruction of the mutex
   (CDestroy), no thread has a pending [WDx 0 None] (the done() of the first shared state, issued inside the first
   read()/readwrite() call): no mutex member function is entered while a thread is still inside the first one. *)

(* rw_no_bad_guarded: on every contract-respecting schedule the ownership guards of the model never fire — no
   work item ever finds its token / group in a state other than the one its own thread left it in, no reference
   count underflows, no shared state is touched after its count reached 0, done() never runs twice.  Hence the
   theorems above are not vacuous on such clients (the guards are dead code there). *)
Theorem C04_rw_no_bad_guarded : forall sched,
  contract_from (rw_init, rw_locals) sched -> bad (fst (rw_run sched)) = false.
Proof. exact rw_no_bad_guarded. Qed.
Print Assumptions C04_rw_no_bad_guarded.

(* the discipline of the lock-step harness (harness/c04_rw.cpp, variable `rq`: a request / destroy command is
   handed to an idle worker only when the worker that got the previous request / destroy command is idle again)
   implies the contract, for every schedule *)
Theorem C04_rw_harness_contract : forall sched,
  harness_from None (rw_init, rw_locals) sched = true -> contract_from (rw_init, rw_locals) sched.
Proof. exact rw_harness_contract. Qed.
Print Assumptions C04_rw_harness_contract.

(* rw_progress (liveness as safety; complements C04_rw_progress_partial): in every state reached by a
   contract-respecting schedule in which every thread is idle (all work lists empty: nothing is in flight),
   every access that was started and whose predecessor shared states have all been released (use count 0) has
   been granted.  So a started access is never stranded between the CAS-push and the sentinel exchange: the
   release that brings the predecessor's count to 0 runs its destructor to the end, which issues done() on the
   successor, which grants everything that was pushed; a start that comes later sees the sentinel. *)
Theorem C04_rw_progress : forall sched, contract_from (rw_init, rw_locals) sched ->
  let g := fst (rw_run sched) in let ls := snd (rw_run sched) in
  (forall t, ls t = []) ->
  forall e, tstarted (tok g e) = true -> (forall j, j < tgrp (tok g e) -> refs (grp g j) = 0) ->
  In e (grant_toks (elog g)).
Proof. exact rw_progress. Qed.
Print Assumptions C04_rw_progress.

(* the same with the hypothesis stated on references instead of counts: no live reference of any kind (sender,
   operation state, wrapper, temporary) to an earlier shared state exists — every earlier access was released or
   dropped.  (With every thread idle this implies that the earlier shared states have count 0: each destructor ran to
   its end and unlinked its successor.) *)
Theorem C04_rw_progress_refs : forall sched, contract_from (rw_init, rw_locals) sched ->
  let g := fst (rw_run sched) in let ls := snd (rw_run sched) in
  (forall t, ls t = []) ->
  forall e, tstarted (tok g e) = true ->
  (forall e', alive (tst (tok g e')) = true -> tgrp (tok g e) <= tgrp (tok g e')) ->
  In e (grant_toks (elog g)).
Proof. exact rw_progress_refs. Qed.
Print Assumptions C04_rw_progress_refs.

(* the converse work-list invariant behind it, in every state reached by a contract-respecting schedule: every
   operation state inside start() / with a decided grant has its item on the owning thread's list; every shared
   state whose destructor is running has its WDn item on the list of the thread that brought the count to 0; a
   shared state whose predecessor's destructor has finished has the sentinel set or its done() pending; the first
   shared state has the sentinel set or its done() pending *)
Theorem C04_rw_worklist_complete : forall sched, contract_from (rw_init, rw_locals) sched ->
  let g := fst (rw_run sched) in let ls := snd (rw_run sched) in
  (forall e t, tst (tok g e) = TStarting t -> In (WLoad e) (ls t) \/ exists nx, In (WCas e nx) (ls t)) /\
  (forall e t, tst (tok g e) = TGranting t -> In (WGrant e) (ls t)) /\
  (forall k, k < ngrp g -> 1 <= gphase (grp g k) -> gphase (grp g k) <> 3 -> In (WDn k) (ls (gown (grp g k)))) /\
  (forall p, S p < ngrp g -> gphase (grp g p) = 3 ->
     head (grp g (S p)) = HSent \/ exists t e, In (WDx (S p) (Some e)) (ls t)) /\
  (1 <= ngrp g -> head (grp g 0) = HSent \/ exists t, In (WDx 0 None) (ls t)).
Proof. exact rw_worklist_complete. Qed.
Print Assumptions C04_rw_worklist_complete.

(* non-vacuity of the contract: (1) two schedules recorded by the lock-step harness on the real header
   (`c04_rw 1 3 0 12`, cases 0 and 2; [hflat] expands the controller entries exactly as ocaml/drv_c04.ml does)
   follow the harness discipline, hence the contract, hence [bad = false]; case 0 ends with every thread idle
   and all four started accesses granted; (2) the schedule of C04_rw_example does too; (3) the refutation witness
   of the unconditional statement violates the contract *)
Example C04_rw_contract_harness_example :
  let s0 := hflat 1000 (rw_init, rw_locals) [] harness_case_1_0 in
  let s2 := hflat 1000 (rw_init, rw_locals) [] harness_case_1_2 in
  (harness_from None (rw_init, rw_locals) s0 = true /\ contract_from (rw_init, rw_locals) s0 /\
   bad (fst (rw_run s0)) = false /\ length s0 = 36 /\ (forall t, t < 4 -> snd (rw_run s0) t = []) /\
   grant_toks (elog (fst (rw_run s0))) = [3; 1; 4; 0]) /\
  (harness_from None (rw_init, rw_locals) s2 = true /\ contract_from (rw_init, rw_locals) s2 /\
   bad (fst (rw_run s2)) = false).
Proof. exact harness_cases_contract. Qed.
Example C04_rw_contract_example :
  harness_from None (rw_init, rw_locals) example_sched = true /\
  contract_from (rw_init, rw_locals) example_sched /\ bad (fst (rw_run example_sched)) = false.
Proof. exact example_sched_contract. Qed.
Example C04_rw_contract_excludes_witness : ~ contract_from (rw_init, rw_locals) bad_witness.
Proof. exact bad_witness_breaks_contract. Qed.

(* non-vacuity: W, R, R requested; the writer is granted inline; both readers queue behind it
   (one CAS fails spuriously first); releasing the writer runs its destructor on thread 1, whose
   exchange hands the access to both readers in LIFO order; the mutex is destroyed while the
   readers still hold their wrappers *)
Example C04_rw_example :
  let sched := [(0, CReq KW); (0, CStep false); (0, CReq KR); (0, CStep false); (0, CReq KR);
                (0, CStart 0 false false); (0, CStep false); (0, CStep false);
                (1, CStart 1 false false); (2, CStart 3 false false);
                (1, CStep false); (2, CStep false); (1, CStep true); (1, CStep false); (2, CStep false);
                (2, CStep false);
                (1, CUse 0); (1, CRelease 0); (1, CStep false); (1, CStep false); (1, CStep false);
                (1, CStep false); (1, CStep false); (1, CStep false); (0, CDestroy); (0, CStep false);
                (0, CStep false); (2, CUse 1)] in
  let g := fst (rw_run sched) in
  tst (tok g 1) = TLive /\ tst (tok g 3) = TLive /\ tgrp (tok g 1) = 1 /\ refs (grp g 0) = 0 /\
  refs (grp g 1) = 2 /\ vfreed g = false /\ bad g = false /\ malive g = false /\ mvheld g = false /\ vrefs g = 1 /\
  tstarted (tok g 1) = true /\ gkind (grp g 0) = KW /\ gkind (grp g 1) = KR /\
  elog g = [EUse 1 1 1 false; EGrant 1 1 1; EGrant 3 1 2; ERel 0; EUse 0 0 0 true; EGrant 0 0 0].
Proof. vm_compute. repeat split. Qed.
