(* Props/Properties_C08.v — C08: semaphores conserve permits and release blocked acquirers.
   Only statements; each is closed by [exact] of a lemma from Proofs/ and followed by
   Print Assumptions.  Model: Model/Semaphore.v (counting_semaphore.cpp after the F1 fix,
   sliding_semaphore.cpp incl. signal_all and the public set_max_difference after its fix (it now
   notifies the waiters), detail condition variable, both agent instances). *)
From Coq Require Import List ZArith Bool.
From Pika Require Import Base.Conc Base.Agent Model.Semaphore Proofs.SemaphoreProofs Proofs.SemaphoreScenarios
  Proofs.SemaphoreProgress Proofs.SemaphoreSyncWait Model.SemaphoreMixed Proofs.SemaphoreMixedProofs Proofs.SemaphoreMixedProgress.
Import ListNotations.
Local Open Scope Z_scope.

(* value + acquired = initial + released in every reachable state, for every kind assignment
   (pika tasks / OS threads), every program, schedule and deadline oracle; hence
   acquired <= initial + released; and the permits consumed are exactly those of the operations
   that returned true (sum over the log) *)
Theorem C08_permits_conserved : forall kind sched v0 lo0 md progs, 0 <= v0 -> wf_progs progs ->
  let g := fst (sem_run kind sched v0 lo0 md progs) in
  value g + acquired g = v0 + released g /\ acquired g <= v0 + released g /\ 0 <= value g /\
  acquired g = sum_taken (slog g).
Proof. exact permits_conserved. Qed.
Print Assumptions C08_permits_conserved.

Theorem C08_nonblocking_true_iff_consumed : forall kind sched v0 lo0 md progs, 0 <= v0 -> wf_progs progs ->
  forall e, In e (slog (fst (sem_run kind sched v0 lo0 md progs))) ->
  (ev_op e = TryAcquire ->
     (ev_res e = true <-> 1 <= ev_avail e) /\ (ev_res e = true <-> ev_taken e = 1) /\ (ev_res e = false <-> ev_taken e = 0)) /\
  (forall n, 0 < n -> ev_op e = TryWait n ->
     (ev_res e = true <-> n <= ev_avail e) /\ (ev_res e = true <-> ev_taken e = n) /\ (ev_res e = false <-> ev_taken e = 0)).
Proof. exact nonblocking_true_iff_consumed. Qed.
Print Assumptions C08_nonblocking_true_iff_consumed.

Theorem C08_timed_true_iff_consumed : forall kind sched v0 lo0 md progs, 0 <= v0 -> wf_progs progs ->
  forall e n, In e (slog (fst (sem_run kind sched v0 lo0 md progs))) -> ev_op e = TimedAcquire n -> 0 < n ->
  (ev_res e = true <-> ev_taken e = n) /\ (ev_res e = false <-> ev_taken e = 0) /\ (ev_res e = true -> n <= ev_avail e).
Proof. exact timed_true_iff_consumed. Qed.
Print Assumptions C08_timed_true_iff_consumed.

(* any step: the count changes only by release's first critical section and by the final
   critical section of an operation that returns true; a step that returns false leaves it *)
Theorem C08_false_leaves_count : forall kind o t g l,
  let g' := fst (sem_tstep kind o t g l) in
  (value g' = value g + (released g' - released g) - (acquired g' - acquired g)) /\
  (acquired g' <> acquired g ->
     exists e, slog g' = e :: slog g /\ ev_res e = true /\ ev_tid e = t /\ ev_taken e = acquired g' - acquired g) /\
  (forall e, slog g' = e :: slog g -> ev_res e = false -> value g' = value g /\ acquired g' = acquired g).
Proof. exact false_leaves_count. Qed.
Print Assumptions C08_false_leaves_count.

(* lower_limit_ / max_difference_: set_max_difference(md, lo) OVERWRITES both (the lower limit may
   decrease); every other step leaves max_difference_ and never decreases the lower limit.
   [at_setmd l]: the thread's next step is the first critical section of a set_max_difference;
   [quiet kind s c]: no step of schedule s started in c is one.  So the lower limit is monotone
   between two set_max_difference calls of any run (was: along every run, when the model had no
   set_max_difference), and along every run of programs that contain none. *)
Theorem C08_sliding_signal_monotone_step : forall kind o t g l, ~ at_setmd l ->
  lower g <= lower (fst (sem_tstep kind o t g l)) /\ maxd (fst (sem_tstep kind o t g l)) = maxd g.
Proof. exact sliding_signal_monotone_step. Qed.
Print Assumptions C08_sliding_signal_monotone_step.

Theorem C08_sliding_signal_monotone : forall kind s1 s2 c,
  quiet kind s2 (run (sem_tstep kind) s1 c) ->
  lower (fst (run (sem_tstep kind) s1 c)) <= lower (fst (run (sem_tstep kind) (s1 ++ s2) c)) /\
  maxd (fst (run (sem_tstep kind) (s1 ++ s2) c)) = maxd (fst (run (sem_tstep kind) s1 c)).
Proof. exact sliding_signal_monotone. Qed.
Print Assumptions C08_sliding_signal_monotone.

Theorem C08_sliding_signal_monotone_no_setmd : forall kind s1 s2 c,
  (forall t, Forall no_setmd (todo (snd c t))) ->
  lower (fst (run (sem_tstep kind) s1 c)) <= lower (fst (run (sem_tstep kind) (s1 ++ s2) c)) /\
  maxd (fst (run (sem_tstep kind) (s1 ++ s2) c)) = maxd (fst c).
Proof. exact sliding_signal_monotone_no_setmd. Qed.
Print Assumptions C08_sliding_signal_monotone_no_setmd.

Theorem C08_sliding_signal_sets_max : forall kind o t g l x rest,
  pc l = Idle -> todo l = SlSignal x :: rest -> holder g = None ->
  lower (fst (sem_tstep kind o t g l)) = Z.max x (lower g).
Proof. exact sliding_signal_sets_max. Qed.
Print Assumptions C08_sliding_signal_sets_max.

(* signal_all() = signal(lower_limit_): only notifies; the value it returns is ev_lower of its log entry *)
Theorem C08_sliding_signal_all_keeps : forall kind o t g l rest,
  pc l = Idle -> todo l = SlSignalAll :: rest -> holder g = None ->
  lower (fst (sem_tstep kind o t g l)) = lower g /\ maxd (fst (sem_tstep kind o t g l)) = maxd g.
Proof. exact sliding_signal_all_keeps. Qed.
Print Assumptions C08_sliding_signal_all_keeps.

Theorem C08_sliding_set_max_difference_sets : forall kind o t g l md lo rest,
  pc l = Idle -> todo l = SlSetMaxDiff md lo :: rest -> holder g = None ->
  lower (fst (sem_tstep kind o t g l)) = lo /\ maxd (fst (sem_tstep kind o t g l)) = md.
Proof. exact sliding_set_max_difference_sets. Qed.
Print Assumptions C08_sliding_set_max_difference_sets.

(* sliding wait returns only if upper - max_difference <= lower; try_wait returns true iff —
   with the max_difference and the lower limit in force at its return (both recorded in the log
   entry: set_max_difference may change them before and after) *)
Theorem C08_sliding_wait_only_if : forall kind sched v0 lo0 md progs, 0 <= v0 -> wf_progs progs ->
  forall e, In e (slog (fst (sem_run kind sched v0 lo0 md progs))) ->
  (forall u, ev_op e = SlWait u -> u - ev_maxd e <= ev_lower e) /\
  (forall u, ev_op e = SlTryWait u -> (ev_res e = true <-> u - ev_maxd e <= ev_lower e)).
Proof. exact sliding_wait_only_if. Qed.
Print Assumptions C08_sliding_wait_only_if.

(* F1 after the fix: one thread x runs a timed acquire of one permit, every other thread (any
   number, any kinds, any release counts >= 0) only releases.  In every reachable state: if x's
   timed acquire returned false then at its decision point (after the deadline) the count was 0;
   and while x is pending every released permit is in the count (value = initial + released).
   Hence: a permit present initially or released before that point — in particular before the
   deadline — makes it return true, and by C08_timed_true_iff_consumed it then consumed it.
   (With the code before commit c89c39e this is false: witness [x: TimedAcquire 1; y: Release 1].) *)
Theorem C08_timed_true_if_released_before_deadline : forall kind sched v0 lo0 md x progs,
  0 <= v0 -> releasers_only x progs ->
  let c := sem_run kind sched v0 lo0 md progs in
  (forall e, In e (slog (fst c)) -> ev_tid e = x -> ev_res e = false -> ev_avail e < 1) /\
  (todo (snd c x) <> [] -> value (fst c) = v0 + released (fst c)).
Proof. exact timed_true_if_released_before_deadline. Qed.
Print Assumptions C08_timed_true_if_released_before_deadline.

(* F14 (finding, not repaired): with the OS-thread agent instance (default_agent of
   this_thread.cpp) the program [X: try_acquire_for on an empty semaphore] [Y: release(1) before
   the deadline] reaches a state that is stuck whatever the clock says: one permit available,
   neither call has returned, Y holds the spinlock inside default_agent::resume(X), X sleeps and
   will spin on that lock once its deadline has passed.  Replayed on the real code by
   harness/c08_tasks.cpp mode f14 (bounded, watchdog). *)
Theorem C08_os_timed_acquire_deadlock_refuted :
  exists sched, let c := sem_run all_os sched 0 0 0 f14_progs in
    stuck all_os (fst c) (snd c) /\ slog (fst c) = [] /\ value (fst c) = 1 /\ released (fst c) = 1 /\
    pc (snd c 0%nat) = TSleep 1 /\ pc (snd c 1%nat) = ResWait 0 true 0 /\ holder (fst c) = Some 1%nat.
Proof. exact os_timed_acquire_deadlock_refuted. Qed.
Print Assumptions C08_os_timed_acquire_deadlock_refuted.

(* non-vacuity: the same program on pika tasks (after the F1 fix): released before the deadline,
   the timed acquire returns true and has consumed the permit *)
Example C08_task_timed_acquire_released :
  let c := sem_run (fun _ => Task) [(0%nat, false); (1%nat, false); (0%nat, false); (0%nat, true)] 0 0 0 f14_progs in
  value (fst c) = 0 /\ acquired (fst c) = 1 /\ map ev_res (slog (fst c)) = [true; true] /\
  map ev_tid (slog (fst c)) = [0%nat; 1%nat] /\ pc (snd c 0%nat) = Idle /\ todo (snd c 0%nat) = [].
Proof. exact task_timed_acquire_released_example. Qed.

(* non-vacuity: three OS threads, a blocked acquirer woken by release(2), a try_acquire in between *)
Example C08_example :
  let progs := fun t => match t with 0%nat => [Acquire 1; TryAcquire] | 1%nat => [Release 2] | 2%nat => [TryAcquire] | _ => [] end in
  let c := sem_run all_os [(0%nat,false);(0%nat,false);(1%nat,false);(2%nat,false);(0%nat,false);(0%nat,false)] 0 0 0 progs in
  value (fst c) = 0 /\ acquired (fst c) = 2 /\ released (fst c) = 2 /\
  map ev_res (slog (fst c)) = [false; true; true; true] /\ map ev_tid (slog (fst c)) = [0%nat; 0%nat; 2%nat; 1%nat].
Proof. vm_compute. repeat split; reflexivity. Qed.

(* ---------------------------------------------------------------------------------------------
   Progress half (safety form).  [stuck]: no thread can take a non-stutter step, whatever the
   deadline oracle says.  [pub_progs]: the public API — acquire / try_acquire_for,until (count 1),
   try_acquire, release(n >= 0), plus stale resumes from anybody at any time (weak agent contract);
   try_wait(n >= 0) is allowed too.  [os_untimed]: OS-thread agents run no timed acquire (with one,
   C08_os_timed_acquire_deadlock_refuted = finding F14 is the counterexample).
   In every reachable stuck state, for every mix of pika tasks / OS threads, thread count, program
   and schedule: no acquirer is blocked while a permit is available; more precisely every thread
   has either finished its whole program or is blocked in acquire() with value = 0; the lock is
   free, no wake-up is in flight (popped = []), no signal loop is active, and
   value = initial + released - acquired: every released permit was consumed or is in the count
   with nobody waiting — no permit and no wake-up is lost between a waiter's enqueue and the
   signaller's notify loop. *)
Theorem C08_no_blocked_with_permits : forall kind sched v0 lo0 md progs,
  0 <= v0 -> pub_progs progs -> os_untimed kind progs ->
  let c := sem_run kind sched v0 lo0 md progs in
  stuck kind (fst c) (snd c) ->
  (forall t n, waiting_for (snd c t) (CAcq n) -> value (fst c) < n) /\
  (forall t, finished (snd c t) \/ (pc (snd c t) = Blk (CAcq 1) /\ value (fst c) = 0)) /\
  value (fst c) = v0 + released (fst c) - acquired (fst c) /\
  holder (fst c) = None /\ popped (fst c) = [] /\ tot (sigl (fst c)) = 0.
Proof. exact no_blocked_with_permits. Qed.
Print Assumptions C08_no_blocked_with_permits.

(* with mixed counts on the detail API (wait(l,2), wait(l,1) queued, signal(l,1)) the statement is
   false: stuck, value = 1, the count-1 waiter blocked behind the re-queued count-2 waiter.
   Not a defect of the public API (all counts are 1 there). *)
Theorem C08_no_blocked_with_permits_mixed_counts_refuted :
  let c := sem_run all_os mixed_sched 0 0 0 mixed_progs in
  wf_progs mixed_progs /\ os_untimed all_os mixed_progs /\
  stuck all_os (fst c) (snd c) /\ waiting_for (snd c 1%nat) (CAcq 1) /\ value (fst c) = 1 /\
  pc (snd c 0%nat) = Blk (CAcq 2) /\ pc (snd c 1%nat) = Blk (CAcq 1) /\ queue (fst c) = [1; 0]%nat /\
  released (fst c) = 1 /\ acquired (fst c) = 0 /\ holder (fst c) = None /\ popped (fst c) = [] /\ sigl (fst c) = [].
Proof. exact no_blocked_with_permits_mixed_counts_refuted. Qed.
Print Assumptions C08_no_blocked_with_permits_mixed_counts_refuted.

(* sliding semaphore, ANY program — wait / try_wait / signal / signal_all / set_max_difference, also
   mixed with counting operations of any count: in every reachable stuck state no waiter with
   upper - max_difference <= lower is blocked (current max_difference and lower limit, whoever set
   them last); every thread has finished or is blocked in a wait whose condition is false.
   UNGUARDED for set_max_difference since the fix "set_max_difference notifies the waiters": before
   it, [SlWait 5] [SlSetMaxDiff 10 0] with max_difference 1, lower 0 was the counterexample (stuck
   with thread 0 blocked although 5 - 10 <= 0; replayed on the real code, see notes/design/C08.md). *)
Theorem C08_sliding_wait_progress : forall kind sched v0 lo0 md progs,
  0 <= v0 -> wf_progs progs -> os_untimed kind progs ->
  let c := sem_run kind sched v0 lo0 md progs in
  stuck kind (fst c) (snd c) ->
  (forall t u, waiting_for (snd c t) (CSl u) -> lower (fst c) < u - maxd (fst c)) /\
  (forall t, finished (snd c t) \/ exists w, pc (snd c t) = Blk w /\ forall u, w = CSl u -> lower (fst c) < u - maxd (fst c)).
Proof. exact sliding_wait_progress. Qed.
Print Assumptions C08_sliding_wait_progress.

(* sync_wait's binary semaphore (initial 0; x: acquire, y: release, everybody else: stale resumes):
   in every reachable state either x has not returned (no log entry of x) or it returned exactly
   once (one entry: true, consumed the one permit, which had been released: avail = 1), and then
   release() has finished all its accesses: y is done, no signal loop active, lock free, every
   further step of y is a stutter.  y never re-locks (its pc is Idle, or ResWait = still inside
   the first critical section).  Stuck => both returned. *)
Theorem C08_sync_wait_returns_once : forall kind sched lo md x y progs, sync_wait_progs x y progs ->
  let c := sem_run kind sched 0 lo md progs in
  ((xlog x (fst c) = [] /\ todo (snd c x) = [Acquire 1]) \/
   (exists e, xlog x (fst c) = [e] /\ good_ev e /\ finished (snd c x) /\
              released (fst c) = 1 /\ acquired (fst c) = 1 /\ value (fst c) = 0 /\
              finished (snd c y) /\ holder (fst c) = None /\ sigl (fst c) = [] /\ queue (fst c) = [] /\
              forall o, sem_tstep kind o y (fst c) (snd c y) = (fst c, snd c y))) /\
  (pc (snd c y) = Idle \/ pc (snd c y) = ResWait x true 0) /\
  (stuck kind (fst c) (snd c) -> finished (snd c x) /\ finished (snd c y)).
Proof. exact sync_wait_returns_once. Qed.
Print Assumptions C08_sync_wait_returns_once.

(* non-vacuity of the progress theorems: hypotheses satisfiable, stuck states reachable *)
Example C08_progress_example :
  pub_progs ex_progs /\ os_untimed ex_kind ex_progs /\
  let c := sem_run ex_kind [(0,false);(1,false);(0,false);(1,false);(0,false);(0,false);(1,false);(0,false);(0,false)]%nat 0 0 0 ex_progs in
  stuck ex_kind (fst c) (snd c) /\ pc (snd c 0%nat) = Blk (CAcq 1) /\ value (fst c) = 0 /\
  released (fst c) = 1 /\ acquired (fst c) = 1 /\ finished (snd c 1%nat) /\ todo (snd c 0%nat) = [Acquire 1].
Proof. exact progress_example. Qed.

Example C08_sliding_example :
  wf_progs sl_progs /\ os_untimed all_os sl_progs /\
  let c := sem_run all_os [(0,false);(0,false);(1,false);(1,false);(2,false);(2,false);(0,false);(1,false);(0,false)]%nat 0 0 1 sl_progs in
  stuck all_os (fst c) (snd c) /\ pc (snd c 0%nat) = Blk (CSl 5) /\ finished (snd c 1%nat) /\ finished (snd c 2%nat) /\
  lower (fst c) = 3 /\ maxd (fst c) = 1.
Proof. exact sliding_example. Qed.

Example C08_sync_wait_example :
  sync_wait_progs 0 1 sw_progs /\
  let c := sem_run all_task [(0,false);(0,false);(2,false);(0,false);(0,false);(1,false);(0,false)]%nat 0 0 0 sw_progs in
  stuck all_task (fst c) (snd c) /\ finished (snd c 0%nat) /\ finished (snd c 1%nat) /\
  map ev_tid (slog (fst c)) = [0; 1]%nat /\ map ev_sig_active (slog (fst c)) = [false; false] /\ value (fst c) = 0.
Proof. exact sync_wait_example. Qed.

(* the former counterexample of C08_sliding_wait_progress: after [wait(5) blocks] [set_max_difference(10, 0)]
   the waiter has been popped and resumed (not stuck); it re-tests 5 - 10 <= 0 and returns;
   signal_all then returns the lower limit 0 *)
Example C08_set_max_difference_example :
  wf_progs smd_progs /\ os_untimed all_os smd_progs /\
  (let c := sem_run all_os [(0,false);(0,false);(1,false)]%nat 0 0 1 smd_progs in
   is_blocked_thread c 0%nat = false /\ pc (snd c 0%nat) = Blk (CSl 5) /\ lower (fst c) = 0 /\ maxd (fst c) = 10 /\
   popped (fst c) = [0%nat] /\ ~ stuck all_os (fst c) (snd c)) /\
  (let c := sem_run all_os [(0,false);(0,false);(1,false);(0,false);(1,false)]%nat 0 0 1 smd_progs in
   stuck all_os (fst c) (snd c) /\ finished (snd c 0%nat) /\ finished (snd c 1%nat) /\
   map ev_op (slog (fst c)) = [SlSignalAll; SlWait 5; SlSetMaxDiff 10 0] /\
   map ev_lower (slog (fst c)) = [0; 0; 0] /\ map ev_maxd (slog (fst c)) = [10; 10; 10]).
Proof. exact set_max_difference_example. Qed.

(* set_max_difference overwrites the lower limit (7 -> 3): the step is not [quiet]; afterwards
   wait(6) blocks (6 - 2 > 3) although 6 - 1 <= 7 held before; stuck with the waiter correctly blocked *)
Example C08_set_max_difference_lowers_example :
  let c1 := sem_run all_os [(0,false)]%nat 0 0 1 lowers_progs in
  let c2 := sem_run all_os [(0,false);(0,false)]%nat 0 0 1 lowers_progs in
  let c := sem_run all_os [(0,false);(0,false);(0,false);(0,false);(0,false)]%nat 0 0 1 lowers_progs in
  lower (fst c1) = 7 /\ maxd (fst c1) = 1 /\ lower (fst c2) = 3 /\ maxd (fst c2) = 2 /\
  ~ quiet all_os [(0,false)]%nat c1 /\
  stuck all_os (fst c) (snd c) /\ pc (snd c 0%nat) = Blk (CSl 6) /\ is_blocked_thread c 0%nat = true /\
  map ev_res (slog (fst c)) = [true; true; true].
Proof. exact set_max_difference_lowers_example. Qed.

(* ---------------------------------------------------------------------------------------------
   Round p12b.  SEVERAL semaphore objects used by the same threads (Model/SemaphoreMixed.v): every
   operation of a program is tagged with its object; the data of the objects are independent; the
   agent table (one agent per thread: blocked / resume token) is SHARED by all objects — a thread
   blocked on object A is blocked, a token left by A is consumed by the next suspend on B, a stale
   resume hits the thread wherever it waits.  A step of thread t is the unchanged base step
   (sem_tstep) of its current operation on [view G ob] = data of ob + the one agent table.
   [pub_progs_mixed fam]: counting objects get public counting operations only, sliding objects get
   sliding operations only (plus stale resumes anywhere).
   Conservation per counting object, whatever runs on the other objects — for every kind assignment,
   thread count, tagged program, schedule, deadline oracle, number and families of objects. *)
Theorem C08_permits_conserved_mixed_objects : forall fam kind sched v lo md progs,
  (forall ob, 0 <= v ob) -> pub_progs_mixed fam progs ->
  forall ob, fam ob = Counting ->
  let g := objs (fst (mx_run kind sched v lo md progs)) ob in
  value g + acquired g = v ob + released g /\ acquired g <= v ob + released g /\ 0 <= value g /\
  acquired g = sum_taken (slog g).
Proof. exact permits_conserved_mixed_objects. Qed.
Print Assumptions C08_permits_conserved_mixed_objects.

(* stronger: on EVERY object, for every tagged program whose release counts are not negative
   (operations of both families may even hit the same object, any counts) *)
Theorem C08_permits_conserved_mixed_any : forall kind sched v lo md progs,
  (forall ob, 0 <= v ob) -> wf_mprogs progs ->
  forall ob, let g := objs (fst (mx_run kind sched v lo md progs)) ob in
  value g + acquired g = v ob + released g /\ acquired g <= v ob + released g /\ 0 <= value g /\
  acquired g = sum_taken (slog g).
Proof. exact permits_conserved_mixed_any. Qed.
Print Assumptions C08_permits_conserved_mixed_any.

(* what the return values mean on every object of a mixed run (C08_nonblocking_true_iff_consumed,
   C08_timed_true_iff_consumed, C08_sliding_wait_only_if carried over): read off the object's own log *)
Theorem C08_return_values_mixed_objects : forall kind sched v lo md progs, (forall ob, 0 <= v ob) -> wf_mprogs progs ->
  forall ob e, In e (slog (objs (fst (mx_run kind sched v lo md progs)) ob)) ->
  (ev_op e = TryAcquire ->
     (ev_res e = true <-> 1 <= ev_avail e) /\ (ev_res e = true <-> ev_taken e = 1) /\ (ev_res e = false <-> ev_taken e = 0)) /\
  (forall n, 0 < n -> ev_op e = TryWait n ->
     (ev_res e = true <-> n <= ev_avail e) /\ (ev_res e = true <-> ev_taken e = n) /\ (ev_res e = false <-> ev_taken e = 0)) /\
  (forall n, 0 < n -> ev_op e = TimedAcquire n ->
     (ev_res e = true <-> ev_taken e = n) /\ (ev_res e = false <-> ev_taken e = 0) /\ (ev_res e = true -> n <= ev_avail e)) /\
  (forall n, ev_op e = Acquire n -> ev_res e = true /\ ev_taken e = n /\ n <= ev_avail e) /\
  (forall u, ev_op e = SlWait u -> ev_res e = true /\ u - ev_maxd e <= ev_lower e) /\
  (forall u, ev_op e = SlTryWait u -> (ev_res e = true <-> u - ev_maxd e <= ev_lower e)).
Proof. exact return_values_mixed. Qed.
Print Assumptions C08_return_values_mixed_objects.

(* what exactly is shared (step level, any state): a step of thread t whose current operation is on
   object [fst x] leaves the data of every other object untouched, and changes the agent of a thread
   u <> t only if u is the head of THAT object's cv queue (notify_one), the popped waiter t's OS-thread
   resume is waiting for, or the target of t's StaleResume *)
Theorem C08_mixed_objects_step_frame : forall kind o t G L x rest, mtodo L = x :: rest ->
  let G' := fst (mx_tstep kind o t G L) in
  (forall X, X <> fst x -> objs G' X = objs G X) /\
  (forall u, u <> t -> hd_error (queue (objs G (fst x))) <> Some u -> (forall chk k, mpc L <> ResWait u chk k) ->
             snd x <> StaleResume u -> mag G' u = mag G u).
Proof. exact mx_step_frame. Qed.
Print Assumptions C08_mixed_objects_step_frame.

(* non-vacuity: counting object 0 + sliding object 1, three pika tasks; the wake-up token that
   release() on object 0 leaves on the timed waiter makes its first suspend() on object 1 return
   spuriously (shared agent); final state stuck with thread 0 blocked on object 0, value 0 *)
Example C08_mixed_objects_example :
  pub_progs_mixed mx_ex_fam mx_ex_progs /\
  (let c := mx_ex_run mx_ex_s1 in
   map ev_res (slog (objs (fst c) 0%nat)) = [true; true] /\ value (objs (fst c) 0%nat) = 0 /\
   mag (fst c) 2%nat = {| tok := true; blocked := false |} /\ cur_obj (snd c 2%nat) = Some 1%nat /\ mpc (snd c 2%nat) = Idle) /\
  (let c := mx_ex_run mx_ex_s2 in
   mpc (snd c 2%nat) = Blk (CSl 5) /\ mag (fst c) 2%nat = a_init /\ queue (objs (fst c) 1%nat) = [2%nat] /\
   queue (objs (fst c) 0%nat) = []) /\
  (let c := mx_ex_run mx_ex_s3 in
   mx_stuck all_task (fst c) (snd c) /\ mx_finished (snd c 1%nat) /\ mx_finished (snd c 2%nat) /\
   mx_waiting_for (snd c 0%nat) 0%nat (CAcq 1) /\ blocked (mag (fst c) 0%nat) = true /\
   value (objs (fst c) 0%nat) = 0 /\ acquired (objs (fst c) 0%nat) = 1 /\ released (objs (fst c) 0%nat) = 1 /\
   lower (objs (fst c) 1%nat) = 4 /\ queue (objs (fst c) 1%nat) = [] /\
   map ev_op (slog (objs (fst c) 1%nat)) = [SlWait 5; SlSignal 4]).
Proof. exact mixed_example. Qed.

(* sanity: with every operation on object 0 the mixed model computes the base model's run (C08_example) *)
Example C08_mixed_is_base_example :
  let progs := fun t => match t with 0%nat => [Acquire 1; TryAcquire] | 1%nat => [Release 2] | 2%nat => [TryAcquire] | _ => [] end in
  let s := [(0%nat,false);(0%nat,false);(1%nat,false);(2%nat,false);(0%nat,false);(0%nat,false)] in
  let c := sem_run all_os s 0 0 0 progs in
  let m := mx_run all_os s (fun _ => 0) (fun _ => 0) (fun _ => 0) (fun t => map (fun o => (0%nat, o)) (progs t)) in
  let g := objs (fst m) 0%nat in
  (value g, acquired g, released g, queue g, popped g, holder g, sigl g, slog g) =
  (value (fst c), acquired (fst c), released (fst c), queue (fst c), popped (fst c), holder (fst c), sigl (fst c), slog (fst c)) /\
  map (fun t => (mag (fst m) t, mpc (snd m t), map snd (mtodo (snd m t)))) [0;1;2;3]%nat =
  map (fun t => (ag (fst c) t, pc (snd c t), todo (snd c t))) [0;1;2;3]%nat.
Proof. exact mixed_is_base_example. Qed.

(* try_wait(0) (allowed by pub_progs; NOT covered by C08_nonblocking_true_iff_consumed, which needs
   0 < n because "true iff n consumed" and "false iff 0 consumed" collide at n = 0): in every
   reachable state, a thread about to run try_wait(0) with the lock free returns TRUE (0 <= value
   always), consumes nothing, leaves value / acquired / released / queue / popped / agents / signal
   loops untouched (wakes nobody) and logs (true, taken 0); with the lock held (an OS-thread resume
   in flight) it spins (stutter). *)
Theorem C08_try_wait_zero : forall kind sched v0 lo0 md progs, 0 <= v0 -> wf_progs progs ->
  let c := sem_run kind sched v0 lo0 md progs in
  forall t o rest, pc (snd c t) = Idle -> todo (snd c t) = TryWait 0 :: rest ->
  let g := fst c in let r := sem_tstep kind o t g (snd c t) in
  (holder g <> None -> r = (g, snd c t)) /\
  (holder g = None ->
     snd r = {| todo := rest; pc := Idle |} /\
     value (fst r) = value g /\ acquired (fst r) = acquired g /\ released (fst r) = released g /\
     lower (fst r) = lower g /\ maxd (fst r) = maxd g /\
     queue (fst r) = queue g /\ popped (fst r) = popped g /\ sigl (fst r) = sigl g /\
     holder (fst r) = None /\ ag (fst r) = ag g /\
     exists e, slog (fst r) = e :: slog g /\ ev_tid e = t /\ ev_op e = TryWait 0 /\ ev_res e = true /\
               ev_taken e = 0 /\ ev_avail e = value g /\ 0 <= ev_avail e).
Proof. exact try_wait_zero. Qed.
Print Assumptions C08_try_wait_zero.

Example C08_try_wait_zero_example :
  let progs := fun t => match t with 0%nat => [Acquire 1] | 1%nat => [TryWait 0; TryWait 0] | _ => [] end in
  wf_progs progs /\ pub_progs progs /\
  let c := sem_run all_os [(0,false);(0,false);(1,false);(1,false)]%nat 0 0 0 progs in
  value (fst c) = 0 /\ acquired (fst c) = 0 /\ queue (fst c) = [0%nat] /\ popped (fst c) = [] /\
  blocked (ag (fst c) 0%nat) = true /\ finished (snd c 1%nat) /\
  map ev_res (slog (fst c)) = [true; true] /\ map ev_taken (slog (fst c)) = [0; 0] /\ map ev_avail (slog (fst c)) = [0; 0].
Proof. exact try_wait_zero_example. Qed.

(* try_wait(n) with n < 0 (detail API only; outside pub_progs): always true, "consumes" n, i.e. ADDS
   -n permits (value grows, acquired shrinks: conservation C08_permits_conserved still holds), and
   wakes nobody although the count grew *)
Theorem C08_try_wait_negative_adds_permits : forall kind sched v0 lo0 md progs n, 0 <= v0 -> wf_progs progs -> n < 0 ->
  let c := sem_run kind sched v0 lo0 md progs in
  forall t o rest, pc (snd c t) = Idle -> todo (snd c t) = TryWait n :: rest -> holder (fst c) = None ->
  let g := fst c in let r := sem_tstep kind o t g (snd c t) in
  value g < value (fst r) /\ value (fst r) = value g - n /\ acquired (fst r) = acquired g + n /\
  released (fst r) = released g /\ queue (fst r) = queue g /\ popped (fst r) = popped g /\ ag (fst r) = ag g /\
  sigl (fst r) = sigl g /\ exists e, slog (fst r) = e :: slog g /\ ev_res e = true /\ ev_taken e = n.
Proof. exact try_wait_negative_adds_permits. Qed.
Print Assumptions C08_try_wait_negative_adds_permits.

(* ... hence the progress statement is false with a negative count: [acquire blocks] [try_wait(-1)]
   is stuck with value = 1 and the acquirer blocked in the queue (this is why pub_progs demands
   0 <= n for TryWait n) *)
Theorem C08_no_blocked_with_permits_negative_try_wait_refuted :
  let c := sem_run all_os [(0,false);(0,false);(1,false)]%nat 0 0 0 neg_progs in
  wf_progs neg_progs /\ os_untimed all_os neg_progs /\
  stuck all_os (fst c) (snd c) /\ waiting_for (snd c 0%nat) (CAcq 1) /\ value (fst c) = 1 /\
  pc (snd c 0%nat) = Blk (CAcq 1) /\ blocked (ag (fst c) 0%nat) = true /\ queue (fst c) = [0%nat] /\
  finished (snd c 1%nat) /\ map ev_res (slog (fst c)) = [true] /\ map ev_taken (slog (fst c)) = [-1] /\
  released (fst c) = 0 /\ acquired (fst c) = -1 /\ holder (fst c) = None /\ popped (fst c) = [] /\ sigl (fst c) = [].
Proof. exact no_blocked_with_permits_negative_try_wait_refuted. Qed.
Print Assumptions C08_no_blocked_with_permits_negative_try_wait_refuted.

(* Progress half for SEVERAL objects with the one shared agent table.  [os_untimed_m]: an OS-thread
   agent runs no timed acquire on any object (F14).  In every reachable stuck state ([mx_stuck]: every
   thread has finished or the base step of its current operation on its current object is a stutter,
   whatever the clock says), for every COUNTING object ob — whatever sliding operations the same
   threads run on other objects, whatever stale resumes and left-over tokens cross between objects:
   nobody waits on ob for n permits with value >= n; every thread whose current operation is on ob
   is blocked in acquire() with value = 0; ob's lock is free, no wake-up of ob is in flight
   (popped = []), no signal loop of ob is active. *)
Theorem C08_no_blocked_with_permits_mixed_objects : forall fam kind sched v lo md progs,
  (forall ob, 0 <= v ob) -> pub_progs_mixed fam progs -> os_untimed_m kind progs ->
  let c := mx_run kind sched v lo md progs in
  mx_stuck kind (fst c) (snd c) ->
  forall ob, fam ob = Counting ->
  (forall t n, mx_waiting_for (snd c t) ob (CAcq n) -> value (objs (fst c) ob) < n) /\
  (forall t, cur_obj (snd c t) = Some ob -> mpc (snd c t) = Blk (CAcq 1) /\ blocked (mag (fst c) t) = true /\ value (objs (fst c) ob) = 0) /\
  holder (objs (fst c) ob) = None /\ popped (objs (fst c) ob) = [] /\ tot (sigl (objs (fst c) ob)) = 0.
Proof. exact no_blocked_with_permits_mixed. Qed.
Print Assumptions C08_no_blocked_with_permits_mixed_objects.

Example C08_mixed_progress_example :
  pub_progs_mixed mx_ex_fam mx_ex_progs /\ os_untimed_m all_task mx_ex_progs /\ mx_ex_fam 0%nat = Counting /\
  let c := mx_ex_run mx_ex_s3 in
  mx_stuck all_task (fst c) (snd c) /\ mx_waiting_for (snd c 0%nat) 0%nat (CAcq 1) /\ value (objs (fst c) 0%nat) = 0.
Proof. exact mixed_progress_example. Qed.
