(* Props/Properties_C14.v — C14: stop_token: one winning stop request, each callback exactly once.
   Only statements; each is closed by [exact] of a lemma from Proofs/ and followed by
   Print Assumptions.

   Part 1 (Model/StopState.v): the bit-packed lock word and request_stop / add_callback /
   remove_callback at atomic-step granularity — every thread count, every program and callback
   body, every schedule, spurious weak-CAS failures.
   Part 2 (Model/StopHandles.v): histories of stop_source / stop_token copy, move, assignment,
   swap, destruction over a heap of reference-counted states.

   NOT proved here (checked only by the lock-step correspondence and the monitors, see
   notes/design/C14.md): callback_exactly_once, no_callback_after_dtor,
   dtor_waits_other_not_self as theorems about the model. *)
From Coq Require Import List NArith Bool.
From Pika Require Import Base.Conc Gen.GenStopBits Model.StopWord Model.StopState
  Model.StopHandles Proofs.StopFlagsProofs Proofs.StopStateProofs Proofs.StopHandlesProofs.
Import ListNotations.

(* the regenerated layout: four disjoint fields filling the 64-bit word *)
Theorem C14_layout_disjoint :
  N.land token_ref_mask stop_requested_flag = 0%N /\ N.land token_ref_mask source_ref_mask = 0%N /\
  N.land token_ref_mask locked_flag = 0%N /\ N.land stop_requested_flag source_ref_mask = 0%N /\
  N.land stop_requested_flag locked_flag = 0%N /\ N.land source_ref_mask locked_flag = 0%N /\
  (token_ref_mask + stop_requested_flag + source_ref_mask + locked_flag = word_mod - 1)%N.
Proof. exact layout_disjoint. Qed.
Print Assumptions C14_layout_disjoint.

(* Among any number of concurrent request_stop calls at most one returns true ... *)
Theorem C14_request_stop_one_winner : forall P sched w0 progs srcs, good_init w0 ->
  count_req_true (log (fst (st_run P sched w0 progs srcs))) <= 1.
Proof. exact request_stop_at_most_one. Qed.
Print Assumptions C14_request_stop_one_winner.

(* ... and once all threads have finished, if request_stop was called at all then exactly one
   call returned true and the stop-requested bit is set *)
Theorem C14_request_stop_exactly_one : forall P sched w0 progs srcs, good_init w0 ->
  let c := st_run P sched w0 progs srcs in
  (forall t, thread_done (snd c t) = true) -> some_req (log (fst c)) = true ->
  count_req_true (log (fst c)) = 1 /\ w_stop_requested (word (fst c)) = true.
Proof. exact request_stop_exactly_one. Qed.
Print Assumptions C14_request_stop_exactly_one.

(* every request_stop that has returned, with either result, leaves stop requested *)
Theorem C14_request_returned_requested : forall P sched w0 progs srcs, good_init w0 ->
  let c := st_run P sched w0 progs srcs in
  some_req (log (fst c)) = true -> w_stop_requested (word (fst c)) = true.
Proof. exact request_returned_requested. Qed.
Print Assumptions C14_request_returned_requested.

(* from then on every token reports stop_requested: the bit is never cleared again *)
Theorem C14_requested_is_sticky : forall P s1 s2 w0 progs srcs, good_init w0 ->
  w_stop_requested (word (fst (st_run P s1 w0 progs srcs))) = true ->
  w_stop_requested (word (fst (st_run P (s1 ++ s2) w0 progs srcs))) = true.
Proof. exact requested_is_sticky. Qed.
Print Assumptions C14_requested_is_sticky.

(* the lock bit is a lock: at most one thread is inside a critical section *)
Theorem C14_lock_exclusive : forall P sched w0 progs srcs, good_init w0 ->
  let c := st_run P sched w0 progs srcs in
  forall t1 t2, holds (pc (snd c t1)) = true -> holds (pc (snd c t2)) = true -> t1 = t2.
Proof. exact lock_exclusive. Qed.
Print Assumptions C14_lock_exclusive.

(* non-vacuity: 2 sources + master token; thread 0 registers callback 0 (which deregisters
   itself), threads 0 and 1 race request_stop; thread 1's first CAS fails against thread 0's *)
Example C14_state_example :
  let P := {| cb_body := fun c => [OpRem c]; pika_id := fun _ => None; os_id := fun t => t |} in
  let progs := fun t => match t with 0%nat => [OpAdd 0; OpReq] | 1%nat => [OpReq] | _ => [] end in
  let srcs := fun t => match t with 0%nat | 1%nat => 1%nat | _ => 0%nat end in
  let w0 := (3 + 2 * source_ref_increment)%N in
  let sched := map (fun t => (t, false))
     [0;0;0;0;0; 1;1;0;0;0; 1;0;0;0;0; 0;0;0;0;0; 0;0;0]%nat in
  let c := st_run P sched w0 progs srcs in
  good_init w0 /\ count_req_true (log (fst c)) = 1%nat /\ cb_runs (cb (fst c) 0%nat) = 1%nat /\
  cb_dtor (cb (fst c) 0%nat) = 2%nat /\ thread_done (snd c 0%nat) = true /\ thread_done (snd c 1%nat) = true /\
  bad_run_after_dtor (fst c) = false /\ bad_dtor_during_run (fst c) = false.
Proof. Transparent W. vm_compute. repeat split; reflexivity. Qed.

(* ------------------------------------------------------------------------------------------
   Part 2: handle histories (stop_source / stop_token construct, copy, move, copy-assign,
   move-assign, swap, destroy, get_token, request_stop) — for EVERY history shorter than 2^31-1
   operations (counts_fit side condition). *)

(* the two packed counters are exact reference counts; no dangling handle; ownerless states are freed *)
Theorem C14_counts_exact : forall h, (N.of_nat (length h) < tok_max)%N ->
  forall s,
    match sl_get s (heap (h_run h)) with
    | Some w => w_tokens w = N.of_nat (n_src (h_run h) s + n_tok (h_run h) s) /\
                w_sources w = N.of_nat (n_src (h_run h) s) /\
                w_is_locked w = false /\ 1 <= n_src (h_run h) s + n_tok (h_run h) s
    | None => n_src (h_run h) s + n_tok (h_run h) s = O
    end.
Proof. exact counts_exact. Qed.
Print Assumptions C14_counts_exact.

(* the side condition suffices: no counter ever carries into the neighbouring field *)
Theorem C14_counts_fit : forall h, (N.of_nat (length h) < tok_max)%N ->
  forall s w, sl_get s (heap (h_run h)) = Some w ->
    (w_tokens w <= N.of_nat (length h))%N /\ (w_sources w <= N.of_nat (length h))%N /\
    (w_tokens w <= tok_max)%N /\ (w_sources w <= src_max)%N.
Proof. exact counts_fit. Qed.
Print Assumptions C14_counts_fit.

(* stop_possible is true exactly while a stop was requested or a stop_source for that state
   still exists — after any copies, moves, assignments, swaps and destructions *)
Theorem C14_stop_possible_iff : forall h, (N.of_nat (length h) < tok_max)%N ->
  forall k s, sl_get k (toks (h_run h)) = Some (Some s) ->
    (tok_possible (h_run h) k = true <->
     (st_requested (heap (h_run h)) s = true \/
      exists j, sl_get j (srcs (h_run h)) = Some (Some s))).
Proof. exact stop_possible_iff. Qed.
Print Assumptions C14_stop_possible_iff.

Theorem C14_stop_possible_nostate : forall h k,
  sl_get k (toks (h_run h)) = Some None -> tok_possible (h_run h) k = false /\ tok_requested (h_run h) k = false.
Proof. exact stop_possible_nostate. Qed.
Print Assumptions C14_stop_possible_nostate.

Theorem C14_requested_sticky_hist : forall h h', (N.of_nat (length (h ++ h')) < tok_max)%N ->
  forall s, st_requested (heap (h_run h)) s = true ->
    match sl_get s (heap (h_run (h ++ h'))) with
    | Some w' => w_stop_requested w' = true
    | None => True
    end.
Proof. exact requested_sticky_hist. Qed.
Print Assumptions C14_requested_sticky_hist.

Theorem C14_request_once_hist : forall h, (N.of_nat (length h) < tok_max)%N ->
  forall s, n_true s (reqlog (h_run h)) <= 1.
Proof. exact request_once_hist. Qed.
Print Assumptions C14_request_once_hist.

(* non-vacuity: a; ta = a.get_token(); b; a = b; ~b; ~a leaves ta.stop_possible() = false *)
Example C14_handles_example :
  let h := [SrcNew 0; TokGet 0 0; SrcNew 1; SrcAssign 0 1; SrcDestroy 1; SrcDestroy 0] in
  (N.of_nat (length h) < tok_max)%N /\
  h_obs (h_run h) = ([], [(0, (false, false))]) /\ heap (h_run h) = [Some 1%N; None].
Proof. vm_compute. repeat split. Qed.
