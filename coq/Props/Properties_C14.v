(* Props/Properties_C14.v — C14: stop_token: one winning stop request, each callback exactly once.
   Only statements; each is closed by [exact] of a lemma from Proofs/ and followed by
   Print Assumptions.

   Part 1 (Model/StopState.v): the bit-packed lock word and request_stop / add_callback /
   remove_callback at atomic-step granularity — every thread count, every program and callback
   body, every schedule, spurious weak-CAS failures.
   Part 2 (Model/StopHandles.v): histories of stop_source / stop_token copy, move, assignment,
   swap, destruction over a heap of reference-counted states.

   Part 1b (same model, Proofs/StopCallbacksAbs.v + StopCallbacksProofs.v): the stop_callback
   clauses — each callback at most once / exactly once, never after its destructor returned,
   the destructor waits for another thread but not for its own — under [ids_faithful]: distinct
   threads are told apart by the identity test of remove_callback (live pika threads have
   distinct pika ids, threads without a pika id distinct OS ids); C14_ids_faithful_needed shows
   the hypothesis cannot be dropped. *)
From Coq Require Import List NArith Bool Lia.
From Pika Require Import Base.Conc Gen.GenStopBits Model.StopWord Model.StopState
  Model.StopHandles Proofs.StopFlagsProofs Proofs.StopStateProofs Proofs.StopHandlesProofs
  Proofs.StopCallbacksAbs Proofs.StopCallbacksProofs Proofs.StopProgressStep Proofs.StopProgressProofs
  Proofs.StopCtorProofs Proofs.StopSourcesProofs Proofs.StopTaskIds Proofs.StopTokensProofs Proofs.StopRefusedProofs.
Import ListNotations.

(* the regenerated layout: four disjoint fields filling the 64-bit word *)
Theorem C14_layout_disjoint :
  N.land token_ref_mask stop_requested_flag = 0%N /\ N.land token_ref_mask source_ref_mask = 0%N /\
  N.land token_ref_mask locked_flag = 0%N /\ N.land stop_requested_flag source_ref_mask = 0%N /\
  N.land stop_requested_flag locked_flag = 0%N /\ N.land source_ref_mask locked_flag = 0%N /\
  (token_ref_mask + stop_requested_flag + source_ref_mask + locked_flag = word_mod - 1)%N.
Proof. exact layout_disjoint. Qed.
Print Assumptions C14_layout_disjoint.

(* Among any number of concurrent request_stop calls at most one returns true ... *)
Theorem C14_request_stop_one_winner : forall P sched w0 progs srcs, good_init w0 ->
  count_req_true (log (fst (st_run P sched w0 progs srcs))) <= 1.
Proof. exact request_stop_at_most_one. Qed.
Print Assumptions C14_request_stop_one_winner.

(* ... and once all threads have finished, if request_stop was called at all then exactly one
   call returned true and the stop-requested bit is set *)
Theorem C14_request_stop_exactly_one : forall P sched w0 progs srcs, good_init w0 ->
  let c := st_run P sched w0 progs srcs in
  (forall t, thread_done (snd c t) = true) -> some_req (log (fst c)) = true ->
  count_req_true (log (fst c)) = 1 /\ w_stop_requested (word (fst c)) = true.
Proof. exact request_stop_exactly_one. Qed.
Print Assumptions C14_request_stop_exactly_one.

(* every request_stop that has returned, with either result, leaves stop requested *)
Theorem C14_request_returned_requested : forall P sched w0 progs srcs, good_init w0 ->
  let c := st_run P sched w0 progs srcs in
  some_req (log (fst c)) = true -> w_stop_requested (word (fst c)) = true.
Proof. exact request_returned_requested. Qed.
Print Assumptions C14_request_returned_requested.

(* from then on every token reports stop_requested: the bit is never cleared again *)
Theorem C14_requested_is_sticky : forall P s1 s2 w0 progs srcs, good_init w0 ->
  w_stop_requested (word (fst (st_run P s1 w0 progs srcs))) = true ->
  w_stop_requested (word (fst (st_run P (s1 ++ s2) w0 progs srcs))) = true.
Proof. exact requested_is_sticky. Qed.
Print Assumptions C14_requested_is_sticky.

(* the lock bit is a lock: at most one thread is inside a critical section *)
Theorem C14_lock_exclusive : forall P sched w0 progs srcs, good_init w0 ->
  let c := st_run P sched w0 progs srcs in
  forall t1 t2, holds (pc (snd c t1)) = true -> holds (pc (snd c t2)) = true -> t1 = t2.
Proof. exact lock_exclusive. Qed.
Print Assumptions C14_lock_exclusive.

(* non-vacuity: 2 sources + master token; thread 0 registers callback 0 (which deregisters
   itself), threads 0 and 1 race request_stop; thread 1's first CAS fails against thread 0's *)
Example C14_state_example :
  let P := {| cb_body := fun c => [OpRem c]; pika_id := fun _ => None; os_id := fun t => t |} in
  let progs := fun t => match t with 0%nat => [OpAdd 0; OpReq] | 1%nat => [OpReq] | _ => [] end in
  let srcs := fun t => match t with 0%nat | 1%nat => 1%nat | _ => 0%nat end in
  let w0 := (3 + 2 * source_ref_increment)%N in
  let sched := map (fun t => (t, false))
     [0;0;0;0;0; 1;1;0;0;0; 1;0;0;0;0; 0;0;0;0;0; 0;0;0]%nat in
  let c := st_run P sched w0 progs srcs in
  good_init w0 /\ count_req_true (log (fst c)) = 1%nat /\ cb_runs (cb (fst c) 0%nat) = 1%nat /\
  cb_dtor (cb (fst c) 0%nat) = 2%nat /\ thread_done (snd c 0%nat) = true /\ thread_done (snd c 1%nat) = true /\
  bad_run_after_dtor (fst c) = false /\ bad_dtor_during_run (fst c) = false.
Proof. Transparent W. vm_compute. repeat split; reflexivity. Qed.

(* ------------------------------------------------------------------------------------------
   Part 1b: stop_callback.  ghost fields used: cb_runs (how often execute() was entered),
   cb_ctor / cb_dtor (0 not started, 1 running, 2 returned), cb_reg (add_callback returned true),
   cb_deq (dequeued by request_stop's loop), cb_running (thread inside execute()). *)

(* Every stop_callback runs at most once ... *)
Theorem C14_callback_at_most_once : forall P sched w0 progs srcs, ids_faithful P -> good_init w0 ->
  forall k, cb_runs (cb (fst (st_run P sched w0 progs srcs)) k) <= 1.
Proof. exact callback_at_most_once. Qed.
Print Assumptions C14_callback_at_most_once.

(* ... and exactly once if stop is ever requested: as soon as a request_stop has returned true
   (no need to wait for the other threads), every callback whose constructor has returned was
   invoked exactly once, except a callback that was deregistered while still queued, or one that
   add_callback refused because the state was not stop_possible *)
Theorem C14_callback_exactly_once : forall P sched w0 progs srcs, ids_faithful P -> good_init w0 ->
  let g := fst (st_run P sched w0 progs srcs) in
  count_req_true (log g) = 1 ->
  forall k, cb_ctor (cb g k) = 2 ->
    cb_runs (cb g k) = 1 \/
    (cb_reg (cb g k) = true /\ cb_deq (cb g k) = false /\ 1 <= cb_dtor (cb g k)) \/
    (cb_reg (cb g k) = false /\ cb_runs (cb g k) = 0).
Proof. exact callback_exactly_once. Qed.
Print Assumptions C14_callback_exactly_once.

(* the same once every thread has finished: registered and not deregistered before being
   dequeued => exactly one invocation *)
Theorem C14_callback_exactly_once_done : forall P sched w0 progs srcs, ids_faithful P -> good_init w0 ->
  let c := st_run P sched w0 progs srcs in
  (forall t, thread_done (snd c t) = true) -> count_req_true (log (fst c)) = 1 ->
  forall k, cb_ctor (cb (fst c) k) = 2 -> cb_reg (cb (fst c) k) = true ->
    (cb_dtor (cb (fst c) k) = 0 \/ cb_deq (cb (fst c) k) = true) -> cb_runs (cb (fst c) k) = 1.
Proof. exact callback_exactly_once_done. Qed.
Print Assumptions C14_callback_exactly_once_done.

(* ... and never after its destructor has returned: the monitor flag that the model raises when
   execute() is entered with cb_dtor = 2 stays clear in every execution *)
Theorem C14_no_callback_after_dtor : forall P sched w0 progs srcs, ids_faithful P -> good_init w0 ->
  bad_run_after_dtor (fst (st_run P sched w0 progs srcs)) = false.
Proof. exact no_callback_after_dtor. Qed.
Print Assumptions C14_no_callback_after_dtor.

(* the same without the flag: after the destructor of k returned, k is not queued and no thread
   is at a point from which it would still invoke k *)
Theorem C14_no_pending_invocation_after_dtor : forall P sched w0 progs srcs,
  ids_faithful P -> good_init w0 ->
  let c := st_run P sched w0 progs srcs in
  forall k, cb_dtor (cb (fst c) k) = 2 ->
    ~ In k (cbs (fst c)) /\
    forall t, pc (snd c t) <> QUnlock k /\ pc (snd c t) <> QBegin k /\ pc (snd c t) <> ABegin k.
Proof. exact no_pending_invocation_after_dtor. Qed.
Print Assumptions C14_no_pending_invocation_after_dtor.

(* the destructor waits for a callback running on another thread: the monitor flag raised when
   remove_callback returns while another thread is inside execute() stays clear *)
Theorem C14_dtor_waits_for_other_thread : forall P sched w0 progs srcs, ids_faithful P -> good_init w0 ->
  bad_dtor_during_run (fst (st_run P sched w0 progs srcs)) = false.
Proof. exact dtor_waits_for_other_thread. Qed.
Print Assumptions C14_dtor_waits_for_other_thread.

(* ... but not for one running on its own: a thread at the last step of remove_callback(k) sees k
   not executing or executing on itself; a thread in the waiting loop never waits for a callback
   executing on itself; the code's identity test says "same thread" exactly for the signalling thread *)
Theorem C14_dtor_waits_other_not_self : forall P sched w0 progs srcs, ids_faithful P -> good_init w0 ->
  let c := st_run P sched w0 progs srcs in
  forall t k,
    (pc (snd c t) = RRelease k ->
       cb_running (cb (fst c) k) = None \/ cb_running (cb (fst c) k) = Some t) /\
    (pc (snd c t) = RWait k -> cb_running (cb (fst c) k) <> Some t) /\
    (same_thread P (fst c) t = true <-> winner (fst c) = Some t).
Proof. exact dtor_waits_other_not_self. Qed.
Print Assumptions C14_dtor_waits_other_not_self.

(* non-vacuity: plain OS threads (the lock-step harness's identities) are faithful; thread 0
   registers callback 0 and destroys it while thread 1 is inside the callback: after [s1] thread 0
   sits in the waiting loop with the callback running on thread 1, after [s1 ++ s2] everything
   has finished, the callback ran once and the destructor returned *)
Example C14_callbacks_example :
  let P := {| cb_body := fun _ => [OpTokCopy]; pika_id := fun _ => None; os_id := fun t => t |} in
  let progs := fun t => match t with 0%nat => [OpAdd 0; OpRem 0] | 1%nat => [OpReq] | _ => [] end in
  let srcs := fun t => match t with 1%nat => 1%nat | _ => 0%nat end in
  let w0 := (3 + source_ref_increment)%N in
  let s1 := map (fun t => (t, false)) [0;0;0;0;0; 1;1;1;1;1; 0;0;0;0;0;0]%nat in
  let s2 := map (fun t => (t, false)) [1;1;1;1;1;1; 0;0]%nat in
  let c1 := st_run P s1 w0 progs srcs in
  let c2 := st_run P (s1 ++ s2) w0 progs srcs in
  ids_faithful P /\ good_init w0 /\
  pc (snd c1 0%nat) = RWait 0 /\ cb_running (cb (fst c1) 0%nat) = Some 1%nat /\
  cb_dtor (cb (fst c1) 0%nat) = 1%nat /\
  count_req_true (log (fst c2)) = 1%nat /\ cb_runs (cb (fst c2) 0%nat) = 1%nat /\
  cb_dtor (cb (fst c2) 0%nat) = 2%nat /\ cb_deq (cb (fst c2) 0%nat) = true /\
  thread_done (snd c2 0%nat) = true /\ thread_done (snd c2 1%nat) = true /\
  bad_run_after_dtor (fst c2) = false /\ bad_dtor_during_run (fst c2) = false.
Proof.
  Transparent W. split; [|vm_compute; repeat split; reflexivity].
  intros t1 t2. cbn. tauto.
Qed.

(* the hypothesis ids_faithful is needed: if two threads carry the same pika id (which the runtime
   never does for live threads) the same schedule lets the destructor return during the callback *)
Example C14_ids_faithful_needed :
  let P := {| cb_body := fun _ => [OpTokCopy]; pika_id := fun _ => Some 7%nat; os_id := fun t => t |} in
  let progs := fun t => match t with 0%nat => [OpAdd 0; OpRem 0] | 1%nat => [OpReq] | _ => [] end in
  let srcs := fun t => match t with 1%nat => 1%nat | _ => 0%nat end in
  let w0 := (3 + source_ref_increment)%N in
  let s := map (fun t => (t, false)) [0;0;0;0;0; 1;1;1;1;1; 0;0;0;0;0;0]%nat in
  ~ ids_faithful P /\ bad_dtor_during_run (fst (st_run P s w0 progs srcs)) = true.
Proof.
  split; [|vm_compute; reflexivity].
  intros H. specialize (H 0%nat 1%nat). cbn in H. discriminate (H eq_refl).
Qed.

(* pika TASKS: every model thread is a task with its own pika thread id, running on an arbitrary OS thread
   ([osf]: all tasks on ONE worker OS thread, or any other assignment).  The identity test never consults the OS
   thread id of a task, such parameters are faithful whatever [osf] is, so both destructor clauses hold for tasks
   that share a worker OS thread: the destructor called by task B waits for the callback running inside task A
   also when A entered request_stop on the OS thread B is running on. *)
Theorem C14_dtor_waits_tasks_any_os_thread : forall body osf sched w0 progs srcs, good_init w0 ->
  let P := task_params body osf in
  let c := st_run P sched w0 progs srcs in
  bad_dtor_during_run (fst c) = false /\
  forall t k,
    (pc (snd c t) = RRelease k ->
       cb_running (cb (fst c) k) = None \/ cb_running (cb (fst c) k) = Some t) /\
    (pc (snd c t) = RWait k -> cb_running (cb (fst c) k) <> Some t) /\
    (same_thread P (fst c) t = true <-> winner (fst c) = Some t).
Proof. exact dtor_waits_tasks_any_os_thread. Qed.
Print Assumptions C14_dtor_waits_tasks_any_os_thread.

(* non-vacuity: the run of C14_callbacks_example with two TASKS on ONE OS thread (os_id constant 0): task 0
   destroys callback 0 while it runs inside task 1's request_stop: after [s1] task 0 sits in the waiting loop -- it
   does not take itself for the signalling thread although the recorded signalling OS thread is its own; after
   [s1 ++ s2] the callback ran once and the destructor returned *)
Example C14_tasks_one_os_thread_example :
  let P := task_params (fun _ => [OpTokCopy]) (fun _ => 0%nat) in
  let progs := fun t => match t with 0%nat => [OpAdd 0; OpRem 0] | 1%nat => [OpReq] | _ => [] end in
  let srcs := fun t => match t with 1%nat => 1%nat | _ => 0%nat end in
  let w0 := (3 + source_ref_increment)%N in
  let s1 := map (fun t => (t, false)) [0;0;0;0;0; 1;1;1;1;1; 0;0;0;0;0;0]%nat in
  let s2 := map (fun t => (t, false)) [1;1;1;1;1;1; 0;0]%nat in
  let c1 := st_run P s1 w0 progs srcs in
  let c2 := st_run P (s1 ++ s2) w0 progs srcs in
  good_init w0 /\ os_id P 0%nat = os_id P 1%nat /\
  pc (snd c1 0%nat) = RWait 0 /\ cb_running (cb (fst c1) 0%nat) = Some 1%nat /\
  same_thread P (fst c1) 0%nat = false /\ same_thread P (fst c1) 1%nat = true /\
  sig_os (fst c1) = Some (os_id P 0%nat) /\
  cb_runs (cb (fst c2) 0%nat) = 1%nat /\ cb_dtor (cb (fst c2) 0%nat) = 2%nat /\
  thread_done (snd c2 0%nat) = true /\ thread_done (snd c2 1%nat) = true /\
  bad_dtor_during_run (fst c2) = false.
Proof. Transparent W. vm_compute. repeat split; reflexivity. Qed.

(* ------------------------------------------------------------------------------------------
   Part 1c: progress (as safety of stuck states) and the "already requested" constructor path.
   [stuck P c]: no thread has a step that changes anything, whatever the weak-CAS oracle answers.
   [wedged g l]: the thread sits at a reference-count step whose guard fails (the counts_fit side
   condition of the model: the packed counters neither overflow nor drop below the references
   that are held; discharged for handle histories in part 2). *)

(* request_stop, the stop_callback constructor and ~stop_callback always return: in every
   reachable stuck configuration every thread has finished its program — no request_stop /
   add_callback / remove_callback caller is stuck in the lock spin and no destructor is stuck in
   the wait loop of remove_callback.  (Callback bodies are finite lists of operations but may nest
   without bound; a non-terminating nest is not a stuck configuration.) *)
Theorem C14_stop_calls_return : forall P sched w0 progs srcs, ids_faithful P -> good_init w0 ->
  let c := st_run P sched w0 progs srcs in
  stuck P c -> (forall t, wedged (fst c) (snd c t) = false) ->
  forall t, thread_done (snd c t) = true.
Proof. exact stop_calls_return. Qed.
Print Assumptions C14_stop_calls_return.

(* the same, read the other way: a configuration with a thread inside a lock spin or inside the
   wait loop of remove_callback always has an enabled step of some thread *)
Theorem C14_no_blocked_call : forall P sched w0 progs srcs, ids_faithful P -> good_init w0 ->
  let c := st_run P sched w0 progs srcs in
  (forall t, wedged (fst c) (snd c t) = false) ->
  forall t, (spinpc (pc (snd c t)) = true \/ exists k, pc (snd c t) = RWait k) -> ~ stuck P c.
Proof. exact no_blocked_call. Qed.
Print Assumptions C14_no_blocked_call.

(* non-vacuity: the final configuration of C14_callbacks_example (destructor waited for the
   callback running on the other thread) is stuck, nobody is wedged, everybody is done *)
Example C14_stop_calls_return_example :
  let P := {| cb_body := fun _ => [OpTokCopy]; pika_id := fun _ => None; os_id := fun t => t |} in
  let progs := fun t => match t with 0%nat => [OpAdd 0; OpRem 0] | 1%nat => [OpReq] | _ => [] end in
  let srcs := fun t => match t with 1%nat => 1%nat | _ => 0%nat end in
  let w0 := (3 + source_ref_increment)%N in
  let s := map (fun t => (t, false)) [0;0;0;0;0; 1;1;1;1;1; 0;0;0;0;0;0; 1;1;1;1;1;1; 0;0]%nat in
  let c := st_run P s w0 progs srcs in
  stuck P c /\ (forall t, wedged (fst c) (snd c t) = false) /\ thread_done (snd c 0%nat) = true /\
  cb_dtor (cb (fst c) 0%nat) = 2%nat.
Proof.
  Transparent W. cbv zeta. split; [|split; [|split]].
  - intros t o. destruct t as [|[|t]]; destruct o; vm_compute; reflexivity.
  - intros t. destruct t as [|[|t]]; vm_compute; reflexivity.
  - vm_compute. reflexivity.
  - vm_compute. reflexivity.
Qed.

(* the side condition cannot be dropped without a hypothesis that ties the initial word to the
   handles held by the threads: with a word that holds no source but a thread that believes it
   owns one, ~stop_source wedges at the source-count decrement *)
Example C14_stop_calls_return_counts_needed :
  let P := {| cb_body := fun _ => []; pika_id := fun _ => None; os_id := fun t => t |} in
  let progs := fun t => match t with 0%nat => [OpSrcDrop] | _ => [] end in
  let srcs := fun t => match t with 0%nat => 1%nat | _ => 0%nat end in
  let c := st_run P [(0%nat, false)] 1%N progs srcs in
  ids_faithful P /\ good_init 1%N /\ stuck P c /\ thread_done (snd c 0%nat) = false /\
  wedged (fst c) (snd c 0%nat) = true.
Proof.
  Transparent W. cbv zeta. split; [intros t1 t2; cbn; tauto|]. split; [vm_compute; repeat split; reflexivity|].
  split; [|split; vm_compute; reflexivity].
  intros t o. destruct t as [|t]; destruct o; vm_compute; reflexivity.
Qed.

(* "immediately in the constructor if it already was": if stop has been requested before the
   construction of stop_callback k starts (state after s1), then in every later state (after
   s1 ++ s2) k is not and never was linked into callbacks_ / dequeued / registered, and as soon as
   its constructor has returned its callback has run exactly once, inside the constructor
   (cb_inctor), on the constructing thread (every EvRun k event carries inctor = true and the
   thread recorded in cb_cthr). *)
Theorem C14_callback_runs_in_ctor_if_requested : forall P s1 s2 w0 progs srcs k,
  ids_faithful P -> good_init w0 ->
  let g1 := fst (st_run P s1 w0 progs srcs) in
  let g2 := fst (st_run P (s1 ++ s2) w0 progs srcs) in
  w_stop_requested (word g1) = true -> cb_ctor (cb g1 k) = 0 ->
  cb_queued (cb g2 k) = false /\ ~ In k (cbs g2) /\ cb_deq (cb g2 k) = false /\
  (1 <= cb_ctor (cb g2 k) -> cb_reg (cb g2 k) = false) /\
  cb_runs (cb g2 k) <= 1 /\
  (cb_ctor (cb g2 k) = 2 -> cb_runs (cb g2 k) = 1 /\ cb_inctor (cb g2 k) = true) /\
  (forall t b, In (EvRun k t b) (log g2) -> b = true /\ cb_cthr (cb g2 k) = Some t).
Proof. exact callback_runs_in_ctor_if_requested. Qed.
Print Assumptions C14_callback_runs_in_ctor_if_requested.

(* non-vacuity: thread 1 requests stop (s1), then thread 0 constructs callback 0 (s2) *)
Example C14_callback_in_ctor_example :
  let P := {| cb_body := fun _ => [OpTokCopy]; pika_id := fun _ => None; os_id := fun t => t |} in
  let progs := fun t => match t with 0%nat => [OpAdd 0] | 1%nat => [OpReq] | _ => [] end in
  let srcs := fun t => match t with 1%nat => 1%nat | _ => 0%nat end in
  let w0 := (3 + source_ref_increment)%N in
  let s1 := map (fun t => (t, false)) [1;1;1;1]%nat in
  let s2 := map (fun t => (t, false)) [0;0;0;0;0;0;0;0]%nat in
  let g1 := fst (st_run P s1 w0 progs srcs) in
  let c2 := st_run P (s1 ++ s2) w0 progs srcs in
  w_stop_requested (word g1) = true /\ cb_ctor (cb g1 0%nat) = 0%nat /\
  cb_ctor (cb (fst c2) 0%nat) = 2%nat /\ cb_runs (cb (fst c2) 0%nat) = 1%nat /\
  cb_inctor (cb (fst c2) 0%nat) = true /\ In (EvRun 0 0 true) (log (fst c2)) /\
  thread_done (snd c2 0%nat) = true.
Proof. Transparent W. vm_compute. repeat split; try reflexivity. right. left. reflexivity. Qed.

(* the source field of the word in the concurrent model is an exact count of the stop_source
   handles: [held l] = stop_sources owned by a thread as the word sees them (hsrc, minus the one
   whose count ~stop_source has already taken back), [base] = stop_sources owned outside the
   modelled threads, threads >= nthr own none ([good_srcs]: the initial word agrees with that) *)
Theorem C14_sources_exact : forall P sched w0 progs srcs nthr base, good_init w0 ->
  good_srcs nthr base w0 srcs ->
  let c := st_run P sched w0 progs srcs in
  w_sources (word (fst c)) = (base + N.of_nat (sumf (fun t => held (snd c t)) nthr))%N /\
  forall t, nthr <= t -> held (snd c t) = 0.
Proof. exact sources_exact. Qed.
Print Assumptions C14_sources_exact.

(* the "registration refused because not stop_possible" outcome of add_callback (the third
   alternative of C14_callback_exactly_once): the read of lock_if_not_stopped that sends the
   constructor of k to its refused exit (ALoad / ACas / ASpin -> ARelease, nothing ran) happens
   only when stop was not requested and no stop_source for the state exists anywhere *)
Theorem C14_refused_only_if_no_source : forall P sched w0 progs srcs nthr base, good_init w0 ->
  good_srcs nthr base w0 srcs ->
  let c := st_run P sched w0 progs srcs in
  forall t o k,
    (pc (norm (snd c t)) = ALoad k \/ (exists old, pc (norm (snd c t)) = ACas k old) \/
     pc (norm (snd c t)) = ASpin k) ->
    pc (snd (st_tstep P o t (fst c) (snd c t))) = ARelease k ->
    w_stop_requested (word (fst c)) = false /\ w_sources (word (fst c)) = 0%N /\ base = 0%N /\
    forall t', held (snd c t') = 0.
Proof. exact refused_only_if_no_source. Qed.
Print Assumptions C14_refused_only_if_no_source.

(* non-vacuity: (a) the lock-step harness's initial words satisfy good_srcs (thread 1 owns the only
   source); (b) a state with two token owners and no source: the constructor of callback 0 reads
   the word at ALoad and is refused *)
Example C14_refused_example :
  let P := {| cb_body := fun _ => []; pika_id := fun _ => None; os_id := fun t => t |} in
  good_srcs 2 0 (3 + source_ref_increment)%N (fun t => match t with 1%nat => 1%nat | _ => 0%nat end) /\
  let progs := fun t => match t with 0%nat => [OpAdd 0] | _ => [] end in
  let c := st_run P [(0%nat, false); (0%nat, false)] 2%N progs (fun _ => 0%nat) in
  good_init 2%N /\ good_srcs 1 0 2%N (fun _ => 0%nat) /\ pc (norm (snd c 0%nat)) = ALoad 0 /\
  pc (snd (st_tstep P false 0 (fst c) (snd c 0%nat))) = ARelease 0.
Proof.
  Transparent W. cbv zeta. split; [split; [intros [|[|t]] H; try lia; reflexivity|vm_compute; reflexivity]|].
  split; [vm_compute; repeat split; reflexivity|]. split; [split; [reflexivity|vm_compute; reflexivity]|].
  split; vm_compute; reflexivity.
Qed.

(* ------------------------------------------------------------------------------------------
   Part 1d: the reference-count side condition discharged from the initial condition, and the
   refused registration as an absorbing state (Proofs/StopTokensProofs.v, StopRefusedProofs.v).
   [good_toks nthr tbase w0 progs srcs]: threads >= nthr have empty programs (finitely many active
   threads), the token field of the initial word is tbase + (one reference per stop_source held by
   a thread), and at least one reference is owned outside the modelled threads (tbase >= 1: the
   state is not deleted under the threads' feet — deletion is not modelled).
   [tkheld l]: references a thread holds as the word sees them = token copies + stop_sources +
   (1 between add_ref and add_source_count of stop_source's copy constructor) + (1 per stop_callback
   constructor of this thread that has taken its reference and neither registered nor released
   yet, nested constructors running on the same thread included).
   [owns r]: the stop_callback object is registered and its destructor has not yet released. *)

(* the token field of the word is an exact count of the references: outside + held by the threads
   + one per registered, not yet destroyed stop_callback object (L lists exactly those) *)
Theorem C14_tokens_exact : forall P sched w0 progs srcs nthr sbase tbase, ids_faithful P ->
  good_init w0 -> good_srcs nthr sbase w0 srcs -> good_toks nthr tbase w0 progs srcs ->
  let c := st_run P sched w0 progs srcs in
  exists L, NoDup L /\ (forall k, In k L <-> owns (cb (fst c) k) = true) /\
    w_tokens (word (fst c)) =
      (tbase + N.of_nat (sumf (fun t => tkheld (snd c t)) nthr + length L))%N /\
    forall t, nthr <= t -> snd c t = idle_local.
Proof. exact tokens_exact. Qed.
Print Assumptions C14_tokens_exact.

(* no reachable configuration is wedged: no reference-count step finds its guard false, as long as
   the number of handles that can have been created (one per step at most) stays below 2^31 - 1
   per field *)
Theorem C14_never_wedged : forall P sched w0 progs srcs nthr sbase tbase, ids_faithful P ->
  good_init w0 -> good_srcs nthr sbase w0 srcs -> good_toks nthr tbase w0 progs srcs ->
  (w_tokens w0 + N.of_nat (length sched) < tok_max)%N ->
  (w_sources w0 + N.of_nat (length sched) < src_max)%N ->
  let c := st_run P sched w0 progs srcs in
  forall t, wedged (fst c) (snd c t) = false.
Proof. exact never_wedged. Qed.
Print Assumptions C14_never_wedged.

(* C14_stop_calls_return without its side condition: request_stop, the stop_callback constructor
   and ~stop_callback always return — in every stuck configuration reached from a well-formed
   initial configuration every thread has finished its program *)
Theorem C14_stop_calls_return_from_init : forall P sched w0 progs srcs nthr sbase tbase,
  ids_faithful P -> good_init w0 -> good_srcs nthr sbase w0 srcs ->
  good_toks nthr tbase w0 progs srcs ->
  (w_tokens w0 + N.of_nat (length sched) < tok_max)%N ->
  (w_sources w0 + N.of_nat (length sched) < src_max)%N ->
  let c := st_run P sched w0 progs srcs in
  (forall t, wedged (fst c) (snd c t) = false) /\
  (stuck P c -> forall t, thread_done (snd c t) = true).
Proof. exact stop_calls_return_from_init. Qed.
Print Assumptions C14_stop_calls_return_from_init.

Theorem C14_no_blocked_call_from_init : forall P sched w0 progs srcs nthr sbase tbase,
  ids_faithful P -> good_init w0 -> good_srcs nthr sbase w0 srcs ->
  good_toks nthr tbase w0 progs srcs ->
  (w_tokens w0 + N.of_nat (length sched) < tok_max)%N ->
  (w_sources w0 + N.of_nat (length sched) < src_max)%N ->
  let c := st_run P sched w0 progs srcs in
  forall t, (spinpc (pc (snd c t)) = true \/ exists k, pc (snd c t) = RWait k) -> ~ stuck P c.
Proof. exact no_blocked_call_from_init. Qed.
Print Assumptions C14_no_blocked_call_from_init.

(* non-vacuity: the configuration of C14_stop_calls_return_example (the lock-step harness's initial
   word: two references outside, thread 1 owns the only source) satisfies every hypothesis *)
Example C14_from_init_example :
  let P := {| cb_body := fun _ => [OpTokCopy]; pika_id := fun _ => None; os_id := fun t => t |} in
  let progs := fun t => match t with 0%nat => [OpAdd 0; OpRem 0] | 1%nat => [OpReq] | _ => [] end in
  let srcs := fun t => match t with 1%nat => 1%nat | _ => 0%nat end in
  let w0 := (3 + source_ref_increment)%N in
  let s := map (fun t => (t, false)) [0;0;0;0;0; 1;1;1;1;1; 0;0;0;0;0;0; 1;1;1;1;1;1; 0;0]%nat in
  ids_faithful P /\ good_init w0 /\ good_srcs 2 0 w0 srcs /\ good_toks 2 2 w0 progs srcs /\
  (w_tokens w0 + N.of_nat (length s) < tok_max)%N /\ (w_sources w0 + N.of_nat (length s) < src_max)%N /\
  stuck P (st_run P s w0 progs srcs) /\
  w_tokens (word (fst (st_run P s w0 progs srcs))) = 4%N.
Proof.
  Transparent W w_tokens w_sources. cbv zeta. split; [intros t1 t2; cbn; tauto|].
  split; [vm_compute; repeat split; reflexivity|].
  split; [split; [intros [|[|t]] H; try lia; reflexivity|vm_compute; reflexivity]|].
  split; [split; [intros [|[|t]] H; try lia; reflexivity|split; [vm_compute; discriminate|vm_compute; reflexivity]]|].
  split; [vm_compute; reflexivity|]. split; [vm_compute; reflexivity|].
  split; [|vm_compute; reflexivity].
  intros t o. destruct t as [|[|t]]; destruct o; vm_compute; reflexivity.
Qed.

(* the refused registration, state form.  If at the end of s1 thread t executes (oracle o) the read
   of lock_if_not_stopped that refuses callback k (C14_refused_only_if_no_source says when that
   happens), then in EVERY later configuration: k was never invoked, is not registered, is not and
   never was linked into callbacks_ / dequeued, and either t still stands at the release of the
   constructor's reference or the constructor has returned: cb_ctor = 2, cb_reg = false, cb_runs = 0 *)
Theorem C14_refused_state : forall P s1 s2 w0 progs srcs t o k, ids_faithful P -> good_init w0 ->
  let c1 := st_run P s1 w0 progs srcs in
  (pc (norm (snd c1 t)) = ALoad k \/ (exists old, pc (norm (snd c1 t)) = ACas k old) \/
   pc (norm (snd c1 t)) = ASpin k) ->
  pc (snd (st_tstep P o t (fst c1) (snd c1 t))) = ARelease k ->
  let c2 := st_run P (s1 ++ (t, o) :: s2) w0 progs srcs in
  cb_runs (cb (fst c2) k) = 0 /\ cb_reg (cb (fst c2) k) = false /\
  cb_queued (cb (fst c2) k) = false /\ ~ In k (cbs (fst c2)) /\ cb_deq (cb (fst c2) k) = false /\
  ((cb_ctor (cb (fst c2) k) = 1 /\ pc (snd c2 t) = ARelease k) \/ cb_ctor (cb (fst c2) k) = 2).
Proof. exact refused_state. Qed.
Print Assumptions C14_refused_state.

(* ... and that end state is absorbing: once cb_ctor = 2, cb_reg = false, cb_runs = 0 holds it
   holds in every extension of the schedule (the callback is never invoked later, never linked) *)
Theorem C14_refused_absorbing : forall P s1 s2 w0 progs srcs k, ids_faithful P -> good_init w0 ->
  let g1 := fst (st_run P s1 w0 progs srcs) in
  let g2 := fst (st_run P (s1 ++ s2) w0 progs srcs) in
  cb_ctor (cb g1 k) = 2 -> cb_reg (cb g1 k) = false -> cb_runs (cb g1 k) = 0 ->
  cb_ctor (cb g2 k) = 2 /\ cb_reg (cb g2 k) = false /\ cb_runs (cb g2 k) = 0 /\
  cb_queued (cb g2 k) = false /\ ~ In k (cbs g2) /\ cb_deq (cb g2 k) = false.
Proof. exact refused_absorbing. Qed.
Print Assumptions C14_refused_absorbing.

(* non-vacuity: the refusal of C14_refused_example, one more step of thread 0 (the release), then a
   request_stop of thread 1 that comes too late for callback 0 (thread 1 holds no source: no-op) *)
Example C14_refused_state_example :
  let P := {| cb_body := fun _ => []; pika_id := fun _ => None; os_id := fun t => t |} in
  let progs := fun t => match t with 0%nat => [OpAdd 0] | 1%nat => [OpTokCopy] | _ => [] end in
  let s1 := [(0%nat, false); (0%nat, false)] in
  let c1 := st_run P s1 2%N progs (fun _ => 0%nat) in
  let c2 := st_run P (s1 ++ (0%nat, false) :: [(0%nat, false); (1%nat, false); (1%nat, false)]) 2%N progs (fun _ => 0%nat) in
  pc (norm (snd c1 0%nat)) = ALoad 0 /\ pc (snd (st_tstep P false 0 (fst c1) (snd c1 0%nat))) = ARelease 0 /\
  cb_ctor (cb (fst c2) 0%nat) = 2%nat /\ cb_reg (cb (fst c2) 0%nat) = false /\
  cb_runs (cb (fst c2) 0%nat) = 0%nat /\ thread_done (snd c2 0%nat) = true /\ w_tokens (word (fst c2)) = 3%N.
Proof. Transparent W w_tokens. vm_compute. repeat split; reflexivity. Qed.

(* ------------------------------------------------------------------------------------------
   Part 2: handle histories (stop_source / stop_token construct, copy, move, copy-assign,
   move-assign, swap, destroy, get_token, request_stop) — for EVERY history shorter than 2^31-1
   operations (counts_fit side condition). *)

(* the two packed counters are exact reference counts; no dangling handle; ownerless states are freed *)
Theorem C14_counts_exact : forall h, (N.of_nat (length h) < tok_max)%N ->
  forall s,
    match sl_get s (heap (h_run h)) with
    | Some w => w_tokens w = N.of_nat (n_src (h_run h) s + n_tok (h_run h) s) /\
                w_sources w = N.of_nat (n_src (h_run h) s) /\
                w_is_locked w = false /\ 1 <= n_src (h_run h) s + n_tok (h_run h) s
    | None => n_src (h_run h) s + n_tok (h_run h) s = O
    end.
Proof. exact counts_exact. Qed.
Print Assumptions C14_counts_exact.

(* the side condition suffices: no counter ever carries into the neighbouring field *)
Theorem C14_counts_fit : forall h, (N.of_nat (length h) < tok_max)%N ->
  forall s w, sl_get s (heap (h_run h)) = Some w ->
    (w_tokens w <= N.of_nat (length h))%N /\ (w_sources w <= N.of_nat (length h))%N /\
    (w_tokens w <= tok_max)%N /\ (w_sources w <= src_max)%N.
Proof. exact counts_fit. Qed.
Print Assumptions C14_counts_fit.

(* stop_possible is true exactly while a stop was requested or a stop_source for that state
   still exists — after any copies, moves, assignments, swaps and destructions *)
Theorem C14_stop_possible_iff : forall h, (N.of_nat (length h) < tok_max)%N ->
  forall k s, sl_get k (toks (h_run h)) = Some (Some s) ->
    (tok_possible (h_run h) k = true <->
     (st_requested (heap (h_run h)) s = true \/
      exists j, sl_get j (srcs (h_run h)) = Some (Some s))).
Proof. exact stop_possible_iff. Qed.
Print Assumptions C14_stop_possible_iff.

Theorem C14_stop_possible_nostate : forall h k,
  sl_get k (toks (h_run h)) = Some None -> tok_possible (h_run h) k = false /\ tok_requested (h_run h) k = false.
Proof. exact stop_possible_nostate. Qed.
Print Assumptions C14_stop_possible_nostate.

Theorem C14_requested_sticky_hist : forall h h', (N.of_nat (length (h ++ h')) < tok_max)%N ->
  forall s, st_requested (heap (h_run h)) s = true ->
    match sl_get s (heap (h_run (h ++ h'))) with
    | Some w' => w_stop_requested w' = true
    | None => True
    end.
Proof. exact requested_sticky_hist. Qed.
Print Assumptions C14_requested_sticky_hist.

Theorem C14_request_once_hist : forall h, (N.of_nat (length h) < tok_max)%N ->
  forall s, n_true s (reqlog (h_run h)) <= 1.
Proof. exact request_once_hist. Qed.
Print Assumptions C14_request_once_hist.

(* non-vacuity: a; ta = a.get_token(); b; a = b; ~b; ~a leaves ta.stop_possible() = false *)
Example C14_handles_example :
  let h := [SrcNew 0; TokGet 0 0; SrcNew 1; SrcAssign 0 1; SrcDestroy 1; SrcDestroy 0] in
  (N.of_nat (length h) < tok_max)%N /\
  h_obs (h_run h) = ([], [(0, (false, false))]) /\ heap (h_run h) = [Some 1%N; None].
Proof. vm_compute. repeat split. Qed.

(* ======== round p12a: the no-source half of the refusal is absorbing (Proofs/StopNoSourceProofs.v) ========
   C14_refused_only_if_no_source says a registration is refused only when stop was not requested and no stop_source exists.
   That state never ends: once w_stop_possible is false after s1, it is false after every s1 ++ s2 — stop is never requested
   (request_stop is a member of stop_source: the new local invariant QS, a thread at QLoad / QCas / QSpin holds a stop_source),
   the source field stays 0, and no thread ever holds a stop_source again.  So a refused callback can never become invocable later:
   refusing instead of queueing loses nothing. *)
From Pika Require Import Proofs.StopNoSourceProofs.

Theorem C14_no_source_is_absorbing : forall P s1 s2 w0 progs srcs nthr base, good_init w0 -> good_srcs nthr base w0 srcs ->
  let c1 := st_run P s1 w0 progs srcs in
  let c2 := st_run P (s1 ++ s2) w0 progs srcs in
  w_stop_possible (word (fst c1)) = false ->
  w_stop_possible (word (fst c2)) = false /\ w_stop_requested (word (fst c2)) = false /\ w_sources (word (fst c2)) = 0%N /\
  base = 0%N /\ forall t, held (snd c2 t) = 0.
Proof. exact no_source_is_absorbing. Qed.
Print Assumptions C14_no_source_is_absorbing.

(* the local invariant it needs, on its own: whoever is inside the CAS loop of request_stop holds a stop_source *)
Theorem C14_request_stop_needs_source : forall P sched w0 progs srcs nthr base, good_init w0 -> good_srcs nthr base w0 srcs ->
  let c := st_run P sched w0 progs srcs in
  forall t, match pc (snd c t) with QLoad | QCas _ | QSpin => 1 <= hsrc (snd c t) | _ => True end.
Proof. exact request_stop_needs_source. Qed.
Print Assumptions C14_request_stop_needs_source.

(* non-vacuity: two token owners and no source (the state of C14_refused_example): stop_possible is false initially; thread 0
   constructs callback 0 (refused) while thread 1, which holds no source, tries request_stop and a source copy: nothing changes *)
Example C14_no_source_example :
  let P := {| cb_body := fun _ => []; pika_id := fun _ => None; os_id := fun t => t |} in
  let progs := fun t => match t with 0%nat => [OpAdd 0] | 1%nat => [OpReq; OpSrcCopy] | _ => [] end in
  let c1 := st_run P [] 2%N progs (fun _ => 0%nat) in
  let c2 := st_run P ([] ++ [(0%nat, false); (1%nat, false); (0%nat, false); (1%nat, false); (0%nat, false); (0%nat, false)]) 2%N progs (fun _ => 0%nat) in
  good_init 2%N /\ good_srcs 2 0 2%N (fun _ => 0%nat) /\ w_stop_possible (word (fst c1)) = false /\
  w_stop_possible (word (fst c2)) = false /\ cb_ctor (cb (fst c2) 0) = 2 /\ cb_reg (cb (fst c2) 0) = false.
Proof.
  Transparent W. cbv zeta. split; [vm_compute; repeat split; reflexivity|].
  split; [split; [intros t Ht; reflexivity|vm_compute; reflexivity]|]. vm_compute. repeat split; reflexivity.
Qed.
