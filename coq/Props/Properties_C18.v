(* Props/Properties_C18.v — C18: type-erased senders and functions behave like what they wrap.
   Only statements.  The model (Model/Erased.v) follows movable_/copyable_sbo_storage,
   unique_any_sender / any_sender (both with and without PIKA_DETAIL_ENABLE_ANY_SENDER_SBO:
   parameter [sbo]) and function_base / basic_function branch for branch; histories are
   arbitrary lists of wrapper operations over an arbitrary number of wrappers; wrapped objects
   are arbitrary values (size class, copyability, behaviour, payload, mutable call state). *)
From Coq Require Import List Bool Arith ZArith NArith Permutation.
From Pika Require Import Gen.GenErased Gen.GenErasedSteps Model.Erased Model.ErasedSteps Model.ErasedBlocks
  Proofs.ErasedProofs Proofs.ErasedSpecProofs Proofs.ErasedThrowProofs Proofs.ErasedStepsProofs Proofs.ErasedBlocksProofs.
Import ListNotations.

(* --- erased_transparent: for every history, what an observer sees of the wrappers (outcome of
   every connect+start / invoke: value, error, stopped, escaped exception; emptiness of every
   wrapper after every step) is what the same history does to plain optional values of the
   wrapped type, where connect / invoke act DIRECTLY on the wrapped value (direct_connect,
   call).  Inline or heap placement and the SBO macro are unobservable. *)
Theorem C18_erased_transparent_senders : forall sbo n ops,
  map obs (fst (trace (sstep sbo) ops (init n))) = spec_trace sspec ops (repeat None n).
Proof. exact sender_transparent. Qed.
Print Assumptions C18_erased_transparent_senders.

Theorem C18_erased_transparent_functions : forall n ops,
  map obs (fst (trace fstep ops (init n))) = spec_trace fspec ops (repeat None n).
Proof. exact function_transparent. Qed.
Print Assumptions C18_erased_transparent_functions.

(* the same, step-wise and in any state: a wrapper holding v completes / returns / throws as v *)
Theorem C18_connect_transparent : forall sbo st j v,
  j < length (slots st) -> abs (slot (slots st) j) = Some v ->
  fst (sstep sbo (SConnectRv j) st) = direct_connect v /\
  fst (sstep sbo (SConnectLv j) st) = direct_connect v /\
  abs (slot (slots (snd (sstep sbo (SConnectLv j) st))) j) = Some v.
Proof. exact connect_transparent. Qed.
Print Assumptions C18_connect_transparent.

Theorem C18_invoke_transparent : forall st j v arg,
  j < length (slots st) -> abs (slot (slots st) j) = Some v ->
  fst (fstep (FInvoke j arg) st) = fst (call v arg) /\
  abs (slot (slots (snd (fstep (FInvoke j arg) st))) j) = Some (snd (call v arg)).
Proof. exact invoke_transparent. Qed.
Print Assumptions C18_invoke_transparent.

(* --- copies_independent: a copy holds an equal value and leaves the source as it was; no two
   wrappers ever hold the same object; an operation changes only the wrappers it names *)
Theorem C18_copies_independent_senders : forall sbo st j i,
  j < length (slots st) -> i < length (slots st) -> j <> i ->
  let st' := snd (sstep sbo (SCopy j i) st) in
  abs (slot (slots st') j) = abs (slot (slots st) i) /\ slot (slots st') i = slot (slots st) i.
Proof. exact sender_copy_equal. Qed.
Print Assumptions C18_copies_independent_senders.

Theorem C18_copies_independent_functions : forall st j i op, is_copy_f op j i ->
  j < length (slots st) -> i < length (slots st) -> j <> i ->
  let st' := snd (fstep op st) in
  abs (slot (slots st') j) = abs (slot (slots st) i) /\ abs (slot (slots st') i) = abs (slot (slots st) i).
Proof. exact function_copy_equal. Qed.
Print Assumptions C18_copies_independent_functions.

Theorem C18_no_object_shared_senders : forall sbo n ops,
  NoDup (ids (slots (run (sstep sbo) ops (init n)))).
Proof. exact no_sharing_s. Qed.
Print Assumptions C18_no_object_shared_senders.

Theorem C18_no_object_shared_functions : forall n ops, NoDup (ids (slots (run fstep ops (init n)))).
Proof. exact no_sharing_f. Qed.
Print Assumptions C18_no_object_shared_functions.

Theorem C18_frame_senders : forall sbo op st k, ~ In k (sop_slots op) ->
  slot (slots (snd (sstep sbo op st))) k = slot (slots st) k.
Proof. exact sender_frame. Qed.
Print Assumptions C18_frame_senders.

Theorem C18_frame_functions : forall op st k, ~ In k (fop_slots op) ->
  slot (slots (snd (fstep op st))) k = slot (slots st) k.
Proof. exact function_frame. Qed.
Print Assumptions C18_frame_functions.

Theorem C18_self_assign_noop : forall sbo st j,
  sstep sbo (SMove j j) st = (ONone, st) /\ sstep sbo (SCopy j j) st = (ONone, st) /\
  fstep (FCopyAssign j j) st = (ONone, st) /\ fstep (FMoveAssign j j) st = (ONone, st) /\
  fstep (FSwap j j) st = (ONone, st).
Proof. exact self_assign_noop. Qed.
Print Assumptions C18_self_assign_noop.

(* --- moved_from_empty: the source of a move is empty afterwards and the target holds what the
   source held; r-value connect empties the wrapper; default-constructed wrappers are empty *)
Theorem C18_moved_from_empty_senders : forall sbo st j i op, is_move_s op j i ->
  j < length (slots st) -> i < length (slots st) -> j <> i ->
  slot (slots (snd (sstep sbo op st))) i = Empty /\
  abs (slot (slots (snd (sstep sbo op st))) j) = abs (slot (slots st) i).
Proof. exact sender_moved_from_empty. Qed.
Print Assumptions C18_moved_from_empty_senders.

Theorem C18_moved_from_empty_functions : forall st j i op, is_move_f op j i ->
  j < length (slots st) -> i < length (slots st) -> j <> i ->
  slot (slots (snd (fstep op st))) i = Empty /\
  abs (slot (slots (snd (fstep op st))) j) = abs (slot (slots st) i).
Proof. exact function_moved_from_empty. Qed.
Print Assumptions C18_moved_from_empty_functions.

Theorem C18_connect_rvalue_leaves_empty : forall sbo st j, j < length (slots st) ->
  slot (slots (snd (sstep sbo (SConnectRv j) st))) j = Empty.
Proof. exact connect_rv_leaves_empty. Qed.
Print Assumptions C18_connect_rvalue_leaves_empty.

Theorem C18_default_constructed_empty : forall n j, slot (slots (init n)) j = Empty.
Proof. exact default_constructed_empty. Qed.
Print Assumptions C18_default_constructed_empty.

(* --- empty_use_throws: using an empty wrapper raises the defined error (bad_function_call)
   and has no other effect (no object is constructed or destroyed, no wrapper changes) *)
Theorem C18_empty_use_throws_senders : forall sbo st j,
  j < length (slots st) -> slot (slots st) j = Empty ->
  sstep sbo (SConnectRv j) st = (OThrewBad, st) /\ sstep sbo (SConnectLv j) st = (OThrewBad, st).
Proof. exact sender_empty_use_throws. Qed.
Print Assumptions C18_empty_use_throws_senders.

Theorem C18_empty_use_throws_functions : forall st j arg,
  j < length (slots st) -> slot (slots st) j = Empty ->
  fstep (FInvoke j arg) st = (OThrewBad, st).
Proof. exact function_empty_use_throws. Qed.
Print Assumptions C18_empty_use_throws_functions.

(* --- contained_destroyed_once: for every history of store / copy / move / assign / reset /
   connect / invoke (heap path, any_sender's inline path, basic_function's inline buffer with
   bitwise relocation): at every point every object ever constructed (user temporaries,
   contained objects, operation states) was constructed once and is either held by exactly one
   wrapper or was destroyed exactly once; when the wrappers go out of scope everything that was
   constructed has been destroyed exactly once. *)
Theorem C18_contained_destroyed_once_senders : forall sbo n ops,
  let st := run (sstep sbo) ops (init n) in
  (NoDup (ctors (led st)) /\ NoDup (ids (slots st) ++ dtors (led st)) /\
   Permutation (ctors (led st)) (ids (slots st) ++ dtors (led st))) /\
  let L := led (destroy_all st) in
  NoDup (ctors L) /\ NoDup (dtors L) /\ Permutation (ctors L) (dtors L).
Proof. exact sender_destroyed_once. Qed.
Print Assumptions C18_contained_destroyed_once_senders.

Theorem C18_contained_destroyed_once_functions : forall n ops,
  let st := run fstep ops (init n) in
  (NoDup (ctors (led st)) /\ NoDup (ids (slots st) ++ dtors (led st)) /\
   Permutation (ctors (led st)) (ids (slots st) ++ dtors (led st))) /\
  let L := led (destroy_all st) in
  NoDup (ctors L) /\ NoDup (dtors L) /\ Permutation (ctors L) (dtors L).
Proof. exact function_destroyed_once. Qed.
Print Assumptions C18_contained_destroyed_once_functions.

(* --- exception safety.  The theorems above are about histories in which the wrapped objects'
   copy / move constructors do not throw.  sxstep / gstep add, for EVERY wrapper operation that
   constructs a wrapped object, the variant in which that constructor throws, in the source's
   order of destroy / allocate / construct.

   Senders (unique_any_sender / any_sender, with and without SBO, incl. nested): every history with
   any number of throwing stores, clones, nestings, embedded moves and r-value connects keeps
   contained_destroyed_once, and after a step that threw every wrapper is unchanged or empty. *)
Theorem C18_exception_safety_senders : forall sbo n ops,
  (let st := run (sxstep sbo) ops (init n) in
   (NoDup (ctors (led st)) /\ NoDup (ids (slots st) ++ dtors (led st)) /\
    Permutation (ctors (led st)) (ids (slots st) ++ dtors (led st))) /\
   let L := led (destroy_all st) in
   NoDup (ctors L) /\ NoDup (dtors L) /\ Permutation (ctors L) (dtors L)) /\
  (forall op st k, sx_is_throw op = true -> fst (sxstep sbo op st) = OThrew 0 ->
     slot (slots (snd (sxstep sbo op st))) k = slot (slots st) k \/
     slot (slots (snd (sxstep sbo op st))) k = Empty).
Proof. exact sender_exception_safety. Qed.
Print Assumptions C18_exception_safety_senders.

(* Functions.  Full statement that is NOT provable for the code as it is:
     forall n ops, facts (xs (grun ops (xinit n))) /\ after a throwing step every wrapper is unchanged or Empty
     and not stale.
   Proved: the same for histories whose throwing steps CONSTRUCT a wrapper (function(F&&) /
   unique_function(F&&), the copy constructor) — gsafe; refuted for assignment (three witnesses). *)
Theorem C18_exception_safety_functions_partial : forall n ops, forallb gsafe ops = true ->
  (let st := xs (grun ops (xinit n)) in
   (NoDup (ctors (led st)) /\ NoDup (ids (slots st) ++ dtors (led st)) /\
    Permutation (ctors (led st)) (ids (slots st) ++ dtors (led st))) /\
   let L := led (destroy_all st) in
   NoDup (ctors L) /\ NoDup (dtors L) /\ Permutation (ctors L) (dtors L)) /\
  (forall j, nth j (stale (grun ops (xinit n))) None = None) /\
  (forall op x k, gsafe op = true -> g_is_throw op = true -> (forall j, nth j (stale x) None = None) ->
     fst (gstep op x) = OThrew 0 ->
     (slot (slots (xs (snd (gstep op x)))) k = slot (slots (xs x)) k \/
      slot (slots (xs (snd (gstep op x)))) k = Empty) /\
     (forall j, nth j (stale (snd (gstep op x))) None = None)).
Proof. exact function_exception_safety_partial. Qed.
Print Assumptions C18_exception_safety_functions_partial.

(* finding F9b (KNOWN_FINDINGS C18:FUNX:...): function::operator=(function const&) onto a non-empty
   function of the same stored type, copy constructor throws: the old object is destroyed twice *)
Theorem C18_throwing_copy_double_destroy_refuted :
  exists n ops x, count_occ Nat.eq_dec (dtors (led (destroy_all (xs (grun ops (xinit n)))))) x = 2.
Proof. exact throwing_copy_double_destroy_refuted. Qed.
Print Assumptions C18_throwing_copy_double_destroy_refuted.

(* the same pattern in another function, basic_function::assign(F&&) (operator=(F&&), assign(F&&)),
   vptr == f_vptr branch (KNOWN_FINDINGS C18:FUNA:...) *)
Theorem C18_throwing_assign_double_destroy_refuted :
  exists n ops x, count_occ Nat.eq_dec (dtors (led (destroy_all (xs (grun ops (xinit n)))))) x = 2.
Proof. exact throwing_assign_double_destroy_refuted. Qed.
Print Assumptions C18_throwing_assign_double_destroy_refuted.

(* basic_function::assign(F&&) onto an EMPTY function: afterwards the wrapper reports empty, but it is
   not a consistent empty wrapper: a copy assignment from a non-empty function (same stored type)
   leaves it empty, and invoking it is undefined behaviour instead of bad_function_call *)
Theorem C18_throwing_assign_stale_refuted :
  exists n ops, let r := gtrace ops (xinit n) in
    map (fun t => (fst (fst t), snd t)) (fst r) =
      [(OThrew 0, [true; true]); (ONone, [true; false]); (ONone, [true; false])] /\
    is_stale (snd r) 0 = true /\
    fst (gstep (GF (FInvoke 0 0)) (snd r)) = OUndef.
Proof. exact throwing_assign_stale_refuted. Qed.
Print Assumptions C18_throwing_assign_stale_refuted.

(* --- nested wrappers.  SNest / FStoreFn are operations of sop / fop, so erased_transparent and
   contained_destroyed_once above already quantify over histories with nesting (the specification
   stores the VALUE of the inner wrapper: nesting is transparent; the inner object's ledger is
   balanced).  Step-wise: *)
Theorem C18_nested_function_transparent : forall st j v mvi mv arg, j < length (slots st) ->
  let st' := snd (fstep (FStoreFn j v false mvi mv) st) in
  abs (slot (slots st') j) = Some v /\
  (exists s, slot (slots st') j = Nested s) /\
  fst (fstep (FInvoke j arg) st') = fst (call v arg) /\
  abs (slot (slots (snd (fstep (FInvoke j arg) st'))) j) = Some (snd (call v arg)).
Proof. exact nested_function_transparent. Qed.
Print Assumptions C18_nested_function_transparent.

(* a unique_any_sender constructed from an L-VALUE any_sender stores a copy of it: it completes as
   the any_sender's sender would (bad_function_call when the any_sender is empty), the source is
   unchanged, and — the one observable difference — it is never empty *)
Theorem C18_nested_sender_transparent : forall sbo st j i,
  j < length (slots st) -> i < length (slots st) -> j <> i ->
  let st' := snd (sstep sbo (SNest j i) st) in
  abs (slot (slots st') j) = Some (nest_val (abs (slot (slots st) i))) /\
  abs (slot (slots st') i) = abs (slot (slots st) i) /\
  is_empty (slot (slots st') j) = false /\
  fst (sstep sbo (SConnectRv j) st') = direct_connect (nest_val (abs (slot (slots st) i))).
Proof. exact nested_sender_transparent. Qed.
Print Assumptions C18_nested_sender_transparent.

(* target<T>() is the one observer that sees nesting: it answers for the stored type *)
Theorem C18_target_sees_nesting : forall s o,
  f_target None (Nested s) = OValue 1 /\
  (forall q, f_target (Some q) (Nested s) = ONone) /\
  f_target None (Heap o) = ONone /\ f_target None (Inline o) = ONone /\
  f_target (Some (vbig (ov o), vcpy (ov o), valn (ov o))) (Heap o) = OValue (vpay (ov o) * 100 + vcalls (ov o)) /\
  f_target (Some (vbig (ov o), vcpy (ov o), valn (ov o))) (Inline o) = OValue (vpay (ov o) * 100 + vcalls (ov o)) /\
  (forall q, f_target q Empty = ONone).
Proof. exact target_sees_nesting. Qed.
Print Assumptions C18_target_sees_nesting.

(* --- the storage decision, on the definitions GENERATED from any_sender.hpp / basic_function.hpp /
   vtable.hpp: an Impl is embedded iff the SBO macro is on, it fits AND is sufficiently aligned
   (over-aligned types go to the heap); basic_function looks at the size only and allocate /
   deallocate agree; the class bits of the histories are these decisions (class_ok is evaluated by the
   driver on the sizeof / alignof the harness reports for every test type) *)
Theorem C18_embedded_storage_decision : forall sbo k size align,
  sender_embeds sbo k size align = true <->
  sbo = true /\ (size <= embedded_size k)%N /\ (align <= sbo_alignment_size)%N.
Proof. exact embedded_decision. Qed.
Print Assumptions C18_embedded_storage_decision.

Theorem C18_function_storage_decision : forall size,
  (function_inline size = true <-> (size <= function_storage_size)%N) /\
  allocate_heap size function_storage_size = deallocate_heap size function_storage_size.
Proof. exact function_decision. Qed.
Print Assumptions C18_function_storage_decision.

Theorem C18_class_bits_decide : forall sbo k size align v,
  class_ok sbo k size align (vbig v) (valn v) = true -> can_embed sbo v = sender_embeds sbo k size align.
Proof. exact class_bits_decide. Qed.
Print Assumptions C18_class_bits_decide.

(* --- the ORDER of the primitive steps of every special member (function_base / basic_function, the vtable
   leaves, movable_/copyable_sbo_storage with and without the SBO macro), regenerated from the source by
   tools/genmods/c18.py (Gen/GenErasedSteps.v), is the order the model was transcribed from
   (Model/ErasedSteps.v).  Reordering two statements of such a member breaks this theorem (or, for a
   statement of unknown shape, the translator). *)
Theorem C18_source_steps_are_model_steps :
  function_members = m_function_members /\ forall sbo, sender_members sbo = m_sender_members sbo.
Proof. exact source_steps_are_model_steps. Qed.
Print Assumptions C18_source_steps_are_model_steps.

(* --- the allocation ledger (Model/ErasedBlocks.v): heap blocks as a ghost multiset (allocated, freed); the
   allocation-relevant routines (vtable::allocate, _deallocate, copyable_vtable::_copy, basic_function::assign)
   are INTERPRETED from the regenerated step lists.
   For every history of function / unique_function operations (no throwing constructors): the blocks
   allocated and not yet freed are exactly the blocks owned by the wrappers (Heap: one, Nested: one + the inner
   wrapper's; by C18_no_object_shared_functions no two wrappers hold the same object, so no block has two
   owners), and when all wrappers have been destroyed none remains. *)
Theorem C18_no_block_leaked : forall n ops,
  let r := brun ops (init n) b0 in
  fst r = run fstep ops (init n) /\
  b_alloc (snd r) = b_free (snd r) + owned (slots (fst r)) /\
  live (snd r) = owned (slots (fst r)) /\
  live (bdestroy_all (fst r) (snd r)) = 0 /\
  b_alloc (bdestroy_all (fst r) (snd r)) = b_free (bdestroy_all (fst r) (snd r)).
Proof. exact no_block_leaked_f. Qed.
Print Assumptions C18_no_block_leaked.

(* the same for unique_any_sender / any_sender, with and without the SBO macro (new Impl / clone() allocate,
   delete heap_storage frees; the embedded paths allocate nothing; the operation state of a connect is one
   transient block when it does not fit the holder) *)
Theorem C18_no_block_leaked_senders : forall sbo n ops,
  let r := sbrun sbo ops (init n) b0 in
  fst r = run (sstep sbo) ops (init n) /\
  b_alloc (snd r) = b_free (snd r) + owned (slots (fst r)) /\
  live (snd r) = owned (slots (fst r)) /\
  live (bdestroy_all (fst r) (snd r)) = 0 /\
  b_alloc (bdestroy_all (fst r) (snd r)) = b_free (bdestroy_all (fst r) (snd r)).
Proof. exact no_block_leaked_s. Qed.
Print Assumptions C18_no_block_leaked_senders.

(* what the interpreted lists do on the path of a big T whose constructor throws (basic_function::assign,
   else-branch; copyable_vtable::_copy): one block allocated, none freed, no constructor completed *)
Theorem C18_throwing_construction_leaks_block :
  (let r := run_assign true false true in v_alloc r = 1 /\ v_free r = 0 /\ v_ctor r = 0 /\ v_threw r = true) /\
  (let r := run_copy true false true in v_alloc r = 1 /\ v_free r = 0 /\ v_ctor r = 0 /\ v_threw r = true).
Proof. exact throwing_construction_leaks_block. Qed.
Print Assumptions C18_throwing_construction_leaks_block.

(* finding C18:FUNL:blocks_leaked: function(function const&) and function(F&&) with a throwing constructor of
   a big T: every wrapper stays consistent, no object is leaked or destroyed twice, but two heap blocks have no
   owner.  The harness replays this shape (FUNL cases); c18.py compares the per-step live count and the count at
   scope exit with the allocation monitor of the harness for EVERY case. *)
Theorem C18_blocks_leaked_refuted :
  exists n ops, let r := gbrun ops (xinit n) b0 in
    fst (gblive ops (xinit n) b0) = [1; 2; 3; 3] /\
    owned (slots (xs (fst r))) = 1 /\
    leaked_at_exit (xs (fst r)) (snd r) = 2 /\
    (forall j, nth j (stale (fst r)) None = None) /\
    ctors (led (destroy_all (xs (fst r)))) = [2; 1; 0] /\ dtors (led (destroy_all (xs (fst r)))) = [1; 2; 0].
Proof. exact blocks_leaked_refuted. Qed.
Print Assumptions C18_blocks_leaked_refuted.

(* finding C18:FUN:misaligned, on the regenerated facts: vtable::allocate / _deallocate do not look at alignof(T)
   and the inline buffer is pointer-aligned, so a T that fits is placed inline whatever its alignment *)
Theorem C18_function_misaligned_refuted :
  allocate_tests_alignment = false /\ deallocate_tests_alignment = false /\
  exists size align, function_inline size = true /\ (function_buffer_alignment < align)%N /\
                     function_misplaced size align = true.
Proof. exact function_misaligned_refuted. Qed.
Print Assumptions C18_function_misaligned_refuted.

Theorem C18_function_aligned_guarded : forall size align,
  (align <= function_buffer_alignment)%N -> function_misplaced size align = false.
Proof. exact function_aligned_guarded. Qed.
Print Assumptions C18_function_aligned_guarded.

(* the regenerated buffer sizes and alignment are the ones the class bits of the histories were chosen for
   (the small test types sit exactly on the boundary) *)
Theorem C18_storage_boundaries :
  function_storage_size = 24%N /\ function_inline 24 = true /\ function_inline 25 = false /\
  unique_any_sender_embedded_size = 32%N /\ any_sender_embedded_size = 32%N /\ operation_state_embedded_size = 64%N /\
  sbo_alignment_size = 8%N /\
  sender_embeds true KUnique 32 8 = true /\ sender_embeds true KUnique 33 8 = false /\
  sender_embeds true KAny 32 8 = true /\ sender_embeds true KAny 33 8 = false /\
  sender_embeds true KOpState 64 8 = true /\ sender_embeds true KOpState 65 8 = false.
Proof. exact storage_boundaries. Qed.
Print Assumptions C18_storage_boundaries.

(* --- non-vacuity: concrete histories *)
Definition small_copyable (beh : N) (k : Z) : oval :=
  {| vbig := false; vcpy := true; valn := false; vbeh := beh; vpay := k; vcalls := 0 |}.
Definition big_moveonly (beh : N) (k : Z) : oval :=
  {| vbig := true; vcpy := false; valn := false; vbeh := beh; vpay := k; vcalls := 0 |}.

(* the F9 scenario (two moves of a small sender through inline storage, SBO build): the two
   moved-from objects are destroyed, 4 constructions and 4 destructions *)
Example C18_example_sbo_two_moves :
  let ops := [SStore 0 (small_copyable 0 7) true true; SMove 1 0; SMove 2 1; SConnectRv 2; SConnectRv 0] in
  let r := trace (sstep true) ops (init 3) in
  map obs (fst r) = [(ONone, [false; true; true]); (ONone, [true; false; true]);
                     (ONone, [true; true; false]); (OValue 7, [true; true; true]);
                     (OThrewBad, [true; true; true])] /\
  map (fun t => snd (fst t)) (fst r) =
    [[ECtor 0; EMove 1 0; EDtor 0]; [EMove 2 1; EDtor 1]; [EMove 3 2; EDtor 2];
     [EMove 4 3; EDtor 3; ECtor 5; EDtor 4; EDtor 5]; []] /\
  dtors (led (destroy_all (snd r))) = [5; 4; 3; 2; 1; 0].
Proof. vm_compute. repeat split. Qed.

(* function: stateful callable, copy is independent, move relocates without constructing,
   throwing callable, empty call *)
Example C18_example_function :
  let ops := [FStore 0 (small_copyable 1 3) true false; FInvoke 0 2; FCopyCtor 1 0; FInvoke 0 4;
              FInvoke 1 4; FInvoke 1 5; FMoveAssign 2 0; FInvoke 0 0; FInvoke 2 0;
              FStore 2 (big_moveonly 0 9) true false; FInvoke 2 1] in
  let r := trace fstep ops (init 3) in
  map (fun t => fst (fst t)) (fst r) =
    [ONone; OValue 309; ONone; OValue 318; OValue 318; OThrew 33; ONone; OThrewBad; OValue 321;
     ONone; OValue 908]%Z /\
  ctors (led (destroy_all (snd r))) = [4; 3; 2; 1; 0] /\
  dtors (led (destroy_all (snd r))) = [4; 2; 3; 1; 0].
Proof. vm_compute. repeat split. Qed.

(* nesting, target and a throwing store in one history: a function holding a stateful callable is
   stored (moved) in a unique_function, invoked, queried; then an any-style throwing construction *)
Example C18_example_nested_and_throw :
  let ops := [GF (FStoreFn 0 (small_copyable 0 3) false true true); GF (FInvoke 0 2);
              GTarget 0 None; GTarget 0 (Some (false, true, false));
              GStoreThrow 1 (small_copyable 0 5) true; GF (FInvoke 1 0)] in
  let r := gtrace ops (xinit 2) in
  map (fun t => fst (fst t)) (fst r) = [ONone; OValue 309; OValue 1; ONone; OThrew 0; OThrewBad]%Z /\
  dtors (led (destroy_all (xs (snd r)))) = [1; 2; 0].
Proof. vm_compute. repeat split. Qed.

(* an over-aligned small sender is stored on the heap although it fits (SBO build); an embedded
   sender whose move constructor throws leaves the target empty and the source unchanged *)
Example C18_example_overaligned_and_throwing_move :
  let va := {| vbig := false; vcpy := true; valn := true; vbeh := 0; vpay := 4; vcalls := 0 |} in
  let ops := [SX (SStore 0 va true true); SX (SStore 1 (small_copyable 0 7) true true); SXMoveThrow 2 1;
              SX (SConnectRv 1)] in
  let r := trace (sxstep true) ops (init 3) in
  (exists o, slot (slots (snd (sxstep true (SX (SStore 0 va true true)) (init 3)))) 0 = Heap o) /\
  map obs (fst r) = [(ONone, [false; true; true]); (ONone, [false; false; true]);
                     (OThrew 0, [false; false; true]); (OValue 7, [false; true; true])] /\
  sender_embeds true KUnique 32 16 = false /\ sender_embeds true KUnique 32 8 = true.
Proof. vm_compute. repeat split. eexists; reflexivity. Qed.
