(* Props/Properties_C18.v — C18: type-erased senders and functions behave like what they wrap.
   Only statements.  The model (Model/Erased.v) follows movable_/copyable_sbo_storage,
   unique_any_sender / any_sender (both with and without PIKA_DETAIL_ENABLE_ANY_SENDER_SBO:
   parameter [sbo]) and function_base / basic_function branch for branch; histories are
   arbitrary lists of wrapper operations over an arbitrary number of wrappers; wrapped objects
   are arbitrary values (size class, copyability, behaviour, payload, mutable call state). *)
From Coq Require Import List Bool Arith ZArith NArith Permutation.
From Pika Require Import Model.Erased Proofs.ErasedProofs Proofs.ErasedSpecProofs.
Import ListNotations.

(* --- erased_transparent: for every history, what an observer sees of the wrappers (outcome of
   every connect+start / invoke: value, error, stopped, escaped exception; emptiness of every
   wrapper after every step) is what the same history does to plain optional values of the
   wrapped type, where connect / invoke act DIRECTLY on the wrapped value (direct_connect,
   call).  Inline or heap placement and the SBO macro are unobservable. *)
Theorem C18_erased_transparent_senders : forall sbo n ops,
  map obs (fst (trace (sstep sbo) ops (init n))) = spec_trace sspec ops (repeat None n).
Proof. exact sender_transparent. Qed.
Print Assumptions C18_erased_transparent_senders.

Theorem C18_erased_transparent_functions : forall n ops,
  map obs (fst (trace fstep ops (init n))) = spec_trace fspec ops (repeat None n).
Proof. exact function_transparent. Qed.
Print Assumptions C18_erased_transparent_functions.

(* the same, step-wise and in any state: a wrapper holding v completes / returns / throws as v *)
Theorem C18_connect_transparent : forall sbo st j v,
  j < length (slots st) -> abs (slot (slots st) j) = Some v ->
  fst (sstep sbo (SConnectRv j) st) = direct_connect v /\
  fst (sstep sbo (SConnectLv j) st) = direct_connect v /\
  abs (slot (slots (snd (sstep sbo (SConnectLv j) st))) j) = Some v.
Proof. exact connect_transparent. Qed.
Print Assumptions C18_connect_transparent.

Theorem C18_invoke_transparent : forall st j v arg,
  j < length (slots st) -> abs (slot (slots st) j) = Some v ->
  fst (fstep (FInvoke j arg) st) = fst (call v arg) /\
  abs (slot (slots (snd (fstep (FInvoke j arg) st))) j) = Some (snd (call v arg)).
Proof. exact invoke_transparent. Qed.
Print Assumptions C18_invoke_transparent.

(* --- copies_independent: a copy holds an equal value and leaves the source as it was; no two
   wrappers ever hold the same object; an operation changes only the wrappers it names *)
Theorem C18_copies_independent_senders : forall sbo st j i,
  j < length (slots st) -> i < length (slots st) -> j <> i ->
  let st' := snd (sstep sbo (SCopy j i) st) in
  abs (slot (slots st') j) = abs (slot (slots st) i) /\ slot (slots st') i = slot (slots st) i.
Proof. exact sender_copy_equal. Qed.
Print Assumptions C18_copies_independent_senders.

Theorem C18_copies_independent_functions : forall st j i op, is_copy_f op j i ->
  j < length (slots st) -> i < length (slots st) -> j <> i ->
  let st' := snd (fstep op st) in
  abs (slot (slots st') j) = abs (slot (slots st) i) /\ abs (slot (slots st') i) = abs (slot (slots st) i).
Proof. exact function_copy_equal. Qed.
Print Assumptions C18_copies_independent_functions.

Theorem C18_no_object_shared_senders : forall sbo n ops,
  NoDup (ids (slots (run (sstep sbo) ops (init n)))).
Proof. exact no_sharing_s. Qed.
Print Assumptions C18_no_object_shared_senders.

Theorem C18_no_object_shared_functions : forall n ops, NoDup (ids (slots (run fstep ops (init n)))).
Proof. exact no_sharing_f. Qed.
Print Assumptions C18_no_object_shared_functions.

Theorem C18_frame_senders : forall sbo op st k, ~ In k (sop_slots op) ->
  slot (slots (snd (sstep sbo op st))) k = slot (slots st) k.
Proof. exact sender_frame. Qed.
Print Assumptions C18_frame_senders.

Theorem C18_frame_functions : forall op st k, ~ In k (fop_slots op) ->
  slot (slots (snd (fstep op st))) k = slot (slots st) k.
Proof. exact function_frame. Qed.
Print Assumptions C18_frame_functions.

Theorem C18_self_assign_noop : forall sbo st j,
  sstep sbo (SMove j j) st = (ONone, st) /\ sstep sbo (SCopy j j) st = (ONone, st) /\
  fstep (FCopyAssign j j) st = (ONone, st) /\ fstep (FMoveAssign j j) st = (ONone, st) /\
  fstep (FSwap j j) st = (ONone, st).
Proof. exact self_assign_noop. Qed.
Print Assumptions C18_self_assign_noop.

(* --- moved_from_empty: the source of a move is empty afterwards and the target holds what the
   source held; r-value connect empties the wrapper; default-constructed wrappers are empty *)
Theorem C18_moved_from_empty_senders : forall sbo st j i op, is_move_s op j i ->
  j < length (slots st) -> i < length (slots st) -> j <> i ->
  slot (slots (snd (sstep sbo op st))) i = Empty /\
  abs (slot (slots (snd (sstep sbo op st))) j) = abs (slot (slots st) i).
Proof. exact sender_moved_from_empty. Qed.
Print Assumptions C18_moved_from_empty_senders.

Theorem C18_moved_from_empty_functions : forall st j i op, is_move_f op j i ->
  j < length (slots st) -> i < length (slots st) -> j <> i ->
  slot (slots (snd (fstep op st))) i = Empty /\
  abs (slot (slots (snd (fstep op st))) j) = abs (slot (slots st) i).
Proof. exact function_moved_from_empty. Qed.
Print Assumptions C18_moved_from_empty_functions.

Theorem C18_connect_rvalue_leaves_empty : forall sbo st j, j < length (slots st) ->
  slot (slots (snd (sstep sbo (SConnectRv j) st))) j = Empty.
Proof. exact connect_rv_leaves_empty. Qed.
Print Assumptions C18_connect_rvalue_leaves_empty.

Theorem C18_default_constructed_empty : forall n j, slot (slots (init n)) j = Empty.
Proof. exact default_constructed_empty. Qed.
Print Assumptions C18_default_constructed_empty.

(* --- empty_use_throws: using an empty wrapper raises the defined error (bad_function_call)
   and has no other effect (no object is constructed or destroyed, no wrapper changes) *)
Theorem C18_empty_use_throws_senders : forall sbo st j,
  j < length (slots st) -> slot (slots st) j = Empty ->
  sstep sbo (SConnectRv j) st = (OThrewBad, st) /\ sstep sbo (SConnectLv j) st = (OThrewBad, st).
Proof. exact sender_empty_use_throws. Qed.
Print Assumptions C18_empty_use_throws_senders.

Theorem C18_empty_use_throws_functions : forall st j arg,
  j < length (slots st) -> slot (slots st) j = Empty ->
  fstep (FInvoke j arg) st = (OThrewBad, st).
Proof. exact function_empty_use_throws. Qed.
Print Assumptions C18_empty_use_throws_functions.

(* --- contained_destroyed_once: for every history of store / copy / move / assign / reset /
   connect / invoke (heap path, any_sender's inline path, basic_function's inline buffer with
   bitwise relocation): at every point every object ever constructed (user temporaries,
   contained objects, operation states) was constructed once and is either held by exactly one
   wrapper or was destroyed exactly once; when the wrappers go out of scope everything that was
   constructed has been destroyed exactly once. *)
Theorem C18_contained_destroyed_once_senders : forall sbo n ops,
  let st := run (sstep sbo) ops (init n) in
  (NoDup (ctors (led st)) /\ NoDup (ids (slots st) ++ dtors (led st)) /\
   Permutation (ctors (led st)) (ids (slots st) ++ dtors (led st))) /\
  let L := led (destroy_all st) in
  NoDup (ctors L) /\ NoDup (dtors L) /\ Permutation (ctors L) (dtors L).
Proof. exact sender_destroyed_once. Qed.
Print Assumptions C18_contained_destroyed_once_senders.

Theorem C18_contained_destroyed_once_functions : forall n ops,
  let st := run fstep ops (init n) in
  (NoDup (ctors (led st)) /\ NoDup (ids (slots st) ++ dtors (led st)) /\
   Permutation (ctors (led st)) (ids (slots st) ++ dtors (led st))) /\
  let L := led (destroy_all st) in
  NoDup (ctors L) /\ NoDup (dtors L) /\ Permutation (ctors L) (dtors L).
Proof. exact function_destroyed_once. Qed.
Print Assumptions C18_contained_destroyed_once_functions.

(* --- finding F9b (KNOWN_FINDINGS: C18:FUNX:...): the theorems above are about histories in which
   the wrapped objects' copy / move constructors do not throw (fstep has no such step).  With a
   copy constructor that throws during function::operator=(function const&) onto a non-empty
   function the old object is destroyed twice.  Full statement that is NOT provable for the code
   as it is:  forall n ops, NoDup (dtors (led (destroy_all (run fxstep ops (init n))))). *)
Theorem C18_throwing_copy_double_destroy_refuted :
  exists n ops x, count_occ Nat.eq_dec (dtors (led (destroy_all (run fxstep ops (init n))))) x = 2.
Proof. exact throwing_copy_double_destroy_refuted. Qed.
Print Assumptions C18_throwing_copy_double_destroy_refuted.

(* histories without the throwing step are exactly the fstep histories of the theorems above *)
Theorem C18_contained_destroyed_once_functions_partial : forall n ops,
  let st := run fxstep (map FX ops) (init n) in
  let L := led (destroy_all st) in
  NoDup (ctors L) /\ NoDup (dtors L) /\ Permutation (ctors L) (dtors L).
Proof. exact function_destroyed_once_fx. Qed.
Print Assumptions C18_contained_destroyed_once_functions_partial.

(* --- non-vacuity: concrete histories *)
Definition small_copyable (beh : N) (k : Z) : oval :=
  {| vbig := false; vcpy := true; vbeh := beh; vpay := k; vcalls := 0 |}.
Definition big_moveonly (beh : N) (k : Z) : oval :=
  {| vbig := true; vcpy := false; vbeh := beh; vpay := k; vcalls := 0 |}.

(* the F9 scenario (two moves of a small sender through inline storage, SBO build): the two
   moved-from objects are destroyed, 4 constructions and 4 destructions *)
Example C18_example_sbo_two_moves :
  let ops := [SStore 0 (small_copyable 0 7) true true; SMove 1 0; SMove 2 1; SConnectRv 2; SConnectRv 0] in
  let r := trace (sstep true) ops (init 3) in
  map obs (fst r) = [(ONone, [false; true; true]); (ONone, [true; false; true]);
                     (ONone, [true; true; false]); (OValue 7, [true; true; true]);
                     (OThrewBad, [true; true; true])] /\
  map (fun t => snd (fst t)) (fst r) =
    [[ECtor 0; EMove 1 0; EDtor 0]; [EMove 2 1; EDtor 1]; [EMove 3 2; EDtor 2];
     [EMove 4 3; EDtor 3; ECtor 5; EDtor 4; EDtor 5]; []] /\
  dtors (led (destroy_all (snd r))) = [5; 4; 3; 2; 1; 0].
Proof. vm_compute. repeat split. Qed.

(* function: stateful callable, copy is independent, move relocates without constructing,
   throwing callable, empty call *)
Example C18_example_function :
  let ops := [FStore 0 (small_copyable 1 3) true false; FInvoke 0 2; FCopyCtor 1 0; FInvoke 0 4;
              FInvoke 1 4; FInvoke 1 5; FMoveAssign 2 0; FInvoke 0 0; FInvoke 2 0;
              FStore 2 (big_moveonly 0 9) true false; FInvoke 2 1] in
  let r := trace fstep ops (init 3) in
  map (fun t => fst (fst t)) (fst r) =
    [ONone; OValue 309; ONone; OValue 318; OValue 318; OThrew 33; ONone; OThrewBad; OValue 321;
     ONone; OValue 908]%Z /\
  ctors (led (destroy_all (snd r))) = [4; 3; 2; 1; 0] /\
  dtors (led (destroy_all (snd r))) = [4; 2; 3; 1; 0].
Proof. vm_compute. repeat split. Qed.
