(* Props/Properties_C17.v — C17: concurrent queues return every element exactly once.
   Only statements; each is closed by [exact] of a lemma from Proofs/ and followed by
   Print Assumptions.  Part 1: contiguous_index_queue (every thread count, every
   operation mix, every schedule, spurious weak-CAS failures). *)
From Coq Require Import List NArith Permutation Lia.
From Pika Require Import Base.Conc Model.IndexQueue Proofs.IndexQueueProofs.
From Pika Require Import Model.DequeSpec Model.Deque Model.DequeWitness Proofs.DequeProofs.
From Pika Require Import Proofs.DequeSafetyProofs.
From Pika Require Import Model.DequeLin Proofs.DequeConcDefs Proofs.DequeLinProofs.
From Pika Require Proofs.DequeAbaDefs Proofs.DequeAbaLin Proofs.DequeQuiesce Proofs.DequeProgOrder.
From Pika Require Import Gen.GenBackends Model.Backends Proofs.BackendsProofs.
Import ListNotations.
Local Open Scope N_scope.

(* every index is handed out at most once, nothing is invented, and what was handed out
   together with what remains is exactly the initial range *)
Theorem C17_iq_partition : forall f0 l0 progs sched, f0 <= l0 ->
  let g := fst (iq_run sched f0 l0 progs) in
  NoDup (popped (iqlog g)) /\
  (forall x, In x (popped (iqlog g)) <-> (f0 <= x < first (cur g) \/ last (cur g) <= x < l0)) /\
  f0 <= first (cur g) <= last (cur g) /\ last (cur g) <= l0.
Proof. exact iq_partition. Qed.
Print Assumptions C17_iq_partition.

(* once any pop has reported "empty", every index of the initial range has been handed
   out exactly once *)
Theorem C17_iq_drained_all : forall f0 l0 progs sched, f0 <= l0 ->
  let g := fst (iq_run sched f0 l0 progs) in
  has_none (iqlog g) ->
  NoDup (popped (iqlog g)) /\ forall x, In x (popped (iqlog g)) <-> f0 <= x < l0.
Proof. exact iq_drained_all. Qed.
Print Assumptions C17_iq_drained_all.

(* left pops come out ascending from the left end, right pops descending from the right
   end — in every concurrent execution, hence also in single-threaded use *)
Theorem C17_iq_left_ascending : forall f0 l0 progs sched, f0 <= l0 ->
  let g := fst (iq_run sched f0 l0 progs) in
  rev (popped_side SL (iqlog g)) = Nrange f0 (N.to_nat (first (cur g) - f0)).
Proof. exact iq_left_ascending. Qed.
Print Assumptions C17_iq_left_ascending.

Theorem C17_iq_right_descending : forall f0 l0 progs sched, f0 <= l0 ->
  let g := fst (iq_run sched f0 l0 progs) in
  rev (popped_side SR (iqlog g)) = Ndesc l0 (N.to_nat (l0 - last (cur g))).
Proof. exact iq_right_descending. Qed.
Print Assumptions C17_iq_right_descending.

(* a pop on a non-empty quiescent queue succeeds and returns the end element *)
Theorem C17_iq_pop_quiescent_nonempty : forall g (ls : locals iq_local) t s rest,
  ls t = {| todo := s :: rest; pc := Idle |} -> first (cur g) < last (cur g) ->
  let c := run iq_tstep [(t, false); (t, false)] (g, ls) in
  exists x, iqlog (fst c) = {| ev_tid := t; ev_side := s; ev_res := Some x |} :: iqlog g /\
            x = match s with SL => first (cur g) | SR => last (cur g) - 1 end /\
            snd c t = {| todo := rest; pc := Idle |}.
Proof. exact iq_pop_quiescent_nonempty. Qed.
Print Assumptions C17_iq_pop_quiescent_nonempty.

(* non-vacuity: a concrete three-thread schedule on [3,7) *)
Example C17_iq_example :
  let progs := fun t => match t with 0%nat => [SL; SR] | 1%nat => [SR; SR; SL] | _ => [SL] end in
  let g := fst (iq_run [(0%nat,false);(1%nat,false);(0%nat,false);(1%nat,false);(1%nat,true);
                        (2%nat,false);(1%nat,false);(2%nat,false);(0%nat,false);(0%nat,false);
                        (1%nat,false);(1%nat,false);(1%nat,false)] 3 7 progs) in
  popped (iqlog g) = [4; 5; 6; 3] /\ cur g = {| first := 4; last := 4 |} /\ has_none (iqlog g).
Proof. vm_compute. repeat split. eexists. split; [left; reflexivity|reflexivity]. Qed.

(* ======================================================================================
   Part 2: the lock-free deque (Michael's CAS-based deque, deque.hpp) — Model/Deque.v.
   ====================================================================================== *)

(* 2.1 Single-threaded use: ANY thread running ANY sequence of push_left/right v, pop_left/right
   alone (any initial pool size k, so nodes are recycled through the LIFO freelist; the
   schedule gives the thread at least 12 steps per operation, extra steps are no-ops) gets
   exactly the results of the two-ended list, finishes every operation, leaves the anchor
   stable, and the chain read from the left end along the right links is the list. *)
Theorem C17_deque_seq_refines_list : forall t k ops n (progs : nat -> list dop),
  progs t = ops -> (12 * length ops <= n)%nat ->
  let c := run dq_tstep (solo t n) (dq_init k, dq_locals progs) in
  dq_results t (dlog (fst c)) = fst (spec_run ops []) /\
  dtodo (snd c t) = [] /\ dpc (snd c t) = DIdle /\
  ast (anc (fst c)) = Stable /\
  dq_contents (length (snd (spec_run ops []))) (fst c) = snd (spec_run ops []).
Proof. exact deque_seq_refines_list_lemma2. Qed.
Print Assumptions C17_deque_seq_refines_list.

(* 2.2 The former F15 witness.  Before the repair (`fix:` commit on deque.hpp) alloc_node and the
   pushes' private link store restarted the link tags at 0, so a link CAS of a stalled stabilize
   succeeded against a later incarnation of the node: the schedule of Model/DequeWitness.v (A =
   push_right 4 stalled before its link CAS, B = pop_right, pop_left, pop_right, push_right 5,
   push_right 6 re-creating the same two addresses through the LIFO freelist) made the drain
   return 100,5,4 — 4 twice, 6 lost — and `~ deque_exactly_once_all_schedules` was a theorem.
   On the repaired model (tags continue across reuse) the same schedule is harmless: A's CAS
   fails, the drain returns 100,5,6, every value exactly once, the ghost flag [aba] stays false.
   (The check replays this schedule on the real deque on every run and expects this outcome.) *)
Example C17_deque_former_witness_immune :
  let c := run dq_tstep aba_full_sched (dq_init aba_k, dq_locals aba_progs) in
  let g := fst c in
  (forall t, (t < 4)%nat -> dq_done (snd c t) = true) /\
  al (anc g) = 0 /\ dq_results 3 (dlog g) = [Some 100; Some 5; Some 6; None; None] /\
  count_occ_N 4 (pushed_vals (dlog g)) = 1%nat /\ count_occ_N 4 (popped_vals (dlog g)) = 1%nat /\
  count_occ_N 6 (pushed_vals (dlog g)) = 1%nat /\ count_occ_N 6 (popped_vals (dlog g)) = 1%nat /\
  aba g = false.
Proof. exact aba_witness_immune. Qed.

(* a second schedule of the same kind for the other half of the repair (Model/DequeWitness.v,
   [aba2_progs]): the target link is written by the PRIVATE STORE of push_left in both incarnations of
   the node; on the real deque it loses 7 and delivers 4 twice as soon as EITHER alloc_node or the
   pushes' store restarts the tag (checked with each half of the fix reverted); on the repaired
   model: drain 5,7, delivered = pushed as multisets *)
Example C17_deque_second_witness_immune :
  let c := run dq_tstep aba2_full_sched (dq_init aba_k, dq_locals aba2_progs) in
  let g := fst c in
  (forall t, (t < 4)%nat -> dq_done (snd c t) = true) /\
  al (anc g) = 0 /\ dq_results 3 (dlog g) = [Some 5; Some 7; None; None; None] /\
  dq_results 1 (dlog g) = [Some 4; Some 3; Some 1; None; None; Some 50; Some 51; Some 6; None] /\
  perm_b (popped_vals (dlog g)) (pushed_vals (dlog g)) = true /\
  aba g = false.
Proof. exact aba2_witness_immune. Qed.

(* the mirror images of both schedules (stabilize_left, the LEFT link — word 0 of the chunk, whose
   pointer bits the freelist overwrites); A pops from the right after its push, because a corrupted
   left link is invisible to a drain from the left.  On the real deque with the fix reverted: A gets
   100,5,4 resp. 5,4 and the chain has become cyclic; repaired: 100,5,6 resp. 5,7, deque empty *)
Example C17_deque_mirror_witnesses_immune :
  let c1 := run dq_tstep aba3_full_sched (dq_init aba_k, dq_locals aba3_progs) in
  let c2 := run dq_tstep aba4_full_sched (dq_init aba_k, dq_locals aba4_progs) in
  (forall t, (t < 4)%nat -> dq_done (snd c1 t) = true) /\ (forall t, (t < 4)%nat -> dq_done (snd c2 t) = true) /\
  dq_results 0 (dlog (fst c1)) = [None; Some 100; Some 5; Some 6] /\
  dq_results 0 (dlog (fst c2)) = [None; Some 5; Some 7] /\
  dq_results 3 (dlog (fst c1)) = [None; None; None; None; None] /\
  dq_results 3 (dlog (fst c2)) = [None; None; None; None; None] /\
  perm_b (popped_vals (dlog (fst c1))) (pushed_vals (dlog (fst c1))) = true /\
  perm_b (popped_vals (dlog (fst c2))) (pushed_vals (dlog (fst c2))) = true /\
  aba (fst c1) = false /\ aba (fst c2) = false.
Proof. exact aba_mirror_witnesses_immune. Qed.

(* 2.3 What does hold for every schedule, every thread count, every program. *)

(* the anchor tag counts the successful anchor CASes: it grows by exactly one with each *)
Theorem C17_deque_anchor_tag_counts_cas : forall k progs sched,
  let g := fst (dq_run sched k progs) in atag (anc g) = ncas g.
Proof. intros k progs sched. apply run_tag_counts. reflexivity. Qed.
Print Assumptions C17_deque_anchor_tag_counts_cas.

Theorem C17_deque_anchor_tag_monotone : forall sched (c : dq_shared * locals dq_local),
  atag (anc (fst c)) <= atag (anc (fst (run dq_tstep sched c))).
Proof. exact run_tag_mono. Qed.
Print Assumptions C17_deque_anchor_tag_monotone.

(* hence "anchor_ == lrs" validates a snapshot: if the anchor after s1 ++ s2 equals the anchor
   at the start, no anchor CAS succeeded at any point in between *)
Theorem C17_deque_anchor_snapshot_valid : forall s1 s2 (c : dq_shared * locals dq_local),
  anc (fst (run dq_tstep (s1 ++ s2) c)) = anc (fst c) ->
  anc (fst (run dq_tstep s1 c)) = anc (fst c) /\ ncas (fst (run dq_tstep s1 c)) = ncas (fst c).
Proof. exact run_anchor_unchanged_between. Qed.
Print Assumptions C17_deque_anchor_snapshot_valid.

(* a value is reported as popped only by the step FREE of the reporting thread, it is the data
   of the node that thread holds; and a thread gets to FREE only by its own successful anchor
   CAS (which raised the tag by one): pops are attributed once per successful CAS *)
Theorem C17_deque_pop_logged_only_at_free : forall o t g l e,
  dlog (fst (dq_tstep o t g l)) = e :: dlog g -> forall s v, dv_op e = Pop s -> dv_res e = Some v ->
  dv_tid e = t /\ exists a, dpc l = QFree s a /\ v = ndata (heap g a).
Proof. exact pop_logged_only_at_free. Qed.
Print Assumptions C17_deque_pop_logged_only_at_free.

Theorem C17_deque_free_entered_only_by_cas : forall o t g l s a,
  dpc (snd (dq_tstep o t g l)) = QFree s a ->
  dpc l = QFree s a \/
  exists lrs np, dpc l = QCas s lrs np /\ anc g = lrs /\ a = aend s lrs /\
                 anc (fst (dq_tstep o t g l)) = pop_desired s lrs np /\
                 atag (anc (fst (dq_tstep o t g l))) = atag (anc g) + 1.
Proof. exact free_entered_only_by_cas. Qed.
Print Assumptions C17_deque_free_entered_only_by_cas.

(* memory safety, for every schedule / thread count / program: every pointer
   in the anchor, in any link of any chunk, in the pool head and in every thread's registers
   (snapshots, prev, prevnext, own node) is nullptr or a chunk the type-stable pool has already
   handed out or pre-allocated (< fresh) — so every dereference of the code goes to a
   deque_node, which is what makes reading a freed node benign *)
Theorem C17_deque_memory_safe : forall k progs sched,
  let c := dq_run sched k progs in
  (0 < fresh (fst c) /\ (forall a, node_ok (fresh (fst c)) (heap (fst c) a)) /\
   anchor_ok (fresh (fst c)) (anc (fst c)) /\ pool (fst c) < fresh (fst c)) /\
  forall t, pc_ok (fresh (fst c)) (dpc (snd c t)).
Proof. exact deque_memory_safe_lemma. Qed.
Print Assumptions C17_deque_memory_safe.

(* 2.4 The concurrent theorems, UNGUARDED: for EVERY pool size k, every assignment of programs to
   threads (any number of threads), and EVERY schedule of the model of the repaired deque.hpp —
   nodes are freed and RE-ALLOCATED through the LIFO freelist without restriction, helping, all
   CAS races, stale reads of freed / recycled nodes included.
   Side conditions (stated, not proved away): sequentially consistent interleaving at the
   granularity of the model's atomic steps; tags are unbounded N — the code has 16-bit tags, so the
   theorems cover executions in which no link tag and no anchor tag wraps around (2^16 increments)
   within the window in which one thread holds a snapshot of it; allocation never fails.
   What the repair provides and the proof uses (Proofs/DequeAbaStab.v, hypothesis [Htag] of
   [J_frame]): the tag of a link never decreases over the whole lifetime of its ADDRESS, across
   deallocate / allocate / alloc_node / the pushes' private store.  Hence the register invariant of
   a thread standing before its link CAS — "(snapshot current and link = expected) or
   tag(expected) < tag(link)" — no longer needs the premise "the node has not been recycled", and a
   successful link CAS is always the legitimate repair of the one broken link.
   [chain_invariant_e] (Proofs/DequeAbaLin.v) is Michael's invariant: the anchor points at the two
   ends of a chain c that is doubly linked from left to right, except possibly the outward link of
   the old end node next to a freshly pushed end node while the status is rpush/lpush; the nodes of
   the chain and the unlinked-but-not-yet-freed nodes [pend] are pairwise distinct, allocated and
   not freed (odd epoch), not nullptr; pend = the nodes held by threads between pop CAS and FREE;
   nobody has dereferenced nullptr. *)

(* the F15 event never happens: no link CAS of stabilize ever succeeds against a node that was
   freed or re-allocated since its expected value was read (the model's ghost flag [aba], the guard
   of the former C17_deque_*_guarded theorems, is false in every reachable state) *)
Theorem C17_deque_aba_never : forall k progs sched, aba (fst (dq_run sched k progs)) = false.
Proof. exact DequeAbaLin.deque_aba_never. Qed.
Print Assumptions C17_deque_aba_never.

Theorem C17_deque_chain_invariant : forall k progs sched,
  exists c pend, DequeAbaLin.chain_invariant_e (fst (dq_run sched k progs)) (snd (dq_run sched k progs)) c pend.
Proof. exact DequeAbaLin.deque_chain_invariant_lemma. Qed.
Print Assumptions C17_deque_chain_invariant.

(* conservation: pushed = popped + chain + in-flight (multisets); nothing is delivered more often
   than it was pushed; with no pop in flight pushed = popped + chain; stable => the chain's values are
   what the walk from the left end reads.  (Stated on the plain [dq_run], no instrumentation.) *)
Theorem C17_deque_conservation : forall k progs sched,
  let g := fst (dq_run sched k progs) in let ls := snd (dq_run sched k progs) in
  exists c pend, DequeAbaLin.chain_invariant_e g ls c pend /\
    Permutation (pushed_vals (dlog g)) (popped_vals (dlog g) ++ vals g c ++ vals g pend) /\
    (forall v, (count_occ_N v (popped_vals (dlog g)) <= count_occ_N v (pushed_vals (dlog g)))%nat) /\
    ((forall t s a, dpc (ls t) <> QFree s a) ->
     Permutation (pushed_vals (dlog g)) (popped_vals (dlog g) ++ vals g c)) /\
    (ast (anc g) = Stable -> dq_contents (length c) g = vals g c).
Proof. exact DequeAbaLin.deque_conservation_lemma. Qed.
Print Assumptions C17_deque_conservation.

(* the full statement of C17 for the deque (it was refuted by the F15 witness before the repair):
   for every pool size, programs and schedule no value is delivered more often than it was pushed
   (nothing twice, nothing invented), and once all threads are done and the deque reports empty
   every pushed value has been delivered *)
Theorem C17_deque_exactly_once : forall k progs sched,
  let c := run dq_tstep sched (dq_init k, dq_locals progs) in
  let lg := dlog (fst c) in
  (forall v, count_occ_N v (popped_vals lg) <= count_occ_N v (pushed_vals lg))%nat /\
  (al (anc (fst c)) = 0 -> (forall t, dq_done (snd c t) = true) ->
   forall v, count_occ_N v (popped_vals lg) = count_occ_N v (pushed_vals lg)).
Proof. exact DequeAbaLin.deque_exactly_once_lemma. Qed.
Print Assumptions C17_deque_exactly_once.

(* the instrumentation of Model/DequeLin.v (linearization log [glin], flag [greuse]) erases: shared
   state and locals of an instrumented run are those of the plain run *)
Theorem C17_deque_instrumentation_erases : forall k progs sched,
  fst (fst (dq_run_i sched k progs)) = fst (dq_run sched k progs) /\
  snd (dq_run_i sched k progs) = snd (dq_run sched k progs).
Proof. exact dq_run_i_erase. Qed.
Print Assumptions C17_deque_instrumentation_erases.

(* linearizability against the two-ended list (linearization points: successful anchor CAS of
   push / pop, anchor load of a pop that sees a null end), recorded by the ghost instrumentation
   [dq_tstep_i], which leaves the model's step untouched: the linearization log, read oldest first,
   is a legal history of the list from the empty list ending in the chain's values — every result
   in it is the result the list gives —, and agrees per thread with what was reported ([dlog]), up
   to the one pop per thread that has done its CAS but not yet reported.  (Each linearization
   point is a step of the operation itself, so real-time order is respected by construction.) *)
Theorem C17_deque_linearizable : forall k progs sched,
  let ci := dq_run_i sched k progs in
  let g := fst (dq_run sched k progs) in let ls := snd (dq_run sched k progs) in
  let lin := glin (snd (fst ci)) in
  exists c pend, DequeAbaLin.chain_invariant_e g ls c pend /\
    spec_run (log_ops lin) [] = (log_res lin, vals g c) /\
    (forall t, of_tid t lin = pending t g (ls t) ++ of_tid t (dlog g)).
Proof. exact DequeAbaLin.deque_linearizable_lemma. Qed.
Print Assumptions C17_deque_linearizable.

(* the forward simulation behind it: from any state satisfying [DequeAbaDefs.Core] (chain invariant
   + register invariant of every thread) ANY step of ANY thread preserves it and is labelled
   ([Trans], Proofs/DequeConcDefs.v) by what it does to the abstract list: LDoPush s v (successful
   push CAS), LPopOk s v (successful pop CAS), LPopEmpty s, LFree (value reported; list unchanged),
   LTau (loads, checks, failed CASes, allocation, the link CAS and the anchor CAS of stabilize) *)
Theorem C17_deque_step_refines_list : forall t g (ls : locals dq_local) c pend,
  DequeAbaDefs.Core g ls c pend ->
  let g' := fst (dq_tstep tt t g (ls t)) in let l' := snd (dq_tstep tt t g (ls t)) in
  exists c' pend' lab, DequeAbaDefs.Core g' (upd ls t l') c' pend' /\ Trans t g (ls t) c pend lab g' l' c' pend'.
Proof. exact DequeAbaLin.deque_step_refines_lemma. Qed.
Print Assumptions C17_deque_step_refines_list.

(* a pop reports "empty" only if the abstract list is empty at its anchor load *)
Theorem C17_deque_empty_pop : forall t g (ls : locals dq_local) c pend s,
  DequeAbaDefs.Core g ls c pend ->
  dlog (fst (dq_tstep tt t g (ls t))) = ev t (Pop s) None :: dlog g ->
  c = [] /\ al (anc g) = 0 /\ ar (anc g) = 0.
Proof. exact DequeAbaLin.deque_empty_pop_lemma. Qed.
Print Assumptions C17_deque_empty_pop.

(* quiescence: whenever all threads are done (every operation of every program has returned) the
   anchor is STABLE — although a pusher may return while the status is still rpush/lpush (its link
   CAS fails when a helper was faster), some thread inside stabilize with a current snapshot is then
   still on its way to the anchor CAS ([DequeQuiesce.Resp]) —, nothing is in flight, and the values
   that a walk from the left end along the right links reads ([dq_contents]) are exactly the final
   list of the linearization history; pushed = popped + contents as multisets; the linearization
   agrees per thread with what the threads reported *)
Theorem C17_deque_quiescent : forall k progs sched,
  let ci := dq_run_i sched k progs in
  let g := fst (dq_run sched k progs) in let ls := snd (dq_run sched k progs) in
  let lin := glin (snd (fst ci)) in
  (forall t, dq_done (ls t) = true) ->
  ast (anc g) = Stable /\
  exists n, spec_run (log_ops lin) [] = (log_res lin, dq_contents n g) /\
    Permutation (pushed_vals (dlog g)) (popped_vals (dlog g) ++ dq_contents n g) /\
    (forall t, of_tid t lin = of_tid t (dlog g)).
Proof. exact DequeQuiesce.deque_quiescent_lemma. Qed.
Print Assumptions C17_deque_quiescent.

(* the invariant behind it is preserved by every step of every thread: if the status is not stable
   some thread stands in stabilize with a current snapshot and (at the link CAS) a current expected value *)
Theorem C17_deque_unstable_has_stabilizer : forall t g (ls : locals dq_local) c pend,
  DequeAbaDefs.Core g ls c pend -> DequeQuiesce.Resp g ls ->
  DequeQuiesce.Resp (fst (dq_tstep tt t g (ls t))) (upd ls t (snd (dq_tstep tt t g (ls t)))).
Proof. exact DequeQuiesce.resp_step. Qed.
Print Assumptions C17_deque_unstable_has_stabilizer.

(* program order: in every reachable state, for every thread, the operations it has reported
   (its entries of [dlog], oldest first) followed by what it still has to do ([remaining]: its to-do
   list, minus the head while it stabilizes after its own already reported push) are exactly its
   program — the per-thread logs are the programs, in order, nothing skipped or repeated *)
Theorem C17_deque_program_order : forall k progs sched t,
  let g := fst (dq_run sched k progs) in let ls := snd (dq_run sched k progs) in
  log_ops (of_tid t (dlog g)) ++ DequeProgOrder.remaining (ls t) = progs t.
Proof. exact DequeProgOrder.deque_program_order. Qed.
Print Assumptions C17_deque_program_order.

(* hence at quiescence the linearization restricted to a thread is that thread's program: the
   history of C17_deque_quiescent is a linearization OF THE PROGRAMS *)
Theorem C17_deque_quiescent_program_order : forall k progs sched,
  let ci := dq_run_i sched k progs in
  let ls := snd (dq_run sched k progs) in
  let lin := glin (snd (fst ci)) in
  (forall t, dq_done (ls t) = true) -> forall t, log_ops (of_tid t lin) = progs t.
Proof. exact DequeProgOrder.deque_quiescent_program_order. Qed.
Print Assumptions C17_deque_quiescent_program_order.

(* non-vacuity: three threads, ten operations on both ends, pool of one chunk: chunks ARE re-allocated
   ([greuse] = true, three chunks serve six pushes) *)
Example C17_deque_reuse_example :
  let ci := dq_run_i (rr_sched 40) 1 rr_progs in
  aba (fst (fst ci)) = false /\ greuse (snd (fst ci)) = true /\ fresh (fst (fst ci)) = 4 /\
  map (fun e => (dv_tid e, dv_op e, dv_res e)) (rev (glin (snd (fst ci)))) =
    [(2%nat, Pop SR, None); (1%nat, Push SL 4, None); (1%nat, Pop SR, Some 4); (0%nat, Push SR 1, None);
     (0%nat, Pop SL, Some 1); (1%nat, Push SR 5, None); (1%nat, Pop SL, Some 5); (2%nat, Push SL 6, None);
     (0%nat, Push SR 2, None); (0%nat, Push SL 3, None)] /\
  dq_contents 3 (fst (fst ci)) = [3; 6; 2] /\
  (forall t, (t < 3)%nat -> dq_done (snd ci t) = true).
Proof.
  vm_compute. repeat split; try reflexivity.
  intros t H. do 3 (destruct t as [|t]; [reflexivity|]). exfalso. lia.
Qed.

(* non-vacuity: a concurrent run of four threads (Model/DequeLin.nr_sched: helping, failed link
   CAS, failed anchor CASes, retries); the linearization order differs from the reporting order
   (thread 2's pop is linearized before the push of 3 and thread 3's pop, but reports last); after
   37 steps thread 2 stands between its CAS and FREE *)
Example C17_deque_helping_example :
  let ci := dq_run_i nr_sched 4 nr_progs in
  map (fun e => (dv_tid e, dv_op e, dv_res e)) (rev (glin (snd (fst ci)))) =
    [(0%nat, Push SR 1, None); (0%nat, Push SR 2, None); (2%nat, Pop SL, Some 1);
     (1%nat, Push SL 3, None); (3%nat, Pop SR, Some 2)] /\
  map (fun e => (dv_tid e, dv_res e)) (rev (dlog (fst (fst ci)))) =
    [(0%nat, None); (0%nat, None); (1%nat, None); (3%nat, Some 2); (2%nat, Some 1)] /\
  dq_contents 1 (fst (fst ci)) = [3] /\ ast (anc (fst (fst ci))) = Stable /\
  (forall t, (t < 4)%nat -> dq_done (snd ci t) = true) /\
  let cm := dq_run_i (firstn 37 nr_sched) 4 nr_progs in
  dpc (snd cm 2%nat) = QFree SL 1 /\
  popped_vals (dlog (fst (fst cm))) = [] /\ length (glin (snd (fst cm))) = 3%nat.
Proof.
  vm_compute. repeat split; try reflexivity.
  intros t H. do 4 (destruct t as [|t]; [reflexivity|]). exfalso. lia.
Qed.

(* ======================================================================================
   Part 3: the queue back-ends (lockfree_queue_backends.hpp); the table push_end / pop_end is
   regenerated from the header on every run (Gen/GenBackends.v).
   ====================================================================================== *)
Theorem C17_backend_ends :
  push_end Lifo false = SL /\ push_end Lifo true = SR /\ pop_end Lifo false = SL /\ pop_end Lifo true = SL /\
  push_end AbpFifo false = SL /\ push_end AbpFifo true = SL /\ pop_end AbpFifo false = SR /\ pop_end AbpFifo true = SL /\
  push_end AbpLifo false = SL /\ push_end AbpLifo true = SR /\ pop_end AbpLifo false = SL /\ pop_end AbpLifo true = SR.
Proof. exact backend_ends_table. Qed.
Print Assumptions C17_backend_ends.

(* owner order: lifo and abp_lifo are LIFO for the owner from any contents; abp_fifo is FIFO *)
Theorem C17_backend_lifo_owner_lifo : forall vs l,
  spec_run (map (owner_push Lifo) vs ++ repeat (owner_pop Lifo) (length vs)) l =
  (nones (length vs) ++ map Some (rev vs), l).
Proof. exact lifo_owner_lifo. Qed.
Print Assumptions C17_backend_lifo_owner_lifo.

Theorem C17_backend_abp_lifo_owner_lifo : forall vs l,
  spec_run (map (owner_push AbpLifo) vs ++ repeat (owner_pop AbpLifo) (length vs)) l =
  (nones (length vs) ++ map Some (rev vs), l).
Proof. exact abp_lifo_owner_lifo. Qed.
Print Assumptions C17_backend_abp_lifo_owner_lifo.

Theorem C17_backend_abp_fifo_owner_fifo : forall vs,
  spec_run (map (owner_push AbpFifo) vs ++ repeat (owner_pop AbpFifo) (length vs)) [] =
  (nones (length vs) ++ map Some vs, []).
Proof. exact abp_fifo_owner_fifo. Qed.
Print Assumptions C17_backend_abp_fifo_owner_fifo.

(* thieves: abp_lifo thieves take the oldest elements (opposite end), abp_fifo thieves the newest *)
Theorem C17_backend_abp_lifo_thief_oldest_first : forall vs k, (k <= length vs)%nat ->
  spec_run (map (owner_push AbpLifo) vs ++ repeat (thief_pop AbpLifo) k) [] =
  (nones (length vs) ++ map Some (firstn k vs), view (pop_end AbpLifo true) (skipn k vs)).
Proof. exact abp_lifo_thief_oldest_first. Qed.
Print Assumptions C17_backend_abp_lifo_thief_oldest_first.

Theorem C17_backend_abp_fifo_thief_newest_first : forall vs k, (k <= length vs)%nat ->
  spec_run (map (owner_push AbpFifo) vs ++ repeat (thief_pop AbpFifo) k) [] =
  (nones (length vs) ++ map Some (firstn k (rev vs)), view (pop_end AbpFifo true) (skipn k (rev vs))).
Proof. exact abp_fifo_thief_newest_first. Qed.
Print Assumptions C17_backend_abp_fifo_thief_newest_first.

(* non-vacuity: a concrete sequential run with node reuse through a pool of one chunk *)
Example C17_deque_example :
  let ops := [Push SR 1; Push SL 2; Pop SR; Push SR 3; Pop SL; Pop SL; Pop SL; Push SL 7] in
  let c := run dq_tstep (solo 5 96) (dq_init 1, dq_locals (fun t => if Nat.eqb t 5 then ops else [])) in
  dq_results 5 (dlog (fst c)) = [None; None; Some 1; None; Some 2; Some 3; None; None] /\
  dq_contents 1 (fst c) = [7] /\ fresh (fst c) = 3.
Proof. vm_compute. repeat split. Qed.
