(* Props/Properties_C17.v — C17: concurrent queues return every element exactly once.
   Only statements; each is closed by [exact] of a lemma from Proofs/ and followed by
   Print Assumptions.  Part 1: contiguous_index_queue (every thread count, every
   operation mix, every schedule, spurious weak-CAS failures). *)
From Coq Require Import List NArith.
From Pika Require Import Base.Conc Model.IndexQueue Proofs.IndexQueueProofs.
From Pika Require Import Model.DequeSpec Model.Deque Model.DequeWitness Proofs.DequeProofs.
From Pika Require Import Model.DequeExplore Proofs.DequeBoundedProofs Proofs.DequeSafetyProofs.
From Pika Require Import Gen.GenBackends Model.Backends Proofs.BackendsProofs.
Import ListNotations.
Local Open Scope N_scope.

(* every index is handed out at most once, nothing is invented, and what was handed out
   together with what remains is exactly the initial range *)
Theorem C17_iq_partition : forall f0 l0 progs sched, f0 <= l0 ->
  let g := fst (iq_run sched f0 l0 progs) in
  NoDup (popped (iqlog g)) /\
  (forall x, In x (popped (iqlog g)) <-> (f0 <= x < first (cur g) \/ last (cur g) <= x < l0)) /\
  f0 <= first (cur g) <= last (cur g) /\ last (cur g) <= l0.
Proof. exact iq_partition. Qed.
Print Assumptions C17_iq_partition.

(* once any pop has reported "empty", every index of the initial range has been handed
   out exactly once *)
Theorem C17_iq_drained_all : forall f0 l0 progs sched, f0 <= l0 ->
  let g := fst (iq_run sched f0 l0 progs) in
  has_none (iqlog g) ->
  NoDup (popped (iqlog g)) /\ forall x, In x (popped (iqlog g)) <-> f0 <= x < l0.
Proof. exact iq_drained_all. Qed.
Print Assumptions C17_iq_drained_all.

(* left pops come out ascending from the left end, right pops descending from the right
   end — in every concurrent execution, hence also in single-threaded use *)
Theorem C17_iq_left_ascending : forall f0 l0 progs sched, f0 <= l0 ->
  let g := fst (iq_run sched f0 l0 progs) in
  rev (popped_side SL (iqlog g)) = Nrange f0 (N.to_nat (first (cur g) - f0)).
Proof. exact iq_left_ascending. Qed.
Print Assumptions C17_iq_left_ascending.

Theorem C17_iq_right_descending : forall f0 l0 progs sched, f0 <= l0 ->
  let g := fst (iq_run sched f0 l0 progs) in
  rev (popped_side SR (iqlog g)) = Ndesc l0 (N.to_nat (l0 - last (cur g))).
Proof. exact iq_right_descending. Qed.
Print Assumptions C17_iq_right_descending.

(* a pop on a non-empty quiescent queue succeeds and returns the end element *)
Theorem C17_iq_pop_quiescent_nonempty : forall g (ls : locals iq_local) t s rest,
  ls t = {| todo := s :: rest; pc := Idle |} -> first (cur g) < last (cur g) ->
  let c := run iq_tstep [(t, false); (t, false)] (g, ls) in
  exists x, iqlog (fst c) = {| ev_tid := t; ev_side := s; ev_res := Some x |} :: iqlog g /\
            x = match s with SL => first (cur g) | SR => last (cur g) - 1 end /\
            snd c t = {| todo := rest; pc := Idle |}.
Proof. exact iq_pop_quiescent_nonempty. Qed.
Print Assumptions C17_iq_pop_quiescent_nonempty.

(* non-vacuity: a concrete three-thread schedule on [3,7) *)
Example C17_iq_example :
  let progs := fun t => match t with 0%nat => [SL; SR] | 1%nat => [SR; SR; SL] | _ => [SL] end in
  let g := fst (iq_run [(0%nat,false);(1%nat,false);(0%nat,false);(1%nat,false);(1%nat,true);
                        (2%nat,false);(1%nat,false);(2%nat,false);(0%nat,false);(0%nat,false);
                        (1%nat,false);(1%nat,false);(1%nat,false)] 3 7 progs) in
  popped (iqlog g) = [4; 5; 6; 3] /\ cur g = {| first := 4; last := 4 |} /\ has_none (iqlog g).
Proof. vm_compute. repeat split. eexists. split; [left; reflexivity|reflexivity]. Qed.

(* ======================================================================================
   Part 2: the lock-free deque (Michael's CAS-based deque, deque.hpp) — Model/Deque.v.
   ====================================================================================== *)

(* 2.1 Single-threaded use: ANY thread running ANY sequence of push_left/right v, pop_left/right
   alone (any initial pool size k, so nodes are recycled through the LIFO freelist; the
   schedule gives the thread at least 12 steps per operation, extra steps are no-ops) gets
   exactly the results of the two-ended list, finishes every operation, leaves the anchor
   stable, and the chain read from the left end along the right links is the list. *)
Theorem C17_deque_seq_refines_list : forall t k ops n (progs : nat -> list dop),
  progs t = ops -> (12 * length ops <= n)%nat ->
  let c := run dq_tstep (solo t n) (dq_init k, dq_locals progs) in
  dq_results t (dlog (fst c)) = fst (spec_run ops []) /\
  dtodo (snd c t) = [] /\ dpc (snd c t) = DIdle /\
  ast (anc (fst c)) = Stable /\
  dq_contents (length (snd (spec_run ops []))) (fst c) = snd (spec_run ops []).
Proof. exact deque_seq_refines_list_lemma2. Qed.
Print Assumptions C17_deque_seq_refines_list.

(* 2.2 The full concurrent statement of C17 for the deque —
     [deque_exactly_once_all_schedules]: for every pool size, every assignment of programs to
     threads and every schedule, no value is delivered more often than it was pushed (nothing
     twice, nothing invented), and once all threads are done and the deque reports empty every
     pushed value has been delivered —
   is FALSE of the code as it is (DESIGN.md F15): alloc_node re-initialises the link tags of a
   recycled node to 0, so a link CAS of a stalled stabilize succeeds against a later
   incarnation.  Witness: Model/DequeWitness.v (replayed on the real deque by the check). *)
Theorem C17_deque_aba_refuted : ~ deque_exactly_once_all_schedules.
Proof. exact deque_aba_refuted_lemma. Qed.
Print Assumptions C17_deque_aba_refuted.

(* the witness in detail: all four threads finish, the drain gets 100,5,4 and then "empty";
   4 was pushed once and delivered twice, 6 was pushed and never delivered *)
Theorem C17_deque_aba_witness :
  let c := run dq_tstep aba_full_sched (dq_init aba_k, dq_locals aba_progs) in
  let g := fst c in
  (forall t, (t < 4)%nat -> dq_done (snd c t) = true) /\
  al (anc g) = 0 /\ dq_results 3 (dlog g) = [Some 100; Some 5; Some 4; None; None] /\
  count_occ_N 4 (pushed_vals (dlog g)) = 1%nat /\ count_occ_N 4 (popped_vals (dlog g)) = 2%nat /\
  count_occ_N 6 (pushed_vals (dlog g)) = 1%nat /\ count_occ_N 6 (popped_vals (dlog g)) = 0%nat /\
  aba g = true.
Proof. exact aba_witness_facts. Qed.
Print Assumptions C17_deque_aba_witness.

(* 2.3 What does hold for every schedule, every thread count, every program. *)

(* the anchor tag counts the successful anchor CASes: it grows by exactly one with each *)
Theorem C17_deque_anchor_tag_counts_cas : forall k progs sched,
  let g := fst (dq_run sched k progs) in atag (anc g) = ncas g.
Proof. intros k progs sched. apply run_tag_counts. reflexivity. Qed.
Print Assumptions C17_deque_anchor_tag_counts_cas.

Theorem C17_deque_anchor_tag_monotone : forall sched (c : dq_shared * locals dq_local),
  atag (anc (fst c)) <= atag (anc (fst (run dq_tstep sched c))).
Proof. exact run_tag_mono. Qed.
Print Assumptions C17_deque_anchor_tag_monotone.

(* hence "anchor_ == lrs" validates a snapshot: if the anchor after s1 ++ s2 equals the anchor
   at the start, no anchor CAS succeeded at any point in between *)
Theorem C17_deque_anchor_snapshot_valid : forall s1 s2 (c : dq_shared * locals dq_local),
  anc (fst (run dq_tstep (s1 ++ s2) c)) = anc (fst c) ->
  anc (fst (run dq_tstep s1 c)) = anc (fst c) /\ ncas (fst (run dq_tstep s1 c)) = ncas (fst c).
Proof. exact run_anchor_unchanged_between. Qed.
Print Assumptions C17_deque_anchor_snapshot_valid.

(* a value is reported as popped only by the step FREE of the reporting thread, it is the data
   of the node that thread holds; and a thread gets to FREE only by its own successful anchor
   CAS (which raised the tag by one): pops are attributed once per successful CAS *)
Theorem C17_deque_pop_logged_only_at_free : forall o t g l e,
  dlog (fst (dq_tstep o t g l)) = e :: dlog g -> forall s v, dv_op e = Pop s -> dv_res e = Some v ->
  dv_tid e = t /\ exists a, dpc l = QFree s a /\ v = ndata (heap g a).
Proof. exact pop_logged_only_at_free. Qed.
Print Assumptions C17_deque_pop_logged_only_at_free.

Theorem C17_deque_free_entered_only_by_cas : forall o t g l s a,
  dpc (snd (dq_tstep o t g l)) = QFree s a ->
  dpc l = QFree s a \/
  exists lrs np, dpc l = QCas s lrs np /\ anc g = lrs /\ a = aend s lrs /\
                 anc (fst (dq_tstep o t g l)) = pop_desired s lrs np /\
                 atag (anc (fst (dq_tstep o t g l))) = atag (anc g) + 1.
Proof. exact free_entered_only_by_cas. Qed.
Print Assumptions C17_deque_free_entered_only_by_cas.

(* memory safety, for every schedule / thread count / program, also after an ABA: every pointer
   in the anchor, in any link of any chunk, in the pool head and in every thread's registers
   (snapshots, prev, prevnext, own node) is nullptr or a chunk the type-stable pool has already
   handed out or pre-allocated (< fresh) — so every dereference of the code goes to a
   deque_node, which is what makes reading a freed node benign *)
Theorem C17_deque_memory_safe : forall k progs sched,
  let c := dq_run sched k progs in
  (0 < fresh (fst c) /\ (forall a, node_ok (fresh (fst c)) (heap (fst c) a)) /\
   anchor_ok (fresh (fst c)) (anc (fst c)) /\ pool (fst c) < fresh (fst c)) /\
  forall t, pc_ok (fresh (fst c)) (dpc (snd c t)).
Proof. exact deque_memory_safe_lemma. Qed.
Print Assumptions C17_deque_memory_safe.

(* 2.4 Conservation under the guard "no link CAS hits a freed / re-allocated node" — PARTIAL.
   Full statement (NOT proved): for every pool size, all programs and every schedule, if
   [aba] is still false then no value has been delivered more often than it was pushed, no
   thread dereferenced nullptr, and whenever all threads are done the pushed values are exactly
   the popped ones plus the chain (the log is a legal history of the list deque).
   Proved: exactly that, for EVERY schedule (any length, any thread ids), but only for the
   finite list [guarded_configs] of start configurations (2-3 threads with one operation each on
   contents with a stale link / one element / empty deque / recycled node) — by an explorer of all
   interleavings whose soundness for arbitrary schedules is proved in general
   (Proofs/DequeBoundedProofs.explore_sound) and which is evaluated by vm_compute. *)
Theorem C17_deque_linearizable_guarded_partial : forall k init progs sched,
  In (k, init, progs) guarded_configs ->
  let c := run dq_tstep sched (start_state k init, lfun (start_locals progs)) in
  exists ls', (forall t, snd c t = lget ls' t) /\ length ls' = length progs /\ conserved (fst c) ls' = true.
Proof. exact deque_linearizable_guarded_partial_lemma. Qed.
Print Assumptions C17_deque_linearizable_guarded_partial.

(* ======================================================================================
   Part 3: the queue back-ends (lockfree_queue_backends.hpp); the table push_end / pop_end is
   regenerated from the header on every run (Gen/GenBackends.v).
   ====================================================================================== *)
Theorem C17_backend_ends :
  push_end Lifo false = SL /\ push_end Lifo true = SR /\ pop_end Lifo false = SL /\ pop_end Lifo true = SL /\
  push_end AbpFifo false = SL /\ push_end AbpFifo true = SL /\ pop_end AbpFifo false = SR /\ pop_end AbpFifo true = SL /\
  push_end AbpLifo false = SL /\ push_end AbpLifo true = SR /\ pop_end AbpLifo false = SL /\ pop_end AbpLifo true = SR.
Proof. exact backend_ends_table. Qed.
Print Assumptions C17_backend_ends.

(* owner order: lifo and abp_lifo are LIFO for the owner from any contents; abp_fifo is FIFO *)
Theorem C17_backend_lifo_owner_lifo : forall vs l,
  spec_run (map (owner_push Lifo) vs ++ repeat (owner_pop Lifo) (length vs)) l =
  (nones (length vs) ++ map Some (rev vs), l).
Proof. exact lifo_owner_lifo. Qed.
Print Assumptions C17_backend_lifo_owner_lifo.

Theorem C17_backend_abp_lifo_owner_lifo : forall vs l,
  spec_run (map (owner_push AbpLifo) vs ++ repeat (owner_pop AbpLifo) (length vs)) l =
  (nones (length vs) ++ map Some (rev vs), l).
Proof. exact abp_lifo_owner_lifo. Qed.
Print Assumptions C17_backend_abp_lifo_owner_lifo.

Theorem C17_backend_abp_fifo_owner_fifo : forall vs,
  spec_run (map (owner_push AbpFifo) vs ++ repeat (owner_pop AbpFifo) (length vs)) [] =
  (nones (length vs) ++ map Some vs, []).
Proof. exact abp_fifo_owner_fifo. Qed.
Print Assumptions C17_backend_abp_fifo_owner_fifo.

(* thieves: abp_lifo thieves take the oldest elements (opposite end), abp_fifo thieves the newest *)
Theorem C17_backend_abp_lifo_thief_oldest_first : forall vs k, (k <= length vs)%nat ->
  spec_run (map (owner_push AbpLifo) vs ++ repeat (thief_pop AbpLifo) k) [] =
  (nones (length vs) ++ map Some (firstn k vs), view (pop_end AbpLifo true) (skipn k vs)).
Proof. exact abp_lifo_thief_oldest_first. Qed.
Print Assumptions C17_backend_abp_lifo_thief_oldest_first.

Theorem C17_backend_abp_fifo_thief_newest_first : forall vs k, (k <= length vs)%nat ->
  spec_run (map (owner_push AbpFifo) vs ++ repeat (thief_pop AbpFifo) k) [] =
  (nones (length vs) ++ map Some (firstn k (rev vs)), view (pop_end AbpFifo true) (skipn k (rev vs))).
Proof. exact abp_fifo_thief_newest_first. Qed.
Print Assumptions C17_backend_abp_fifo_thief_newest_first.

(* non-vacuity: a concrete sequential run with node reuse through a pool of one chunk *)
Example C17_deque_example :
  let ops := [Push SR 1; Push SL 2; Pop SR; Push SR 3; Pop SL; Pop SL; Pop SL; Push SL 7] in
  let c := run dq_tstep (solo 5 96) (dq_init 1, dq_locals (fun t => if Nat.eqb t 5 then ops else [])) in
  dq_results 5 (dlog (fst c)) = [None; None; Some 1; None; Some 2; Some 3; None; None] /\
  dq_contents 1 (fst c) = [7] /\ fresh (fst c) = 3.
Proof. vm_compute. repeat split. Qed.
