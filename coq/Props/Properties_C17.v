(* Props/Properties_C17.v — C17: concurrent queues return every element exactly once.
   Only statements; each is closed by [exact] of a lemma from Proofs/ and followed by
   Print Assumptions.  Part 1: contiguous_index_queue (every thread count, every
   operation mix, every schedule, spurious weak-CAS failures). *)
From Coq Require Import List NArith.
From Pika Require Import Base.Conc Model.IndexQueue Proofs.IndexQueueProofs.
Import ListNotations.
Local Open Scope N_scope.

(* every index is handed out at most once, nothing is invented, and what was handed out
   together with what remains is exactly the initial range *)
Theorem C17_iq_partition : forall f0 l0 progs sched, f0 <= l0 ->
  let g := fst (iq_run sched f0 l0 progs) in
  NoDup (popped (iqlog g)) /\
  (forall x, In x (popped (iqlog g)) <-> (f0 <= x < first (cur g) \/ last (cur g) <= x < l0)) /\
  f0 <= first (cur g) <= last (cur g) /\ last (cur g) <= l0.
Proof. exact iq_partition. Qed.
Print Assumptions C17_iq_partition.

(* once any pop has reported "empty", every index of the initial range has been handed
   out exactly once *)
Theorem C17_iq_drained_all : forall f0 l0 progs sched, f0 <= l0 ->
  let g := fst (iq_run sched f0 l0 progs) in
  has_none (iqlog g) ->
  NoDup (popped (iqlog g)) /\ forall x, In x (popped (iqlog g)) <-> f0 <= x < l0.
Proof. exact iq_drained_all. Qed.
Print Assumptions C17_iq_drained_all.

(* left pops come out ascending from the left end, right pops descending from the right
   end — in every concurrent execution, hence also in single-threaded use *)
Theorem C17_iq_left_ascending : forall f0 l0 progs sched, f0 <= l0 ->
  let g := fst (iq_run sched f0 l0 progs) in
  rev (popped_side SL (iqlog g)) = Nrange f0 (N.to_nat (first (cur g) - f0)).
Proof. exact iq_left_ascending. Qed.
Print Assumptions C17_iq_left_ascending.

Theorem C17_iq_right_descending : forall f0 l0 progs sched, f0 <= l0 ->
  let g := fst (iq_run sched f0 l0 progs) in
  rev (popped_side SR (iqlog g)) = Ndesc l0 (N.to_nat (l0 - last (cur g))).
Proof. exact iq_right_descending. Qed.
Print Assumptions C17_iq_right_descending.

(* a pop on a non-empty quiescent queue succeeds and returns the end element *)
Theorem C17_iq_pop_quiescent_nonempty : forall g (ls : locals iq_local) t s rest,
  ls t = {| todo := s :: rest; pc := Idle |} -> first (cur g) < last (cur g) ->
  let c := run iq_tstep [(t, false); (t, false)] (g, ls) in
  exists x, iqlog (fst c) = {| ev_tid := t; ev_side := s; ev_res := Some x |} :: iqlog g /\
            x = match s with SL => first (cur g) | SR => last (cur g) - 1 end /\
            snd c t = {| todo := rest; pc := Idle |}.
Proof. exact iq_pop_quiescent_nonempty. Qed.
Print Assumptions C17_iq_pop_quiescent_nonempty.

(* non-vacuity: a concrete three-thread schedule on [3,7) *)
Example C17_iq_example :
  let progs := fun t => match t with 0%nat => [SL; SR] | 1%nat => [SR; SR; SL] | _ => [SL] end in
  let g := fst (iq_run [(0%nat,false);(1%nat,false);(0%nat,false);(1%nat,false);(1%nat,true);
                        (2%nat,false);(1%nat,false);(2%nat,false);(0%nat,false);(0%nat,false);
                        (1%nat,false);(1%nat,false);(1%nat,false)] 3 7 progs) in
  popped (iqlog g) = [4; 5; 6; 3] /\ cur g = {| first := 4; last := 4 |} /\ has_none (iqlog g).
Proof. vm_compute. repeat split. eexists. split; [left; reflexivity|reflexivity]. Qed.
