(* Props/Properties_C19.v — C19: suspending and resuming pools or workers never loses work.
   Only statements; each is closed by [exact] of a lemma from Proofs/SuspendResumeProofs.v and followed by
   Print Assumptions.  Model: Model/SuspendResume.v (any number of workers, any number of client threads with
   arbitrary programs of suspend/resume of processing units and of the whole pool and of task submissions
   with and without hints, any schedule, try_lock contention, spurious condition-variable wake-ups, with
   and without elasticity / stealing; normal- and low-priority tasks, every queue split into its staged and its pending part, the
   pool-wide low-priority queue served as in local_priority_queue_scheduler); the runtime_state constants and the "refusal returns" facts are
   regenerated from the source (Gen/GenRuntimeState.v). *)
From Coq Require Import List NArith Bool Arith Permutation Lia.
From Pika Require Import Base.Conc Gen.GenRuntimeState Model.SuspendResume Proofs.SuspendResumeProofs Proofs.SuspendResumeValidated Proofs.SuspendResumeStutter Proofs.SuspendResumeBlocked.
From Pika Require Import Model.SuspendResumeHP Proofs.SuspendResumeHPProofs.
Import ListNotations.

(* a task is executed at most once, whatever suspend/resume calls are interleaved with its life *)
Theorem C19_no_dup_across_suspend : forall c progs sched,
  NoDup (map fst (executed (fst (sr_run c progs sched)))).
Proof. exact no_dup_across_suspend. Qed.
Print Assumptions C19_no_dup_across_suspend.

(* no task is dropped: at every moment every submitted task has been executed, is held by a worker that
   is about to execute it, or is still in a queue (pending or staged); and nothing is executed that was not submitted *)
Theorem C19_no_task_lost : forall c progs sched tk,
  let g := fst (sr_run c progs sched) in
  (In tk (submitted g) -> In tk (map fst (executed g)) \/ In tk (map snd (heldl g)) \/ In tk (map snd (qs g)) \/ In tk (map snd (sq g))) /\
  (In tk (map fst (executed g)) -> In tk (submitted g)).
Proof. exact no_task_lost. Qed.
Print Assumptions C19_no_task_lost.

(* once the queues are drained every submitted task has been executed exactly once *)
Theorem C19_all_done_when_drained : forall c progs sched,
  let g := fst (sr_run c progs sched) in
  qs g = [] -> sq g = [] -> heldl g = [] -> Permutation (map fst (executed g)) (submitted g) /\ NoDup (map fst (executed g)).
Proof. exact all_done_when_drained. Qed.
Print Assumptions C19_all_done_when_drained.

(* enqueue versus suspend: a worker that has decided to sleep, or sleeps ([sleepy]: from the moment
   can_exit = true was computed until it is running again), has in the queues get_queue_length(w) counts
   ([qlen_tasks]: its own pending and staged queue, plus the low-priority queue for the last worker) only tasks
   that were enqueued AFTER it last found them all empty with running = false ([fresh] is reset exactly there):
   it never goes to sleep over a task that was in its queue when it looked.  Unguarded. *)
Theorem C19_enqueue_vs_suspend : forall c progs sched w pc,
  let cf := sr_run c progs sched in
  snd cf w = LWorker pc -> sleepy pc = true -> forall x, In x (qlen_tasks c w (fst cf)) -> isfresh c w (fst cf) x.
Proof. exact sr_sleep_check. Qed.
Print Assumptions C19_enqueue_vs_suspend.

(* unsupported operations (processing-unit suspend without elasticity; a pool without stealing suspending
   one of its own processing units; a pool suspending itself) are refused: the call is two steps of the
   caller, [PRefuse; PRet]; whatever other threads do in between (g1, g2 arbitrary) the first changes
   nothing, the second records the call with error = true and changes no worker state, lock, queue or
   condition variable.  Unguarded: holds for the code after the fix of F10 (the generated
   g_spu_refusal_returns = [true; true]); with the fix reverted this proof fails. *)
Theorem C19_unsupported_refused : forall c a k rest, refused c a = true -> callkind_of a = Some k ->
  forall t o1 o2 g1 g2 e v,
    let cl0 := {| todo := expand c a ++ rest; ph := Ph0; err := e; vl := v |} in
    let s1 := client_step c o1 t g1 cl0 in
    let s2 := client_step c o2 t g2 (snd s1) in
    fst s1 = g1 /\ same_core g2 (fst s2) /\ calls (fst s2) = (t, k, true) :: calls g2 /\
    snd s2 = {| todo := rest; ph := Ph0; err := false; vl := false |}.
Proof. exact unsupported_refused. Qed.
Print Assumptions C19_unsupported_refused.

(* conversely a supported call never reports an error *)
Theorem C19_accepted_no_error : forall c a, refused c a = false -> ~ In PRefuse (expand c a).
Proof. exact accepted_no_refuse. Qed.
Print Assumptions C19_accepted_no_error.

(* non-vacuity: two workers, elasticity, no stealing; client 2 submits a task hinted to worker 1, suspends
   processing unit 1, submits two more (the hinted one is diverted to worker 0 because worker 1 sleeps),
   resumes it; client 3 is a task of the pool itself trying to suspend the pool (refused). *)
Definition ex_cfg := {| nw := 2; elastic := true; stealing := false |}.
Definition ex_progs (t : nat) : list api :=
  match t with
  | 2 => [ASubmit (Some 1); ASuspendPU 1 false; ASubmit (Some 1); ASubmit None; AResumePU 1]
  | 3 => [ASuspendPool true]
  | _ => []
  end.
Definition ex_sched (n : nat) : list (nat * oracle) :=
  flat_map (fun _ => [(2, (false, 0)); (0, (false, 1)); (1, (false, 0)); (3, (false, 0))]) (seq 0 n).

Example C19_example_mid :
  let g := fst (sr_run ex_cfg ex_progs (ex_sched 14)) in
  executed g = [((2, 0), 1)] /\ st g 0 = rs_running /\ st g 1 = rs_sleeping /\
  calls g = [(3, KSuspendPool, true)].
Proof. vm_compute. repeat split. Qed.

Example C19_example_end :
  let g := fst (sr_run ex_cfg ex_progs (ex_sched 50)) in
  executed g = [((2, 2), 0); ((2, 1), 0); ((2, 0), 1)] /\ st g 0 = rs_running /\ st g 1 = rs_running /\ qs g = [] /\ sq g = [] /\
  calls g = [(2, KResumePU, false); (2, KSuspendPU, false); (3, KSuspendPool, true)].
Proof. vm_compute. repeat split. Qed.

(* ---- the calls return / nothing is stranded (deadlock freedom) ----
   [stuck]: no thread is enabled, where a thread spinning in yield_while / blocked on a lock or on the condition
   variable / polling queues it cannot serve counts as not enabled (Model/SuspendResume.v, [enabled]).
   [api_ok]: processing-unit numbers in the calls are worker numbers of the pool.
   UNGUARDED form: in a stuck state every client has finished, except (1) a pool-suspend waiting for get_thread_count() == 0
   while work is live and (2) [lowprio_blocked]: a suspend of the LAST processing unit whose worker sits in pre_sleep
   with empty own queues while the pool-wide low-priority queue is not empty -- the recorded finding
   C19:suspend_pu_blocked_by_low_priority_tasks, exactly characterised. *)
Theorem C19_suspend_resume_return : forall c progs sched, (forall t, Forall (api_ok c) (progs t)) ->
  let cf := sr_run c progs sched in
  stuck c cf ->
  forall t, client_done (snd cf t) = true \/ (at_wait_idle (snd cf t) = true /\ live (fst cf) > 0) \/
            lowprio_blocked c (fst cf) (snd cf t).
Proof. exact suspend_resume_return. Qed.
Print Assumptions C19_suspend_resume_return.

(* the previous statement under the weakest guard that excludes the finding: no low-priority task is queued in the stuck state *)
Theorem C19_suspend_resume_return_guarded : forall c progs sched, (forall t, Forall (api_ok c) (progs t)) ->
  let cf := sr_run c progs sched in
  stuck c cf -> qof (lowq c) (qs (fst cf)) = [] -> qof (lowq c) (sq (fst cf)) = [] ->
  forall t, client_done (snd cf t) = true \/ (at_wait_idle (snd cf t) = true /\ live (fst cf) > 0).
Proof. exact suspend_resume_return_guarded. Qed.
Print Assumptions C19_suspend_resume_return_guarded.

(* the finding in the model: a reachable stuck state (2 workers, elasticity, stealing; two low-priority tasks staged, then
   suspend_processing_unit(1)) in which the suspend call has not returned, worker 0 is running and stealing is enabled, and a
   staged low-priority task has not been executed; the same scenario is run on the real runtime by the harness (case LOWP) *)
Theorem C19_lowprio_suspend_stuck_refuted :
  exists c progs sched, (forall t, Forall (api_ok c) (progs t)) /\
    let cf := sr_run c progs sched in
    stuck c cf /\
    (exists t w, lastw c w = true /\ at_wait_sleep w (snd cf t) = true /\ client_done (snd cf t) = false /\
                 st (fst cf) w = rs_pre_sleep /\ calls (fst cf) = []) /\
    (exists w0, w0 < nw c /\ st (fst cf) w0 = rs_running /\ stealing c = true) /\
    (exists tk, In (lowq c, tk) (sq (fst cf)) /\ In tk (submitted (fst cf)) /\ ~ In tk (map fst (executed (fst cf)))) /\
    ~ (forall t, client_done (snd cf t) = true \/ (at_wait_idle (snd cf t) = true /\ live (fst cf) > 0)) /\
    sq (fst cf) <> [].
Proof. exact lowprio_suspend_stuck_refuted. Qed.
Print Assumptions C19_lowprio_suspend_stuck_refuted.

(* stuck and every processing unit running again (every suspend followed by a resume): no task remains in any queue
   (normal or low-priority, staged or pending) and every submitted task has been executed exactly once.  Unguarded. *)
Theorem C19_no_task_stranded : forall c progs sched, (forall t, Forall (api_ok c) (progs t)) ->
  let cf := sr_run c progs sched in
  nw c > 0 -> stuck c cf -> (forall w, w < nw c -> st (fst cf) w = rs_running) ->
  qs (fst cf) = [] /\ sq (fst cf) = [] /\ heldl (fst cf) = [] /\ Permutation (map fst (executed (fst cf))) (submitted (fst cf)).
Proof. exact no_task_stranded. Qed.
Print Assumptions C19_no_task_stranded.

(* with stealing a single running worker w0 suffices, also while the others sleep, for everything except STAGED low-priority
   tasks (only the last worker converts them): nothing pending, nothing held, the only staged tasks left are low-priority ones
   and only if w0 is not the last worker; under the guard "no low-priority task is staged" everything has been executed *)
Theorem C19_no_task_stranded_stealing : forall c progs sched w0, (forall t, Forall (api_ok c) (progs t)) ->
  let cf := sr_run c progs sched in
  stealing c = true -> stuck c cf -> w0 < nw c -> st (fst cf) w0 = rs_running ->
  qs (fst cf) = [] /\ heldl (fst cf) = [] /\
  (forall i tk, In (i, tk) (sq (fst cf)) -> i = lowq c /\ lastw c w0 = false) /\
  (qof (lowq c) (sq (fst cf)) = [] ->
   sq (fst cf) = [] /\ Permutation (map fst (executed (fst cf))) (submitted (fst cf))).
Proof. exact no_task_stranded_stealing. Qed.
Print Assumptions C19_no_task_stranded_stealing.

(* the lock / hand-shake invariant behind the three theorems above, for use by the harness monitors:
   a PU lock is only ever held by a client inside its critical section; a worker's state is `sleeping`
   exactly between its store and its wake-up CAS; only a waiting worker can be notified *)
Theorem C19_handshake_invariant : forall c progs sched, (forall t, Forall (api_ok c) (progs t)) ->
  INV4 c (fst (sr_run c progs sched)) (snd (sr_run c progs sched)).
Proof. exact sr_inv4. Qed.
Print Assumptions C19_handshake_invariant.

(* non-vacuity of [stuck]: the end of the example run is stuck (everything returned, nothing left) *)
Example C19_example_stuck :
  forall t, t < 8 -> enabled ex_cfg t (fst (sr_run ex_cfg ex_progs (ex_sched 50))) (snd (sr_run ex_cfg ex_progs (ex_sched 50)) t) = false.
Proof. intros t H. do 8 (destruct t as [|t]; [vm_compute; reflexivity|]). lia. Qed.

(* ---- strict enqueue_vs_suspend ----
   [validated g]: the normal-priority tasks whose submitter took the PU lock of the selected worker in select_active_pu with the
   initial max_allowed_state (so `state <= suspended` was tested UNDER that lock) and kept it across the enqueue, as
   local_priority_queue_scheduler::create_thread does.  [no_pool_suspend]: the programs contain no accepted pool-wide suspend
   (suspend_internal CASes running -> pre_sleep WITHOUT the PU lock, which breaks the exclusion; refused ones are allowed).
   At every reachable state such a task is not in the pending or staged queue of a worker that has decided to sleep, sleeps or is
   waking up ([sleepy]): together with C19_no_task_lost it has been executed, is held by a worker about to execute it, or sits in
   the queue of a worker that is awake and polls that queue (own queue entries are popped / converted whatever `running` is). *)
Theorem C19_enqueue_validated_runs_before_sleep : forall c progs sched,
  (forall t, Forall (api_ok c) (progs t)) -> (forall t, Forall no_pool_suspend (progs t)) ->
  let cf := sr_run c progs sched in
  forall w pc, snd cf w = LWorker pc -> sleepy pc = true ->
  forall tk, In tk (validated (fst cf)) -> ~ In (w, tk) (qs (fst cf)) /\ ~ In (w, tk) (sq (fst cf)).
Proof. exact enqueue_validated_runs_before_sleep. Qed.
Print Assumptions C19_enqueue_validated_runs_before_sleep.

(* ... hence never stranded: in ANY quiescent state -- whichever processing units are suspended, no resume needed (compare
   C19_no_task_stranded, which needs every processing unit running again) -- every validated task has been executed *)
Theorem C19_validated_never_stranded : forall c progs sched, nw c > 0 ->
  (forall t, Forall (api_ok c) (progs t)) -> (forall t, Forall no_pool_suspend (progs t)) ->
  let cf := sr_run c progs sched in
  stuck c cf -> forall tk, In tk (validated (fst cf)) -> In tk (map fst (executed (fst cf))).
Proof. exact validated_never_stranded. Qed.
Print Assumptions C19_validated_never_stranded.

(* non-vacuity: in the example run all three submissions are validated (the one hinted to the sleeping worker 1 is diverted to
   worker 0 under the initial max_allowed_state) and the hypotheses hold *)
Example C19_example_validated :
  validated (fst (sr_run ex_cfg ex_progs (ex_sched 50))) = [(2, 2); (2, 1); (2, 0)] /\
  (forall t, Forall no_pool_suspend (ex_progs t)) /\ (forall t, Forall (api_ok ex_cfg) (ex_progs t)).
Proof.
  split; [vm_compute; reflexivity|]. split; intros t; do 4 (destruct t as [|t]; [cbn; repeat constructor|]); constructor.
Qed.

(* ... and [validated] is necessary: with the only worker suspended select_active_pu escalates max_allowed_state to `sleeping`,
   the task lands on the sleeping worker (not validated) and the quiescent state has it still staged, until a resume *)
Definition u_cfg := {| nw := 1; elastic := true; stealing := false |}.
Definition u_progs (t : nat) : list api := match t with 1 => [ASuspendPU 0 false; ASubmit (Some 0)] | _ => [] end.
Definition u_sched : list (nat * oracle) := flat_map (fun _ => [(1, (false, 0)); (0, (false, 0))]) (seq 0 40).
Example C19_example_unvalidated :
  let cf := sr_run u_cfg u_progs u_sched in
  validated (fst cf) = [] /\ sq (fst cf) = [(0, (1, 0))] /\ st (fst cf) 0 = rs_sleeping /\ snd cf 0 = LWorker WWaiting /\
  executed (fst cf) = [] /\ calls (fst cf) = [(1, KSuspendPU, false)] /\
  (forall t, t < 3 -> enabled u_cfg t (fst cf) (snd cf t) = false).
Proof.
  cbv zeta. repeat split; try (vm_compute; reflexivity).
  intros t H. do 3 (destruct t as [|t]; [vm_compute; reflexivity|]). lia.
Qed.

(* ---- the syntactic guard: no low-priority task is ever submitted ([no_lowprio]) ----
   then the low-priority queue stays empty and the pre-finding statements hold as they were *)
Theorem C19_suspend_resume_return_no_lowprio : forall c progs sched, nw c > 0 -> (forall t, Forall (api_ok c) (progs t)) ->
  (forall t, Forall no_lowprio (progs t)) ->
  let cf := sr_run c progs sched in
  stuck c cf -> forall t, client_done (snd cf t) = true \/ (at_wait_idle (snd cf t) = true /\ live (fst cf) > 0).
Proof. exact suspend_resume_return_nolow. Qed.
Print Assumptions C19_suspend_resume_return_no_lowprio.

Theorem C19_no_task_stranded_stealing_no_lowprio : forall c progs sched w0, (forall t, Forall (api_ok c) (progs t)) ->
  (forall t, Forall no_lowprio (progs t)) ->
  let cf := sr_run c progs sched in
  stealing c = true -> stuck c cf -> w0 < nw c -> st (fst cf) w0 = rs_running ->
  qs (fst cf) = [] /\ sq (fst cf) = [] /\ heldl (fst cf) = [] /\ Permutation (map fst (executed (fst cf))) (submitted (fst cf)).
Proof. exact no_task_stranded_stealing_nolow. Qed.
Print Assumptions C19_no_task_stranded_stealing_no_lowprio.

Example C19_example_no_lowprio : forall t, Forall no_lowprio (ex_progs t).
Proof. intros t. do 4 (destruct t as [|t]; [cbn; repeat constructor|]). constructor. Qed.

(* ---- what [enabled] (hence [stuck]) means ----
   a thread that is not enabled only stutters: without a spurious wake-up / lock contention in that step (fst o = false) its step
   leaves the shared state unchanged ([geq]: equal, [waiting] up to extensionality) and it is still not enabled.  So in a stuck
   state no schedule of such steps changes anything: "has not returned / has not run" there means "never will". *)
Theorem C19_disabled_only_stutters : forall c o t g l, fst o = false -> enabled c t g l = false ->
  geq g (fst (sr_tstep c o t g l)) /\ enabled c t (fst (sr_tstep c o t g l)) (snd (sr_tstep c o t g l)) = false.
Proof. exact disabled_stutter. Qed.
Print Assumptions C19_disabled_only_stutters.

(* ---- blocked tasks (session h10b).  [with_blocked g k] = g with k more tasks that are alive (counted by
   get_thread_count(), the model's [live]) but in no queue and held by no worker: tasks that started and are suspended
   on a latch / future / condition variable.  Every worker step except the execution of a task commutes with their
   presence (the worker never reads [live]) ... *)
Theorem C19_worker_ignores_blocked_tasks : forall c o w g k pc, no_exec pc = true ->
  worker_step c o w (with_blocked g k) pc =
  (with_blocked (fst (worker_step c o w g pc)) k, snd (worker_step c o w g pc)).
Proof. exact worker_step_blocked. Qed.
Print Assumptions C19_worker_ignores_blocked_tasks.

(* ... and a worker that was told to sleep (pre_sleep) and whose get_queue_length queues are empty has stored `sleeping`
   and waits on its condition variable after seven steps of its own, however many blocked tasks exist: the suspended
   count gates EXIT, not sleep, so suspend_processing_unit does not wait for blocked tasks.  (Contrast: the pool suspend,
   PWaitIdle, waits for live = 0.) *)
Theorem C19_sleep_ignores_blocked_tasks : forall c w g k os,
  st g w = g_sleep_if -> qlen_tasks c w g = [] -> length os = 7 ->
  let r := wrun c os w (with_blocked g k) WTop in
  snd r = WWaiting /\ st (fst r) w = g_sleep_store /\ waiting (fst r) w = true /\ live (fst r) = k + live g.
Proof. exact sleep_ignores_blocked_tasks. Qed.
Print Assumptions C19_sleep_ignores_blocked_tasks.

(* non-vacuity: 2 workers, worker 1 in pre_sleep with empty queues and 3 blocked tasks *)
Example C19_sleep_ignores_blocked_tasks_example :
  let c := {| nw := 2; elastic := true; stealing := true |} in
  let g := set_st sr_g0 (upd (st sr_g0) 1 g_sleep_if) in
  let r := wrun c (repeat (false, 0) 7) 1 (with_blocked g 3) WTop in
  snd r = WWaiting /\ st (fst r) 1 = g_sleep_store /\ live (fst r) = 3 /\ st (fst r) 0 = rs_running.
Proof. vm_compute. repeat split. Qed.
(* ======== round w11c: what the model above leaves out (Model/SuspendResumeHP.v) ========

   ---- max_thread_count of add_new_always, min_tasks_to_steal_staged, the idle-loop threshold before staged tasks are stolen ----
   each makes one conversion step (own staged, a victim's staged, the low-priority staged tasks) do nothing although the queue
   mutex was free; [worker_step_lim] adds them as oracle-chosen refusals (add_new_always only while the destination's pending part
   is not empty).  Every such step is a step of the model above with the contention bit set: all theorems quantified over every
   schedule and oracle hold with the limits, with NO new hypothesis.  ([enabled], hence [stuck], does not depend on the oracle;
   that a threshold is not refused for ever is the same fairness the try_lock bit already needs.) *)
Theorem C19_limits_simulated : forall c o lo w g pc, exists o', worker_step_lim c o lo w g pc = worker_step c o' w g pc.
Proof. exact lim_simulated. Qed.
Print Assumptions C19_limits_simulated.

Theorem C19_limit_refusal_has_pending : forall c o lo w g r,
  worker_step_lim c o lo w g (WAdd r) <> worker_step c o w g (WAdd r) -> nonempty (qof w (qs g)) = true.
Proof. exact lim_refusal_has_pending. Qed.
Print Assumptions C19_limit_refusal_has_pending.

(* ---- separate high-priority queues: nhp <= nw queues, queue index [hq c i] for worker i < nhp ----
   a layer over worker_step / client_step (HPopH, HStealH, the idle branch counting the own high-priority queue; a high-priority
   submission is pushed on the PENDING part of hq (i mod nhp), i the worker validated and locked by select_active_pu).
   Conservation holds as before, for every nhp, program, schedule: *)
Theorem C19_hp_no_dup_across_suspend : forall c nhp progs high sched,
  NoDup (map fst (executed (fst (hp_run c nhp progs high sched)))).
Proof. exact hp_no_dup. Qed.
Print Assumptions C19_hp_no_dup_across_suspend.

Theorem C19_hp_no_task_lost : forall c nhp progs high sched tk,
  let g := fst (hp_run c nhp progs high sched) in
  (In tk (submitted g) -> In tk (map fst (executed g)) \/ In tk (map snd (heldl g)) \/ In tk (map snd (qs g)) \/ In tk (map snd (sq g))) /\
  (In tk (map fst (executed g)) -> In tk (submitted g)).
Proof. exact hp_no_task_lost. Qed.
Print Assumptions C19_hp_no_task_lost.

(* workers WITHOUT a high-priority queue (w >= nhp) never take anything out of a high-priority queue: from a state whose only
   queued tasks sit in high-priority queues, no schedule of such workers and of finished clients executes anything, for ever *)
Theorem C19_hp_workers_without_hp_queue : forall c nhp (sched : list (nat * oracle)) g0 (cf : gst * locals hlstate),
  (forall so, In so sched -> nhp <= fst so) -> HPinv c nhp g0 (fst cf) (snd cf) ->
  HPinv c nhp g0 (fst (run (hp_tstep c nhp) sched cf)) (snd (run (hp_tstep c nhp) sched cf)).
Proof. exact hp_stranded_run. Qed.
Print Assumptions C19_hp_workers_without_hp_queue.

(* NEW FINDING (C19:high_priority_task_stranded_on_suspended_pu): 2 workers, ONE high-priority queue (--pika:high-priority-threads=1),
   elasticity and stealing on.  suspend_processing_unit(0) returns without error; a high-priority task submitted with hint 1 is
   validated against worker 1 (running, PU lock 1 held) and pushed on high_priority_queues_[1 % 1] = worker 0's, who sleeps.
   Worker 1 is running, stealing is enabled — and whatever worker 1 does, for ever, the task is not executed: the statement of
   C19_no_task_stranded_stealing (one running worker + stealing => nothing pending) fails for high-priority tasks when nhp < nw.
   Replayed on the runtime by harness/c19_hp.cpp (0 of n tasks run until PU 0 is resumed). *)
Theorem C19_hp_stranded_refuted :
  let cf := hp_run hp_cfg 1 hp_progs hp_high hp_sched in
  stealing hp_cfg = true /\ st (fst cf) 1 = rs_running /\ st (fst cf) 0 = rs_sleeping /\
  calls (fst cf) = [(2, KSuspendPU, false)] /\
  In (2, 0) (submitted (fst cf)) /\ qs (fst cf) = [(hq hp_cfg 0, (2, 0))] /\
  forall sched', (forall so, In so sched' -> 1 <= fst so) ->
    let g' := fst (run (hp_tstep hp_cfg 1) sched' cf) in
    executed g' = [] /\ qs g' = [(hq hp_cfg 0, (2, 0))].
Proof. exact hp_stranded_refuted. Qed.
Print Assumptions C19_hp_stranded_refuted.

(* the hypothesis under which the merged model (high-priority queue of worker i = its normal queue) has the right eligibility:
   nhp = nw (the default): the queue chosen is the validated worker's own; otherwise it is another worker's *)
Theorem C19_hp_default_target_is_validated_worker : forall i nhp, i < nhp -> Nat.modulo i nhp = i.
Proof. exact hp_default_target. Qed.
Print Assumptions C19_hp_default_target_is_validated_worker.

Theorem C19_hp_target_is_foreign_queue : forall c nhp i, 0 < nhp -> nhp <= i -> hq c (Nat.modulo i nhp) <> hq c i.
Proof. exact hp_target_foreign. Qed.
Print Assumptions C19_hp_target_is_foreign_queue.

(* with nhp = nw the same program runs the task: worker 1 pops its own high-priority queue *)
Example C19_example_hp_default :
  let cf := hp_run hp_cfg 2 hp_progs hp_high (hp_sched ++ repeat (1, o0) 4) in
  map fst (executed (fst cf)) = [(2, 0)] /\ qs (fst cf) = [] /\ st (fst cf) 0 = rs_sleeping.
Proof. vm_compute. repeat split; reflexivity. Qed.

(* ------------------------------------------------------------------------------------------
   Session h12b — re-queueing of a YIELDING (or woken) task with its own worker as hint: the fallback walk of
   select_active_pu (allow_fallback = true).  Model/SuspendResumeYield.v evaluates the acceptance test with the
   comparison operator and the constant regenerated from scheduler_base.cpp (g_sel_fb_op, g_sel_fallback). *)
From Pika Require Import Model.SuspendResumeYield Proofs.SuspendResumeYieldProofs.

(* whatever the fallback walk accepts is a unit whose scheduling loop computes running = true: a unit on its way to
   sleep (pre_sleep), asleep, or shutting down is never accepted *)
Theorem C19_fallback_accepts_only_running : forall s, fb_accepts s = true -> rs_lt s g_running_below = true.
Proof. exact fallback_accepts_only_running_lemma. Qed.
Print Assumptions C19_fallback_accepts_only_running.

(* it rejects the state the suspend CAS writes and the state the worker stores before it waits ... *)
Theorem C19_fallback_rejects_unit_being_suspended : fb_accepts g_sus_to = false /\ fb_accepts g_sleep_store = false.
Proof. exact fallback_rejects_requested_lemma. Qed.
Print Assumptions C19_fallback_rejects_unit_being_suspended.

(* ... and accepts an active unit (non-vacuity of the test) *)
Theorem C19_fallback_accepts_active_unit : fb_accepts g_wake_to = true /\ fb_accepts g_sus_from = true.
Proof. exact fallback_accepts_active_lemma. Qed.
Print Assumptions C19_fallback_accepts_active_unit.

(* a task that yields on (or is woken with last worker =) a unit that has been asked to suspend is re-queued on ANOTHER,
   available unit as soon as one active unit with a free PU lock exists — whatever the other units' states and locks *)
Theorem C19_yield_requeue_avoids_suspending_unit : forall n g w v,
  0 < n -> w < n -> v < n -> yst g w = g_sus_to -> ylock g v = false -> yst g v = g_wake_to ->
  let u := select_fb n g w in u <> w /\ u < n /\ fb_avail g u = true.
Proof. exact select_fb_other. Qed.
Print Assumptions C19_yield_requeue_avoids_suspending_unit.

(* "the calls themselves return", yielding tasks: the unit w that is being suspended holds any list l of tasks that yield
   every time they run, nobody else pops (all other workers busy), states and locks of the others arbitrary but constant,
   one active unit with a free lock: after |l| iterations of w's scheduling loop its queue is empty and its sleep
   condition holds (so the caller's wait on state != pre_sleep ends), every task sits in the queue of another worker,
   and nothing left another worker's queue *)
Theorem C19_yielding_tasks_leave_suspending_unit : forall n w v l g,
  yhyp n g w v -> yq g w = l ->
  let g' := yield_iters (length l) n g w in
  yq g' w = [] /\ y_can_sleep g' w = true /\
  (forall a, In a l -> exists u, u <> w /\ u < n /\ In a (yq g' u)) /\
  (forall x a, x <> w -> In a (yq g x) -> In a (yq g' x)).
Proof. exact yielding_tasks_leave_lemma. Qed.
Print Assumptions C19_yielding_tasks_leave_suspending_unit.

(* non-vacuity: 3 workers, unit 1 asked to suspend with tasks 7, 8, 9 in its queue, unit 2's PU lock held by somebody,
   unit 0 active with task 5: the three tasks end up behind task 5 on unit 0, unit 1 may sleep *)
Definition yex : ystate :=
  {| yst := fun v => if Nat.eqb v 1 then g_sus_to else g_wake_to;
     ylock := fun v => Nat.eqb v 2;
     yq := fun v => match v with 0 => [5] | 1 => [7; 8; 9] | _ => [] end |}.
Example C19_example_yield :
  yhyp 3 yex 1 0 /\ g_sel_fb_op = CmpLe /\ g_sel_fallback = rs_suspended /\
  let g' := yield_iters 3 3 yex 1 in
  yq g' 0 = [5; 7; 8; 9] /\ yq g' 1 = [] /\ yq g' 2 = [] /\ y_can_sleep g' 1 = true /\ y_can_sleep yex 1 = false.
Proof. vm_compute. repeat split; auto. Qed.
(* ======== round p12a: the stuck-state theorems for the high-priority-queue layer ========
   Model/SuspendResumeHPStuck.v defines enabledness of a layer thread ([hp_enabled]: the base model's [enabled] at the corresponding
   program point, plus — for a polling worker — [own_hp]: its own high-priority queue is not empty, and [steal_h]: it is running
   (or believes so and has not passed HStealH) with stealing on, has a high-priority queue itself and a victim's is not empty).
   [hp_stuck]: no thread is enabled.  Proofs/SuspendResumeHPStuckProofs.v: by PROJECTION onto the base model — INV4 holds of the
   projected state along every layer run, a stuck layer state projects to a stuck base state, so the base analysis is reused. *)
From Pika Require Import Model.SuspendResumeHPStuck Proofs.SuspendResumeHPStuckProofs.

(* what [hp_stuck] means: a thread that is not enabled only stutters (step without spurious wake-up / contention) *)
Theorem C19_hp_disabled_only_stutters : forall c nhp o t g l, fst o = false -> hp_enabled c nhp t g l = false ->
  geq g (fst (hp_tstep c nhp o t g l)) /\
  hp_enabled c nhp t (fst (hp_tstep c nhp o t g l)) (snd (hp_tstep c nhp o t g l)) = false.
Proof. exact hp_disabled_stutter. Qed.
Print Assumptions C19_hp_disabled_only_stutters.

(* the hand-shake / lock invariant of the base model holds of every reachable layer state (projected) *)
Theorem C19_hp_handshake_invariant : forall c nhp progs high sched, (forall t, Forall (api_ok c) (progs t)) ->
  INV4 c (fst (hp_run c nhp progs high sched)) (pls (snd (hp_run c nhp progs high sched))).
Proof. exact hp_inv4. Qed.
Print Assumptions C19_hp_handshake_invariant.

(* simulation: a run of the layer in which no client submits with high priority is, step for step (HPopH / HStealH find their
   queues empty and are skipped: [base_sched]), a run of the base model — every theorem above about sr_run holds of it *)
Theorem C19_hp_simulates_base_when_no_hp_tasks : forall c nhp progs high sched, nw c > 0 -> (forall t, high t = false) ->
  let cf := hp_run c nhp progs high sched in
  let cfb := sr_run c progs (base_sched c nhp sched (sr_g0, hp_locals c progs high)) in
  fst cf = fst cfb /\ forall t, hproj (snd cf t) = snd cfb t.
Proof. exact hp_simulates_base_when_no_hp_tasks. Qed.
Print Assumptions C19_hp_simulates_base_when_no_hp_tasks.

(* ... and one step: with every high-priority queue empty a layer step of a worker or of a normal-priority client is the base
   step of the projected thread, or (HPopH / HStealH) a stutter *)
Theorem C19_hp_step_simulates_base : forall c nhp o t g l,
  (forall i tk, In (i, tk) (qs g) -> i <= nw c) -> (forall cl h, l = HClient cl h -> h = false) ->
  let r := hp_tstep c nhp o t g l in
  if hp_skips l then fst r = g /\ hproj (snd r) = hproj l
  else (fst r, hproj (snd r)) = sr_tstep c o t g (hproj l).
Proof. exact hp_step_simulates. Qed.
Print Assumptions C19_hp_step_simulates_base.

(* (2) the calls return, WITH high-priority tasks, for every nhp: the same statement and the same exception (the low-priority
   finding) as C19_suspend_resume_return — no new hypothesis: the owner pops its own high-priority queue even in pre_sleep, and
   a non-empty own high-priority queue keeps the worker enabled *)
Theorem C19_hp_suspend_resume_return : forall c nhp progs high sched, (forall t, Forall (api_ok c) (progs t)) ->
  let cf := hp_run c nhp progs high sched in
  hp_stuck c nhp cf ->
  forall t, client_done (hproj (snd cf t)) = true \/ (at_wait_idle (hproj (snd cf t)) = true /\ live (fst cf) > 0) \/
            lowprio_blocked c (fst cf) (hproj (snd cf t)).
Proof. exact hp_suspend_resume_return. Qed.
Print Assumptions C19_hp_suspend_resume_return.

(* (1) stuck and every processing unit running (every suspend followed by a resume): nothing is left in ANY queue, the
   high-priority queues included, every submitted task executed exactly once.  0 < nhp: num_high_priority_queues_ is a divisor. *)
Theorem C19_hp_no_task_stranded : forall c nhp progs high sched, (forall t, Forall (api_ok c) (progs t)) ->
  let cf := hp_run c nhp progs high sched in
  nw c > 0 -> 0 < nhp -> hp_stuck c nhp cf -> (forall w, w < nw c -> st (fst cf) w = rs_running) ->
  qs (fst cf) = [] /\ sq (fst cf) = [] /\ heldl (fst cf) = [] /\ Permutation (map fst (executed (fst cf))) (submitted (fst cf)).
Proof. exact hp_no_task_stranded. Qed.
Print Assumptions C19_hp_no_task_stranded.

(* (1), one running worker + stealing (C19_no_task_stranded_stealing for the layer): needs  w0 < nhp  (w0 has a high-priority
   queue itself; always true for nhp = nw)  OR  no owner of a high-priority queue sleeps.  Refuted without it:
   C19_hp_stranded_refuted / C19_example_hp_stranded_state_is_stuck. *)
Theorem C19_hp_no_task_stranded_stealing : forall c nhp progs high sched w0, (forall t, Forall (api_ok c) (progs t)) ->
  let cf := hp_run c nhp progs high sched in
  stealing c = true -> 0 < nhp -> hp_stuck c nhp cf -> w0 < nw c -> st (fst cf) w0 = rs_running ->
  (w0 < nhp \/ forall w, w < nhp -> w < nw c -> st (fst cf) w <> rs_sleeping) ->
  qs (fst cf) = [] /\ heldl (fst cf) = [] /\
  (forall i tk, In (i, tk) (sq (fst cf)) -> i = lowq c /\ lastw c w0 = false) /\
  (qof (lowq c) (sq (fst cf)) = [] ->
   sq (fst cf) = [] /\ Permutation (map fst (executed (fst cf))) (submitted (fst cf))).
Proof. exact hp_no_task_stranded_stealing. Qed.
Print Assumptions C19_hp_no_task_stranded_stealing.

(* (1)+(3), exact: a task is left in a high-priority queue of a stuck state ONLY in hq j of an owner j that SLEEPS while no
   running worker with a high-priority queue of its own could steal it (stealing off, or every such worker not running) *)
Theorem C19_hp_stranded_only_behind_sleeping_owner : forall c nhp progs high sched, (forall t, Forall (api_ok c) (progs t)) ->
  let cf := hp_run c nhp progs high sched in
  nw c > 0 -> 0 < nhp -> hp_stuck c nhp cf ->
  forall i tk, In (i, tk) (qs (fst cf)) -> nw c < i ->
    exists j, i = hq c j /\ j < nhp /\ j < nw c /\ st (fst cf) j = rs_sleeping /\
      (stealing c = true -> forall w0, w0 < nw c -> w0 < nhp -> st (fst cf) w0 <> rs_running).
Proof. exact hp_stranded_only_behind_sleeping_owner. Qed.
Print Assumptions C19_hp_stranded_only_behind_sleeping_owner.

(* (3) when does a task run WITHOUT resuming anything: in a stuck state every submitted task has been executed, or is staged /
   pending in a normal or low-priority queue (the base theorems say when), or is pending in hq j behind a sleeping owner as above.
   So a high-priority task pushed on hq (w mod nhp) runs without a resume iff the owner (w mod nhp) is not asleep or — stealing —
   some running worker has a high-priority queue itself; the complement is C19_hp_stranded_refuted (owner 0 asleep, nhp = 1, the
   running worker 1 has no high-priority queue). *)
Theorem C19_hp_task_runs_without_resume : forall c nhp progs high sched, (forall t, Forall (api_ok c) (progs t)) ->
  let cf := hp_run c nhp progs high sched in
  nw c > 0 -> 0 < nhp -> hp_stuck c nhp cf ->
  forall tk, In tk (submitted (fst cf)) ->
    In tk (map fst (executed (fst cf))) \/
    (exists i, i <= nw c /\ (In (i, tk) (sq (fst cf)) \/ In (i, tk) (qs (fst cf)))) \/
    (exists j, In (hq c j, tk) (qs (fst cf)) /\ j < nhp /\ j < nw c /\ st (fst cf) j = rs_sleeping /\
       (stealing c = true -> forall w0, w0 < nw c -> w0 < nhp -> st (fst cf) w0 <> rs_running)).
Proof. exact hp_task_runs_without_resume. Qed.
Print Assumptions C19_hp_task_runs_without_resume.

(* non-vacuity: reachable stuck states of the layer (stuck for ALL threads) *)
Example C19_example_hp_stranded_state_is_stuck :
  let cf := hp_run hp_cfg 1 hp_progs hp_high hp_sched in
  hp_stuck hp_cfg 1 cf /\ st (fst cf) 1 = rs_running /\ st (fst cf) 0 = rs_sleeping /\ qs (fst cf) = [(hq hp_cfg 0, (2, 0))] /\
  executed (fst cf) = [] /\ ~ (1 < 1 \/ forall w, w < 1 -> w < nw hp_cfg -> st (fst cf) w <> rs_sleeping).
Proof. exact hp_stranded_state_is_stuck. Qed.

Example C19_example_hp_default_state_is_stuck :
  let cf := hp_run hp_cfg 2 hp_progs hp_high (hp_sched ++ repeat (1, o0) 4) in
  hp_stuck hp_cfg 2 cf /\ st (fst cf) 1 = rs_running /\ st (fst cf) 0 = rs_sleeping /\ qs (fst cf) = [] /\
  map fst (executed (fst cf)) = [(2, 0)] /\ submitted (fst cf) = [(2, 0)].
Proof. exact hp_default_state_is_stuck. Qed.

Example C19_example_hp_resumed_state_is_stuck :
  let cf := hp_run hp_cfg 1 hp_progs_r hp_high hp_sched_r in
  hp_stuck hp_cfg 1 cf /\ (forall w, w < nw hp_cfg -> st (fst cf) w = rs_running) /\ qs (fst cf) = [] /\
  executed (fst cf) = [((2, 0), 0)] /\ calls (fst cf) = [(2, KResumePU, false); (2, KSuspendPU, false)].
Proof. exact hp_resumed_state_is_stuck. Qed.
