(* Props/Properties_C05.v — C05: runtime life cycle (wait/stop drain all work, restart works).
   Only statements; each is closed by [exact] of a lemma from Proofs/LifecycleProofs.v. *)
From Coq Require Import List NArith ZArith Bool.
From Pika Require Import Base.Conc Gen.GenLifecycle Model.Lifecycle Proofs.LifecycleProofs.
Import ListNotations.

(* ---------------------------------------------------------------- API automaton *)
(* a call is rejected (invalid_status) exactly when it violates the preconditions the code checks,
   and a rejected or blocked call leaves the state unchanged *)
Theorem C05_lifecycle_preconditions : forall s c k,
  (snd (api_step s c k) = RErr <-> violates_pre s c k = true) /\
  (snd (api_step s c k) = RErr -> fst (api_step s c k) = s) /\
  (snd (api_step s c k) = RBlock -> fst (api_step s c k) = s).
Proof. exact api_preconditions. Qed.
Print Assumptions C05_lifecycle_preconditions.

(* DEFECT (recorded in KNOWN_FINDINGS.txt): the code rejects one call that respects the documented
   preconditions — pika::finalize() while the runtime is suspended ("the runtime is initialized" is
   all init_runtime.hpp asks for).  Witness replayed by the harness on every run (history hfix0). *)
Theorem C05_documented_preconditions_refuted :
  exists s c k, documented_pre s c k = true /\ snd (api_step s c k) = RErr.
Proof. exact api_documented_pre_refuted. Qed.
Print Assumptions C05_documented_preconditions_refuted.

(* everywhere else documented and enforced preconditions coincide: a call violating the documented
   preconditions is rejected, a call respecting them is not (finalize-while-suspended excepted) *)
Theorem C05_documented_preconditions_partial : forall s c k,
  (documented_pre s c k = false -> snd (api_step s c k) = RErr) /\
  (documented_pre s c k = true -> ~ (k = CFinalize /\ ph s = Sleeping) -> snd (api_step s c k) <> RErr).
Proof. exact api_documented_pre_partial. Qed.
Print Assumptions C05_documented_preconditions_partial.

(* only stop() returns a value; it does so only from an OS thread, only after finalize(), only with
   nothing outstanding on a sleeping runtime; the value is the entry function's result and the
   state afterwards is the initial state *)
Theorem C05_stop_after_finalize : forall s c k v, snd (api_step s c k) = RRet v ->
  k = CStop /\ c = FromOs /\ fin s = true /\ ph s <> NoRt /\ v = eres s /\
  (ph s = Sleeping -> pend s = 0%N) /\ fst (api_step s c k) = api0.
Proof. exact api_ret_inv. Qed.
Print Assumptions C05_stop_after_finalize.

Theorem C05_stop_blocks_without_finalize : forall s c, fin s = false -> ph s <> NoRt -> c = FromOs ->
  api_step s c CStop = (s, RBlock).
Proof. exact api_stop_blocks_without_finalize. Qed.
Print Assumptions C05_stop_blocks_without_finalize.

(* whatever happens between an accepted start(cfg, r) and the stop() that returns, that stop()
   returns r and leaves no trace of the configuration *)
Theorem C05_stop_returns_entry_result : forall s c cfg r h c' v,
  ph s = NoRt ->
  let s1 := fst (api_step s c (CStart cfg r)) in
  no_ret (api_resps h s1) ->
  snd (api_step (api_run h s1) c' CStop) = RRet v ->
  v = r /\ conf (api_run (h ++ [(c', CStop)]) s1) = 0%N.
Proof. exact api_stop_returns_entry_result. Qed.
Print Assumptions C05_stop_returns_entry_result.

(* after a stop() that returns the state IS the initial state, so the answers to any history are the
   concatenation of the answers of its incarnations *)
Theorem C05_restart_fresh : forall h1 c h2 v,
  snd (api_step (api_run h1 api0) c CStop) = RRet v ->
  api_run (h1 ++ [(c, CStop)]) api0 = api0 /\
  api_resps (h1 ++ (c, CStop) :: h2) api0 = api_resps h1 api0 ++ RRet v :: api_resps h2 api0.
Proof. exact api_restart_fresh. Qed.
Print Assumptions C05_restart_fresh.

(* ---------------------------------------------------------------- idle detection (all schedules,
   all worker counts, all task programs, all external submitters) *)
(* counter = objects created - objects destroyed, where objects = tasks + in-flight external operations *)
Theorem C05_count_is_live : forall sched w entry r xs ks,
  let g := fst (lc_run sched w entry r xs ks) in
  count g = N.of_nat (nlive (nextid g) (tst g)) /\
  (count g + N.of_nat (ndestroyed (nextid g) (tst g)) = N.of_nat (nextid g))%N.
Proof. exact count_is_live. Qed.
Print Assumptions C05_count_is_live.

(* wait()/stop()/suspend() called from an OS thread: when the predicate read lets the caller go,
   every task and external operation created so far has been destroyed (hence terminated); since
   only running tasks spawn, no descendant of theirs can appear later *)
Theorem C05_wait_drains : forall sched w entry r xs ks,
  let g := fst (lc_run sched w entry r xs ks) in
  gen_wait_continue (count g) false = false ->
  forall id, id < nextid g -> is_destroyed (tst g id) = true.
Proof. exact wait_drains_os. Qed.
Print Assumptions C05_wait_drains.

(* ... and this stays so: in every continuation everything that existed stays destroyed, and every
   task created later was spawned by an OS thread or by a task that was itself created later — no
   task that existed at the wait (nor any descendant of it) is alive or appears afterwards *)
Theorem C05_wait_drains_descendants : forall sched0 w entry r xs ks sched1,
  let c0 := lc_run sched0 w entry r xs ks in
  gen_wait_continue (count (fst c0)) false = false ->
  let c1 := run lc_tstep sched1 c0 in
  (forall p, p < nextid (fst c0) -> is_destroyed (tst (fst c1) p) = true) /\
  (forall c p, nextid (fst c0) <= c -> c < nextid (fst c1) -> parent (fst c1) c = Some p -> nextid (fst c0) <= p).
Proof. exact no_late_descendants. Qed.
Print Assumptions C05_wait_drains_descendants.

(* wait() called from a task: everything except the caller has been destroyed *)
Theorem C05_wait_drains_from_task : forall sched w entry r xs ks t self rest,
  let c := lc_run sched w entry r xs ks in
  lpc (snd c t) = PRun self (AWait :: rest) ->
  gen_wait_continue (count (fst c)) true = false ->
  tst (fst c) self = Active t /\
  forall id, id < nextid (fst c) -> id <> self -> is_destroyed (tst (fst c) id) = true.
Proof. exact wait_drains_task. Qed.
Print Assumptions C05_wait_drains_from_task.

(* when stop()'s wait lets it go, the entry task is destroyed and result_ holds what it returned *)
Theorem C05_stop_reads_entry_result : forall sched w entry r xs ks,
  let g := fst (lc_run sched w entry r xs ks) in
  gen_wait_continue (count g) false = false -> tst g 0 <> ExtDone ->
  tst g 0 = Destroyed /\ result g = entry_res g.
Proof. exact stop_reads_entry_result. Qed.
Print Assumptions C05_stop_reads_entry_result.

(* ---------------------------------------------------------------- suspend / resume *)
(* between suspend() returning and resume() being called every worker is blocked in
   scheduler_base::suspend and no worker step touches a task ([bad] is set by any pop / body /
   spawn / yield / terminate step taken while [suspended]) *)
Theorem C05_suspended_runs_nothing : forall sched w entry r xs ks,
  let c := lc_run sched w entry r xs ks in
  bad (fst c) = false /\
  (suspended (fst c) = true ->
   forall t, 1 <= t <= nworkers (fst c) -> wst (fst c) t = WsSleeping /\ lpc (snd c t) = PAsleep).
Proof. exact suspended_runs_nothing. Qed.
Print Assumptions C05_suspended_runs_nothing.

(* after resume() has returned every worker is running again ... *)
Theorem C05_resume_runs_all : forall sched w entry r xs ks,
  let c := lc_run sched w entry r xs ks in
  lpc (snd c 0) = PIdle -> suspended (fst c) = false ->
  forall t, 1 <= t <= nworkers (fst c) -> wst (fst c) t = WsRunning.
Proof. exact resume_runs_all. Qed.
Print Assumptions C05_resume_runs_all.

(* ... and a running idle worker facing queued work takes a task on its next step *)
Theorem C05_running_worker_takes_work : forall o t g l,
  wst g t = WsRunning -> lpc l = PIdle -> queue g <> [] ->
  exists id, In id (queue g) /\ lpc (snd (worker_step o t g l)) = PRun id (tprog g id).
Proof. exact running_worker_takes_work. Qed.
Print Assumptions C05_running_worker_takes_work.

Example C05_suspend_example :
  let xs := fun t => match t with 3 => [XSubmit [AWork]] | _ => [] end in
  let g1 := fst (lc_run (rr_sched 400 5 1) 2 [AWork; ASpawn [AWork]] 5%Z xs [KSuspend]) in
  let g2 := fst (lc_run (rr_sched 800 5 1) 2 [AWork; ASpawn [AWork]] 5%Z xs [KSuspend; KResume]) in
  (suspended g1 = true /\ wst g1 1 = WsSleeping /\ wst g1 2 = WsSleeping /\ bad g1 = false) /\
  (suspended g2 = false /\ wst g2 1 = WsRunning /\ wst g2 2 = WsRunning /\ hd EvSuspended (log g2) = EvResumed).
Proof. vm_compute. repeat split. Qed.

(* the order of the model's C1/C2 and D1/D2 steps is the order of the statements in every scheduler
   (Gen/GenLifecycle.v is regenerated from the source on every run) *)
Theorem C05_code_order : gen_inc_first = true /\ gen_dec_last = true.
Proof. exact (conj eq_refl eq_refl). Qed.
Print Assumptions C05_code_order.

(* non-vacuity: 2 workers, an entry task that spawns, an OS thread that submits, finalizes and stops *)
Example C05_example :
  let entry := [AWork; ASpawn [AWork; AYield; ASpawn [AWork]; AWork]; AWork] in
  let xs := fun t => match t with 3 => [XSubmit [AWork; AWork]; XExt; XFinalize; XStop] | _ => [] end in
  let g := fst (lc_run (rr_sched 400 4 1) 2 entry 42%Z xs []) in
  stop_rets (log g) = [42%Z] /\ count g = 0%N /\ nextid g = 5 /\ count_bodies (log g) = 7 /\
  gen_wait_continue (count g) false = false.
Proof. vm_compute. repeat split. Qed.

Example C05_api_example :
  api_resps [(FromOs, CStop); (FromOs, CStart 4 7%Z); (FromOs, CStart 2 1%Z); (FromTask, CSuspend);
             (FromOs, CSubmit 3); (FromOs, CSuspend); (FromOs, CFinalize); (FromOs, CResume);
             (FromOs, CStop); (FromOs, CFinalize); (FromOs, CStop); (FromOs, CWait)] api0
  = [RErr; ROk; RErr; RErr; ROk; ROk; RErr; ROk; RBlock; ROk; RRet 7%Z; RErr].
Proof. vm_compute. reflexivity. Qed.

(* ================================================================== history-level laws of the API automaton
   (Proofs/LifecycleApiLaws.v) — every history of calls from OS threads and tasks *)
From Pika Require Import Proofs.LifecycleApiLaws.

(* at most one incarnation at a time: #accepted start() = #returned stop() (+ 1 exactly while a runtime
   exists); and whenever no runtime exists the state is the initial one — nothing survives a stop *)
Theorem C05_single_incarnation : forall h,
  let n := starts_ok h api0 in let m := stops_ret h api0 in
  (n = m \/ n = S m) /\ (n = m <-> ph (api_run h api0) = NoRt) /\
  (ph (api_run h api0) = NoRt -> api_run h api0 = api0).
Proof. exact single_incarnation. Qed.
Print Assumptions C05_single_incarnation.

(* finalize is sticky: while the runtime exists and stop has not returned, no call clears it *)
Theorem C05_finalize_sticky : forall s c k, ph s <> NoRt -> fin s = true ->
  is_ret (snd (api_step s c k)) = false ->
  fin (fst (api_step s c k)) = true /\ ph (fst (api_step s c k)) <> NoRt.
Proof. exact finalize_sticky. Qed.
Print Assumptions C05_finalize_sticky.

(* a second finalize on a running runtime is accepted and changes nothing *)
Theorem C05_finalize_twice : forall s c c', ph s = Running ->
  let s1 := fst (api_step s c CFinalize) in
  api_step s1 c' CFinalize = (s1, ROk).
Proof. exact finalize_twice. Qed.
Print Assumptions C05_finalize_twice.

(* suspend / resume from an OS thread are idempotent ... *)
Theorem C05_suspend_idempotent : forall s, ph s <> NoRt ->
  let s1 := fst (api_step s FromOs CSuspend) in
  ph s1 = Sleeping /\ api_step s1 FromOs CSuspend = (s1, ROk).
Proof. exact suspend_idempotent. Qed.
Print Assumptions C05_suspend_idempotent.

Theorem C05_resume_idempotent : forall s, ph s <> NoRt ->
  let s1 := fst (api_step s FromOs CResume) in
  ph s1 = Running /\ api_step s1 FromOs CResume = (s1, ROk).
Proof. exact resume_idempotent. Qed.
Print Assumptions C05_resume_idempotent.

(* ... and resume undoes suspend, except that suspend has drained the pending work *)
Theorem C05_suspend_resume_roundtrip : forall s, ph s = Running ->
  let s2 := fst (api_step (fst (api_step s FromOs CSuspend)) FromOs CResume) in
  ph s2 = Running /\ fin s2 = fin s /\ eres s2 = eres s /\ conf s2 = conf s /\ pend s2 = 0%N /\
  snd (api_step s FromOs CSuspend) = ROk /\
  snd (api_step (fst (api_step s FromOs CSuspend)) FromOs CResume) = ROk.
Proof. exact suspend_resume_roundtrip. Qed.
Print Assumptions C05_suspend_resume_roundtrip.

(* rejected (invalid_status) and blocked calls have no effect at the level of histories: dropping them
   changes neither the final state nor the answers to the remaining calls *)
Theorem C05_rejected_calls_have_no_effect : forall h s,
  api_run (prune h s) s = api_run h s /\
  api_resps (prune h s) s = filter effective (api_resps h s).
Proof. exact prune_same. Qed.
Print Assumptions C05_rejected_calls_have_no_effect.

Example C05_incarnations_example :
  let h := [(FromOs, CStart 4 7%Z); (FromOs, CStart 2 1%Z); (FromOs, CFinalize); (FromOs, CStop);
            (FromOs, CStart 1 9%Z)] in
  starts_ok h api0 = 2 /\ stops_ret h api0 = 1 /\ ph (api_run h api0) = Running.
Proof. vm_compute. repeat split. Qed.
