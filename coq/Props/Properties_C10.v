(* Props/Properties_C10.v — C10: work runs where it was sent (scheduler, pool, hint placement).
   Only statements; each is closed by [exact] of a lemma from Proofs/PlacementProofs.v.
   Model: Model/Placement.v (pools with per-worker normal / high-priority / low-priority queues,
   the hint -> queue computation of create_thread / schedule_thread / schedule_thread_last incl.
   select_active_pu, stealing flag, yield / boost-yield / suspend / resume / yield_to, external
   and in-task submitters).  All theorems hold for every pool configuration [cfg], every
   assignment of OS threads to workers [roles], every schedule and every oracle (= every
   program, every interleaving, every queue discipline). *)
From Coq Require Import List ZArith Lia.
From Pika Require Import Base.Conc Model.Placement Proofs.PlacementProofs.
Import ListNotations.

(* submit_never_inline, step form: whatever thread t does in one atomic step, either no enter
   event is produced, or t is a worker that is idle (no task running on it: cur = None, and not
   inside any create_thread/schedule_thread: pc = Idle) and the task it enters existed and was
   pending BEFORE the step.  In particular a step that submits (ASpawn by a running task, by an
   external thread, or any step inside select_active_pu) only enqueues. *)
Theorem C10_submit_never_inline : forall cfg o t g l,
  let g' := fst (pl_tstep cfg o t g l) in
  enters (glog g') = enters (glog g) \/
  exists p w b tk, lrole l = RWorker p w /\ pc l = Idle /\ cur l = None /\
    get_task g b = Some tk /\ tk_st tk = TPending /\
    glog g' = EEnter b (S (tk_phase tk)) p w t :: glog g.
Proof. exact submit_never_inline_step. Qed.
Print Assumptions C10_submit_never_inline.

(* submit_never_inline, run form: every enter is by the OS thread of the worker it names; every
   callable called inside task a is called by the worker that entered a; callables called
   outside tasks are called by external threads only *)
Theorem C10_enter_by_workers_only : forall cfg roles sched,
  let g := run_g cfg roles sched in
  (forall a ph p w t, In (EEnter a ph p w t) (glog g) -> roles t = RWorker p w) /\
  (forall lbl a t, In (ECall lbl (CTask a) t) (glog g) ->
     exists p w ph, roles t = RWorker p w /\ In (EEnter a ph p w t) (glog g)) /\
  (forall lbl t, In (ECall lbl CExt t) (glog g) -> roles t = RExt).
Proof. exact submit_never_inline_run. Qed.
Print Assumptions C10_enter_by_workers_only.

(* runs_on_own_pool: a task created on the scheduler of pool p0 is entered (in every phase) only
   by workers of pool p0 *)
Theorem C10_runs_on_own_pool : forall cfg roles sched a p0 pr h t0 ph p w t,
  let g := run_g cfg roles sched in
  In (ESubmit a p0 pr h t0) (glog g) -> In (EEnter a ph p w t) (glog g) ->
  p = p0 /\ roles t = RWorker p0 w.
Proof. exact runs_on_own_pool_lemma. Qed.
Print Assumptions C10_runs_on_own_pool.

(* static_hint_pinned.  Hypotheses (each one is necessary, see the three _refuted theorems):
   the pool has a static policy (no stealing), enable_elasticity is off, the scheduler has no
   priority queues or as many high-priority queues as workers, the task is not low priority on
   a priority scheduler, and no thread names the task in this_thread::yield_to.  Then every
   phase (initial queue, re-queue after yield / boost-yield, wake-up after suspension, "still
   active" re-schedule) is entered by worker  size_t(hint) mod W  of the pool. *)
Theorem C10_static_hint_pinned : forall cfg roles sched a p pr h t0 u ph p' w t,
  let g := run_g cfg roles sched in
  static_ok (cfg p) -> (pPrio (cfg p) = false \/ pr <> PLow) ->
  In (ESubmit a p pr h t0) (glog g) -> hint_num h = Some u ->
  (forall t', ~ In (EYieldTo a t') (glog g)) ->
  In (EEnter a ph p' w t) (glog g) ->
  p' = p /\ w = Z.to_nat (u mod Z.of_nat (pW (cfg p))) /\ roles t = RWorker p w.
Proof. exact static_hint_pinned_lemma. Qed.
Print Assumptions C10_static_hint_pinned.

(* same hypotheses, any hint (also none: round-robin placement): the task never changes worker *)
Theorem C10_static_same_worker : forall cfg roles sched a p pr h t0 ph1 p1 w1 t1 ph2 p2 w2 t2,
  let g := run_g cfg roles sched in
  static_ok (cfg p) -> (pPrio (cfg p) = false \/ pr <> PLow) ->
  In (ESubmit a p pr h t0) (glog g) -> (forall t', ~ In (EYieldTo a t') (glog g)) ->
  In (EEnter a ph1 p1 w1 t1) (glog g) -> In (EEnter a ph2 p2 w2 t2) (glog g) ->
  p1 = p /\ p2 = p /\ w1 = w2 /\ w1 < pW (cfg p).
Proof. exact static_same_worker_lemma. Qed.
Print Assumptions C10_static_same_worker.

(* continues_on_target: the callables of the task that a transfer to the scheduler of pool p
   creates (the continuation after continues_on(s) / schedule_from, the body after schedule(s),
   transfer_just, execute, a bulk chunk task) are called by a worker of pool p, inside that
   task, which that worker entered *)
Theorem C10_continues_on_target : forall cfg roles sched a p pr h t0 lbl t,
  let g := run_g cfg roles sched in
  In (ESubmit a p pr h t0) (glog g) -> In (ECall lbl (CTask a) t) (glog g) ->
  exists w ph, roles t = RWorker p w /\ In (EEnter a ph p w t) (glog g).
Proof. exact continues_on_target_lemma. Qed.
Print Assumptions C10_continues_on_target.

(* E6 (finding): static policy + enable_elasticity: a hinted submission that loses the try_lock
   on the hinted PU mutex to a concurrent submitter is placed on the next worker *)
Theorem C10_static_hint_elastic_refuted :
  exists cfg roles sched a p h t0 u ph w t,
    let g := run_g cfg roles sched in
    pSteal (cfg p) = false /\ pElastic (cfg p) = true /\ pPrio (cfg p) = false /\ 0 < pW (cfg p) /\
    In (ESubmit a p PNormal h t0) (glog g) /\ hint_num h = Some u /\
    (forall t', ~ In (EYieldTo a t') (glog g)) /\
    In (EEnter a ph p w t) (glog g) /\ w <> Z.to_nat (u mod Z.of_nat (pW (cfg p))).
Proof. exact static_hint_elastic_refuted_lemma. Qed.
Print Assumptions C10_static_hint_elastic_refuted.

(* finding: this_thread::yield_to(id) runs the named task on the caller's worker, all other
   hypotheses of static_hint_pinned hold *)
Theorem C10_static_hint_yield_to_refuted :
  exists cfg roles sched a p h t0 u ph w t,
    let g := run_g cfg roles sched in
    static_ok (cfg p) /\
    In (ESubmit a p PNormal h t0) (glog g) /\ hint_num h = Some u /\
    In (EEnter a ph p w t) (glog g) /\ w <> Z.to_nat (u mod Z.of_nat (pW (cfg p))).
Proof. exact static_hint_yield_to_refuted_lemma. Qed.
Print Assumptions C10_static_hint_yield_to_refuted.

(* finding: static-priority scheduler with fewer high-priority queues than workers: a
   boost-yield (yield_k, k >= 16) re-queues to high-priority queue  w mod H *)
Theorem C10_static_hint_boost_refuted :
  exists cfg roles sched a p h t0 u ph w t,
    let g := run_g cfg roles sched in
    pSteal (cfg p) = false /\ pElastic (cfg p) = false /\ pPrio (cfg p) = true /\ pH (cfg p) < pW (cfg p) /\
    In (ESubmit a p PNormal h t0) (glog g) /\ hint_num h = Some u /\
    (forall t', ~ In (EYieldTo a t') (glog g)) /\
    In (EEnter a ph p w t) (glog g) /\ w <> Z.to_nat (u mod Z.of_nat (pW (cfg p))).
Proof. exact static_hint_boost_refuted_lemma. Qed.
Print Assumptions C10_static_hint_boost_refuted.

(* non-vacuity: pool 0 = local-priority with stealing (2 workers, OS threads 0,1), pool 1 =
   static (3 workers, OS threads 2,3,4); external threads 10, 11.  Task 0 is sent to pool 1 with
   hint 5 (= worker 2), yields, suspends, is woken by thread 11, calls callable 7, transfers
   (continues_on) to pool 0; the continuation (task 1, callable 8) lands in queue 0 of pool 0
   and is stolen by worker 1 of pool 0. *)
Definition ex_cfg : nat -> pool_cfg := fun p =>
  match p with
  | 0 => {| pW := 2; pH := 2; pPrio := true; pSteal := true; pElastic := false; pAvail := fun _ => true |}
  | _ => {| pW := 3; pH := 3; pPrio := false; pSteal := false; pElastic := false; pAvail := fun _ => true |}
  end.
Definition ex_roles : nat -> role := fun t =>
  match t with 0 => RWorker 0 0 | 1 => RWorker 0 1 | 2 => RWorker 1 0 | 3 => RWorker 1 1 | 4 => RWorker 1 2
             | _ => RExt end.
Definition ex_sched : list (nat * oracle) :=
  [ (10, OAct (ASpawn 1 PNormal (HThread 5)));
    (4, OPop SrcOwnN 0); (4, OAct AYield);
    (2, OPop SrcOwnN 0); (3, OPop (SrcStealN 2) 0);           (* other workers of the static pool get nothing *)
    (4, OPop SrcOwnN 0); (4, OAct ASuspend);
    (11, OAct (AResume 0));
    (0, OPop (SrcStealN 2) 0);                                 (* a worker of pool 0 cannot reach pool 1's queues *)
    (4, OPop SrcOwnN 0); (4, OAct (ACall 7));
    (4, OAct (ASpawn 0 PNormal HNone)); (4, OAct AEnd);
    (1, OPop (SrcStealN 0) 0); (1, OAct (ACall 8)); (1, OAct AEnd) ].

Example C10_example :
  let g := run_g ex_cfg ex_roles ex_sched in
  static_ok (ex_cfg 1) /\
  rev (enters (glog g)) = [EEnter 0 1 1 2 4; EEnter 0 2 1 2 4; EEnter 0 3 1 2 4; EEnter 1 1 0 1 1] /\
  In (ECall 7 (CTask 0) 4) (glog g) /\ In (ECall 8 (CTask 1) 1) (glog g) /\
  In (ESubmit 0 1 PNormal (HThread 5) 10) (glog g) /\ hint_num (HThread 5) = Some 5%Z /\
  Z.to_nat (5 mod Z.of_nat (pW (ex_cfg 1))) = 2.
Proof. vm_compute. repeat split; try discriminate; try lia; intuition. Qed.
