(* Props/Properties_C10.v — C10: work runs where it was sent (scheduler, pool, hint placement).
   Only statements; each is closed by [exact] of a lemma from Proofs/PlacementProofs.v.
   Model: Model/Placement.v (pools with per-worker normal / high-priority / low-priority queues,
   the hint -> queue computation of create_thread / schedule_thread / schedule_thread_last incl.
   select_active_pu, stealing flag, yield / boost-yield / suspend / resume / yield_to, external
   and in-task submitters; last_worker_thread_num_ with its stores (scheduling loop at the start of
   every phase, do_yield) and its reads (do_resume, set_active_state) as separate atomic steps).  All theorems hold for every pool configuration [cfg], every
   assignment of OS threads to workers [roles], every schedule and every oracle (= every
   program, every interleaving, every queue discipline). *)
From Coq Require Import List ZArith Lia.
From Pika Require Import Base.Conc Model.Placement Proofs.PlacementProofs Model.BulkPlacement Proofs.BulkPlacementProofs.
From Pika Require Model.Bulk Model.IndexQueue.
Import ListNotations.

(* submit_never_inline, step form: whatever thread t does in one atomic step, either no enter
   event is produced, or t is a worker that is idle (no task running on it: cur = None, and not
   inside any create_thread/schedule_thread: pc = Idle) and the task it enters existed and was
   pending BEFORE the step.  In particular a step that submits (ASpawn by a running task, by an
   external thread, or any step inside select_active_pu) only enqueues. *)
Theorem C10_submit_never_inline : forall cfg o t g l,
  let g' := fst (pl_tstep cfg o t g l) in
  enters (glog g') = enters (glog g) \/
  exists p w b tk, lrole l = RWorker p w /\ pc l = Idle /\ cur l = None /\
    get_task g b = Some tk /\ tk_st tk = TPending /\
    glog g' = EEnter b (S (tk_phase tk)) p w t :: glog g.
Proof. exact submit_never_inline_step. Qed.
Print Assumptions C10_submit_never_inline.

(* submit_never_inline, run form: every enter is by the OS thread of the worker it names; every
   callable called inside task a is called by the worker that entered a; callables called
   outside tasks are called by external threads only *)
Theorem C10_enter_by_workers_only : forall cfg roles sched,
  let g := run_g cfg roles sched in
  (forall a ph p w t, In (EEnter a ph p w t) (glog g) -> roles t = RWorker p w) /\
  (forall lbl a t, In (ECall lbl (CTask a) t) (glog g) ->
     exists p w ph, roles t = RWorker p w /\ In (EEnter a ph p w t) (glog g)) /\
  (forall lbl t, In (ECall lbl CExt t) (glog g) -> roles t = RExt).
Proof. exact submit_never_inline_run. Qed.
Print Assumptions C10_enter_by_workers_only.

(* runs_on_own_pool: a task created on the scheduler of pool p0 is entered (in every phase) only
   by workers of pool p0 *)
Theorem C10_runs_on_own_pool : forall cfg roles sched a p0 pr h t0 ph p w t,
  let g := run_g cfg roles sched in
  In (ESubmit a p0 pr h t0) (glog g) -> In (EEnter a ph p w t) (glog g) ->
  p = p0 /\ roles t = RWorker p0 w.
Proof. exact runs_on_own_pool_lemma. Qed.
Print Assumptions C10_runs_on_own_pool.

(* static_hint_pinned.  Hypotheses (each one is necessary, see the three _refuted theorems):
   the pool has a static policy (no stealing), enable_elasticity is off, the scheduler has no
   priority queues or as many high-priority queues as workers, the task is not low priority on
   a priority scheduler, and no thread names the task in this_thread::yield_to.  Then every
   phase (initial queue, re-queue after yield / boost-yield, wake-up after suspension, "still
   active" re-schedule) is entered by worker  size_t(hint) mod W  of the pool.  This includes the
   wake-up of a task whose FIRST phase ends in a suspension and whose waker (do_resume, or the
   "set state for active thread" helper) read the last worker while the task was still running:
   since the repair (the scheduling loop records the worker at the start of every phase) that read
   cannot return "none" any more (before it, this interleaving moved the task: see C10_first_phase_wake_example). *)
Theorem C10_static_hint_pinned : forall cfg roles sched a p pr h t0 u ph p' w t,
  let g := run_g cfg roles sched in
  static_ok (cfg p) -> (pPrio (cfg p) = false \/ pr <> PLow) ->
  In (ESubmit a p pr h t0) (glog g) -> hint_num h = Some u ->
  (forall t', ~ In (EYieldTo a t') (glog g)) ->
  In (EEnter a ph p' w t) (glog g) ->
  p' = p /\ w = Z.to_nat (u mod Z.of_nat (pW (cfg p))) /\ roles t = RWorker p w.
Proof. exact static_hint_pinned_lemma. Qed.
Print Assumptions C10_static_hint_pinned.

(* same hypotheses, any hint (also none: round-robin placement): the task never changes worker *)
Theorem C10_static_same_worker : forall cfg roles sched a p pr h t0 ph1 p1 w1 t1 ph2 p2 w2 t2,
  let g := run_g cfg roles sched in
  static_ok (cfg p) -> (pPrio (cfg p) = false \/ pr <> PLow) ->
  In (ESubmit a p pr h t0) (glog g) -> (forall t', ~ In (EYieldTo a t') (glog g)) ->
  In (EEnter a ph1 p1 w1 t1) (glog g) -> In (EEnter a ph2 p2 w2 t2) (glog g) ->
  p1 = p /\ p2 = p /\ w1 = w2 /\ w1 < pW (cfg p).
Proof. exact static_same_worker_lemma. Qed.
Print Assumptions C10_static_same_worker.

(* continues_on_target: the callables of the task that a transfer to the scheduler of pool p
   creates (the continuation after continues_on(s) / schedule_from, the body after schedule(s),
   transfer_just, execute, a bulk chunk task) are called by a worker of pool p, inside that
   task, which that worker entered *)
Theorem C10_continues_on_target : forall cfg roles sched a p pr h t0 lbl t,
  let g := run_g cfg roles sched in
  In (ESubmit a p pr h t0) (glog g) -> In (ECall lbl (CTask a) t) (glog g) ->
  exists w ph, roles t = RWorker p w /\ In (EEnter a ph p w t) (glog g).
Proof. exact continues_on_target_lemma. Qed.
Print Assumptions C10_continues_on_target.

(* E6 (finding): static policy + enable_elasticity: a hinted submission that loses the try_lock
   on the hinted PU mutex to a concurrent submitter is placed on the next worker *)
Theorem C10_static_hint_elastic_refuted :
  exists cfg roles sched a p h t0 u ph w t,
    let g := run_g cfg roles sched in
    pSteal (cfg p) = false /\ pElastic (cfg p) = true /\ pPrio (cfg p) = false /\ 0 < pW (cfg p) /\
    In (ESubmit a p PNormal h t0) (glog g) /\ hint_num h = Some u /\
    (forall t', ~ In (EYieldTo a t') (glog g)) /\
    In (EEnter a ph p w t) (glog g) /\ w <> Z.to_nat (u mod Z.of_nat (pW (cfg p))).
Proof. exact static_hint_elastic_refuted_lemma. Qed.
Print Assumptions C10_static_hint_elastic_refuted.

(* finding: this_thread::yield_to(id) runs the named task on the caller's worker, all other
   hypotheses of static_hint_pinned hold *)
Theorem C10_static_hint_yield_to_refuted :
  exists cfg roles sched a p h t0 u ph w t,
    let g := run_g cfg roles sched in
    static_ok (cfg p) /\
    In (ESubmit a p PNormal h t0) (glog g) /\ hint_num h = Some u /\
    In (EEnter a ph p w t) (glog g) /\ w <> Z.to_nat (u mod Z.of_nat (pW (cfg p))).
Proof. exact static_hint_yield_to_refuted_lemma. Qed.
Print Assumptions C10_static_hint_yield_to_refuted.

(* finding: static-priority scheduler with fewer high-priority queues than workers: a
   boost-yield (yield_k, k >= 16) re-queues to high-priority queue  w mod H *)
Theorem C10_static_hint_boost_refuted :
  exists cfg roles sched a p h t0 u ph w t,
    let g := run_g cfg roles sched in
    pSteal (cfg p) = false /\ pElastic (cfg p) = false /\ pPrio (cfg p) = true /\ pH (cfg p) < pW (cfg p) /\
    In (ESubmit a p PNormal h t0) (glog g) /\ hint_num h = Some u /\
    (forall t', ~ In (EYieldTo a t') (glog g)) /\
    In (EEnter a ph p w t) (glog g) /\ w <> Z.to_nat (u mod Z.of_nat (pW (cfg p))).
Proof. exact static_hint_boost_refuted_lemma. Qed.
Print Assumptions C10_static_hint_boost_refuted.

(* non-vacuity: pool 0 = local-priority with stealing (2 workers, OS threads 0,1), pool 1 =
   static (3 workers, OS threads 2,3,4); external threads 10, 11.  Task 0 is sent to pool 1 with
   hint 5 (= worker 2), yields, suspends, is woken by thread 11, calls callable 7, transfers
   (continues_on) to pool 0; the continuation (task 1, callable 8) lands in queue 0 of pool 0
   and is stolen by worker 1 of pool 0. *)
Definition ex_cfg : nat -> pool_cfg := fun p =>
  match p with
  | 0 => {| pW := 2; pH := 2; pPrio := true; pSteal := true; pElastic := false; pAvail := fun _ => true |}
  | _ => {| pW := 3; pH := 3; pPrio := false; pSteal := false; pElastic := false; pAvail := fun _ => true |}
  end.
Definition ex_roles : nat -> role := fun t =>
  match t with 0 => RWorker 0 0 | 1 => RWorker 0 1 | 2 => RWorker 1 0 | 3 => RWorker 1 1 | 4 => RWorker 1 2
             | _ => RExt end.
(* [nx]: the second atomic step of a two-step operation (the oracle is not consulted): after a pop
   that entered a task = the scheduling loop stores the last worker and invokes the coroutine; after
   AYield / ASuspend = do_yield has stored the last worker, now the task is switched out; after
   AResume = the last worker of the target has been read, now set_thread_state runs *)
Definition nx : oracle := OAct AEnd.
Definition ex_sched : list (nat * oracle) :=
  [ (10, OAct (ASpawn 1 PNormal (HThread 5)));
    (4, OPop SrcOwnN 0); (4, nx); (4, OAct AYield); (4, nx);
    (2, OPop SrcOwnN 0); (3, OPop (SrcStealN 2) 0);           (* other workers of the static pool get nothing *)
    (4, OPop SrcOwnN 0); (4, nx); (4, OAct ASuspend); (4, nx);
    (11, OAct (AResume 0)); (11, nx);
    (0, OPop (SrcStealN 2) 0);                                 (* a worker of pool 0 cannot reach pool 1's queues *)
    (4, OPop SrcOwnN 0); (4, nx); (4, OAct (ACall 7));
    (4, OAct (ASpawn 0 PNormal HNone)); (4, OAct AEnd);
    (1, OPop (SrcStealN 0) 0); (1, nx); (1, OAct (ACall 8)); (1, OAct AEnd) ].

Example C10_example :
  let g := run_g ex_cfg ex_roles ex_sched in
  static_ok (ex_cfg 1) /\
  rev (enters (glog g)) = [EEnter 0 1 1 2 4; EEnter 0 2 1 2 4; EEnter 0 3 1 2 4; EEnter 1 1 0 1 1] /\
  In (ECall 7 (CTask 0) 4) (glog g) /\ In (ECall 8 (CTask 1) 1) (glog g) /\
  In (ESubmit 0 1 PNormal (HThread 5) 10) (glog g) /\ hint_num (HThread 5) = Some 5%Z /\
  Z.to_nat (5 mod Z.of_nat (pW (ex_cfg 1))) = 2.
Proof. vm_compute. repeat split; try discriminate; try lia; intuition. Qed.

(* the interleaving that moved a task before the repair (a hinted task of a static pool suspends at the
   end of its FIRST phase while the retry helper of an earlier wake-up holds the hint it read during that
   phase): task 0 is hinted to worker 1 of a static pool with two workers (OS threads 0, 1); thread 10 (the
   unlocking side of a contended mutex, do_resume) finds it active and spawns the helper (task 1, queue 0);
   the helper reads the last worker of task 0 while task 0 is still running, task 0 suspends, thread 11
   advances the round-robin counter, the helper's retry re-queues task 0 with the hint it read.  The read
   now returns worker 1 (EWake 0 (Some 1)), so phase 2 is entered on worker 1 again; with the initial value
   "none" it was queue  2 mod 2 = 0. *)
Definition fp_cfg : nat -> pool_cfg := fun _ =>
  {| pW := 2; pH := 2; pPrio := false; pSteal := false; pElastic := false; pAvail := fun _ => true |}.
Definition fp_roles : nat -> role := fun t => if Nat.ltb t 2 then RWorker 0 t else RExt.
Definition fp_sched : list (nat * oracle) :=
  [ (10, OAct (ASpawn 0 PNormal (HThread 1)));
    (1, OPop SrcOwnN 0); (1, nx);                (* first phase on worker 1: pending -> active; store last worker, invoke *)
    (10, OAct (AResume 0)); (10, nx);            (* do_resume: reads the last worker; target active -> helper task 1 *)
    (0, OPop SrcOwnN 0); (0, nx);                (* worker 0 runs the helper (set_active_state) *)
    (0, OAct (AResume 0));                       (* the helper reads the last worker of task 0 for its hint *)
    (1, OAct ASuspend); (1, nx);                 (* the first phase of task 0 ends in a suspension *)
    (11, OAct (ASpawn 0 PNormal HNone));         (* unrelated unhinted submission: curr_queue_ = 2 *)
    (0, nx);                                     (* helper: set_thread_state(pending, hint) finds it suspended *)
    (0, OAct AEnd);
    (0, OPop SrcOwnN 0);                         (* nothing for worker 0 *)
    (1, OPop SrcOwnN 1) ].                       (* worker 1 enters task 0 again (queue 1: task 2, task 0) *)
Example C10_first_phase_wake_example :
  let g := run_g fp_cfg fp_roles fp_sched in
  static_ok (fp_cfg 0) /\
  rev (enters (glog g)) = [EEnter 0 1 0 1 1; EEnter 1 1 0 0 0; EEnter 0 2 0 1 1] /\
  In (EWake 0 (Some 1) 10) (glog g) /\ In (EWake 0 (Some 1) 0) (glog g) /\
  (forall l t, In (EWake 0 l t) (glog g) -> l = Some 1) /\
  In (EEnq 0 (QN 0 1) 0) (glog g).
Proof.
  vm_compute. split; [repeat split; try discriminate; try lia; intuition|]. split; [reflexivity|].
  split; [intuition|]. split; [intuition|]. split; [|intuition].
  intros l t H. repeat (destruct H as [H|H]; [try discriminate H; try (inversion H; reflexivity)|]). contradiction.
Qed.

(* ================================================================== C10 <-> C11: bulk placement
   Model/BulkPlacement.v: bulk_receiver::set_value / do_work_task / do_work_local of
   thread_pool_scheduler_bulk.hpp as a layer over the placement model: [bk_run] performs Placement
   steps only ([pl_tstep]); its ghost state records in which task set_value ran ([bk_sv] = task a0,
   thread t0, local worker number lw), the tasks registered by the spawn loop with their queue number
   ([bk_tasks]) and every invocation of f ([bk_calls]: index, worker_thread k of the calling
   task_function, Placement task, OS thread).  Quantified over every pool configuration, every role
   assignment, every bulk parameter set (pool, priority, scheduler hint, shape) and every schedule
   and oracle: all interleavings of the spawn loop with the workers, all chunk-to-task assignments
   (the index-queue stealing of C11 is left to the oracle), arbitrary other activity. *)

(* bulk_runs_on_pool.  Every invocation f(i) happens inside a pika task, on the OS thread of the
   worker (pw,w) that entered that task, and is one of
   (spawned) called by task_function{k} running as a task that the spawn loop registered (ESubmit by
      the thread t0 that ran set_value) on the scheduler's pool with priority get_priority(scheduler)
      and hint [bulk_task_hint (scheduler hint) k] (= k when the scheduler has no hint), for a k that is
      not the local worker number and whose queue is non-empty; that task is not the task in which
      set_value ran (never inline in set_value, hence never inline in start()), and pw = the
      scheduler's pool;
   (local) called by task_function{lw} INLINE in the task a0 in which set_value ran, lw = the local
      worker number that task had when set_value ran.  This is a task of the scheduler's pool
      exactly when the predecessor completed in a task of that pool (what its advertised completion
      scheduler promises: schedule / schedule_from / continues_on / transfer_just senders of that
      scheduler, and then / bulk / unpack / drop_value which forward it and complete inline).  The
      code does not re-check it (PIKA_ASSERT(get_self_id()) only): see C10_bulk_foreign_predecessor_example. *)
Theorem C10_bulk_runs_on_pool : forall cfg bp roles sched,
  let g := bk_g cfg bp roles sched in
  let b := bk_b cfg bp roles sched in
  forall fc, In fc (bk_calls b) ->
  exists a0 t0 lw pw w ph,
    bk_sv b = Some (a0, t0, lw) /\
    roles (fc_thr fc) = RWorker pw w /\ In (EEnter (fc_task fc) ph pw w (fc_thr fc)) (glog g) /\
    ((fc_task fc <> a0 /\ pw = bp_pool bp /\ fc_k fc <> lw /\ fc_k fc < pW (cfg (bp_pool bp)) /\
      part_nonempty (pW (cfg (bp_pool bp))) (bp_n bp) (fc_k fc) = true /\
      In (ESubmit (fc_task fc) (bp_pool bp) (bp_prio bp) (bulk_task_hint (bp_hint bp) (fc_k fc)) t0) (glog g)) \/
     (fc_task fc = a0 /\ fc_k fc = lw /\
      forall pr0 h0 t00, In (ESubmit a0 (bp_pool bp) pr0 h0 t00) (glog g) -> pw = bp_pool bp)).
Proof. exact bulk_runs_on_pool_lemma. Qed.
Print Assumptions C10_bulk_runs_on_pool.

(* f is never invoked by an external (non-worker) OS thread: not by the thread that called start() /
   sync_wait, not by a thread that merely completed an upstream `just` *)
Theorem C10_bulk_never_external : forall cfg bp roles sched fc,
  In fc (bk_calls (bk_b cfg bp roles sched)) -> roles (fc_thr fc) <> RExt.
Proof. exact bulk_never_external_lemma. Qed.
Print Assumptions C10_bulk_never_external.

(* static (non-stealing) policy, hypotheses of C10_static_hint_pinned: the spawned task_function{k}
   runs on worker  size_t(hint_k) mod W  with hint_k = k, or the scheduler's own hint if it has one *)
Theorem C10_bulk_static_spawned_worker : forall cfg bp roles sched fc a0 t0 lw u pw w,
  let g := bk_g cfg bp roles sched in
  let b := bk_b cfg bp roles sched in
  In fc (bk_calls b) -> bk_sv b = Some (a0, t0, lw) -> fc_task fc <> a0 ->
  static_ok (cfg (bp_pool bp)) -> (pPrio (cfg (bp_pool bp)) = false \/ bp_prio bp <> PLow) ->
  (forall t', ~ In (EYieldTo (fc_task fc) t') (glog g)) ->
  hint_num (bulk_task_hint (bp_hint bp) (fc_k fc)) = Some u ->
  roles (fc_thr fc) = RWorker pw w ->
  pw = bp_pool bp /\ w = Z.to_nat (u mod Z.of_nat (pW (cfg (bp_pool bp)))).
Proof. exact bulk_static_spawned_lemma. Qed.
Print Assumptions C10_bulk_static_spawned_worker.

(* ... in particular, scheduler without a hint: worker task k runs on worker k of the pool
   (this code base has no first_thread offset: (0 + k) mod W = k since k < W) *)
Theorem C10_bulk_static_unhinted_worker : forall cfg bp roles sched fc a0 t0 lw pw w,
  let g := bk_g cfg bp roles sched in
  let b := bk_b cfg bp roles sched in
  In fc (bk_calls b) -> bk_sv b = Some (a0, t0, lw) -> fc_task fc <> a0 ->
  static_ok (cfg (bp_pool bp)) -> (pPrio (cfg (bp_pool bp)) = false \/ bp_prio bp <> PLow) ->
  (forall t', ~ In (EYieldTo (fc_task fc) t') (glog g)) ->
  bp_hint bp = HNone ->
  roles (fc_thr fc) = RWorker pw w ->
  pw = bp_pool bp /\ w = fc_k fc.
Proof. exact bulk_static_unhinted_lemma. Qed.
Print Assumptions C10_bulk_static_unhinted_worker.

(* static policy, local part: when the task in which set_value ran was created on the scheduler's
   pool, task_function{lw} runs on worker lw of that pool in every phase (also after f yields) *)
Theorem C10_bulk_static_local_worker : forall cfg bp roles sched fc a0 t0 lw pr0 h0 t00 pw w,
  let g := bk_g cfg bp roles sched in
  let b := bk_b cfg bp roles sched in
  In fc (bk_calls b) -> bk_sv b = Some (a0, t0, lw) -> fc_task fc = a0 ->
  In (ESubmit a0 (bp_pool bp) pr0 h0 t00) (glog g) ->
  static_ok (cfg (bp_pool bp)) -> (pPrio (cfg (bp_pool bp)) = false \/ pr0 <> PLow) ->
  (forall t', ~ In (EYieldTo a0 t') (glog g)) ->
  roles (fc_thr fc) = RWorker pw w ->
  pw = bp_pool bp /\ w = lw /\ fc_k fc = lw.
Proof. exact bulk_static_local_lemma. Qed.
Print Assumptions C10_bulk_static_local_worker.

(* the acceptor that the harness evaluates on every observed (k, pool, worker) of a real bulk run
   admits everything the model can do (predecessor completing on the scheduler's pool, no yield_to) *)
Theorem C10_bulk_allowed_sound : forall cfg bp roles sched fc a0 t0 lw pr0 h0 t00 pw w,
  let g := bk_g cfg bp roles sched in
  let b := bk_b cfg bp roles sched in
  In fc (bk_calls b) -> bk_sv b = Some (a0, t0, lw) ->
  In (ESubmit a0 (bp_pool bp) pr0 h0 t00) (glog g) ->
  (forall a t', ~ In (EYieldTo a t') (glog g)) ->
  roles (fc_thr fc) = RWorker pw w ->
  bulk_allowed cfg bp pr0 lw (fc_k fc) pw w = true.
Proof. exact bulk_allowed_sound_lemma. Qed.
Print Assumptions C10_bulk_allowed_sound.

(* [part_nonempty] is the `queue.empty()` test of the spawn loop in the C11 model (Model/Bulk.v, BSpawn) *)
Theorem C10_bulk_queue_test_is_C11 : forall W n k c,
  Bulk.get_chunk_size (N.of_nat W) n = Some c ->
  let nc := Bulk.get_num_chunks n c in
  part_nonempty W n k =
  negb (IndexQueue.range_empty (IndexQueue.cur
         (IndexQueue.iq_init (Bulk.part_begin (N.of_nat W) (N.of_nat k) nc) (Bulk.part_end (N.of_nat W) (N.of_nat k) nc)))).
Proof. exact part_nonempty_is_queue_test. Qed.
Print Assumptions C10_bulk_queue_test_is_C11.

(* non-vacuity.  ex_cfg: pool 1 = static, 3 workers (OS threads 2,3,4).  External thread 10 starts
   `schedule(with_hint(s1, 1)) | bulk(3, f)`: task 0 on worker 1 (thread 3) runs set_value (lw = 1), the
   spawn loop registers task 1 (queue 0) and task 2 (queue 2); each task_function calls f once, the
   local one inline in task 0. *)
Definition exb_bp : bulk_par := {| bp_pool := 1; bp_prio := PNormal; bp_hint := HNone; bp_n := 3 |}.
Definition exb_sched : list (nat * boracle) :=
  [ (10, BO (OAct (ASpawn 1 PNormal (HThread 1))));
    (3, BO (OPop SrcOwnN 0)); (3, BO nx); (3, BSetValue); (3, BF 1);  (* f before the loop is over: refused *)
    (3, BLoop); (3, BLoop); (3, BLoop);
    (2, BO (OPop SrcOwnN 0)); (2, BO nx); (4, BO (OPop SrcOwnN 0)); (4, BO nx);
    (4, BF 2); (3, BF 1); (2, BF 0); (10, BF 0);                    (* external thread: refused *)
    (2, BO (OAct AEnd)); (3, BO (OAct AEnd)); (4, BO (OAct AEnd)) ].
Example C10_bulk_example :
  let b := bk_b ex_cfg exb_bp ex_roles exb_sched in
  bk_sv b = Some (0, 3, 1) /\ rev (bk_tasks b) = [(1, 0); (2, 2)] /\
  rev (bk_calls b) = [ {| fc_i := 2; fc_k := 2; fc_task := 2; fc_thr := 4 |};
                       {| fc_i := 1; fc_k := 1; fc_task := 0; fc_thr := 3 |};
                       {| fc_i := 0; fc_k := 0; fc_task := 1; fc_thr := 2 |} ] /\
  static_ok (ex_cfg 1) /\
  map (fun k => part_nonempty 3 3 k) [0; 1; 2] = [true; true; true] /\
  map (fun k => part_nonempty 3 1 k) [0; 1; 2] = [false; false; true] /\     (* bulk(1, f): only queue 2 gets a task *)
  map (fun k => bulk_allowed ex_cfg exb_bp PNormal 1 k 1 k) [0; 1; 2] = [true; true; true] /\
  bulk_allowed ex_cfg exb_bp PNormal 1 0 1 2 = false /\ bulk_allowed ex_cfg exb_bp PNormal 1 0 0 0 = false.
Proof. vm_compute. repeat split; try discriminate; try lia; intuition. Qed.

(* the hypothesis "set_value runs in a task of the scheduler's pool" is needed: if a sender advertises
   pool 1's scheduler as completion scheduler but completes in a task of pool 0 (worker 1, thread 1),
   set_value reads local_worker_thread = 1, skips queue 1 in the spawn loop and calls f inline on pool 0.
   Not reachable with pika's own senders (see the comment of C10_bulk_runs_on_pool); a user-defined
   sender with a wrong get_completion_scheduler would do it. *)
Definition exf_sched : list (nat * boracle) :=
  [ (10, BO (OAct (ASpawn 0 PNormal (HThread 1))));
    (1, BO (OPop SrcOwnN 0)); (1, BO nx); (1, BSetValue); (1, BLoop); (1, BLoop); (1, BLoop); (1, BF 1) ].
Example C10_bulk_foreign_predecessor_example :
  let b := bk_b ex_cfg exb_bp ex_roles exf_sched in
  bk_sv b = Some (0, 1, 1) /\ bk_calls b = [ {| fc_i := 1; fc_k := 1; fc_task := 0; fc_thr := 1 |} ] /\
  ex_roles 1 = RWorker 0 1 /\ bp_pool exb_bp = 1.
Proof. vm_compute. repeat split. Qed.

(* ------------------------------------------------------------------------------------------
   The priority a new task gets (Model/Priority.v): it decides the queue FAMILY, hence on a priority
   scheduler with H < W high-priority queues whether a task hinted to worker h is pushed on queue h
   or on high-priority queue h mod H.  [resolve_priority] interprets the step list that
   tools/genmods/c10.py regenerates from threads::detail::create_work (create_work.cpp) in source
   order, [resolve_priority_thread] the one of threads::detail::create_thread (create_thread.cpp).
   [parent] = stored priority of the submitting pika task, None for a non-pika submitter. *)
From Pika Require Import Gen.GenPriority Model.Priority Proofs.PriorityProofs.

(* an explicitly requested priority is kept, whatever the parent is *)
Theorem C10_explicit_priority_kept : forall requested parent,
  requested <> rp_default_ -> resolve_priority requested parent = requested.
Proof. exact explicit_priority_kept_lemma. Qed.
Print Assumptions C10_explicit_priority_kept.

Theorem C10_explicit_priority_kept_create_thread : forall requested parent,
  requested <> rp_default_ -> resolve_priority_thread requested parent = requested.
Proof. exact explicit_priority_kept_thread_lemma. Qed.
Print Assumptions C10_explicit_priority_kept_create_thread.

(* default_ inherits high_recursive from a high_recursive parent and from nothing else; otherwise
   it is normal (both functions) *)
Theorem C10_default_inherits_only_high_recursive : forall parent,
  resolve_priority rp_default_ parent =
    match parent with Some rp_high_recursive => rp_high_recursive | _ => rp_normal end
  /\ resolve_priority_thread rp_default_ parent =
    match parent with Some rp_high_recursive => rp_high_recursive | _ => rp_normal end.
Proof. exact default_inherits_only_high_recursive_lemma. Qed.
Print Assumptions C10_default_inherits_only_high_recursive.

(* composition with the hint -> queue function of Model/Placement.v: an explicitly normal child
   hinted to worker h < W is pushed on queue h — for every parent priority, every number of
   high-priority queues (pH c is unconstrained), priority scheduler or not *)
Theorem C10_normal_child_queue_is_hinted_queue : forall (c : pool_cfg) p parent h rr,
  h < pW c -> (Z.of_nat (pW c) <= 32767)%Z ->
  child_queue c p rp_normal parent (worker_hint h) rr = QN p h.
Proof. exact normal_child_queue_is_hinted_queue_lemma. Qed.
Print Assumptions C10_normal_child_queue_is_hinted_queue.

(* the parent influences the queue family ONLY through a default_ request *)
Theorem C10_child_queue_parent_independent : forall (c : pool_cfg) p requested parent parent' h rr,
  requested <> rp_default_ ->
  child_queue c p requested parent h rr = child_queue c p requested parent' h rr.
Proof. exact child_queue_parent_independent_lemma. Qed.
Print Assumptions C10_child_queue_parent_independent.

(* ... and what the inheriting child gets on a priority scheduler: high-priority queue h mod H
   (worker h only if h < H: the known finding boost_hp_queues / H < W applies to it) *)
Theorem C10_inherited_child_queue : forall (c : pool_cfg) p h rr,
  h < pW c -> (Z.of_nat (pW c) <= 32767)%Z -> pPrio c = true ->
  child_queue c p rp_default_ (Some rp_high_recursive) (worker_hint h) rr = QH p (h mod pH c).
Proof. exact inherited_child_queue_lemma. Qed.
Print Assumptions C10_inherited_child_queue.

(* non-vacuity / the situation that distinguishes the orders of the resolution steps: static-priority
   pool, W = 4, ONE high-priority queue, submitter high_recursive, hint 3 *)
Definition prio_ex_cfg : pool_cfg :=
  {| pW := 4; pH := 1; pPrio := true; pSteal := false; pElastic := false; pAvail := fun _ => true |}.
Example C10_priority_example :
  g_cw_steps = [SInherit rp_default_ rp_high_recursive rp_high_recursive; SDefault rp_default_ rp_normal] /\
  child_queue prio_ex_cfg 0 rp_normal (Some rp_high_recursive) (worker_hint 3) 0 = QN 0 3 /\
  child_queue prio_ex_cfg 0 rp_default_ (Some rp_high_recursive) (worker_hint 3) 0 = QH 0 0 /\
  child_queue prio_ex_cfg 0 rp_default_ (Some rp_high) (worker_hint 3) 0 = QN 0 3 /\
  child_queue prio_ex_cfg 0 rp_default_ None (worker_hint 3) 0 = QN 0 3 /\
  child_queue prio_ex_cfg 0 rp_high (Some rp_normal) (worker_hint 3) 0 = QH 0 0 /\
  child_queue prio_ex_cfg 0 rp_low (Some rp_high_recursive) (worker_hint 3) 0 = QL 0 /\
  map run_now [rp_normal; rp_low; rp_high; rp_high_recursive; rp_boost] = [false; false; true; true; true].
Proof. vm_compute. repeat split. Qed.
