(* Props/Properties_C06.v — C06: mutexes give mutual exclusion and always hand the lock on.
   Only statements; each is closed by [exact] of a lemma from Proofs/MutexProofs.v.
   Quantification: every number of tasks (every nat is a task), every program (mix of
   lock/try_lock/try_lock_until/unlock, data writes, yields and stale wake-up tokens inside and outside
   critical sections), every schedule and every deadline oracle.  Workers do not appear: the models are
   written against the agent contract of Base/Agent.v, which is all a primitive sees of the scheduler. *)
From Coq Require Import List NArith Bool.
From Pika Require Import Base.Conc Base.Agent Model.Mutex Proofs.MutexProofs Model.RecMutexGen Proofs.RecMutexGenProofs.
Import ListNotations.

(* pika::mutex / timed_mutex: at most one task is between an acquisition (lock, successful try_lock /
   try_lock_until) and its release, in every reachable state; and that task is the recorded owner *)
Theorem C06_mutex_exclusion : forall progs sched t1 t2,
  let c := mx_run sched progs in
  held (snd c t1) = true -> held (snd c t2) = true -> t1 = t2.
Proof. exact mutex_exclusion. Qed.
Print Assumptions C06_mutex_exclusion.

Theorem C06_mutex_owner_iff_held : forall progs sched t,
  let c := mx_run sched progs in held (snd c t) = true <-> owner (fst c) = Some t.
Proof. exact mutex_owner_iff_held. Qed.
Print Assumptions C06_mutex_owner_iff_held.

(* visibility: in the log of every execution each acquisition happens while the lock is free and sees
   exactly the data version left behind by the previous release (0 at the start); releases happen only
   while held; and while the mutex is free the unprotected data still is what the last owner left *)
Theorem C06_cs_visibility : forall progs sched,
  let g := fst (mx_run sched progs) in
  log_ok (mxlog g) /\
  fst (log_state (mxlog g)) = (if owner g then true else false) /\
  (owner g = None -> ver g = snd (log_state (mxlog g))).
Proof. exact cs_visibility. Qed.
Print Assumptions C06_cs_visibility.

(* no unlock is lost: if nothing can move any more and the mutex is free, nobody is blocked in lock()
   (so every task has run its program to the end) *)
Theorem C06_no_lost_unlock : forall progs sched,
  let c := mx_run sched progs in
  mx_stuck (fst c) (snd c) -> owner (fst c) = None ->
  forall t, ~ blocked_in_lock (fst c) (snd c t) t.
Proof. exact no_lost_unlock. Qed.
Print Assumptions C06_no_lost_unlock.

Theorem C06_stuck_free_all_done : forall progs sched,
  let c := mx_run sched progs in
  mx_stuck (fst c) (snd c) -> owner (fst c) = None ->
  forall t, pc (snd c t) = PIdle /\ todo (snd c t) = [].
Proof. exact stuck_free_all_done. Qed.
Print Assumptions C06_stuck_free_all_done.

(* try_lock (from any state): true iff the mutex was free, and then the caller is the owner; false
   leaves owner, queue, agents and data untouched *)
Theorem C06_try_lock_true_iff_owner : forall late t g rest h,
  let r := mx_tstep late t g {| todo := OTry :: rest; pc := PIdle; held := h |} in
  (owner g = None ->
     owner (fst r) = Some t /\ held (snd r) = true /\ mxlog (fst r) = ETry t true (ver g) :: mxlog g) /\
  (owner g <> None ->
     owner (fst r) = owner g /\ held (snd r) = h /\ queue (fst r) = queue g /\
     mxlog (fst r) = ETry t false (ver g) :: mxlog g) /\
  queue (fst r) = queue g /\ ag (fst r) = ag g /\ ver (fst r) = ver g /\
  snd r = mx_pop {| todo := OTry :: rest; pc := PIdle; held := h |} (held (snd r)).
Proof. exact try_lock_true_iff_owner. Qed.
Print Assumptions C06_try_lock_true_iff_owner.

(* try_lock_until after its wait: it reports success only if it made the caller the owner of a free
   mutex; a waiter whose entry is still queued (not notified) reports a timeout and only erases its entry *)
Theorem C06_timed_lock_result : forall late t g td h,
  let l := {| todo := td; pc := PWake; held := h |} in
  let r := mx_tstep late t g l in
  (held (snd r) = true /\ h = false -> owner (fst r) = Some t /\ owner g = None /\ ~ In t (queue g)) /\
  (In t (queue g) -> fst r = mx_set g (owner g) (remove_nat t (queue g)) (ETimed t 0 (ver g)) /\ held (snd r) = h).
Proof. exact timed_lock_result. Qed.
Print Assumptions C06_timed_lock_result.

(* misuse the API promises to detect: lock() by the owner -> deadlock error, unlock() by a non-owner ->
   lock_error; owner, queue, agents and data unchanged *)
Theorem C06_misuse_reported : forall late t g rest h,
  (owner g = Some t ->
     let r := mx_tstep late t g {| todo := OLock :: rest; pc := PIdle; held := h |} in
     fst r = mx_set g (owner g) (queue g) (EDead t) /\ snd r = {| todo := rest; pc := PIdle; held := h |}) /\
  (owner g <> Some t ->
     let r := mx_tstep late t g {| todo := OUnlock :: rest; pc := PIdle; held := h |} in
     fst r = mx_set g (owner g) (queue g) (EErr t) /\ snd r = {| todo := rest; pc := PIdle; held := h |}).
Proof. exact misuse_reported. Qed.
Print Assumptions C06_misuse_reported.

(* spinlock: at most one task inside, and the flag is set while somebody is *)
Theorem C06_spinlock_exclusion : forall progs sched t1 t2,
  let c := sl_run sched progs in
  sl_held (snd c t1) = true -> sl_held (snd c t2) = true -> t1 = t2.
Proof. exact sl_exclusion. Qed.
Print Assumptions C06_spinlock_exclusion.

Theorem C06_spinlock_held_flag : forall progs sched t,
  let c := sl_run sched progs in sl_held (snd c t) = true -> slv (fst c) = true.
Proof. exact sl_held_flag. Qed.
Print Assumptions C06_spinlock_held_flag.

(* recursive mutex: one task, counted re-entrantly *)
Theorem C06_recursive_exclusion : forall progs sched t1 t2,
  let c := rm_run sched progs in
  rdepth (snd c t1) <> 0 -> rdepth (snd c t2) <> 0 -> t1 = t2.
Proof. exact rm_exclusion. Qed.
Print Assumptions C06_recursive_exclusion.

Theorem C06_recursive_count_is_depth : forall progs sched t,
  let c := rm_run sched progs in
  rm_pcv (snd c t) = RIdle -> rdepth (snd c t) <> 0 ->
  rcount (fst c) = N.of_nat (rdepth (snd c t)) /\ rctx (fst c) = Some t /\ rv (fst c) = true.
Proof. exact rm_count_is_depth. Qed.
Print Assumptions C06_recursive_count_is_depth.

(* ---- round p12b: the recursive layer over ANY underlying lock (Model/RecMutexGen.v) ----
   [excl_lock ustep ucall uidle holds ug0 ul0 uin uinv] (Proofs/RecMutexGenProofs.v) is the exclusion interface of an
   underlying lock given as a step machine: an inductive invariant uinv that implies "at most one thread holds", is kept
   by the steps of disciplined callers, lock() returns only with the caller holding, try_lock()'s result is "the caller
   holds now", unlock() by the holder ends with the caller not holding; who holds changes only at the return of a call.
   rg_run is the recursive layer (accesses 620..625 as in rm_tstep) calling into that machine. *)
Theorem C06_recursive_exclusion_any_lock :
  forall (X UG UL UO : Type) (ustep : UO -> nat -> UG -> UL -> UG * UL)
    (ucall : uop X -> UL -> UL) (uidle holds : UL -> bool) (ug0 : UG) (ul0 : nat -> UL)
    (uin : uop X -> UL -> Prop) (uinv : UG -> (nat -> UL) -> Prop),
  excl_lock ustep ucall uidle holds ug0 ul0 uin uinv ->
  forall progs sched t1 t2,
  let c := rg_run X UG UL UO ustep ucall uidle holds ug0 ul0 sched progs in
  rg_owns (snd c t1) -> rg_owns (snd c t2) -> t1 = t2.
Proof. exact recursive_exclusion_any_lock. Qed.
Print Assumptions C06_recursive_exclusion_any_lock.

Theorem C06_recursive_count_is_depth_any_lock :
  forall (X UG UL UO : Type) (ustep : UO -> nat -> UG -> UL -> UG * UL)
    (ucall : uop X -> UL -> UL) (uidle holds : UL -> bool) (ug0 : UG) (ul0 : nat -> UL)
    (uin : uop X -> UL -> Prop) (uinv : UG -> (nat -> UL) -> Prop),
  excl_lock ustep ucall uidle holds ug0 ul0 uin uinv ->
  forall progs sched,
  let c := rg_run X UG UL UO ustep ucall uidle holds ug0 ul0 sched progs in
  (forall t, g_pc (snd c t) = GIdle -> gdepth (snd c t) <> 0 ->
     gcount (fst c) = N.of_nat (gdepth (snd c t)) /\ gctx (fst c) = Some t /\
     holds (gul (snd c t)) = true /\ forall u, holds (gul (snd c u)) = true -> u = t) /\
  ((forall t, ~ rg_owns (snd c t)) ->
     gcount (fst c) = 0%N /\ gctx (fst c) = None /\ forall u, holds (gul (snd c u)) = false).
Proof. exact recursive_count_is_depth_any_lock. Qed.
Print Assumptions C06_recursive_count_is_depth_any_lock.

(* the layer is a disciplined caller of the underlying lock: inside lock()/try_lock() it does not hold, inside unlock()
   it holds, otherwise no underlying call is in progress *)
Theorem C06_recursive_layer_disciplined_any_lock :
  forall (X UG UL UO : Type) (ustep : UO -> nat -> UG -> UL -> UG * UL)
    (ucall : uop X -> UL -> UL) (uidle holds : UL -> bool) (ug0 : UG) (ul0 : nat -> UL)
    (uin : uop X -> UL -> Prop) (uinv : UG -> (nat -> UL) -> Prop),
  excl_lock ustep ucall uidle holds ug0 ul0 uin uinv ->
  forall progs sched t,
  let c := rg_run X UG UL UO ustep ucall uidle holds ug0 ul0 sched progs in
  match g_pc (snd c t) with
  | GLock => uin ULock (gul (snd c t)) /\ holds (gul (snd c t)) = false
  | GTry => uin UTry (gul (snd c t)) /\ holds (gul (snd c t)) = false
  | GRel => uin UUnlock (gul (snd c t)) /\ holds (gul (snd c t)) = true
  | GEnv => exists x, uin (UEnv x) (gul (snd c t))
  | _ => uidle (gul (snd c t)) = true
  end.
Proof. exact recursive_layer_disciplined_any_lock. Qed.
Print Assumptions C06_recursive_layer_disciplined_any_lock.

(* both existing lock models satisfy the interface with their existing invariants *)
Theorem C06_spinlock_is_exclusion_lock :
  excl_lock sl_tstep sl_ucall sl_uidle sl_held sl_init sl_ul0 sl_uin sl_inv.
Proof. exact sl_is_excl_lock. Qed.
Print Assumptions C06_spinlock_is_exclusion_lock.

Theorem C06_mutex_is_exclusion_lock :
  excl_lock mx_tstep mx_ucall mx_uidle held mx_init mx_ul0 mx_uin mx_inv.
Proof. exact mx_is_excl_lock. Qed.
Print Assumptions C06_mutex_is_exclusion_lock.

(* instance: recursive_mutex_impl<spinlock> *)
Theorem C06_recursive_over_spinlock_exclusion : forall progs sched t1 t2,
  let c := rsl_run sched progs in
  rg_owns (snd c t1) -> rg_owns (snd c t2) -> t1 = t2.
Proof. exact rsl_exclusion. Qed.
Print Assumptions C06_recursive_over_spinlock_exclusion.

Theorem C06_recursive_over_spinlock_depth : forall progs sched,
  let c := rsl_run sched progs in
  (forall t, g_pc (snd c t) = GIdle -> gdepth (snd c t) <> 0 ->
     gcount (fst c) = N.of_nat (gdepth (snd c t)) /\ gctx (fst c) = Some t /\
     slv (gu (fst c)) = true /\ slholder (gu (fst c)) = Some t) /\
  ((forall t, ~ rg_owns (snd c t)) ->
     gcount (fst c) = 0%N /\ gctx (fst c) = None /\ forall u, sl_held (gul (snd c u)) = false).
Proof. exact rsl_depth. Qed.
Print Assumptions C06_recursive_over_spinlock_depth.

(* the spinlock instance IS the model the lock-step harness replays on the real recursive_mutex_impl<spinlock>:
   every run of rm_tstep is the image (rsl_abs_g / rsl_abs_l) of the instance's run on the same schedule *)
Theorem C06_recursive_spinlock_instance_is_rm : forall progs sched,
  let c := rsl_run sched (fun t => map rg_of_rm (progs t)) in
  let c' := rm_run sched progs in
  fst c' = rsl_abs_g (fst c) /\ forall t, snd c' t = rsl_abs_l (snd c t).
Proof. exact rsl_is_rm. Qed.
Print Assumptions C06_recursive_spinlock_instance_is_rm.

(* instance: recursive_mutex_impl<pika::mutex> on tasks (mx_tstep with its waiter queue, agent suspend / resume; user
   code between the calls yields, receives stale wake-up tokens, writes unprotected data) *)
Theorem C06_recursive_over_mutex_exclusion : forall progs sched t1 t2,
  let c := rmx_run sched progs in
  rg_owns (snd c t1) -> rg_owns (snd c t2) -> t1 = t2.
Proof. exact rmx_exclusion. Qed.
Print Assumptions C06_recursive_over_mutex_exclusion.

Theorem C06_recursive_over_mutex_depth : forall progs sched,
  let c := rmx_run sched progs in
  (forall t, g_pc (snd c t) = GIdle -> gdepth (snd c t) <> 0 ->
     gcount (fst c) = N.of_nat (gdepth (snd c t)) /\ gctx (fst c) = Some t /\ owner (gu (fst c)) = Some t) /\
  ((forall t, ~ rg_owns (snd c t)) ->
     gcount (fst c) = 0%N /\ gctx (fst c) = None /\ owner (gu (fst c)) = None).
Proof. exact rmx_depth. Qed.
Print Assumptions C06_recursive_over_mutex_depth.

Theorem C06_recursive_over_mutex_owner_iff_owns : forall progs sched t,
  let c := rmx_run sched progs in owner (gu (fst c)) = Some t <-> rg_owns (snd c t).
Proof. exact rmx_owner_iff_owns. Qed.
Print Assumptions C06_recursive_over_mutex_owner_iff_owns.

(* the layer never provokes the errors pika::mutex reports for misuse (lock by the owner: deadlock, unlock by a
   non-owner: lock_error): no EDead / EErr event is ever logged by the underlying mutex *)
Theorem C06_recursive_over_mutex_no_misuse_error : forall progs sched e,
  In e (mxlog (gu (fst (rmx_run sched progs)))) -> mx_is_error e = false.
Proof. exact rmx_no_misuse_error. Qed.
Print Assumptions C06_recursive_over_mutex_no_misuse_error.

(* no unlock of the recursive mutex is lost: if nothing can move and the underlying mutex is free, nobody is blocked in
   lock(); with balanced programs (a task that finished has released every level) a stuck state is a finished state;
   and rmx_stuck is exactly "nothing can move": any other task changes the state with its next step *)
Theorem C06_recursive_over_mutex_no_lost_unlock : forall progs sched,
  let c := rmx_run sched progs in
  rmx_stuck (fst c) (snd c) -> owner (gu (fst c)) = None ->
  forall t, ~ rmx_blocked_in_lock (fst c) (snd c t) t.
Proof. exact rmx_no_lost_unlock. Qed.
Print Assumptions C06_recursive_over_mutex_no_lost_unlock.

Theorem C06_recursive_over_mutex_stuck_balanced_all_done : forall progs sched,
  let c := rmx_run sched progs in
  rmx_stuck (fst c) (snd c) -> (forall t, rmx_finished (snd c t) -> gdepth (snd c t) = 0) ->
  forall t, rmx_finished (snd c t).
Proof. exact rmx_stuck_balanced_all_done. Qed.
Print Assumptions C06_recursive_over_mutex_stuck_balanced_all_done.

Theorem C06_recursive_over_mutex_enabled_unless_stuck : forall progs sched o t,
  let c := rmx_run sched progs in
  ~ rmx_finished (snd c t) -> ~ rmx_blocked_in_lock (fst c) (snd c t) t ->
  rmx_tstep o t (fst c) (snd c t) <> (fst c, snd c t).
Proof. exact rmx_enabled_unless_stuck_run. Qed.
Print Assumptions C06_recursive_over_mutex_enabled_unless_stuck.

(* ---- non-vacuity ---- *)
(* three tasks: 0 locks, writes, yields inside the critical section, unlocks; 1 blocks in lock() and is
   handed the mutex; 2 try_locks while it is owned (false), later misuses unlock.  The run ends stuck
   with the mutex free and everybody finished. *)
Example C06_example_handoff :
  let progs := fun t => match t with
     | 0 => [OLock; OWrite; OYield; OWrite; OUnlock]
     | 1 => [OLock; OWrite; OUnlock]
     | 2 => [OTry; OUnlock]
     | _ => [] end in
  let s := [(0,false);(1,false);(2,false);(1,false);(1,false);(0,false);(0,false);(0,false);(2,false);
            (0,false);(1,false);(1,false);(1,false)] in
  let c := mx_run s progs in
  rev (mxlog (fst c)) =
    [EAcq 0 0; EWait 1; ETry 2 false 0; EErr 2; ERel 0 2 1; EAcq 1 2; ERel 1 3 0] /\
  owner (fst c) = None /\ ver (fst c) = 3%N /\ queue (fst c) = [] /\
  todo (snd c 0) = [] /\ todo (snd c 1) = [] /\ todo (snd c 2) = [].
Proof. vm_compute. repeat split. Qed.

(* a stale token makes lock()'s wait return spuriously; the loop re-tests the owner and waits again *)
Example C06_example_spurious :
  let progs := fun t => match t with 0 => [OLock] | 1 => [OSpur; OLock] | _ => [] end in
  let c := mx_run [(0,false);(1,false);(1,false);(1,false);(1,false)] progs in
  rev (mxlog (fst c)) = [EAcq 0 0; EWait 1; EWait 1] /\ queue (fst c) = [1] /\ pc (snd c 1) = PPre.
Proof. vm_compute. repeat split. Qed.

(* timed lock: notified before the deadline and the mutex free -> acquired; not notified -> timeout *)
Example C06_example_timed :
  let progs := fun t => match t with 0 => [OLock; OUnlock] | 1 => [OTimed] | 2 => [OTimed] | _ => [] end in
  let c := mx_run [(0,false);(1,false);(2,false);(2,true);(2,false);(0,false);(1,true);(1,false)] progs in
  rev (mxlog (fst c)) = [EAcq 0 0; ETWait 1; ETWait 2; ETimed 2 0 0; ERel 0 0 1; ETimed 1 2 0] /\
  owner (fst c) = Some 1.
Proof. vm_compute. repeat split. Qed.

Example C06_example_recursive :
  let progs := fun t => match t with 0 => [RLock; RLock; RUnlock; RUnlock] | 1 => [RTry; RLock] | _ => [] end in
  let u := tt in
  let c := rm_run [(0,u);(0,u);(0,u);(0,u);(0,u);(1,u);(1,u);(0,u);(0,u);(0,u);(0,u);(0,u);(0,u);(1,u);(1,u);(1,u);(1,u);(1,u)] progs in
  map (fun e => (rm_tid e, rm_res e, rm_cnt e)) (rev (rmlog (fst c))) =
    [(0,true,1%N);(1,false,0%N);(0,true,2%N);(0,true,1%N);(0,true,0%N);(1,true,1%N)] /\
  rdepth (snd c 1) = 1 /\ rctx (fst c) = Some 1.
Proof. vm_compute. repeat split. Qed.

(* recursive_mutex_impl<pika::mutex>: task 0 locks twice (depth 2), task 1 (carrying a stale wake-up token) calls lock():
   its first suspend returns spuriously, the underlying lock() re-tests, queues again and blocks; task 0 yields inside
   the critical section, unlocks twice (the second one releases the underlying mutex and hands it on), task 1 wakes,
   acquires and publishes itself *)
Example C06_example_recursive_over_mutex :
  let progs := fun t => match t with
     | 0 => [GOLock; GOLock; GOEnv EYield; GOUnlock; GOUnlock]
     | 1 => [GOEnv ESpur; GOLock; GOUnlock]
     | _ => [] end in
  let f := false in
  let s1 := [(0,f);(0,f);(0,f);(0,f);(0,f);(0,f); (1,f);(1,f);(1,f);(1,f);(1,f);(1,f);(1,f);(1,f);(1,f)] in
  let s2 := s1 ++ [(0,f);(0,f);(0,f);(0,f);(0,f);(0,f)] in
  let s3 := s2 ++ [(1,f);(1,f);(1,f)] in
  let show := fun c : rg_shared mx_shared * locals (rg_local mx_env mx_local) =>
    (gcount (fst c), gctx (fst c), owner (gu (fst c)), queue (gu (fst c)), rev (mxlog (gu (fst c))),
     (g_pc (snd c 0), gdepth (snd c 0)), (g_pc (snd c 1), gdepth (snd c 1), pc (gul (snd c 1)), blocked (ag (gu (fst c)) 1))) in
  show (rmx_run s1 progs) =
    (2%N, Some 0, Some 0, [1], [EAcq 0 0; EWait 1; EWait 1], (GIdle, 2), (GLock, 0, PSusp, true)) /\
  show (rmx_run s2 progs) =
    (0%N, None, None, [], [EAcq 0 0; EWait 1; EWait 1; ERel 0 0 1], (GIdle, 0), (GLock, 0, PSusp, false)) /\
  show (rmx_run s3 progs) =
    (1%N, Some 1, Some 1, [], [EAcq 0 0; EWait 1; EWait 1; ERel 0 0 1; EAcq 1 0], (GIdle, 0), (GIdle, 1, PIdle, false)) /\
  map (fun e => (rm_tid e, rm_kind e, rm_res e, rm_cnt e)) (rev (glog (fst (rmx_run s3 progs)))) =
    [(0, RLock, true, 1%N); (0, RLock, true, 2%N); (0, RUnlock, true, 1%N); (0, RUnlock, true, 0%N); (1, RLock, true, 1%N)].
Proof. vm_compute. repeat split. Qed.

(* the same program shape on the spinlock instance; its abstraction is the run of rm_tstep (C06_example_recursive) *)
Example C06_example_recursive_over_spinlock :
  let progs := fun t => match t with 0 => [RLock; RLock; RUnlock; RUnlock] | 1 => [RTry; RLock] | _ => [] end in
  let u := tt in
  let s := [(0,u);(0,u);(0,u);(0,u);(0,u);(1,u);(1,u);(0,u);(0,u);(0,u);(0,u);(0,u);(0,u);(1,u);(1,u);(1,u);(1,u);(1,u)] in
  let c := rsl_run s (fun t => map rg_of_rm (progs t)) in
  map (fun e => (rm_tid e, rm_res e, rm_cnt e)) (rev (glog (fst c))) =
    [(0,true,1%N);(1,false,0%N);(0,true,2%N);(0,true,1%N);(0,true,0%N);(1,true,1%N)] /\
  gdepth (snd c 1) = 1 /\ gctx (fst c) = Some 1 /\ slholder (gu (fst c)) = Some 1 /\
  rsl_abs_g (fst c) = fst (rm_run s progs).
Proof. vm_compute. repeat split. Qed.
