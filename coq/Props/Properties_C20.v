(* Props/Properties_C20.v — C20: MPI requests complete their sender exactly once, after the transfer.
   Only statements; each is closed by [exact] of a lemma from Proofs/MpiProofs.v.
   PART A (poller, Model/Mpi.v over Base/Conc.v): every schedule [list (nat * oracle)] of any number of
   submitting and polling threads, the MPI library as an oracle (OMpi completes a request at any time,
   tests report only completed requests, concurrent queues hand out any element or spuriously nothing).
   The ghost log is newest first.  PART B: one transform_mpi operation under every completion mode and
   every environment event sequence (the poller's contract: the callback runs at most once).
   PART C: start_polling/stop_polling pairs.
   NOT covered (property is claimed partial): MPI's own progress, the visibility of received data,
   liveness of the poller (that somebody keeps polling).
   PART D (poll_singlethreaded, Model/Mpi.v [sstep]): every schedule [list (nat * soracle)] whose steps are all
   taken by ONE OS thread ([one_thread t0 sched]: register_polling installs this poller only for a polling pool
   with one worker - C20_single_mode_one_worker - and non-inline requests are transferred to it), every inline-registration predicate [inl] (which callbacks call
   add_request_callback from inside their body); the no-reallocation theorem needs [no_inline_add inl],
   which holds for the callbacks transform_mpi registers (notes/design/C20.md). *)
From Coq Require Import List Arith NArith Bool.
From Pika Require Import Base.Conc Gen.GenMpi Model.Mpi Proofs.MpiProofs Proofs.MpiSingleProofs.
Import ListNotations.

(* each registered request's callback is invoked at most once, it is the callback that was registered
   with that request, and only registered requests are called back *)
Theorem C20_mpi_callback_once : forall sched,
  let lg := mlog (fst (m_run sched)) in
  NoDup (calls lg) /\ forall c r e, In (EvCall c r e) lg -> c = r /\ In (EvReg r) lg.
Proof. exact mpi_callback_once. Qed.
Print Assumptions C20_mpi_callback_once.

(* ... only after a test reported the request complete, which happens only after MPI completed it, and
   the error flag passed to the callback is MPI's *)
Theorem C20_mpi_after_complete : forall sched l1 l2 c r e,
  mlog (fst (m_run sched)) = l1 ++ EvCall c r e :: l2 ->
  In (EvTest r) l2 /\ In (EvDone r e) l2 /\ ~ In r (calls l2).
Proof. exact mpi_after_complete. Qed.
Print Assumptions C20_mpi_after_complete.

Theorem C20_mpi_test_after_done : forall sched l1 l2 r,
  mlog (fst (m_run sched)) = l1 ++ EvTest r :: l2 -> exists e, In (EvDone r e) l2.
Proof. exact mpi_test_after_done. Qed.
Print Assumptions C20_mpi_test_after_done.

(* all_in_flight_ = queued + non-null in the vector + ready + the requests in the hands of a thread
   (incremented but not yet enqueued / dequeued from ready but not yet decremented), in EVERY reachable state *)
Theorem C20_in_flight_exact : forall sched,
  let g := fst (m_run sched) in
  in_flight g = cnt transient_stage (stage g) (next_req g) + length (rq g) + nonnull (vreq g) + length (ready g).
Proof. exact in_flight_exact. Qed.
Print Assumptions C20_in_flight_exact.

(* ... which is the formula of the design whenever no thread is in one of the two windows *)
Theorem C20_in_flight_exact_quiescent : forall sched,
  let g := fst (m_run sched) in
  no_transient (snd (m_run sched)) ->
  in_flight g = length (rq g) + nonnull (vreq g) + length (ready g).
Proof. exact in_flight_exact_quiescent. Qed.
Print Assumptions C20_in_flight_exact_quiescent.

(* compaction keeps the request/callback pairing, the surviving requests and their order, and leaves no null slot *)
Theorem C20_compact_preserves : forall rs cs, Forall2 pairP rs cs ->
  Forall2 pairP (fst (compact rs cs)) (snd (compact rs cs)) /\
  somes (fst (compact rs cs)) = somes rs /\ ~ In None (fst (compact rs cs)).
Proof. exact compact_preserves. Qed.
Print Assumptions C20_compact_preserves.

(* compact_vectors as the code runs it (first loop [first_null], second loop [compact_loop] with read index i
   and write index pos, two resize(pos)) computes the specification [compact] whenever the two vectors have
   the same size.  [compact_inplace] supplies its own fuel size-(pos+1), the iteration count of the for loop;
   C20_compact_inplace_fuel shows that the bound does not truncate the loop. *)
Theorem C20_compact_inplace_correct : forall rs cs, length rs = length cs -> compact_inplace rs cs = compact rs cs.
Proof. exact compact_inplace_correct. Qed.
Print Assumptions C20_compact_inplace_correct.

Theorem C20_compact_inplace_fuel : forall rs cs k,
  let pos := first_null 0 rs in
  compact_loop (length rs - (pos + 1) + k) (pos + 1) pos rs cs = compact_loop (length rs - (pos + 1)) (pos + 1) pos rs cs.
Proof. exact compact_inplace_fuel. Qed.
Print Assumptions C20_compact_inplace_fuel.

(* hence C20_compact_preserves holds of the in-place algorithm ... *)
Theorem C20_compact_inplace_preserves : forall rs cs, Forall2 pairP rs cs ->
  Forall2 pairP (fst (compact_inplace rs cs)) (snd (compact_inplace rs cs)) /\
  somes (fst (compact_inplace rs cs)) = somes rs /\ ~ In None (fst (compact_inplace rs cs)).
Proof. exact compact_inplace_preserves. Qed.
Print Assumptions C20_compact_inplace_preserves.

(* ... and in every reachable state the PCompact step of the model (written with [compact]) yields exactly
   the vectors the in-place loop yields *)
Theorem C20_compact_step_is_inplace : forall sched,
  let g := fst (m_run sched) in compact_inplace (vreq g) (vcb g) = compact (vreq g) (vcb g).
Proof. exact compact_step_is_inplace. Qed.
Print Assumptions C20_compact_step_is_inplace.

(* Every intermediate state (read index i, write index pos, requests_ = rs, callbacks_ = cs) of the second
   loop, for vectors (rs0, cs0) at entry related slot by slot by ANY relation P (P := pairP: the callback of
   slot k belongs to the request of slot k):
   the write index is strictly behind the read index, the sizes do not change, the two vectors are STILL
   related slot by slot (a request never sits next to a foreign callback, also in the stale slots between pos
   and i), the written prefix is the compaction of what has been read, and everything from the read index on
   is untouched — so the loop never reads a slot it has overwritten or moved from
   ([callbacks_[pos] = std::move(callbacks_[i])] leaves slot i moved-from; the model keeps a copy there, which
   by this theorem is never read again and is cut off by resize). *)
Theorem C20_compact_inplace_aligned : forall (P : option req -> req * req -> Prop) rs0 cs0,
  Forall2 P rs0 cs0 ->
  forall i pos rs cs, In (i, (pos, rs, cs)) (compact_inplace_trace rs0 cs0) ->
  pos < i /\ length rs = length rs0 /\ length cs = length cs0 /\
  Forall2 P rs cs /\
  (firstn pos rs, firstn pos cs) = compact (firstn i rs0) (firstn i cs0) /\
  skipn i rs = skipn i rs0 /\ skipn i cs = skipn i cs0.
Proof. exact compact_inplace_aligned_in. Qed.
Print Assumptions C20_compact_inplace_aligned.

(* [compact_inplace_trace] is the trace of the loop [compact_inplace] runs: its last entry is the loop's exit
   state; if there is a null slot it has one entry per loop head and ends with read index = size *)
Theorem C20_compact_trace_is_loop : forall rs cs d,
  snd (last (compact_inplace_trace rs cs) d) =
  compact_loop (length rs - (first_null 0 rs + 1)) (first_null 0 rs + 1) (first_null 0 rs) rs cs.
Proof. exact compact_inplace_trace_last. Qed.
Print Assumptions C20_compact_trace_is_loop.

Theorem C20_compact_runs_to_end : forall rs cs,
  length rs = length cs -> first_null 0 rs < length rs ->
  length (compact_inplace_trace rs cs) = length rs - first_null 0 rs /\
  fst (last (compact_inplace_trace rs cs) (0, (0, [], []))) = length rs.
Proof. exact compact_inplace_runs_to_end. Qed.
Print Assumptions C20_compact_runs_to_end.

(* in every reachable state the two vectors are aligned slot by slot, hold no request twice, and contain
   a null slot only while a poller holds the lock *)
Theorem C20_vectors_paired : forall sched,
  let g := fst (m_run sched) in
  Forall2 pairP (vreq g) (vcb g) /\ NoDup (somes (vreq g)) /\ (lock g = None -> ~ In None (vreq g)).
Proof. exact vectors_paired. Qed.
Print Assumptions C20_vectors_paired.

(* the lock scope of poll_multithreaded is exclusive (this is what makes one critical-section step atomic) *)
Theorem C20_poll_mutex : forall sched t1 t2,
  let ls := snd (m_run sched) in in_cs (ls t1) = true -> in_cs (ls t2) = true -> t1 = t2.
Proof. exact poll_mutex. Qed.
Print Assumptions C20_poll_mutex.

(* from registration until its callback has been invoked a request keeps the global activity count
   positive: pika::wait() and shutdown (which wait for the count to reach zero, C05) cannot return *)
Theorem C20_wait_covers_mpi : forall sched r,
  let g := fst (m_run sched) in
  In (EvReg r) (mlog g) -> ~ In r (calls (mlog g)) -> 1 <= activity g /\ active_stage (stage g r) = true.
Proof. exact wait_covers_mpi. Qed.
Print Assumptions C20_wait_covers_mpi.

(* balanced enable/disable, data side: at the point where stop_polling is legal (all threads outside the MPI
   code, counter zero) the poller is back in its initial state *)
Theorem C20_polling_clean_at_zero : forall sched,
  let g := fst (m_run sched) in
  (forall t, snd (m_run sched) t = Idle) -> in_flight g = 0 ->
  rq g = [] /\ vreq g = [] /\ vcb g = [] /\ ready g = [] /\ lock g = None.
Proof. exact polling_clean_at_zero. Qed.
Print Assumptions C20_polling_clean_at_zero.

(* balanced enable/disable, registration side *)
Theorem C20_polling_balanced : forall ops, balanced 0 ops = true ->
  p_fn (p_run ops) = None /\ p_depth (p_run ops) = 0.
Proof. exact polling_balanced. Qed.
Print Assumptions C20_polling_balanced.

Theorem C20_polling_enabled_iff : forall pool w m,
  p_fn (p_run [PStart pool w m]) = match m_method m with YieldWhile => None | _ => Some (single_thread_mode pool w m) end.
Proof. exact polling_enabled_iff. Qed.
Print Assumptions C20_polling_enabled_iff.

(* start_polling on a pool with w OS threads installs poll_singlethreaded (and makes add_request_callback push
   straight into the unlocked vectors) only if w = 1: the hypothesis [one_thread] of PART D is enforced by
   register_polling.  Before the repair (single_thread_mode_ = can_run_singlethreaded(mode), whatever the pool)
   start_polling(handler, "a pool with two workers") ran the lock-free poller on both workers: the translator then
   emits single_mode_one_worker = false and this theorem no longer type-checks; the witness is
   C20_single_second_thread_wrong_callback below, replayed on the real code by `c20_mpi mtpool`. *)
Theorem C20_single_mode_one_worker : forall pool w m,
  p_fn (p_run [PStart pool w m]) = Some true -> w = 1.
Proof. exact single_mode_polling_fn. Qed.
Print Assumptions C20_single_mode_one_worker.

(* every path through receiver::set_value (dispatch, trigger, the four handler methods, the callbacks)
   signals the downstream receiver at most once, exactly once when the operation is done, and set_value
   only after an MPI test reported completion.  [tm_run_cur] takes the shape of set_value from the
   translated source (GenMpi.trigger_guarded); before the fix of F17 this theorem was false. *)
Theorem C20_transform_mpi_one_signal : forall m evs,
  let s := tm_run_cur m evs in
  length (t_sigs s) <= 1 /\ (t_pc s = TDone <-> length (t_sigs s) = 1) /\
  (In SigValue (t_sigs s) -> t_tested s = true).
Proof. exact transform_mpi_one_signal. Qed.
Print Assumptions C20_transform_mpi_one_signal.

(* every mode does complete when the environment cooperates (non-vacuity of the above for all 32 modes) *)
Theorem C20_transform_mpi_completes : forall m err, In m all_modes ->
  t_pc (tm_run_cur m (tm_happy m err)) = TDone /\
  t_sigs (tm_run_cur m (tm_happy m err)) =
    [if err && negb (match m_method m with YieldWhile => true | _ => false end) then SigError else SigValue].
Proof. exact tm_completes. Qed.
Print Assumptions C20_transform_mpi_completes.

(* the guard introduced by the fix is necessary: without it the error-status path signals twice (F17) *)
Theorem C20_unguarded_double_signal : forall m,
  t_sigs (tm_run false m [EDispatch DErr; EPoll false]) = [SigValue; SigError] /\
  t_tested (tm_run false m [EDispatch DErr; EPoll false]) = false.
Proof. exact tm_unguarded_double_signal. Qed.
Print Assumptions C20_unguarded_double_signal.

(* non-vacuity: two submitters and two pollers (thread 3 fails the try_lock once); request 1 completes
   first and with an error; both callbacks run, each once, after their tests; everything drains *)
Example C20_example :
  let sched := [(0, OSubmit); (0, ONoTest); (0, ONoTest); (1, OSubmit); (1, ONoTest); (1, ONoTest);
     (2, OPoll); (2, ONoTest); (2, ONoTest); (2, OPick 1); (3, OPoll); (3, ONoTest); (3, ONoTest);
     (2, OPick 0); (2, OPick 0); (5, OMpi 1 true); (2, OTest 0 0); (2, OTest 0 1); (5, OMpi 0 false);
     (2, ONoTest); (2, OPick 0); (2, OTest 0 1); (2, ONoTest); (2, OPick 0); (2, ONoTest); (2, ONoTest);
     (3, OPoll); (3, ONoTest); (3, ONoTest); (3, ONoTest);
     (2, OPick 0); (2, ONoTest); (2, ONoTest); (2, ONoTest); (2, OPick 0); (3, OPick 0); (3, ONoTest)] in
  let g := fst (m_run sched) in
  mlog g = [EvCall 0 0 false; EvCall 1 1 true; EvTest 0; EvDone 0 false; EvTest 1; EvDone 1 true; EvReg 1; EvReg 0] /\
  in_flight g = 0 /\ activity g = 0 /\ vreq g = [] /\ rq g = [] /\ ready g = [] /\ lock g = None /\
  snd (m_run sched) 2 = Idle /\ snd (m_run sched) 3 = Idle.
Proof. vm_compute. repeat split. Qed.

(* the in-place compaction of the code (read index / write index) agrees with [compact] on a sample *)
Example C20_compact_inplace_example :
  let rs := [Some 4; None; Some 7; None; None; Some 9; Some 2; None] in
  let cs := [(4,4); (1,1); (7,7); (3,3); (5,5); (9,9); (2,2); (8,8)] in
  compact_inplace rs cs = compact rs cs /\ compact rs cs = ([Some 4; Some 7; Some 9; Some 2], [(4,4); (7,7); (9,9); (2,2)]).
Proof. vm_compute. split; reflexivity. Qed.

(* the intermediate states of that run: first null at 1, so i starts at 2 and pos at 1 *)
Example C20_compact_trace_example :
  let rs := [Some 4; None; Some 7; None; Some 9] in
  let cs := [(4,4); (1,1); (7,7); (3,3); (9,9)] in
  compact_inplace_trace rs cs =
  [(2, (1, [Some 4; None; Some 7; None; Some 9], [(4,4); (1,1); (7,7); (3,3); (9,9)]));
   (3, (2, [Some 4; Some 7; Some 7; None; Some 9], [(4,4); (7,7); (7,7); (3,3); (9,9)]));
   (4, (2, [Some 4; Some 7; Some 7; None; Some 9], [(4,4); (7,7); (7,7); (3,3); (9,9)]));
   (5, (3, [Some 4; Some 7; Some 9; None; Some 9], [(4,4); (7,7); (9,9); (3,3); (9,9)]))] /\
  compact_inplace rs cs = ([Some 4; Some 7; Some 9], [(4,4); (7,7); (9,9)]).
Proof. vm_compute. split; reflexivity. Qed.

(* no null slot: the loop does not run, nothing is cut *)
Example C20_compact_no_null_example :
  compact_inplace [Some 1; Some 2] [(1,1); (2,2)] = ([Some 1; Some 2], [(1,1); (2,2)]) /\
  compact_inplace_trace [Some 1; Some 2] [(1,1); (2,2)] = [(3, (2, [Some 1; Some 2], [(1,1); (2,2)]))].
Proof. vm_compute. split; reflexivity. Qed.

(* the length hypothesis of C20_compact_inplace_correct is needed (the C++ would index out of bounds) *)
Example C20_compact_inplace_needs_length :
  compact_inplace [Some 1; Some 2] [(1,1)] <> compact [Some 1; Some 2] [(1,1)].
Proof. vm_compute. discriminate. Qed.

(* ------------------------------------------------------------------ PART D: poll_singlethreaded *)
(* each registered request's callback is invoked at most once, it is the callback registered with that
   request (the function object found IN PLACE in callbacks_[idx] at the moment of the call), and only
   registered requests are called back — for one polling thread, whatever the callbacks register inline *)
Theorem C20_single_callback_once : forall inl t0 sched, one_thread t0 sched ->
  let lg := mlog (fst (s_run inl sched)) in
  NoDup (calls lg) /\ forall c r e, In (EvCall c r e) lg -> c = r /\ In (EvReg r) lg.
Proof. exact single_callback_once. Qed.
Print Assumptions C20_single_callback_once.

(* ... only after MPI_Testany reported the request, which happens only after MPI completed it; the status
   passed to the callback is MPI's; no earlier call *)
Theorem C20_single_after_complete : forall inl t0 sched l1 l2 c r e, one_thread t0 sched ->
  mlog (fst (s_run inl sched)) = l1 ++ EvCall c r e :: l2 ->
  In (EvTest r) l2 /\ In (EvDone r e) l2 /\ ~ In r (calls l2).
Proof. exact single_after_complete. Qed.
Print Assumptions C20_single_after_complete.

Theorem C20_single_test_after_done : forall inl t0 sched l1 l2 r, one_thread t0 sched ->
  mlog (fst (s_run inl sched)) = l1 ++ EvTest r :: l2 -> exists e, In (EvDone r e) l2.
Proof. exact single_test_after_done. Qed.
Print Assumptions C20_single_test_after_done.

(* all_in_flight_ = (queued: always 0 here) + non-null slots of requests_ + the requests in the hands of the
   thread (counted but not yet pushed / reported by Testany but not yet decremented), in EVERY reachable state *)
Theorem C20_single_in_flight_exact : forall inl t0 sched, one_thread t0 sched ->
  let g := fst (s_run inl sched) in
  in_flight g = cnt transient_stage (stage g) (next_req g) + length (rq g) + nonnull (vreq g).
Proof. exact single_in_flight_exact. Qed.
Print Assumptions C20_single_in_flight_exact.

(* the queue-drain loop of poll_singlethreaded is dead code in this mode; ready_requests_ and the mutex are unused *)
Theorem C20_single_queue_unused : forall inl t0 sched, one_thread t0 sched ->
  rq (fst (s_run inl sched)) = [] /\ ready (fst (s_run inl sched)) = [] /\ lock (fst (s_run inl sched)) = None.
Proof. exact single_queue_unused. Qed.
Print Assumptions C20_single_queue_unused.

(* PIKA_INVOKE(std::move(callbacks_[idx].cb_), status) is in bounds and the element it invokes is the
   callback registered with the request Testany reported (the out-of-bounds branch of [sstep] is dead) *)
Theorem C20_single_call_in_place : forall inl t0 sched idx r e, one_thread t0 sched ->
  snd (s_run inl sched) t0 = SCall idx r e ->
  nth_error (vcb (fst (s_run inl sched))) idx = Some (r, r).
Proof. exact single_call_in_place. Qed.
Print Assumptions C20_single_call_in_place.

(* The observation of notes/design/C20.md settled: if no callback registers a request inline and one thread
   runs the poller, then every step taken while the callback stored in callbacks_[idx] executes in place
   leaves requests_ and callbacks_ untouched (no push_back/reallocation, no compaction/resize, no slot
   write), and the thread stays inside the callback until it returns. *)
Theorem C20_single_callback_no_realloc : forall inl t0 sched o,
  no_inline_add inl -> one_thread t0 sched ->
  let c := s_run inl sched in
  in_callback (snd c t0) = true ->
  let c' := step (sstep inl) c (t0, o) in
  vreq (fst c') = vreq (fst c) /\ vcb (fst c') = vcb (fst c) /\
  (in_callback (snd c' t0) = true \/ exists r, snd c' t0 = SFin r).
Proof. exact single_callback_no_realloc. Qed.
Print Assumptions C20_single_callback_no_realloc.

(* both hypotheses are needed: (1) a callback that registers inline pushes into callbacks_ while
   callbacks_[0].cb_ executes; (2) with a second polling thread, compact_vectors of thread 1 overwrites and
   cuts off slot 0 while thread 0 executes the callback stored there *)
Example C20_single_inline_add_reallocates :
  let inl := fun _ : req => true in
  let c := s_run inl w_inline_sched in
  one_thread 0 w_inline_sched /\
  snd c 0 = SSPush 2 (Some (0, 0)) /\ in_callback (snd c 0) = true /\
  vcb (fst c) = [(0, 0); (1, 1)] /\
  vcb (fst (step (sstep inl) c (0, SoNoTest))) = [(0, 0); (1, 1); (2, 2)].
Proof. exact single_inline_add_reallocates. Qed.

Example C20_single_second_thread_compacts :
  let inl := fun _ : req => false in
  let c := s_run inl w_two_sched in
  no_inline_add inl /\
  snd c 0 = SInCb 0 0 /\ snd c 1 = SCompact /\
  vcb (fst c) = [(0, 0); (1, 1)] /\
  vcb (fst (step (sstep inl) c (1, SoNoTest))) = [(1, 1)] /\
  snd (step (sstep inl) c (1, SoNoTest)) 0 = SInCb 0 0.
Proof. exact single_second_thread_compacts. Qed.

(* what a second polling thread does to the PROPERTY (not only to the memory of the running closure): thread 0 has
   the Testany hit for slot 0, thread 1 compacts before thread 0 invokes callbacks_[0]: the callback of request 1 is
   invoked although MPI never completed request 1 and no test reported it, the callback of request 0 is destroyed
   uninvoked (on the real code the second `requests_[index] = MPI_REQUEST_NULL` then erases r1's slot: all_in_flight_
   stays 1 with empty vectors and pika::wait / stop_polling never return; the model nulls once, so r1 stays).  So
   C20_single_callback_once / C20_single_after_complete are FALSE without [one_thread]; the code guarantees
   [one_thread] since the repair (C20_single_mode_one_worker); on the unrepaired code this schedule is reproduced by
   `c20_mpi mtpool 30 2 ...` (public API: start_polling(no_handler, "mpi2"), pool "mpi2" with two PUs). *)
Example C20_single_second_thread_wrong_callback :
  let inl := fun _ : req => false in
  let g := fst (s_run inl w_two_wrong_sched) in
  no_inline_add inl /\
  mlog g = [EvCall 1 1 false; EvTest 0; EvDone 0 false; EvReg 1; EvReg 0] /\
  (forall e, ~ In (EvDone 1 e) (mlog g)) /\ ~ In (EvTest 1) (mlog g) /\
  ~ In 0 (calls (mlog g)) /\
  vreq g = [Some 1] /\ vcb g = [(1, 1)] /\ in_flight g = 1 /\
  snd (s_run inl w_two_wrong_sched) 0 = SIdle /\ snd (s_run inl w_two_wrong_sched) 1 = SIdle.
Proof. exact single_second_thread_wrong_callback. Qed.

(* non-vacuity: one thread registers two requests, MPI completes r1 (error status) then r0; Testany reports
   them in that order; both callbacks run once, in place, after their tests; counters and vectors drain *)
Example C20_single_example :
  let g := fst (s_run (fun _ => false) w_single_run) in
  one_thread 0 w_single_run /\
  mlog g = w_single_log /\
  (in_flight g = 0) /\ (activity g = 0) /\ (vreq g = []) /\ (vcb g = []) /\
  snd (s_run (fun _ => false) w_single_run) 0 = SIdle.
Proof. exact single_run_example. Qed.
