(* Props/Properties_C03.v — C03: sender adaptors deliver exactly one, correct completion signal.
   Only statements; each is closed by [exact] of a lemma from Proofs/ and followed by
   Print Assumptions.
   Part 1 (Model/Sender.v): every pipeline term, user callables arbitrary total functions.
   Part 2 (Model/Handoff.v): the split / ensure_started / split_tuple hand-off and the
   when_all / when_all_vector join for every number of consumers / children and every
   interleaving of their atomic steps. *)
From Coq Require Import List NArith ZArith Bool.
From Pika Require Import Base.Conc Model.Sender Proofs.SenderProofs.
Import ListNotations.

(* ---------------------------------------------------------------- Part 1: pipelines *)
(* starting any well-formed pipeline delivers exactly one completion signal to the connected
   receiver, and it is one the composition denotes.  (After the repairs of F3 and F16 there
   is no guard: stopped children of split / split_tuple / when_all_vector included.) *)
Theorem C03_pipeline_one_signal : forall t, wf t -> exists c, sigs t = [Sig c] /\ In c (den t).
Proof. exact pipeline_one_signal. Qed.
Print Assumptions C03_pipeline_one_signal.

(* values arrive unchanged (and in order) through split, split_tuple, ensure_started,
   drop_operation_state, require_started, unpack, continues_on, any_sender and compositions *)
Theorem C03_values_unchanged : forall A, transparent A ->
  forall t vs, sigs t = [Sig (CVal vs)] -> sigs (A t) = [Sig (CVal vs)].
Proof. exact values_unchanged. Qed.
Print Assumptions C03_values_unchanged.

(* when_all: a value iff no child failed — the children's values concatenated in child order *)
Theorem C03_when_all_values : forall ts vss, ts <> [] ->
  Forall2 (fun t vs => sigs t = [Sig (CVal vs)]) ts vss -> sigs (WhenAll ts) = [Sig (CVal (concat vss))].
Proof. exact when_all_values. Qed.
Print Assumptions C03_when_all_values.

(* ... otherwise the completion of the first failing child (children completing inline) *)
Theorem C03_when_all_failure : forall ts cs c, Forall2 (fun t c => sigs t = [Sig c]) ts cs ->
  first_fail cs = Some c -> sigs (WhenAll ts) = [Sig c] /\ is_val c = false.
Proof. exact when_all_failure. Qed.
Print Assumptions C03_when_all_failure.

(* an exception thrown by a user callable arrives as that error *)
Theorem C03_then_exception : forall f t vs e,
  sigs t = [Sig (CVal vs)] -> f vs = inr e -> sigs (Then f t) = [Sig (CErr e)].
Proof. exact then_exception. Qed.
Print Assumptions C03_then_exception.

Theorem C03_let_value_exception : forall thr k t vs e,
  sigs t = [Sig (CVal vs)] -> thr vs = Some e -> sigs (LetValue thr k t) = [Sig (CErr e)].
Proof. exact let_value_exception. Qed.
Print Assumptions C03_let_value_exception.

Theorem C03_bulk_exception : forall n f t vs e,
  sigs t = [Sig (CVal vs)] -> bulk_loop f 0%N (N.to_nat n) vs = Some e -> sigs (Bulk n f t) = [Sig (CErr e)].
Proof. exact bulk_exception. Qed.
Print Assumptions C03_bulk_exception.

(* an upstream error arrives as that same error through every adaptor that does not handle it *)
Theorem C03_error_propagates : forall A, no_handler A ->
  forall t e, sigs t = [Sig (CErr e)] -> sigs (A t) = [Sig (CErr e)].
Proof. exact error_propagates. Qed.
Print Assumptions C03_error_propagates.

(* an upstream stopped signal arrives as stopped through every unary adaptor *)
Theorem C03_stopped_propagates : forall A, unary A ->
  forall t, sigs t = [Sig CStopped] -> sigs (A t) = [Sig CStopped].
Proof. exact stopped_propagates. Qed.
Print Assumptions C03_stopped_propagates.

(* sync_wait returns the value / throws the error.  Full statement would include: "a stopped
   completion is reported to the caller"; pika's sync_wait has no way to do that (F18). *)
Theorem C03_sync_wait_partial : forall t c, sigs t = [Sig c] -> c <> CStopped ->
  sync_wait (sigs t) = match c with CVal vs => SwRet vs | CErr e => SwThrow e | CStopped => SwAbort end.
Proof. exact sync_wait_partial. Qed.
Print Assumptions C03_sync_wait_partial.

Theorem C03_sync_wait_stopped_refuted :
  exists t, wf t /\ sigs t = [Sig CStopped] /\ sync_wait (sigs t) = SwAbort.
Proof. exact sync_wait_stopped_refuted. Qed.
Print Assumptions C03_sync_wait_stopped_refuted.

Theorem C03_start_detached_releases_once : forall t c, sigs t = [Sig c] ->
  start_detached (sigs t) = match c with CErr _ => SdTerminate | _ => SdReleased 1 end.
Proof. exact start_detached_releases_once. Qed.
Print Assumptions C03_start_detached_releases_once.

(* non-vacuity: concrete pipelines through the evaluator *)
Example C03_example_pipeline :
  let inc : fn := fun vs => inl (map N.succ vs) in
  let boom : fn := fun _ => inr 7%N in
  sigs (WhenAll [Then inc (Just [1; 2]%N); Split 2 (EnsureStarted (Just [5]%N))]) = [Sig (CVal [2; 3; 5; 5]%N)] /\
  sigs (WhenAllVector [Erased (Then inc JustStopped); Just [3]%N]) = [Sig CStopped] /\
  sigs (Split 2 (Then boom (Just [1]%N))) = [Sig (CErr 7%N)] /\
  sigs (SplitTuple (Then inc JustStopped)) = [Sig CStopped] /\
  sigs (LetError (fun _ => None) (fun e => Just [e]) (WhenAll [Just []; JustErr 9%N; JustStopped])) = [Sig (CVal [9%N])] /\
  den (WhenAll [JustErr 1%N; JustStopped; Just [4%N]]) = [CErr 1%N; CStopped] /\
  sends_done (Erased JustStopped) = false /\ sends_done JustStopped = true.
Proof. vm_compute. repeat split. Qed.
