(* Props/Properties_C03.v — C03: sender adaptors deliver exactly one, correct completion signal.
   Only statements; each is closed by [exact] of a lemma from Proofs/ and followed by
   Print Assumptions.
   Part 1 (Model/Sender.v): every pipeline term, user callables arbitrary total functions.
   Part 2 (Model/Handoff.v): the split / ensure_started / split_tuple hand-off and the
   when_all / when_all_vector join for every number of consumers / children and every
   interleaving of their atomic steps. *)
From Coq Require Import List NArith ZArith Bool.
From Coq Require Import Permutation.
From Pika Require Import Base.Conc Model.Sender Model.Handoff Model.SenderLedger Model.HandoffLife Model.JoinAccess Proofs.SenderProofs Proofs.HandoffProofs Proofs.SenderLedgerProofs Proofs.SenderNoUseProofs Proofs.HandoffLifeProofs Proofs.JoinAccessProofs.
Import ListNotations.

(* ---------------------------------------------------------------- Part 1: pipelines *)
(* starting any well-formed pipeline delivers exactly one completion signal to the connected
   receiver, and it is one the composition denotes.  (After the repairs of F3 and F16 there
   is no guard: stopped children of split / split_tuple / when_all_vector included.) *)
Theorem C03_pipeline_one_signal : forall t, wf t -> exists c, sigs t = [Sig c] /\ In c (den t).
Proof. exact pipeline_one_signal. Qed.
Print Assumptions C03_pipeline_one_signal.

(* values arrive unchanged (and in order) through split, split_tuple, ensure_started,
   drop_operation_state, require_started, unpack, continues_on, any_sender and compositions *)
Theorem C03_values_unchanged : forall A, transparent A ->
  forall t vs, sigs t = [Sig (CVal vs)] -> sigs (A t) = [Sig (CVal vs)].
Proof. exact values_unchanged. Qed.
Print Assumptions C03_values_unchanged.

(* when_all: a value iff no child failed — the children's values concatenated in child order *)
Theorem C03_when_all_values : forall ts vss, ts <> [] ->
  Forall2 (fun t vs => sigs t = [Sig (CVal vs)]) ts vss -> sigs (WhenAll ts) = [Sig (CVal (concat vss))].
Proof. exact when_all_values. Qed.
Print Assumptions C03_when_all_values.

(* ... otherwise the completion of the first failing child (children completing inline) *)
Theorem C03_when_all_failure : forall ts cs c, Forall2 (fun t c => sigs t = [Sig c]) ts cs ->
  first_fail cs = Some c -> sigs (WhenAll ts) = [Sig c] /\ is_val c = false.
Proof. exact when_all_failure. Qed.
Print Assumptions C03_when_all_failure.

(* an exception thrown by a user callable arrives as that error *)
Theorem C03_then_exception : forall f t vs e,
  sigs t = [Sig (CVal vs)] -> f vs = inr e -> sigs (Then f t) = [Sig (CErr e)].
Proof. exact then_exception. Qed.
Print Assumptions C03_then_exception.

Theorem C03_let_value_exception : forall thr k t vs e,
  sigs t = [Sig (CVal vs)] -> thr vs = Some e -> sigs (LetValue thr k t) = [Sig (CErr e)].
Proof. exact let_value_exception. Qed.
Print Assumptions C03_let_value_exception.

Theorem C03_bulk_exception : forall n f t vs e,
  sigs t = [Sig (CVal vs)] -> bulk_loop f 0%N (N.to_nat n) vs = Some e -> sigs (Bulk n f t) = [Sig (CErr e)].
Proof. exact bulk_exception. Qed.
Print Assumptions C03_bulk_exception.

(* an upstream error arrives as that same error through every adaptor that does not handle it *)
Theorem C03_error_propagates : forall A, no_handler A ->
  forall t e, sigs t = [Sig (CErr e)] -> sigs (A t) = [Sig (CErr e)].
Proof. exact error_propagates. Qed.
Print Assumptions C03_error_propagates.

(* an upstream stopped signal arrives as stopped through every unary adaptor *)
Theorem C03_stopped_propagates : forall A, unary A ->
  forall t, sigs t = [Sig CStopped] -> sigs (A t) = [Sig CStopped].
Proof. exact stopped_propagates. Qed.
Print Assumptions C03_stopped_propagates.

(* sync_wait returns the value / throws the error.  Full statement would include: "a stopped
   completion is reported to the caller"; pika's sync_wait has no way to do that (F18). *)
Theorem C03_sync_wait_partial : forall t c, sigs t = [Sig c] -> c <> CStopped ->
  sync_wait (sigs t) = match c with CVal vs => SwRet vs | CErr e => SwThrow e | CStopped => SwAbort end.
Proof. exact sync_wait_partial. Qed.
Print Assumptions C03_sync_wait_partial.

Theorem C03_sync_wait_stopped_refuted :
  exists t, wf t /\ sigs t = [Sig CStopped] /\ sync_wait (sigs t) = SwAbort.
Proof. exact sync_wait_stopped_refuted. Qed.
Print Assumptions C03_sync_wait_stopped_refuted.

Theorem C03_start_detached_releases_once : forall t c, sigs t = [Sig c] ->
  start_detached (sigs t) = match c with CErr _ => SdTerminate | _ => SdReleased 1 end.
Proof. exact start_detached_releases_once. Qed.
Print Assumptions C03_start_detached_releases_once.

(* non-vacuity: concrete pipelines through the evaluator *)
Example C03_example_pipeline :
  let inc : fn := fun vs => inl (map N.succ vs) in
  let boom : fn := fun _ => inr 7%N in
  sigs (WhenAll [Then inc (Just [1; 2]%N); Split 2 (EnsureStarted (Just [5]%N))]) = [Sig (CVal [2; 3; 5; 5]%N)] /\
  sigs (WhenAllVector [Erased (Then inc JustStopped); Just [3]%N]) = [Sig CStopped] /\
  sigs (Split 2 (Then boom (Just [1]%N))) = [Sig (CErr 7%N)] /\
  sigs (SplitTuple (Then inc JustStopped)) = [Sig CStopped] /\
  sigs (LetError (fun _ => None) (fun e => Just [e]) (WhenAll [Just []; JustErr 9%N; JustStopped])) = [Sig (CVal [9%N])] /\
  den (WhenAll [JustErr 1%N; JustStopped; Just [4%N]]) = [CErr 1%N; CStopped] /\
  sends_done (Erased JustStopped) = false /\ sends_done JustStopped = true.
Proof. vm_compute. repeat split. Qed.

(* ---------------------------------------------------------------- Part 1b: the object ledger
   (Model/SenderLedger.v: construct / destroy / access events of every operation state, stored
   value, stored error, captured callable, emplaced successor or scheduler operation state,
   shared state and reference count, in the order the headers perform them).
   For every well-formed pipeline (a split sender connected at least once) the ledger evaluator is
   defined, agrees with [sigs] on the completion, and in both ownership modes — rd = true: the
   terminal receiver destroys the operation state inside set_value/error/stopped; rd = false:
   the owner destroys it after start() returned — every object constructed by the operation is
   destroyed exactly once and every intrusive_ptr copy is released; on all three channels and
   when a callable throws (the callables are arbitrary functions into value + exception). *)
Theorem C03_ledger_balanced : forall t, wfl t ->
  exists r, lrun t [] = Some r /\ sigs t = [Sig (n_c r)] /\
    forall rd, let tr := ltrace rd r in
      NoDup (news tr) /\ NoDup (dels tr) /\ Permutation (news tr) (dels tr) /\ forall s, cref s tr = 0%Z.
Proof. exact ledger_balanced. Qed.
Print Assumptions C03_ledger_balanced.

(* the model is sensitive: a split sender that is dropped without ever being connected leaks its
   shared state and the predecessor's operation state (reference cycle through os) *)
Theorem C03_ledger_split_unstarted_leaks :
  exists tr, ledger false (Split 0 (Just [1%N])) = Some tr /\
    In ([0], KLeaf) (news tr) /\ ~ In ([0], KLeaf) (dels tr) /\ cref [] tr = 1%Z.
Proof. exact ledger_split_unstarted_leaks. Qed.
Print Assumptions C03_ledger_split_unstarted_leaks.

(* non-vacuity: a callable that throws, a let_value successor, split with two consumers,
   schedule_from, drop_operation_state — ledger defined, no use after signal on the trace
   (executable check [nouse_ok]; a test on these terms, not a theorem), and where things die:
   the predecessor of split is destroyed before the terminal receiver is called, the stack copy
   of then's callable after it *)
Example C03_example_ledger :
  let boom : fn := fun _ => inr 7%N in
  let inc : fn := fun vs => inl (map N.succ vs) in
  let t := LetValue (fun _ => None) (fun vs => Split 2 (Then boom (Just vs)))
             (DropOpState (ContinuesOn SchedOk (WhenAll [Just [1%N]; Then inc (Just [2%N])]))) in
  sigs t = [Sig (CErr 7%N)] /\
  (match ledger true t with Some tr => nouse_ok tr | None => false end) = true /\
  (match ledger false t with Some tr => nouse_ok tr | None => false end) = true /\
  (match ledger true (Split 2 (Then inc (Just [1%N]))) with
   | Some tr => existsb (fun e => match e with Del ([0; 0], KLeaf) => true | _ => false end) (upto_term tr)
                && negb (existsb (fun e => match e with Del ([0], KStk) => false | Del (_, KShVar) => true | _ => false end) (upto_term tr))
   | None => false end) = true /\
  (match ledger true (Then inc (Just [1%N])) with
   | Some tr => negb (existsb (fun e => match e with Del ([], KStk) => true | _ => false end) (upto_term tr))
   | None => false end) = true.
Proof. vm_compute. repeat split. Qed.

(* ---------------------------------------------------------------- Part 1c: no use after signal
   What the boolean monitor [nouse_ok] (evaluated by the driver on every generated case) means:
   whatever follows [Sg q c] (the operation at q has called its receiver) in a trace does not
   read / write a member of, or construct into, an operation state in the subtree of q
   ([touch]: Acc, New of a kind that lives inside an operation state; destruction by the owner,
   stack objects and shared states are not touches), and whatever follows the destruction of the
   shared state of p neither accesses it (AccSh), nor copies / releases a reference to it, nor
   stores its variant.  Accesses to a shared state after a consumer has signalled are allowed
   exactly as long as the state has not been destroyed, i.e. while a counted reference is held
   (C03_ledger_balanced: the state is destroyed by the release that brings the count to 0). *)
Theorem C03_nouse_ok_spec : forall l, nouse_ok l = true <->
  (forall l1 q c l2, l = l1 ++ Sg q c :: l2 -> forall e q', In e l2 -> touch e = Some q' -> ~ under q q') /\
  (forall l1 p l2, l = l1 ++ Del (p, KShared) :: l2 -> forall e, In e l2 -> ~ shared_use p e).
Proof. exact nouse_ok_spec. Qed.
Print Assumptions C03_nouse_ok_spec.

(* every well-formed pipeline, both destruction modes (rd = true: the terminal receiver destroys
   the operation state inside set_xxx; rd = false: the owner after start() returned), all
   channels, arbitrary callables: the evaluator's trace has no use after signal *)
Theorem C03_no_use_after_signal : forall t, wfl t -> forall rd,
  exists r, lrun t [] = Some r /\ sigs t = [Sig (n_c r)] /\ nouse_ok (ltrace rd r) = true.
Proof. exact no_use_after_signal. Qed.
Print Assumptions C03_no_use_after_signal.

(* ... in fact at every position of the operation-state tree and for every term on which the
   evaluator is defined (no well-formedness needed for this half) *)
Theorem C03_no_use_after_signal_at : forall t p r rd, lrun t p = Some r -> nouse_ok (ltrace rd r) = true.
Proof. exact ltrace_nouse_ok. Qed.
Print Assumptions C03_no_use_after_signal_at.

(* the terminal receiver is the root's signal: after it nothing touches any operation state *)
Theorem C03_no_touch_after_term : forall t p r rd, lrun t p = Some r ->
  exists l2, ltrace rd r = n_con r ++ n_pre r ++ Term (n_c r) :: l2 /\ forall e, In e l2 -> touch e = None.
Proof. exact no_touch_after_term. Qed.
Print Assumptions C03_no_touch_after_term.

(* non-vacuity: the monitor rejects a member access after the signal, an access to a destroyed
   shared state, accepts destruction after the signal; and a pipeline mixing every kind of node *)
Example C03_example_nouse :
  nouse_ok [Acc [0]; Sg [0] (CVal []); Acc [0]] = false /\
  nouse_ok [Sg [0] (CVal []); New ([1; 0], KVals 0)] = false /\
  nouse_ok [Sg [0] (CVal []); Acc []; Del ([0], KState); Acc [1]] = true /\
  nouse_ok [RefInc []; AccSh []; RefDec []; Del ([], KShared); AccSh []] = false /\
  (let inc : fn := fun vs => inl (map N.succ vs) in
   let t := WhenAllVector [SplitTuple (Then inc (Just [1%N; 2%N])); EnsureStarted (Split 3 (Erased (JustErr 4%N)));
                           LetError (fun _ => None) (fun e => DropOpState (ContinuesOn SchedOk (Just [e]))) (JustErr 3%N)] in
   match ledger true t, ledger false t with
   | Some tr1, Some tr2 => nouse_ok tr1 && nouse_ok tr2 && (10 <? length tr1)
   | _, _ => false end) = true.
Proof. vm_compute. repeat split. Qed.

(* ---------------------------------------------------------------- Part 2: concurrent hand-off and join *)
(* split / ensure_started / split_tuple (kind k), predecessor completing with c on thread 0,
   every other thread a consumer, every schedule: in every reachable state no consumer has
   been signalled twice; every consumer that was signalled got the stored result c, by its own
   thread or by the predecessor's, and only after c was stored and predecessor_done set; once
   the predecessor thread and a consumer have both run to completion the consumer has been
   signalled (hence exactly once). *)
Theorem C03_handoff_exactly_once : forall k c sched,
  let g := fst (h_run k c sched) in
  let ls := snd (h_run k c sched) in
  NoDup (consumers g) /\
  (forall cn b e, In (cn, b, e) (h_log g) ->
      e = Sig c /\ h_v g = Some c /\ h_done g = true /\ (b = cn \/ b = 0)) /\
  (ls 0 = PEnd -> forall t, t <> 0 -> ls t = CEnd -> In t (consumers g)).
Proof. exact handoff_exactly_once. Qed.
Print Assumptions C03_handoff_exactly_once.

(* the spinlock is only ever held by a consumer whose next step releases it (no step blocks for ever) *)
Theorem C03_handoff_lock_released : forall k c sched t,
  let g := fst (h_run k c sched) in
  let ls := snd (h_run k c sched) in
  h_lock g = Some t -> h_lock (fst (h_tstep k c tt t g (ls t))) = None.
Proof. exact handoff_lock_released. Qed.
Print Assumptions C03_handoff_lock_released.

(* when_all / when_all_vector with n children completing with [cs i] on n threads, every
   schedule: never more than one signal; none before the last decrement; when all children have
   finished exactly one, delivered by the thread of the last decrement: a value iff no child
   failed (values in child order), otherwise the error of the child that set the flag first if
   it failed with an error, else stopped. *)
Theorem C03_when_all_join_once : forall n cs sched, n > 0 ->
  let g := fst (w_run n cs sched) in
  let ls := snd (w_run n cs sched) in
  length (w_out g) <= 1 /\
  (length (w_fin g) < n -> w_out g = []) /\
  ((forall t, t < n -> ls t = WEnd) ->
     exists t r, w_fin g = t :: r /\ w_out g = [(t, Sig (w_expected n cs (w_first g)))] /\
                 (w_first g = None <-> forall u, u < n -> is_val (cs u) = true) /\
                 (forall f, w_first g = Some f -> f < n /\ is_val (cs f) = false)).
Proof. exact when_all_join_once. Qed.
Print Assumptions C03_when_all_join_once.

(* ... and what the concurrent join reports is one of the completions den admits for when_all
   over children completing with [cs 0 .. cs (n-1)] (ties Part 2 to the set semantics of Part 1) *)
Theorem C03_join_in_den : forall n cs first,
  (first = None <-> forall u, u < n -> is_val (cs u) = true) ->
  (forall f, first = Some f -> f < n /\ is_val (cs f) = false) ->
  In (w_expected n cs first) (join_den (map cs (seq 0 n))).
Proof. exact join_in_den. Qed.
Print Assumptions C03_join_in_den.

(* the model is sensitive to the protocol: without the re-check of predecessor_done under the
   lock, or without the predecessor's empty critical section, a consumer is never signalled *)
Theorem C03_handoff_recheck_needed :
  exists sched, let st := run (h_tstep_norecheck HSplit (CVal [1%N])) sched (h_init HSplit, h_locals) in
    snd st 0 = PEnd /\ snd st 1 = CEnd /\ h_log (fst st) = [] /\ h_conts (fst st) = [1].
Proof. exact recheck_needed. Qed.
Print Assumptions C03_handoff_recheck_needed.

Theorem C03_handoff_pred_lock_needed :
  exists sched, let st := run (h_tstep_nopredlock HSplit (CVal [1%N])) sched (h_init HSplit, h_locals) in
    snd st 0 = PEnd /\ snd st 1 = CEnd /\ h_log (fst st) = [] /\ h_conts (fst st) = [1].
Proof. exact pred_lock_needed. Qed.
Print Assumptions C03_handoff_pred_lock_needed.

(* non-vacuity: consumer 1 has passed the first flag test when the predecessor completes and
   re-checks under the lock; consumer 2 stores a continuation before; consumer 3 comes late *)
Example C03_example_handoff :
  let u := fun t => (t, tt) in
  let st := h_run HSplit (CVal [7%N]) (map u [1; 2; 2; 2; 2; 1; 0; 0; 1; 0; 0; 3; 3]) in
  rev (h_log (fst st)) = [(1, 1, Sig (CVal [7%N])); (2, 0, Sig (CVal [7%N])); (3, 3, Sig (CVal [7%N]))] /\
  snd st 0 = PEnd /\ snd st 1 = CEnd /\ snd st 2 = CEnd /\ snd st 3 = CEnd /\ h_conts (fst st) = [].
Proof. vm_compute. repeat split. Qed.

(* the stopped child sets the flag before the error child's exchange: stopped is reported *)
Example C03_example_join :
  let u := fun t => (t, tt) in
  let cs := fun t => match t with 0 => CVal [1%N] | 1 => CErr 5%N | _ => CStopped end in
  w_out (fst (w_run 3 cs (map u [0; 1; 2; 2; 1; 0; 0; 1; 2]))) = [(2, Sig CStopped)] /\
  w_out (fst (w_run 3 cs (map u [0; 1; 2; 1; 2; 0; 0; 2; 1]))) = [(1, Sig (CErr 5%N))] /\
  w_out (fst (w_run 3 cs (map u [0; 1; 2; 1; 2; 0; 0; 2]))) = [].
Proof. vm_compute. repeat split. Qed.

(* ---------------------------------------------------------------- Part 2b: lifetime of the shared state
   (Model/HandoffLife.v: a ghost layer over h_tstep — reference count, alive flag, who released,
   every read of the variant, every access to a dead state; n connected consumer operation
   states; the oracle says which receivers destroy their operation state inside the signal.)
   The ghost layer does not change the hand-off model: *)
Theorem C03_handoff_life_erase : forall k c n sched, (forall x, In x sched -> fst x <= n) ->
  fst (fst (hl_run k c n sched)) = fst (h_run k c (map (fun x : nat * (nat -> bool) => (fst x, tt)) sched)) /\
  (forall t, fst (snd (hl_run k c n sched) t) = snd (h_run k c (map (fun x : nat * (nat -> bool) => (fst x, tt)) sched)) t).
Proof. exact hl_erase. Qed.
Print Assumptions C03_handoff_life_erase.

(* split / ensure_started / split_tuple, any completion, any number n of consumers, every
   schedule and every choice of receivers that destroy their operation state inside the signal:
   (a) the variant is read only after it was stored and predecessor_done set, only while the
       shared state is alive, by the consumer itself or by the predecessor thread on its behalf;
   (b) the shared state (with the variant) is destroyed only when the count is 0, after EVERY
       consumer has been signalled and has released, and (split / ensure_started) after the
       predecessor's receiver copy r was released at the end of set_predecessor_done;
   (c) a consumer's reference is released only after it was signalled; the count is exact. *)
Theorem C03_handoff_value_outlives : forall k c n sched,
  let g := fst (fst (hl_run k c n sched)) in
  let lf := snd (fst (hl_run k c n sched)) in
  let ls := snd (hl_run k c n sched) in
  (forall cn b st dn al, In (cn, b, st, dn, al) (l_reads lf) ->
      st = true /\ dn = true /\ al = true /\ (b = cn \/ b = 0) /\ 1 <= cn <= n) /\
  (l_alive lf = false ->
      l_rc lf = 0 /\
      (forall cn, 1 <= cn <= n -> In cn (consumers g) /\ In cn (l_rel lf)) /\
      (holds_ref k = true -> In 0 (l_rel lf) /\ fst (ls 0) = PEnd)) /\
  ((forall cn, cn <> 0 -> In cn (l_rel lf) -> In cn (consumers g)) /\
   NoDup (l_rel lf) /\
   l_rc lf + length (l_rel lf) = n + (if holds_ref k then 1 else 0)).
Proof. exact handoff_value_outlives. Qed.
Print Assumptions C03_handoff_value_outlives.

(* split, ensure_started, split_tuple (the predecessor's receiver carries an intrusive_ptr, kept
   in the stack copy r until set_predecessor_done has returned): no member of the shared state is
   ever accessed after the state was destroyed.  For split_tuple this needed a repair of the code:
   its receiver held a plain `shared_state&`, and with 2 consumers whose receivers destroy their
   operation states inside the signal, threads [1; 0; 0; 1; 2; 2; 0; 0] made the predecessor
   thread run `std::lock_guard l{mtx}` and `std::move(continuations)` in freed memory (reproduced
   on the real code, KNOWN_FINDINGS.txt `fixed:`; the LIFE cases of harness/c03_lock.cpp replay
   that schedule on every run and compare the observed accesses with l_bad). *)
Theorem C03_handoff_state_outlives : forall k c n sched,
  l_bad (snd (fst (hl_run k c n sched))) = [].
Proof. exact handoff_state_outlives_all. Qed.
Print Assumptions C03_handoff_state_outlives.

(* non-vacuity: split, two consumers whose receivers destroy the operation states inside the
   signal — the state survives the continuation loop through r and dies with r's release;
   split_tuple with a stored continuation: the same; split_tuple on the schedule of the former
   defect: both consumers gone before the predecessor thread's lock_guard, the state dies with r *)
Example C03_example_life :
  let st := hl_run HSplit (CVal [7%N]) 2 (with_oracle (fun _ => true) [1; 1; 1; 1; 2; 2; 2; 2; 0; 0; 0; 0]) in
  l_bad (snd (fst st)) = [] /\ l_alive (snd (fst st)) = false /\ l_rel (snd (fst st)) = [0; 2; 1] /\
  l_reads (snd (fst st)) = [(2, 0, true, true, true); (1, 0, true, true, true)] /\
  (let st2 := hl_run HTuple (CVal [1%N; 2%N]) 2 (with_oracle (fun _ => true) [1; 1; 1; 1; 0; 0; 2; 2; 2; 0; 0]) in
   l_bad (snd (fst st2)) = [] /\ l_alive (snd (fst st2)) = false /\ l_rel (snd (fst st2)) = [0; 1; 2]) /\
  (let st3 := hl_run HTuple (CVal [1%N; 2%N]) 2 (with_oracle (fun _ => true) [1; 0; 0; 1; 2; 2; 0; 0]) in
   l_bad (snd (fst st3)) = [] /\ l_alive (snd (fst st3)) = false /\ l_rel (snd (fst st3)) = [0; 2; 1] /\
   l_alive (snd (fst (hl_run HTuple (CVal [1%N; 2%N]) 2 (with_oracle (fun _ => true) [1; 0; 0; 1; 2; 2; 0])))) = true).
Proof. vm_compute. repeat split. Qed.

(* ---------------------------------------------------------------- Part 2c: the join's slots
   (Model/JoinAccess.v: ghost access log over w_tstep, newest first: AFlag = a child's access to
   the flag + store into its value slot / the error slot, ADec = the decrement, AFinish =
   finish()'s read of flag, error slot and value slots for the final completion.)  Ghost-only: *)
Theorem C03_join_access_erase : forall n cs sched,
  fst (fst (wa_run n cs sched)) = fst (w_run n cs sched) /\
  (forall t, snd (wa_run n cs sched) t = snd (w_run n cs sched) t).
Proof. exact wa_erase. Qed.
Print Assumptions C03_join_access_erase.

(* every child count, completions, schedule: wherever the final read of the slots occurs in the
   access log it is the newest entry (nothing of the operation state is touched afterwards — the
   receiver may destroy it), it occurs once, every child's decrement (hence every child's slot
   store) is older, every child thread has finished, and the signal has been delivered *)
Theorem C03_when_all_slots_outlive : forall n cs sched,
  let log := snd (fst (wa_run n cs sched)) in
  let ls := snd (wa_run n cs sched) in
  forall newer t older, log = newer ++ (t, AFinish) :: older ->
    newer = [] /\ (forall u, ~ In (u, AFinish) older) /\ (forall u, u < n -> In (u, ADec) older) /\
    (forall u, u < n -> ls u = WEnd) /\ w_out (fst (fst (wa_run n cs sched))) <> [].
Proof. exact when_all_slots_outlive. Qed.
Print Assumptions C03_when_all_slots_outlive.

Example C03_example_join_access :
  let u := fun t => (t, tt) in
  let cs := fun t => match t with 0 => CVal [1%N] | 1 => CErr 5%N | _ => CStopped end in
  snd (fst (wa_run 3 cs (map u [0; 1; 2; 2; 1; 0; 0; 1; 2; 2; 0]))) =
    [(2, AFinish); (2, ADec); (1, ADec); (0, ADec); (0, AFlag); (1, AFlag); (2, AFlag)].
Proof. vm_compute. reflexivity. Qed.
