(* Props/Properties_C11.v — C11: bulk calls f once per index, then completes once.
   Only statements; each is closed by [exact] of a lemma from Proofs/ and followed by
   Print Assumptions.

   [guard cf] = the pool has between 1 and 2^29-1 workers, the predecessor completed on one of
   them, and the shape fits its integral type of at most 64 bits.  Nothing else is assumed:
   every worker count, shape, set of throwing indices, completing worker and schedule
   (including spurious weak-CAS failures) is covered.  The arithmetic is the 64-bit arithmetic
   of the `fix:` commit; with it no guard on the size of n is needed. *)
From Coq Require Import List NArith Lia.
From Pika Require Import Base.Conc Model.IndexQueue Proofs.IndexQueueProofs Model.Bulk
  Proofs.BulkArith Proofs.BulkProofs.
Import ListNotations.
Local Open Scope N_scope.

(* --- arithmetic: the chunk-size loop terminates for every shape and worker count, the chunk
   size is the smallest power of two with at most 8 chunks per worker, the chunks
   [i_begin, i_end) computed by do_work_chunk (with the conversions of the source) partition
   [0,n), and no conversion loses a bit *)
Theorem C11_chunks_partition : forall bits W n, W_ok W -> 0 < n -> n < 2 ^ bits -> bits <= 64 ->
  exists c, get_chunk_size W n = Some c /\ chunk_ok W n c /\
    let k := get_num_chunks n c in
    0 < k <= 8 * W /\
    (forall idx, idx < k -> chunk_begin bits c idx = idx * c /\
                            chunk_begin bits c idx < chunk_end bits c n idx <= n) /\
    (forall j, j < n -> exists idx, idx < k /\ chunk_begin bits c idx <= j < chunk_end bits c n idx /\
       forall idx', idx' < k -> chunk_begin bits c idx' <= j < chunk_end bits c n idx' -> idx' = idx).
Proof. exact chunks_partition. Qed.
Print Assumptions C11_chunks_partition.

(* the per-worker queue ranges of init_queue partition the chunk indices [0,k) *)
Theorem C11_queues_partition : forall W k, W_ok W -> k < 2 ^ 32 ->
  part_begin W 0 k = 0 /\ part_end W (W - 1) k = k /\
  (forall w, w < W -> part_begin W w k <= part_end W w k /\ part_end W w k = part_begin W (w + 1) k) /\
  (forall idx, idx < k -> exists w, w < W /\ part_begin W w k <= idx < part_end W w k /\
     forall w', w' < W -> part_begin W w' k <= idx < part_end W w' k -> w' = w).
Proof. exact queues_partition. Qed.
Print Assumptions C11_queues_partition.

(* --- f is entered at most once per index, only for indices below n, and always with the
   predecessor's values *)
Theorem C11_bulk_each_index_once : forall cf sched, guard cf ->
  let g := fst (brun cf sched) in
  NoDup (map fst (calls g)) /\
  forall j v, In (j, v) (calls g) -> j < cn cf /\ v = Some (cvals cf).
Proof. exact bulk_each_index_once. Qed.
Print Assumptions C11_bulk_each_index_once.

(* --- the receiver is signalled at most once ... *)
Theorem C11_bulk_completes_at_most_once : forall cf sched, guard cf ->
  (length (sigs (fst (brun cf sched))) <= 1)%nat.
Proof. exact bulk_completes_at_most_once. Qed.
Print Assumptions C11_bulk_completes_at_most_once.

(* ... and in every terminal state (every task finished or never spawned) exactly once *)
Theorem C11_bulk_completes_when_done : forall cf sched, guard cf ->
  let c := brun cf sched in
  (forall t, terminal (fst c) t (snd c t)) -> length (sigs (fst c)) = 1%nat.
Proof. exact bulk_completes_when_done. Qed.
Print Assumptions C11_bulk_completes_when_done.

(* --- when it is signalled every call that was entered had returned, and no call is entered
   afterwards (the snapshot taken at the signal equals the final number of calls) *)
Theorem C11_bulk_signal_after_last_call : forall cf sched, guard cf ->
  let g := fst (brun cf sched) in
  forall s, In s (sigs g) ->
    sg_calls s = length (calls g) /\ sg_exits s = length (exits g) /\ length (calls g) = length (exits g).
Proof. exact bulk_signal_after_last_call. Qed.
Print Assumptions C11_bulk_signal_after_last_call.

(* --- a value completion forwards the predecessor's values, nothing threw, and f was entered
   for every index below n *)
Theorem C11_bulk_value_means_all : forall cf sched, guard cf ->
  let g := fst (brun cf sched) in
  forall s v, In s (sigs g) -> sg s = SValue v ->
    v = cvals cf /\ thrown g = [] /\ forall j, j < cn cf -> called g j.
Proof. exact bulk_value_means_all. Qed.
Print Assumptions C11_bulk_value_means_all.

(* --- if any call threw the completion is an error, an error carries the exception of a call
   that was made and did throw, and the receiver never sees an empty exception or no values *)
Theorem C11_bulk_error_iff_thrown : forall cf sched, guard cf ->
  let g := fst (brun cf sched) in
  forall s, In s (sigs g) ->
    sg s <> SBad /\
    (thrown g <> [] -> exists y, sg s = SError (Some y)) /\
    (forall x, sg s = SError x -> exists y, x = Some y /\ In y (thrown g) /\ called g y /\ cthrows cf y = true).
Proof. exact bulk_error_iff_thrown. Qed.
Print Assumptions C11_bulk_error_iff_thrown.

(* --- n = 0: the first step of set_value forwards the values; f is never called *)
Theorem C11_bulk_zero_immediate : forall cf o, cn cf = 0 ->
  let g := fst (brun cf [(clocal cf, o)]) in
  sigs g = [zero_sig cf] /\ calls g = [].
Proof. exact bulk_zero_immediate. Qed.
Print Assumptions C11_bulk_zero_immediate.

Theorem C11_bulk_zero_no_calls : forall cf sched, guard cf -> cn cf = 0 -> calls (fst (brun cf sched)) = [].
Proof. exact bulk_zero_no_calls. Qed.
Print Assumptions C11_bulk_zero_no_calls.

(* --- the generic (non-pool) bulk: f(0), f(1), ... in order, value if nothing throws, else the
   first exception and no further call *)
Theorem C11_generic_bulk_value : forall throws n v, (forall j, j < n -> throws j = false) ->
  gen_bulk throws n v = (Nrange 0 (N.to_nat n), SValue v).
Proof. exact gen_bulk_value. Qed.
Print Assumptions C11_generic_bulk_value.

Theorem C11_generic_bulk_error : forall throws n v x,
  x < n -> throws x = true -> (forall j, j < x -> throws j = false) ->
  gen_bulk throws n v = (Nrange 0 (S (N.to_nat x)), SError (Some x)).
Proof. exact gen_bulk_error. Qed.
Print Assumptions C11_generic_bulk_error.

Theorem C11_Nrange_spec : forall k f x, In x (Nrange f k) <-> f <= x < f + N.of_nat k.
Proof. exact Nrange_spec. Qed.
Print Assumptions C11_Nrange_spec.

(* --- non-vacuity: the guard is satisfiable and concrete schedules run to completion --- *)
Definition ex_cf1 : cfg := {| cW := 2; cn := 5; cbits := 32; clocal := 0; cthrows := fun _ => false; cvals := 7 |}.
Definition ex_cf2 : cfg := {| cW := 3; cn := 100; cbits := 8; clocal := 1; cthrows := fun i => i =? 30; cvals := 7 |}.
Definition ex_rr2 (k : nat) := concat (repeat [(0%nat, false); (1%nat, false)] k).
Definition ex_rr3 (k : nat) := concat (repeat [(0%nat, false); (1%nat, false); (2%nat, true); (2%nat, false)] k).

Example C11_guard_example : guard ex_cf1 /\ guard ex_cf2.
Proof. unfold guard, W_ok. cbn [ex_cf1 ex_cf2 cW cn cbits clocal]. repeat split; try (cbn; lia); try reflexivity. Qed.

Example C11_value_example :
  let g := fst (brun ex_cf1 (ex_rr2 40)) in
  map fst (calls g) = [4; 1; 3; 0; 2] /\ sigs g = [{| sg := SValue 7; sg_calls := 5; sg_exits := 5 |}].
Proof. vm_compute. split; reflexivity. Qed.

(* 100 items, 3 workers (13 chunks of 8), f(30) throws: 99 calls (31 is skipped), one error *)
Example C11_error_example :
  let g := fst (brun ex_cf2 (ex_rr3 200)) in
  length (calls g) = 99%nat /\ thrown g = [30] /\
  sigs g = [{| sg := SError (Some 30); sg_calls := 99; sg_exits := 99 |}].
Proof. vm_compute. repeat split; reflexivity. Qed.

(* the shapes of the repaired defect F2 *)
Example C11_arith_examples :
  get_chunk_size 4 (2 ^ 31 + 1) = Some (2 ^ 27) /\ get_num_chunks (2 ^ 31 + 1) (2 ^ 27) = 17 /\
  get_chunk_size 4 (2 ^ 32 + 5) = Some (2 ^ 28) /\ get_num_chunks (2 ^ 32 + 5) (2 ^ 28) = 17 /\
  chunk_end 64 (2 ^ 28) (2 ^ 32 + 5) 16 = 2 ^ 32 + 5 /\
  get_chunk_size 1 (2 ^ 64 - 1) = Some (2 ^ 61) /\ chunk_end 64 (2 ^ 61) (2 ^ 64 - 1) 7 = 2 ^ 64 - 1.
Proof. vm_compute. repeat split; reflexivity. Qed.

(* ================================================================== TRACE tie of the real set_value
   harness/c11_trace.cpp runs the real bulk_receiver::set_value (chunk computation, init_queue, spawn
   loop with queue.empty() / inline finish() / register_work, the local worker's part, every spawned
   task_function, the tasks_remaining countdown, the completion) on a real pool and logs the order of
   its atomic accesses; [lock_trace cf sched (binit cf) []] replays that order: [fst] = for every
   logged event the site at which the model has the acting thread parked (compared with the logged
   site: the event is enabled), [snd] = the state reached (calls, exits, thrown, order of the
   decrements, counter, completion — compared with the log). *)
From Pika Require Import Proofs.BulkTraceProofs.

(* the acceptor only moves along [bstep]: the state reached on any schedule is a state of [brun] *)
Theorem C11_trace_acceptor_sound : forall cf sched,
  exists s, snd (lock_trace cf sched (binit cf) []) = brun cf s.
Proof. exact trace_acceptor_sound. Qed.
Print Assumptions C11_trace_acceptor_sound.

(* it reports one site per logged event *)
Theorem C11_trace_one_site_per_event : forall cf sched c acc,
  length (fst (lock_trace cf sched c acc)) = (length sched + length acc)%nat.
Proof. exact lock_trace_sites_length. Qed.
Print Assumptions C11_trace_one_site_per_event.

(* so in the state reached by an accepted trace: each index at most once, below n, with the
   predecessor's values; at most one completion; the completion after the last call has returned *)
Theorem C11_trace_accepted_props : forall cf sched, guard cf ->
  let g := fst (snd (lock_trace cf sched (binit cf) [])) in
  NoDup (map fst (calls g)) /\
  (forall j v, In (j, v) (calls g) -> j < cn cf /\ v = Some (cvals cf)) /\
  (length (sigs g) <= 1)%nat /\
  (forall s, In s (sigs g) ->
     sg_calls s = length (calls g) /\ sg_exits s = length (exits g) /\ length (calls g) = length (exits g)).
Proof. exact trace_accepted_props. Qed.
Print Assumptions C11_trace_accepted_props.

(* a trace logged on the real 2-worker pool (harness case 2-13 of seed 3): bulk(3, f), f always throws,
   set_value on worker 0.  Sites: 11 set_value, 9 spawn loop (queue 1 non-empty: register_work), then the
   local part: queue LOAD 1, CAS 2, f entry 3 / exit 4, exchange 6, store 7, decrement 5; the spawned
   task: start 10, LOAD, CAS, f, exchange (flag already set: no store), decrement -> set_error(exception of index 0) *)
Definition tr_cf : cfg := {| cW := 2; cn := 3; cbits := 32; clocal := 0; cthrows := fun _ => true; cvals := 7 |}.
Definition tr_sched : list nat := [0;0;0;0;0;0;0;0;0;1;1;1;1;1;1;1]%nat.
Example C11_trace_example :
  let r := lock_trace tr_cf tr_sched (binit tr_cf) [] in
  let g := fst (snd r) in
  fst r = [11;9;1;2;3;4;6;7;5;10;1;2;3;4;6;5]%nat /\
  rev (map fst (calls g)) = [0; 1] /\ rev (exits g) = [0; 1] /\ rev (thrown g) = [0; 1] /\
  map sg (sigs g) = [SError (Some 0)] /\ rev (fin g) = [0; 1]%nat /\ remaining g = 0 /\ guard tr_cf.
Proof. vm_compute. repeat split; try discriminate; try lia; auto. Qed.

(* ================================================================== the end-to-end acceptor [chunk_calls]
   harness E2E runs (schedule not controlled) are compared per chunk with [chunk_calls throws i_begin len 0]:
   the number of calls of f for the chunk and whether one threw.  Characterised for every throwing
   predicate, start, length and accumulator (closes "chunk_calls is an acceptor without a theorem"). *)
From Pika Require Import Proofs.BulkChunkCalls.

(* nothing in the chunk throws: every index of the chunk is called *)
Theorem C11_chunk_calls_nothrow : forall throws fuel i acc,
  (forall j, i <= j -> j < i + N.of_nat fuel -> throws j = false) ->
  chunk_calls throws i fuel acc = (acc + N.of_nat fuel, false).
Proof. exact chunk_calls_nothrow. Qed.
Print Assumptions C11_chunk_calls_nothrow.

(* x is the first throwing index of the chunk: exactly i..x are called *)
Theorem C11_chunk_calls_first_throw : forall throws fuel i acc x,
  i <= x -> x < i + N.of_nat fuel -> throws x = true ->
  (forall j, i <= j -> j < x -> throws j = false) ->
  chunk_calls throws i fuel acc = (acc + (x - i) + 1, true).
Proof. exact chunk_calls_first_throw. Qed.
Print Assumptions C11_chunk_calls_first_throw.

(* the two cases are exhaustive *)
Theorem C11_chunk_first_throw_exhaustive : forall throws fuel i,
  (forall j, i <= j -> j < i + N.of_nat fuel -> throws j = false) \/
  (exists x, i <= x /\ x < i + N.of_nat fuel /\ throws x = true /\
             forall j, i <= j -> j < x -> throws j = false).
Proof. exact first_throw_dec. Qed.
Print Assumptions C11_chunk_first_throw_exhaustive.

(* it reports a throw exactly when some index of the chunk throws *)
Theorem C11_chunk_calls_threw_iff : forall throws fuel i acc,
  snd (chunk_calls throws i fuel acc) = true <->
  exists x, i <= x /\ x < i + N.of_nat fuel /\ throws x = true.
Proof. exact chunk_calls_threw_iff. Qed.
Print Assumptions C11_chunk_calls_threw_iff.

(* it agrees with the generic-bulk loop of bulk.hpp on the same range *)
Theorem C11_chunk_calls_agrees_with_generic_loop : forall throws fuel i acc,
  N.of_nat (length (fst (gen_loop throws i fuel acc))) =
    fst (chunk_calls throws i fuel (N.of_nat (length acc))) /\
  (match snd (gen_loop throws i fuel acc) with Some _ => true | None => false end) =
    snd (chunk_calls throws i fuel (N.of_nat (length acc))).
Proof. exact gen_loop_chunk_calls. Qed.
Print Assumptions C11_chunk_calls_agrees_with_generic_loop.

(* the generic loop calls i, i+1, ... consecutively *)
Theorem C11_generic_loop_calls_consecutive : forall throws fuel i acc,
  exists k, (k <= fuel)%nat /\
    fst (gen_loop throws i fuel acc) = rev acc ++ map (fun d => i + N.of_nat d) (seq 0 k).
Proof. exact gen_loop_calls. Qed.
Print Assumptions C11_generic_loop_calls_consecutive.

Example C11_chunk_calls_example :
  chunk_calls (fun j => N.eqb j 30) 28 8 0 = (3, true) /\
  chunk_calls (fun j => N.eqb j 30) 32 8 0 = (8, false).
Proof. vm_compute. split; reflexivity. Qed.

(* tie of the acceptor to the step function: a worker standing at the loop head of do_work_chunk with
   e = i + fuel < 2^bits that takes 2 * (predicted number of calls) of its own steps has entered f for
   exactly i, i+1, ... (that many indices, in order), stands at the exception exchange for the first
   throwing index iff [chunk_calls] reports a throw and otherwise at the loop head with i = e, and has
   touched neither the queues, the join counter nor the completion *)
Theorem C11_chunk_calls_is_the_models_loop : forall cf t off idx fuel i e g,
  e = i + N.of_nat fuel -> e < 2 ^ cbits cf ->
  let r := chunk_calls (cthrows cf) i fuel 0 in
  let k := N.to_nat (fst r) in
  let c' := solo cf t (2 * k) (g, BRun off idx i e) in
  map fst (calls (fst c')) = rev (map (fun d => i + N.of_nat d) (seq 0 k)) ++ map fst (calls g) /\
  snd c' = (if snd r then BExch (i + fst r - 1) else BRun off idx e e) /\
  sigs (fst c') = sigs g /\ remaining (fst c') = remaining g /\ queues (fst c') = queues g.
Proof. exact solo_chunk. Qed.
Print Assumptions C11_chunk_calls_is_the_models_loop.

Example C11_chunk_loop_example :
  let c' := solo tr_cf 0 2 (binit_shared tr_cf, BRun 0 0 0 3) in
  map fst (calls (fst c')) = [0] /\ snd c' = BExch 0 /\ 0 + N.of_nat 3 < 2 ^ cbits tr_cf.
Proof. vm_compute. repeat split; reflexivity. Qed.

(* ================================================================== the fuel of the trace acceptor suffices
   [lock_step] lets the scheduled thread continue through program points without a park point (site 0:
   no atomic of the real code is touched there) for at most 8 steps.  [zero] = "site 0 and not finished". *)
From Pika Require Import Proofs.BulkSettleProofs.

(* a site-0 step touches none of the real atomics and makes no call *)
Theorem C11_site0_step_touches_no_atomic : forall cf t g l, zero cf g t l = true ->
  let g' := fst (bstep cf false t g l) in
  queues g' = queues g /\ remaining g' = remaining g /\ exc_flag g' = exc_flag g /\ exc g' = exc g /\
  spawned g' = spawned g /\ ts g' = ts g /\ calls g' = calls g /\ exits g' = exits g /\ fin g' = fin g.
Proof. exact zero_step_frame. Qed.
Print Assumptions C11_site0_step_touches_no_atomic.

(* after every acceptor step the scheduled thread stands at a real site or has finished: 8 is enough
   (at most 3 site-0 steps follow one another), for every configuration and state *)
Theorem C11_trace_acceptor_fuel_suffices : forall cf c t,
  zero cf (fst (lock_step cf c t)) t (snd (lock_step cf c t) t) = false.
Proof. exact lock_step_parks. Qed.
Print Assumptions C11_trace_acceptor_fuel_suffices.

(* and in every state the acceptor reaches from the initial state EVERY thread does *)
Theorem C11_trace_acceptor_all_parked : forall cf sched t,
  let c := snd (lock_trace cf sched (binit cf) []) in
  zero cf (fst c) t (snd c t) = false.
Proof. exact trace_all_parked. Qed.
Print Assumptions C11_trace_acceptor_all_parked.

(* the reported sites are the sites of the acting threads in the successive states, and a reported site 0
   means the acting thread has finished — the implementation logs only sites >= 1, so such an event is
   always rejected by the comparison, never accepted vacuously *)
Theorem C11_trace_sites_are_real : forall cf sched,
  fst (lock_trace cf sched (binit cf) []) = sites cf sched (binit cf) /\
  sites_final cf sched (binit cf).
Proof. exact trace_sites. Qed.
Print Assumptions C11_trace_sites_are_real.

Example C11_site0_example :
  zero tr_cf (binit_shared tr_cf) 0 (BSig KEnd) = true /\ zero tr_cf (binit_shared tr_cf) 0 (BRun 0 0 3 3) = true /\
  zero tr_cf (binit_shared tr_cf) 0 (BSpawn 0) = true /\ zero tr_cf (binit_shared tr_cf) 0 (BSpawn 1) = false.
Proof. vm_compute. repeat split; reflexivity. Qed.

(* ================================================================== the loop of do_work_chunk on every real chunk
   for every chunk index the arithmetic can produce (idx < k) the range [i_begin, i_end) is non-empty and
   ends at or below n < 2^bits, so the loop's `++i` never wraps in the shape type, and the loop enters f
   for exactly the indices [chunk_calls] predicts — all of [i_begin, i_end) when none of them throws *)
From Pika Require Import Proofs.BulkChunkLoop.

Theorem C11_chunk_loop_of_every_chunk : forall cf t off idx g c, guard cf -> 0 < cn cf ->
  get_chunk_size (N.of_nat (cW cf)) (cn cf) = Some c -> idx < get_num_chunks (cn cf) c ->
  let i := chunk_begin (cbits cf) c idx in
  let e := chunk_end (cbits cf) c (cn cf) idx in
  let fuel := N.to_nat (e - i) in
  let r := chunk_calls (cthrows cf) i fuel 0 in
  let k := N.to_nat (fst r) in
  let c' := solo cf t (2 * k) (g, BRun off idx i e) in
  i < e /\ e <= cn cf /\
  map fst (calls (fst c')) = rev (map (fun d => i + N.of_nat d) (seq 0 k)) ++ map fst (calls g) /\
  snd c' = (if snd r then BExch (i + fst r - 1) else BRun off idx e e) /\
  sigs (fst c') = sigs g /\ remaining (fst c') = remaining g /\ queues (fst c') = queues g /\
  ((forall j, i <= j -> j < e -> cthrows cf j = false) -> fst r = e - i /\ snd r = false).
Proof. exact real_chunk_loop. Qed.
Print Assumptions C11_chunk_loop_of_every_chunk.

(* hypotheses satisfiable: the 8-bit-shape configuration of the earlier example, chunk 1 *)
Example C11_chunk_loop_example2 :
  let cf := {| cW := 3; cn := 100; cbits := 8; clocal := 0; cthrows := fun j => N.eqb j 30; cvals := 7 |} in
  guard cf /\ get_chunk_size 3 100 = Some 8 /\ 1 < get_num_chunks 100 8 /\
  chunk_begin 8 8 1 = 8 /\ chunk_end 8 8 100 1 = 16.
Proof.
  cbn zeta. unfold guard, W_ok. cbn [cW cn cbits clocal].
  repeat split; try lia; try (vm_compute; reflexivity).
Qed.

(* ================================================================== returns and throws are logged consistently
   in every reachable state a call of f that has returned for a throwing index is recorded as thrown, and
   from then on every completion is an error — a value can never follow a throw that has happened *)
From Pika Require Import Proofs.BulkExitLog.

Theorem C11_returned_throw_means_error : forall cf sched, guard cf ->
  let g := fst (brun cf sched) in
  forall x, In x (exits g) -> cthrows cf x = true ->
  In x (thrown g) /\ forall s, In s (sigs g) -> exists y, sg s = SError (Some y).
Proof. exact returned_throw_means_error. Qed.
Print Assumptions C11_returned_throw_means_error.

(* a call returns only if it was entered (exit log ⊆ call log), and a thread inside f(i) has i in the
   call log — every reachable state, every configuration (no guard needed) *)
Theorem C11_exits_are_calls : forall cf sched,
  ExitInv (fst (brun cf sched)) (snd (brun cf sched)).
Proof. exact exit_inv_run. Qed.
Print Assumptions C11_exits_are_calls.

Example C11_exit_inv_unfolds : forall g ls, ExitInv g ls <->
  (forall x, In x (exits g) -> called g x) /\ (forall t i, in_call (ls t) = Some i -> called g i).
Proof. intros g ls. unfold ExitInv. tauto. Qed.

(* ================================================================== set-level completion facts (Proofs/BulkOutcome.v) *)
From Pika Require Import Proofs.BulkOutcome.

(* in every reachable state: no index's return is logged twice, a thread inside f(i) has not yet returned from
   it, and no two threads are inside f for the same index *)
Theorem C11_no_concurrent_calls_of_one_index : forall cf, guard cf -> forall sched,
  let c := brun cf sched in
  NoDup (exits (fst c)) /\
  (forall t i, in_call (snd c t) = Some i -> ~ In i (exits (fst c))) /\
  (forall t t' i, in_call (snd c t) = Some i -> in_call (snd c t') = Some i -> t = t').
Proof. exact xinv_run. Qed.
Print Assumptions C11_no_concurrent_calls_of_one_index.

(* at the completion every entered call has returned — as a set of indices, not only as a count *)
Theorem C11_completion_after_every_call_returned : forall cf sched, guard cf ->
  let g := fst (brun cf sched) in
  sigs g <> [] -> forall j, called g j -> In j (exits g).
Proof. exact all_called_exited. Qed.
Print Assumptions C11_completion_after_every_call_returned.

(* the completion is a value exactly when no index below n throws: the pool bulk and the generic loop of
   bulk.hpp ([C11_generic_bulk_value] / [_error]) agree on the kind of outcome, for every schedule *)
Theorem C11_pool_value_iff_nothing_throws : forall cf sched, guard cf ->
  let g := fst (brun cf sched) in
  forall s, In s (sigs g) ->
  ((exists v, sg s = SValue v) <-> (forall j, j < cn cf -> cthrows cf j = false)).
Proof. exact pool_outcome_kind. Qed.
Print Assumptions C11_pool_value_iff_nothing_throws.
