(* Props/Properties_C12.v — C12: a task's context survives suspension, migration and recycling.

   Property (properties.jsonl): everything a task owns — stack contents, locals, callee-saved
   and floating-point register state, task-local data, identity — is the same after a yield or
   suspension as before, even on another worker; every task runs on its own stack of the size
   configured for its class, disjoint from every other live stack; a recycled object starts
   clean.  Quantifier: all tasks of all four classes, configured sizes, guard pages on/off, all
   yield/suspension sequences at any depth, all migrations, all recycling orders, all schedulers.

   PARTIAL.  What is proved here, about the code regenerated into Gen/GenSwapctx.v on every run:
     - the context-switch routine (the asm text of swapcontext64.ipp) restores rsp, the
       callee-saved registers, the return address and every stack word of the suspended context,
       for every register file and memory and whatever ran in between (any worker: the machine
       state of the resuming side is arbitrary) that did not write that stack; it writes nothing
       except below the caller's stack pointer and the cell &from.m_sp (so task-local data and
       the task's identity, which live in the heap object, are untouched by a switch);
     - the frame built by init()/rebind_stack() enters the trampoline with rdi = this and the
       ABI stack alignment;
     - rebind_base / coroutine rebind reset every per-task field to what a constructor gives;
     - an object taken from a per-size heap is only rebound to a task of the same stack size,
       for every configuration of sizes (coinciding sizes included) and every create/terminate
       order.
   What is REFUTED (defect F7): floating-point control state (MXCSR, x87 control word) is not
   preserved — C12_fp_control_preserved_refuted.
   What is NOT a theorem (OS / hardware, observed by the harness only): that mmap returns
   disjoint, page-aligned regions of the requested size, guard pages, madvise, the hardware's FP
   state, and the compiler's use of caller-saved / vector registers around the call.

   Only statements; each is closed by [exact] of a lemma from Proofs/. *)
From Coq Require Import ZArith List.
From Pika Require Import Model.CtxSyntax Gen.GenSwapctx Model.Ctx Model.Rebind
  Proofs.CtxProofs Proofs.RebindProofs.
Import ListNotations.
Local Open Scope Z_scope.

(* Context A (any register file, any memory; [caller_ok]: aligned stack pointer with [room]
   writable bytes below it, the cell &from.m_sp outside its stack) calls the routine with return
   address retA and is switched out; [saved] is the stack pointer the routine stored.  Later ANY
   machine state s2 (another worker, another FP state, other register contents) whose memory
   agrees with A's stack on [saved, hi) and whose own pushes and cell lie outside it switches to
   [saved].  Then control continues at retA with rsp as after a return from the call, rbx rbp
   r12-r15 as A left them, and every stack word of A in [rsp, hi) unchanged. *)
Theorem C12_swap_roundtrip : forall (s0 : state) (retA hi : Z),
  caller_ok s0 hi ->
  exists t1 s1, switch retA s0 = Jump t1 s1 /\
    let saved := mem s1 (regs s0 RDI) in
    regs s0 RSP - room <= saved < regs s0 RSP /\ saved mod 8 = 0 /\
    forall (s2 : state) (retX hi2 : Z),
      caller_ok s2 hi2 ->
      regs s2 RSI = saved ->
      (forall a, saved <= a < hi -> mem s2 a = mem s1 a) ->
      (regs s2 RSP <= saved \/ hi <= regs s2 RSP - room) ->
      (regs s2 RDI < saved \/ hi <= regs s2 RDI) ->
      exists s3, switch retX s2 = Jump retA s3 /\
        regs s3 RSP = regs s0 RSP /\
        (forall q, In q callee_saved -> regs s3 q = regs s0 q) /\
        (forall a, regs s0 RSP <= a < hi -> mem s3 a = mem s0 a) /\
        mxcsr s3 = mxcsr s2 /\ fpcw s3 = fpcw s2.
Proof. exact swap_roundtrip_l. Qed.
Print Assumptions C12_swap_roundtrip.

(* a switch writes only the [room] bytes below the caller's stack pointer and the cell *)
Theorem C12_switch_writes_only : forall (s : state) (ret hi t : Z) (s' : state),
  caller_ok s hi -> switch ret s = Jump t s' ->
  forall a, ~ (regs s RSP - room <= a < regs s RSP) -> a <> regs s RDI -> mem s' a = mem s a.
Proof. exact switch_writes_only_l. Qed.
Print Assumptions C12_switch_writes_only.

(* first switch into the frame written by init() / rebind_stack() on a 16-byte aligned stack of
   a size that is a multiple of 16 (page-aligned mmap, page-multiple sizes): the trampoline
   [funp] is entered with rdi = this, rsp inside the stack and rsp + 8 a multiple of 16 (the
   System V ABI's state at function entry) *)
Theorem C12_first_entry : forall (s : state) (ret hi stack size this funp : Z) (m0 : Z -> Z),
  caller_ok s hi ->
  0 <= stack -> stack mod 16 = 0 -> size mod 16 = 0 -> 8 * context_size <= size -> stack + size < W ->
  mem s = init_frame stack size this funp m0 ->
  regs s RSI = frame_sp stack size ->
  (regs s RSP <= frame_sp stack size \/ stack + size <= regs s RSP - room) ->
  (regs s RDI < frame_sp stack size \/ stack + size <= regs s RDI) ->
  exists s', switch ret s = Jump funp s' /\
    regs s' RDI = this /\
    regs s' RSP = frame_sp stack size + 8 * (funp_idx + 1) /\
    (regs s' RSP + 8) mod 16 = 0 /\
    stack <= regs s' RSP /\ regs s' RSP + 8 <= stack + size /\
    mem s' (regs s RDI) = regs s RSP - 72 /\
    mxcsr s' = mxcsr s /\ fpcw s' = fpcw s.
Proof. exact first_entry_l. Qed.
Print Assumptions C12_first_entry.

(* the routine contains no instruction that reads or writes MXCSR / the x87 control word; a
   switch leaves both as they are on the executing CPU *)
Theorem C12_fp_control_untouched : forall ret s t s', switch ret s = Jump t s' ->
  mxcsr s' = mxcsr s /\ fpcw s' = fpcw s.
Proof. exact switch_fpctl_untouched_l. Qed.
Print Assumptions C12_fp_control_untouched.

(* F7 (genuine defect, KNOWN_FINDINGS.txt): "FP control state is the same after resumption" is
   false.  Witness: A runs with MXCSR = 0x5F80 (round towards +inf) and is switched out; a
   context with MXCSR = 0x1F80 satisfying every hypothesis of C12_swap_roundtrip resumes A: all
   callee-saved registers are restored, MXCSR and the x87 control word are not.  Replayed on the
   real routine by harness/c12_swap.cpp (deterministic) and on the runtime by harness/c12_rt.cpp. *)
Theorem C12_fp_control_preserved_refuted :
  exists (s0 s1 s2 s3 : state) (retA retX hi hi2 t1 : Z),
    caller_ok s0 hi /\ switch retA s0 = Jump t1 s1 /\
    caller_ok s2 hi2 /\ regs s2 RSI = mem s1 (regs s0 RDI) /\
    (forall a, mem s1 (regs s0 RDI) <= a < hi -> mem s2 a = mem s1 a) /\
    (regs s2 RSP <= mem s1 (regs s0 RDI) \/ hi <= regs s2 RSP - room) /\
    (regs s2 RDI < mem s1 (regs s0 RDI) \/ hi <= regs s2 RDI) /\
    switch retX s2 = Jump retA s3 /\
    (forall q, In q callee_saved -> regs s3 q = regs s0 q) /\
    mxcsr s0 = 24448 /\ mxcsr s3 = 8064 /\
    mxcsr s3 <> mxcsr s0 /\ fpcw s3 <> fpcw s0.
Proof. exact fp_control_preserved_refuted_l. Qed.
Print Assumptions C12_fp_control_preserved_refuted.

(* after rebind_base (assignment list regenerated from thread_data.cpp) every per-task member —
   state word, priority, requested_interrupt_, enabled_interrupt_, ran_exit_funcs_, exit_funcs_,
   scheduler, last worker, stack-size enum — equals what the constructor (initialiser list
   regenerated too) gives for the same init data, whatever the object contained before *)
Theorem C12_rebind_resets_all : forall (init : init_data) (args : nat -> Z) (junk d : tdata) (f : tfield),
  per_task f = true -> rebind_base init d f = construct init args junk f.
Proof. exact rebind_resets_all_l. Qed.
Print Assumptions C12_rebind_resets_all.

(* ... and the per-object members (physical stack size, queue, stackless flag) are kept *)
Theorem C12_rebind_keeps_object : forall (init : init_data) (d : tdata) (f : tfield),
  per_task f = false -> rebind_base init d f = d f.
Proof. exact rebind_keeps_object_l. Qed.
Print Assumptions C12_rebind_keeps_object.

(* coroutine level: exit path of the trampoline (reset_tss, reset) followed by rebind gives the
   constructor's values for id, function, state, exit state/status, stored exception, thread
   data word, result, argument and a fresh initial frame (every member except the balanced
   counter continuation_recursion_count_, which the code never resets) *)
Theorem C12_coro_recycle_resets : forall (tprev tnew : Z) (d junk : cdata) (f : cfield),
  coro_reset_scope f = true ->
  coro_do_rebind tnew (coro_at_exit tprev d) f = coro_construct tnew junk f.
Proof. exact coro_recycle_resets_l. Qed.
Print Assumptions C12_coro_recycle_resets.

(* for every configuration of the five sizes (coinciding ones included) and every sequence of
   task creations and terminations, a recycled object is only rebound to a task whose class
   asks for exactly the object's physical stack size; fresh objects get the size of their class *)
Theorem C12_recycle_same_size : forall (p : params) (ops : list qop) o cls want,
  In (EvRebound o cls want) (qlog (q_run p ops)) ->
  osize o = want /\ want = get_stack_size p cls.
Proof. exact recycle_same_size_l. Qed.
Print Assumptions C12_recycle_same_size.

Theorem C12_new_object_size : forall (p : params) (ops : list qop) o cls want,
  In (EvNew o cls want) (qlog (q_run p ops)) ->
  osize o = want /\ want = get_stack_size p cls.
Proof. exact new_object_size_l. Qed.
Print Assumptions C12_new_object_size.

(* ---- thread_stacksize::current (inherit the creator's class) ----
   A task created with `current` by a task of class c — through the immediate path (run_now: high / boost
   priority, register_thread) or as a staged description that some worker converts later, in whatever
   context [conv] that conversion runs — gets the class c: its stack has the size configured for c and it
   reports c itself.  Holds because thread_queue::create_thread resolves `current` in the creator's
   context before the two paths split (Gen.current_resolution = CurBeforeSplit, regenerated). *)
Theorem C12_current_inherits_creator_class : forall (path : cpath) (c : sclass) (conv : option sclass),
  created_class path (Some c) conv Current = c /\ created_enum path (Some c) Current = Some c.
Proof. exact created_class_current_l. Qed.
Print Assumptions C12_current_inherits_creator_class.

(* children, grandchildren, ...: any chain of `current` creations through any paths keeps the class *)
Theorem C12_current_inherits_through_generations : forall (gens : list (cpath * option sclass * sreq)) (c : sclass),
  (forall g, In g gens -> snd g = Current) -> descend c gens = c.
Proof. exact descend_current_l. Qed.
Print Assumptions C12_current_inherits_through_generations.

(* ... and the thread object such a child runs on (fresh or recycled, any size configuration, any
   create / terminate history of the queue) has the stack size configured for the creator's class *)
Theorem C12_current_child_stack_size : forall (p : params) (ops : list qop) (path : cpath) (c : sclass)
    (conv : option sclass) o want,
  In (EvRebound o (created_class path (Some c) conv Current) want) (qlog (q_run p ops)) \/
  In (EvNew o (created_class path (Some c) conv Current) want) (qlog (q_run p ops)) ->
  osize o = get_stack_size p c.
Proof. exact current_child_object_size_l. Qed.
Print Assumptions C12_current_child_stack_size.

(* an explicit class is never changed by the creation paths; `current` without a creating task
   (plain OS thread) is get_self_stacksize_enum()'s fallback class *)
Theorem C12_explicit_class_kept : forall (path : cpath) (creator conv : option sclass) (c : sclass),
  created_class path creator conv (Explicit c) = c /\ created_enum path creator (Explicit c) = Some c.
Proof. exact created_class_explicit_l. Qed.
Print Assumptions C12_explicit_class_kept.

Theorem C12_current_without_creator : forall (path : cpath) (conv : option sclass),
  created_class path None conv Current = no_self_class.
Proof. exact created_class_no_task_l. Qed.
Print Assumptions C12_current_without_creator.

(* ---- thread_queue_mc (shared-priority scheduler): its own copy of creation / recycling / `current` ----
   The thread objects of this scheduler are created and recycled by queue_holder_thread (one set of per-size
   heaps per worker, shared by its bound / high / normal / low priority thread_queue_mc queues; read and written
   at the FRONT of the std::list where thread_queue uses the back), `current` is resolved by
   thread_queue_mc::create_thread, staged descriptions are converted by thread_queue_mc::add_new.  All of it is
   regenerated from queue_holder_thread.hpp / thread_queue_mc.hpp (Gen.mc_create_chain, mc_recycle_chain,
   mc_heap_take, mc_heap_put, mc_current_resolution) and the same three facts are proved for it. *)
Theorem C12_mc_recycle_same_size : forall (p : params) (ops : list qop) o cls want,
  In (EvRebound o cls want) (qlog (mc_q_run p ops)) ->
  osize o = want /\ want = get_stack_size p cls.
Proof. exact mc_recycle_same_size_l. Qed.
Print Assumptions C12_mc_recycle_same_size.

Theorem C12_mc_new_object_size : forall (p : params) (ops : list qop) o cls want,
  In (EvNew o cls want) (qlog (mc_q_run p ops)) ->
  osize o = want /\ want = get_stack_size p cls.
Proof. exact mc_new_object_size_l. Qed.
Print Assumptions C12_mc_new_object_size.

Theorem C12_mc_current_inherits_creator_class : forall (path : cpath) (c : sclass) (conv : option sclass),
  mc_created_class path (Some c) conv Current = c /\ mc_created_enum path (Some c) Current = Some c.
Proof. exact mc_created_class_current_l. Qed.
Print Assumptions C12_mc_current_inherits_creator_class.

Theorem C12_mc_current_inherits_through_generations : forall (gens : list (cpath * option sclass * sreq)) (c : sclass),
  (forall g, In g gens -> snd g = Current) -> mc_descend c gens = c.
Proof. exact mc_descend_current_l. Qed.
Print Assumptions C12_mc_current_inherits_through_generations.

Theorem C12_mc_current_child_stack_size : forall (p : params) (ops : list qop) (path : cpath) (c : sclass)
    (conv : option sclass) o want,
  In (EvRebound o (mc_created_class path (Some c) conv Current) want) (qlog (mc_q_run p ops)) \/
  In (EvNew o (mc_created_class path (Some c) conv Current) want) (qlog (mc_q_run p ops)) ->
  osize o = get_stack_size p c.
Proof. exact mc_current_child_object_size_l. Qed.
Print Assumptions C12_mc_current_child_stack_size.

Theorem C12_mc_explicit_class_kept : forall (path : cpath) (creator conv : option sclass) (c : sclass),
  mc_created_class path creator conv (Explicit c) = c /\ mc_created_enum path creator (Explicit c) = Some c.
Proof. exact mc_created_class_explicit_l. Qed.
Print Assumptions C12_mc_explicit_class_kept.

(* the heap theorems for ANY regenerated code whose two chains agree and whose heap targets are distinct, whichever
   ends of the lists it uses (the instance above and C12_recycle_same_size are this lemma at mc_code / tq_code) *)
Theorem C12_recycle_same_size_any_code : forall (k : qcode) (p : params) (ops : list qop) o cls want,
  chains_ok_g k = true ->
  In (EvRebound o cls want) (qlog (q_run_g k p ops)) ->
  osize o = want /\ want = get_stack_size p cls.
Proof. exact recycle_same_size_g. Qed.
Print Assumptions C12_recycle_same_size_any_code.

(* ---- non-vacuity ---- *)
(* a concrete run of the routine: A (rsp = 0x10000, callee-saved 11..16) switches to a frame at
   0x30000 holding 101..108, start address 0x400123, argument 0x77 *)
Example C12_example_switch :
  run_switch 4198400
    [1; 11; 3; 4; 196608; 131072; 12; 65536; 0; 0; 0; 0; 13; 14; 15; 16]
    [(196608, 101); (196616, 102); (196624, 103); (196632, 104); (196640, 105); (196648, 106);
     (196656, 107); (196664, 108); (196672, 4194595); (196688, 119)]
    [131072; 65528; 65520; 65464]
  = Some (4194595,
          [106; 107; 4194595; 105; 196608; 119; 108; 196680; 0; 0; 0; 0; 104; 103; 102; 101],
          [65464; 4198400; 12; 16]).
Proof. vm_compute. reflexivity. Qed.

(* [caller_ok] is satisfiable (the witness of the refutation) *)
Example C12_example_caller_ok : caller_ok fp_s0 69632.
Proof. unfold caller_ok, room, W, fp_s0. cbv beta iota delta [regs]. repeat split; arith_mod. Qed.

(* recycling with small = medium = 0x8000: the medium task reuses the small task's object, and
   that is fine because the sizes are the same; a large task does not *)
Example C12_example_recycle :
  let p := fun c => match c with Small => 32768 | Medium => 32768 | Large => 65536
                               | Huge => 131072 | Nostack => max_ptrdiff end in
  rev (qlog (q_run p [Create Small; Terminate 0; Create Large; Create Medium]))
  = [EvNew (mkObj 0 32768) Small 32768; EvRecycled (mkObj 0 32768) Small;
     EvNew (mkObj 1 65536) Large 65536; EvRebound (mkObj 0 32768) Medium 32768].
Proof. vm_compute. reflexivity. Qed.

(* rebinding an object that carries an interruption request and exit callbacks *)
Example C12_example_rebind :
  let dirty := fun f => match f with F_requested_interrupt => VB true | F_ran_exit_funcs => VB true
                                | F_exit_funcs => VZ 3 | F_stacksize => VZ 32768 | _ => VZ 9 end in
  let init := fun i => match i with I_priority => 2 | I_initial_state => 3 | _ => 5 end in
  map (rebind_base init dirty) all_tfields
  = [VState 3 1; VZ 2; VB false; VB true; VB false; VNil; VZ 5; VZ no_worker; VZ 5; VZ 9; VZ 32768; VZ 9].
Proof. vm_compute. reflexivity. Qed.

(* `current` through three generations of a huge task: staged (converted by a worker outside any task),
   immediate, staged converted inside a small task — all huge; and why the place of the resolution
   matters: were `current` resolved only on the immediate path, the staged child of a huge task,
   converted by a worker, would get get_self_stacksize_enum()'s fallback class *)
Example C12_example_current :
  descend Huge [(Staged, None, Current); (RunNow, None, Current); (Staged, Some Small, Current)] = Huge /\
  resolve None (create_prologue_at CurRunNowOnly Staged (Some Huge) Current) = Small /\
  resolve (Some Huge) (create_prologue_at CurRunNowOnly RunNow (Some Huge) Current) = Huge.
Proof. vm_compute. repeat split; reflexivity. Qed.

(* the mc heaps are LIFO at the front, thread_queue's LIFO at the back: with small = medium the medium task reuses the
   object recycled LAST (object 1), under both codes; a FIFO use of the list (take front, put back) would reuse object 0 —
   all three satisfy the size theorem *)
Example C12_example_mc_recycle :
  let p := fun c => match c with Small => 32768 | Medium => 32768 | Large => 65536
                               | Huge => 131072 | Nostack => max_ptrdiff end in
  let ops := [Create Small; Create Small; Terminate 1; Terminate 0; Create Large; Create Medium] in
  rev (qlog (mc_q_run p ops))
  = [EvNew (mkObj 0 32768) Small 32768; EvNew (mkObj 1 32768) Small 32768;
     EvRecycled (mkObj 0 32768) Small; EvRecycled (mkObj 1 32768) Small;
     EvNew (mkObj 2 65536) Large 65536; EvRebound (mkObj 1 32768) Medium 32768] /\
  qlog (q_run p ops) = qlog (mc_q_run p ops) /\
  hd_error (qlog (q_run_g (mkCode mc_create_chain mc_recycle_chain HFront HBack) p ops)) = Some (EvRebound (mkObj 0 32768) Medium 32768) /\
  mc_heap_take = HFront /\ mc_heap_put = HFront /\ tq_heap_take = HBack /\ tq_heap_put = HBack.
Proof. vm_compute. repeat split; reflexivity. Qed.

(* `current` under the shared-priority scheduler: a run_now request from another worker's queue is turned into a
   staged one before thread_queue_mc::create_thread sees it; the class is the creator's either way *)
Example C12_example_mc_current :
  mc_descend Huge [(mc_effective_path false RunNow, None, Current); (mc_effective_path true RunNow, None, Current);
                   (Staged, Some Small, Current)] = Huge /\
  mc_effective_path false RunNow = Staged.
Proof. vm_compute. repeat split; reflexivity. Qed.
