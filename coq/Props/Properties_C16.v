(* C16 - configuration precedence: command line over environment over defaults.
   Statements only; proofs are in Proofs/ConfigProofs.v; the tables (built-in ini, option ->
   ini key) are Gen/GenIni.v, regenerated from the pika source tree on every run. *)
From Coq Require Import String Ascii List NArith Bool Permutation.
From Pika Require Import Gen.GenIni Model.Config Proofs.ConfigExpandProofs Proofs.ConfigProofs.
Import ListNotations.
Open Scope string_scope.

(* For EVERY option -> ini-key pair of the regenerated table and EVERY combination of present /
   absent sources: the command-line option (which includes a PIKA_COMMANDLINE_OPTIONS entry, as
   that is prepended to the command line) decides; else a --pika:ini definition; else the
   environment variable named by the built-in placeholder; else the built-in default.
   [env_plain env n d]: the value of the variable (the default if it is unset) contains no `${` / `$[`
   (noph) and fewer than 90 dollar signs - otherwise the ini layer expands the VALUE again
   (C16_builtin_placeholders states what is stored in general, C16_expand_value_rescanned has witnesses). *)
Theorem C16_cmdline_over_env_over_default :
  forall opt key, In (opt, key) opt_key ->
  forall raw n d, assoc key builtin_ini = Some raw -> placeholder raw = Some (n, d) ->
  forall env p cfgmap, env_plain env n d ->
    resolve env p cfgmap opt key =
    match value_of opt p with
    | Some v => v
    | None => match assoc key cfgmap with
              | Some v => v
              | None => match getenv env n with Some v => v | None => d end
              end
    end.
Proof. exact resolve_precedence. Qed.
Print Assumptions C16_cmdline_over_env_over_default.

(* the hypotheses of the previous theorem hold for every pair of the table (the only key
   without a built-in line is the write-only high_priority_queues) *)
Theorem C16_table_covered : forallb table_entry_ok opt_key = true.
Proof. exact table_covered. Qed.
Print Assumptions C16_table_covered.

(* every placeholder line `${NAME:default}` of the built-in ini, for the FAITHFUL expansion (transcription of
   section::expand_only / expand / expand_brace / expand_bracket / find_next of ini.cpp), for every environment:
   (1) add_entry stores the value of the variable if set, else the default, AFTER SCANNING THE TEXT BEHIND ITS FIRST
       CHARACTER AGAIN (rescan_tail: p = value.find_first_of('$', p + 1));
   (2) when that value contains no placeholder (noexp = no `${` / `$[`, fewer than 90 dollar signs) it is stored
       unchanged and every later read (get_entry -> expand) returns it unchanged. *)
Theorem C16_builtin_placeholders : Forall placeholder_ok builtin_ini.
Proof. exact builtin_placeholders. Qed.
Print Assumptions C16_builtin_placeholders.

(* ---- the expansion function itself (Model/Config.v: xp_all = section::expand, xp_only = expand_only,
   read_x = add_entry then get_entry) *)

(* identity / fixpoints: a text without placeholder start (no '$' followed by '{' or '[') is returned unchanged
   by expand, expand_only and by the store/read pair, for every environment and configuration, as soon as the
   fuel exceeds the number of dollar signs; in particular a text without '$' (C16_app_args_unchanged uses that) *)
Theorem C16_expand_fixpoint :
  forall env look fuel k s, noph s = true -> dollars s < fuel ->
    xp_all env look fuel s = XOk s /\ xp_only env look fuel k s = XOk s.
Proof. intros. split; [now apply xp_all_noph|now apply xp_only_noph]. Qed.
Print Assumptions C16_expand_fixpoint.

Theorem C16_expand_no_dollar_identity :
  forall env look k s, contains c_dollar s = false -> read_x env look k s = XOk s.
Proof. exact read_x_no_dollar. Qed.
Print Assumptions C16_expand_no_dollar_identity.

(* ... but the result of ONE expansion is in general NOT a fixpoint (so "a fully expanded entry contains no
   placeholder of a defined name" is false for the code that exists): the first character of a substituted
   value is never scanned again, an escaped closing brace is un-escaped without being used, a '$' in front of
   a placeholder can capture what the placeholder leaves behind.  Each witness: the result of expand still
   contains a complete placeholder of a defined variable, and expanding again changes it.  (The second and
   third were run on the real code through two passes: `a${HOME\}b` arrives as a/hb, `$${X}{HOME}` as /h.) *)
Theorem C16_expand_fixpoint_refuted :
  (let env := [("Y", "${Z}"); ("Z", "zz")] in
   xp_all env no_entries 10 "${Y}" = XOk "${Z}" /\ xp_all env no_entries 10 "${Z}" = XOk "zz") /\
  (let env := [("HOME", "/h")] in
   xp_all env no_entries 10 "a${HOME\}b" = XOk "a${HOME}b" /\ xp_all env no_entries 10 "a${HOME}b" = XOk "a/hb") /\
  (let env := [("X", ""); ("HOME", "/h")] in
   xp_all env no_entries 10 "$${X}{HOME}" = XOk "${HOME}" /\ xp_all env no_entries 10 "${HOME}" = XOk "/h").
Proof. repeat split; vm_compute; reflexivity. Qed.
Print Assumptions C16_expand_fixpoint_refuted.

(* fuel: the transcription counts nesting depth.  A result other than "out of fuel" does not depend on the
   amount of fuel: it is the result for every larger amount (so the bound of the executable model, xfuel = 100,
   suffices for every input whose expansion ends within it, and C16_expand_fixpoint gives the explicit bound
   (number of '$') + 1 for texts without placeholder) *)
Theorem C16_expand_fuel_monotone :
  forall env look k f g s r, f <= g -> r <> XFuel ->
    (xp_all env look f s = r -> xp_all env look g s = r) /\
    (xp_only env look f k s = r -> xp_only env look g k s = r).
Proof.
  intros env look k f g s r Hle Hn. split; intros E.
  - exact (xp_all_fuel_monotone env look f g s r E Hn Hle).
  - exact (xp_only_fuel_monotone env look k f g s r E Hn Hle).
Qed.
Print Assumptions C16_expand_fuel_monotone.

(* position of --pika:ini: below the command-line option, above environment/default; among
   several definitions of one key the FIRST decides (manage_config) - so a definition
   prepended from PIKA_COMMANDLINE_OPTIONS beats one on the command line (see refuted below) *)
Theorem C16_ini_position :
  forall env env' p opt key a b v,
    (forall w, value_of opt p = Some w -> resolve env p (a ++ b) opt key = w) /\
    (value_of opt p = None -> assoc key a = Some v ->
     resolve env p (a ++ b) opt key = v /\ resolve env' p (a ++ b) opt key = v).
Proof.
  intros. split.
  - intros w H. exact (ini_below_cmdline env p (a ++ b)%list opt key w H).
  - intros H H0. split; [exact (ini_first_wins env p opt key a b v H H0)
                        |exact (ini_first_wins env' p opt key a b v H H0)].
Qed.
Print Assumptions C16_ini_position.

(* permuting the options (each given once) and the ini definitions (distinct keys) does not
   change what any setting resolves to *)
Theorem C16_order_independent :
  forall env p p' cfg cfg' opt key,
    Permutation (p_opts p) (p_opts p') -> NoDup (map fst (p_opts p)) ->
    Permutation cfg cfg' -> NoDup (map fst cfg) ->
    resolve env p cfg opt key = resolve env p' cfg' opt key.
Proof. exact order_independent_resolve. Qed.
Print Assumptions C16_order_independent.

(* invalid values stop start-up: --pika:threads=0, --pika:threads=<not a number>,
   --pika:numa-sensitive > 2, an unknown --pika:ini key *)
Theorem C16_invalid_rejected :
  forall env p cfg m ok f a,
    (forall v, value_of "pika:threads" p = Some v -> v <> "all" -> v <> "cores" ->
               (parse_size v = Some 0%N \/ parse_size v = None) ->
               forall c, handle env p cfg m ok f a <> Started c) /\
    (forall v n, value_of "pika:numa-sensitive" p = Some v -> parse_size v = Some n -> (2 < n)%N ->
                 forall c, handle env p cfg m ok f a <> Started c) /\
    (ok = false -> forall c, handle env p cfg m ok f a <> Started c).
Proof.
  intros. split; [|split].
  - intros v Hv Ha Hc [H|H].
    + exact (threads_zero_rejected env p cfg m ok f a v Hv H Ha Hc).
    + exact (threads_not_a_number_rejected env p cfg m ok f a v Hv H Ha Hc).
  - intros v n. exact (numa_out_of_range_rejected env p cfg m ok f a v n).
  - intros ->. exact (unknown_ini_key_rejected env p cfg m f a).
Qed.
Print Assumptions C16_invalid_rejected.

(* KEYWORD VALUES of the worker count.  `cores` and `all` are accepted by every source of the setting
   (command line / PIKA_COMMANDLINE_OPTIONS option, --pika:ini, PIKA_THREADS, built-in default) and obey the
   same precedence as numbers: whenever start-up succeeds (and pika.force_min_os_threads is not forced through
   --pika:ini) the runtime's worker count is the meaning of the text of the highest-precedence source present
   ([threads_text]: option, else ini definition, else environment variable, else the default `cores`), where
   `cores` = number of cores and `all` = number of PUs of the EFFECTIVE mask ([eff_counts]: the whole machine
   under --pika:ignore-process-mask / pika.ignore_process_mask, else the explicit --pika:process-mask if one
   resolves, else the inherited process mask; a core counts when at least one of its PUs is in the mask). *)
Theorem C16_threads_keywords_precedence :
  forall env p cfg m ok f a c,
    handle env p cfg m ok f a = Started c ->
    assoc "pika.force_min_os_threads" cfg = None ->
    env_plain env "PIKA_THREADS" "cores" ->
    exists it ic, eff_counts env p cfg m = Some (it, ic) /\
      kw_count it ic (threads_text env p cfg) = Some (c_threads c).
Proof. exact threads_keywords_precedence_sources. Qed.
Print Assumptions C16_threads_keywords_precedence.

(* unknown options (pika or not) are not swallowed: the parser records the token verbatim as
   unregistered, later tokens never remove it, and a non-empty unregistered list makes the
   start-up end in `rejected` (late handler, stop() = -1, entry point not run) *)
Theorem C16_unknown_pika_option_rejected :
  (forall fuel t r p name,
      starts "--" t = true -> t <> "--" ->
      name = match split_at c_eq (drop 2 t) with Some (a, _) => a | None => drop 2 t end ->
      lookup_opt name = LUnknown ->
      parse_tokens (S fuel) (t :: r) false p = parse_tokens fuel r false (add_unreg t p)) /\
  (forall fuel ts term p q,
      parse_tokens fuel ts term p = inl q -> p_unreg p <> [] -> p_unreg q <> []) /\
  (forall env p cfg m ok f ex arg0 pco args,
      p_unreg p <> [] -> forall c, handle env p cfg m ok f (fun _ => app_argv ex arg0 pco args p) <> Started c).
Proof.
  split; [exact unknown_token_unregistered|split; [exact parse_unreg_mono|]].
  intros env p cfg m ok f ex arg0 pco args H.
  exact (unregistered_not_started env p cfg m ok f ex arg0 pco args H).
Qed.
Print Assumptions C16_unknown_pika_option_rejected.

(* F11: false of the current code.  An option present both in PIKA_COMMANDLINE_OPTIONS and on
   the command line does not resolve to the command-line value: start-up is rejected with
   multiple_occurrences. *)
Definition M16 := {| m_pus := 16; m_cores := 16; m_maskcount := 16; m_maskcores := 16;
                     m_coremasks := map (fun i => N.shiftl 1 (N.of_nat i)) (seq 0 16) |}.
Theorem C16_prepend_duplicate_refuted :
  exists env args,
    run env M16 "./prog" args = Rejected RMultiple /\
    args = ["--pika:threads=3"] /\ env = [("PIKA_COMMANDLINE_OPTIONS", "--pika:threads=2")].
Proof. eexists. eexists. split; [|split; reflexivity]. vm_compute. reflexivity. Qed.
Print Assumptions C16_prepend_duplicate_refuted.

(* ... and in general: whenever a non-composing option occurs in both, parsing is rejected *)
Theorem C16_prepend_duplicate_general :
  forall pre cmd n, single n = true -> In n (map fst pre) -> In n (map fst cmd) ->
                    dup_in [] (pre ++ cmd) = true.
Proof. exact shared_option_duplicate. Qed.
Print Assumptions C16_prepend_duplicate_general.

(* guarded theorem: if no (non-composing) option occurs both in PIKA_COMMANDLINE_OPTIONS and on
   the command line, and neither repeats one itself, nothing is rejected as a duplicate - the
   precedence theorem above then applies to the merged list *)
Theorem C16_prepend_guarded :
  forall pre cmd,
    dup_in [] pre = false -> dup_in [] cmd = false ->
    (forall n, In n (filter single (map fst pre)) -> ~ In n (filter single (map fst cmd))) ->
    dup_in [] (pre ++ cmd) = false.
Proof. exact no_shared_option_no_duplicate. Qed.
Print Assumptions C16_prepend_guarded.

(* second precedence inversion found while modelling: --pika:ini for a handled key in
   PIKA_COMMANDLINE_OPTIONS beats --pika:ini for the same key on the command line *)
Theorem C16_prepend_ini_refuted :
  exists c, run [("PIKA_COMMANDLINE_OPTIONS", "--pika:ini=pika.os_threads=2")] M16 "./prog"
                ["--pika:ini=pika.os_threads=3"] = Started c /\ c_threads c = 2%N.
Proof. eexists. split; [vm_compute; reflexivity|reflexivity]. Qed.
Print Assumptions C16_prepend_ini_refuted.

(* found while modelling: the late handler glues the last token of PIKA_COMMANDLINE_OPTIONS to
   the first command-line argument; with a typed option there, a valid configuration is rejected *)
Theorem C16_prepend_glued_refuted :
  run [("PIKA_COMMANDLINE_OPTIONS", "--pika:numa-sensitive=2")] M16 "./prog" ["--pika:threads=2"] = Rejected RLateSplit.
Proof. vm_compute. reflexivity. Qed.
Print Assumptions C16_prepend_glued_refuted.

(* application arguments: FALSE in general - an argument containing a quote character (double or single)
   is merged with what follows, a backslash makes start-up fail, an empty argument disappears *)
Theorem C16_app_args_refuted :
  (exists c, run [] M16 "./prog" [String c_dq "ab"; "x"] = Started c /\ c_argv c <> [String c_dq "ab"; "x"]) /\
  (exists c, run [] M16 "./prog" ["a'b"; "x"] = Started c /\ c_argv c = ["ab --pika:positional=x"]) /\
  run [] M16 "./prog" ["a\b"; "x"] = Rejected RLateSplit /\
  (exists c, run [] M16 "./prog" [""; "x"] = Started c /\ c_argv c = ["x"]).
Proof.
  split; [|split; [|split]].
  - eexists. split; [vm_compute; reflexivity|]. vm_compute. discriminate.
  - eexists. split; vm_compute; reflexivity.
  - vm_compute. reflexivity.
  - eexists. split; vm_compute; reflexivity.
Qed.
Print Assumptions C16_app_args_refuted.

(* the dollar sign: the rebuilt command line is stored in the ini entry pika.reconstructed_cmd_line and
   read back by init_helper through get_config_entry, which expands ${NAME} / ${NAME:default} (environment)
   and $[key] / $[key:default] (other configuration entries): an application argument is replaced by the
   value of an environment variable / of a runtime setting, split at the blanks of that value, or turned
   into the empty argument.  Finding C16:app_args:dollar_expanded; the first two witnesses are replayed on
   the real code on every run (tools/props/c16.py, fixed cases) and agree with the model. *)
Theorem C16_app_args_dollar_refuted :
  (exists c, run [("HOME", "/c16home")] M16 "./prog" ["${HOME}"; "x"] = Started c /\ c_argv c = ["/c16home"; "x"]) /\
  (exists c, run [] M16 "./prog" ["$[pika.os_threads]"; "--pika:threads=3"] = Started c /\ c_argv c = ["3"]) /\
  (exists c, run [("HOME", "/a b")] M16 "./prog" ["${HOME}"; "x"] = Started c /\ c_argv c = ["/a"; "b"; "x"]) /\
  (exists c, run [] M16 "./prog" ["a${C16_UNSET:dflt}b"; "$[pika.nosuch]"] = Started c /\ c_argv c = ["adfltb"; ""]) /\
  (exists c, run [] M16 "./prog" ["a$b"; "$"; "x$"] = Started c /\ c_argv c = ["a$b"; "$"; "x$"]).
Proof.
  repeat split; eexists; (split; vm_compute; reflexivity).
Qed.
Print Assumptions C16_app_args_dollar_refuted.

(* substituted text IS scanned again behind its first character (the mismatch of the former model):
   X='$[pika.os_threads]' ./prog '${X}' - add_entry stores $[pika.os_threads], get_entry expands it *)
Theorem C16_expand_value_rescanned :
  (exists c, run [("X", "$[pika.os_threads]")] M16 "./prog" ["${X}"; "--pika:threads=3"] = Started c /\ c_argv c = ["3"]) /\
  (exists c, run [("X", "a$[pika.os_threads]")] M16 "./prog" ["${X}"; "--pika:threads=3"] = Started c /\ c_argv c = ["a3"]) /\
  (exists c, run [("X", ""); ("Y", "${Z}"); ("Z", "${W}"); ("W", "w")] M16 "./prog" ["${X}${Y}"] = Started c /\ c_argv c = ["${W}"]) /\
  (exists c, run [("X", "a"); ("Y", "${Z}"); ("Z", "${W}"); ("W", "w")] M16 "./prog" ["${X}${Y}"] = Started c /\ c_argv c = ["aw"]) /\
  (exists c, run [("PIKA_THREADS", "${T}"); ("T", "3")] M16 "./prog" [] = Started c /\ c_threads c = 3%N).
Proof. repeat split; eexists; (split; vm_compute; reflexivity). Qed.
Print Assumptions C16_expand_value_rescanned.

(* the looping inputs: a value that refers to itself BEHIND its first character (A='x${A}') makes expand and
   expand_only run out of EVERY amount of fuel (the real loop never ends: the string grows by one character per
   round; reproduced: A='x${A}' ./prog '${A}' and PIKA_TRACE_DEPTH='x${PIKA_TRACE_DEPTH}' ./prog hang, finding
   C16:expand:self_reference_hang); the exact self reference A='${A}' stops, because the first character of the
   substituted text is skipped.  (A colon directly behind `${` / `$[` used to terminate the process - std::out_of_range
   from find_next, C16:expand:colon_out_of_range; repaired, see C16_colon_at_start_is_default below.  The
   expansion has no third outcome any more: XThrow / RExpandCrash are gone from the model.) *)
Theorem C16_expand_self_reference_loops :
  (forall look fuel, xp_all env_loop look fuel "${A}" = XFuel) /\
  (forall look k fuel, xp_only env_loop look fuel k "${A}" = XFuel) /\
  (forall look f, xp_all [("A", "${A}")] look (S (S f)) "${A}" = XOk "${A}") /\
  run env_loop M16 "./prog" ["${A}"] = Rejected RExpandLoop /\
  run [("PIKA_TRACE_DEPTH", "x${PIKA_TRACE_DEPTH}")] M16 "./prog" [] = Rejected RExpandLoop.
Proof.
  split; [exact self_reference_loops|]. split; [exact self_reference_loops_only|].
  split; [exact exact_self_reference_stops|]. repeat split; vm_compute; reflexivity.
Qed.
Print Assumptions C16_expand_self_reference_loops.

(* a colon directly behind `${` / `$[` (the former crash C16:expand:colon_out_of_range; fix "ini find_next does not
   look in front of position 0 for an escape character"): find_next(":", to_expand) finds the colon at position 0,
   the name in front of it is empty and EVERYTHING behind it is the default - further colons included.  getenv("")
   is null for every environment, so for every environment, configuration, key and amount of fuel >= 2, and every
   text d without '$', closing delimiter and backslash, expand / expand_only / add_entry + get_entry of "${:" d "}"
   give exactly d; "$[:" d "]" gives d when the configuration has no entry with the empty key.  End to end:
   ./prog '${:x}' and ./prog '$[:x]' start and the application sees x (replayed on the real code on every run,
   tools/props/c16.py family dollar_colon). *)
Theorem C16_colon_at_start_is_default :
  (forall env look k f d,
     contains c_dollar d = false -> contains c_rbrace d = false -> contains c_bs d = false ->
     xp_all env look (S (S f)) ("${:" ++ d ++ "}") = XOk d /\
     xp_only env look (S (S f)) k ("${:" ++ d ++ "}") = XOk d /\
     read_x env look k ("${:" ++ d ++ "}") = XOk d) /\
  (forall env look f d,
     look "" = None ->
     contains c_dollar d = false -> contains c_rbrack d = false -> contains c_bs d = false ->
     xp_all env look (S (S f)) ("$[:" ++ d ++ "]") = XOk d) /\
  (exists c, run [] M16 "./prog" ["${:x}"] = Started c /\ c_argv c = ["x"]) /\
  (exists c, run [] M16 "./prog" ["$[:x]"] = Started c /\ c_argv c = ["x"]) /\
  (exists c, run [("b", "no")] M16 "./prog" ["a${:b:c}d"] = Started c /\ c_argv c = ["ab:cd"]).
Proof.
  split; [exact colon_at_start_brace|]. split; [exact colon_at_start_bracket|].
  repeat split; eexists; (split; vm_compute; reflexivity).
Qed.
Print Assumptions C16_colon_at_start_is_default.


(* app_args_unchanged, END TO END.  The guard is the boolean predicate
     arg_safe a = nonempty a && all_safe a,   all_safe a = every character c of a satisfies
     safe_char c = negb (c is double quote || c is single quote || c is backslash || c is dollar)
   i.e. according to the model of reconstruct_command_line / embed_in_quotes / the trimmed ini entry /
   split_unix / init_helper EVERY character other than the two quote characters and the backslash survives,
   blanks and tabs inside one argument included (embed_in_quotes wraps such an argument in double quotes and
   split_unix copies blanks inside quotes); the three excluded characters and the empty argument are exactly
   the classes of the finding C16:app_args:quote_backslash_or_empty (C16_app_args_refuted has a witness for
   each).  The dollar sign is excluded in addition because the rebuilt line is read back through
   get_config_entry, which expands ${NAME} and $[key] (./prog '${HOME}' arrives as /root); the model applies
   that expansion too (app_argv's [ex] = read_x; C16_app_args_dollar_refuted above), so `$` must stay in
   the guard (finding C16:app_args:dollar_expanded): without `$` in the line the expansion is the identity
   (read_x_nodl / C16_expand_no_dollar_identity).
   The guard is imposed on argv[0] and on EVERY argument (the prepended tokens of PIKA_COMMANDLINE_OPTIONS
   included), because option values travel through the same re-quoting and an unbalanced quote in one of them
   swallows the arguments that follow.
   Statement: whenever start-up succeeds, the parser accepted the command line [pre ++ args] without
   unregistered options and the application receives exactly its positional arguments, unchanged and in order.
   The other recorded findings (duplicates, glued prepended token, prepended ini) end in a rejection or change
   settings, not argv; they need no guard here. *)
Theorem C16_app_args_unchanged :
  forall env m arg0 args pre c,
    tok_prepend (builtin env "pika.commandline.prepend_options") = Some pre ->
    arg_safe arg0 = true -> forallb arg_safe (pre ++ args) = true ->
    run env m arg0 args = Started c ->
    exists p, parse_tokens (S (length (pre ++ args))) (pre ++ args) false p_empty = inl p /\
              p_unreg p = [] /\ c_argv c = p_pos p.
Proof. exact app_args_unchanged. Qed.
Print Assumptions C16_app_args_unchanged.

(* ... and for command lines written in the --name=value style (every token that starts with "--", up to a
   "--" terminator, contains '='; flags and separated values are outside this corollary) the positional
   arguments are given by a parser-independent function: everything after "--", and before it every token
   that does not start with '-' (a lone "-" counts as an argument) *)
Theorem C16_app_args_unchanged_eq_style :
  forall env m arg0 args pre c,
    tok_prepend (builtin env "pika.commandline.prepend_options") = Some pre ->
    arg_safe arg0 = true -> forallb arg_safe (pre ++ args) = true -> eq_style (pre ++ args) = true ->
    run env m arg0 args = Started c -> c_argv c = app_words (pre ++ args).
Proof. exact app_args_unchanged_eq_style. Qed.
Print Assumptions C16_app_args_unchanged_eq_style.

(* the core of the argument (formerly C16_app_args_unchanged_partial): the re-splitting step copies a run of
   plain characters unchanged into the current token *)
Theorem C16_app_args_split_plain :
  forall s cur rest,
    plain s = true ->
    tokF (aeqb c_bs) is_ws sq (s ++ rest) false cur = tokF (aeqb c_bs) is_ws sq rest false (cur ++ s).
Proof. exact tokF_plain. Qed.
Print Assumptions C16_app_args_split_plain.

(* ---------------------------------------------------------------- non-vacuity / instances *)
Example ex_cmdline_wins :
  exists c, run [("PIKA_THREADS", "5")] M16 "./prog" ["--pika:threads=3"] = Started c /\ c_threads c = 3%N.
Proof. eexists. split; [vm_compute; reflexivity|reflexivity]. Qed.
Example ex_env_wins_over_default :
  exists c, run [("PIKA_THREADS", "5")] M16 "./prog" [] = Started c /\ c_threads c = 5%N.
Proof. eexists. split; [vm_compute; reflexivity|reflexivity]. Qed.
Example ex_ini_between :
  exists c, run [("PIKA_THREADS", "5")] M16 "./prog" ["--pika:ini=pika.os_threads=4"] = Started c /\ c_threads c = 4%N.
Proof. eexists. split; [vm_compute; reflexivity|reflexivity]. Qed.
Example ex_default : exists c, run [] M16 "./prog" [] = Started c /\ c_threads c = 16%N /\ c_policy c = 1.
Proof. eexists. split; [vm_compute; reflexivity|split; reflexivity]. Qed.
Example ex_unknown : run [] M16 "./prog" ["--pika:bogus=1"] = Rejected RLateUnknown.
Proof. vm_compute. reflexivity. Qed.
Example ex_threads0 : run [] M16 "./prog" ["--pika:threads=0"] = Rejected RInvalid.
Proof. vm_compute. reflexivity. Qed.
Example ex_app_args :
  exists c, run [] M16 "./prog" ["x"; "--pika:threads=2"; "a b"; "--"; "-z"; "--pika:scheduler=static"] = Started c
            /\ c_argv c = ["x"; "a b"; "-z"; "--pika:scheduler=static"] /\ c_threads c = 2%N.
Proof. eexists. split; [vm_compute; reflexivity|split; reflexivity]. Qed.
Example ex_table_threads : In ("pika:threads", "pika.os_threads") opt_key /\
  assoc "pika.os_threads" builtin_ini = Some "${PIKA_THREADS:cores}" /\
  placeholder "${PIKA_THREADS:cores}" = Some ("PIKA_THREADS", "cores").
Proof. split; [vm_compute; tauto|split; vm_compute; reflexivity]. Qed.

(* the guard: ordinary arguments satisfy it (letters, digits, - = . / : , # % @ + and blanks or tabs inside one
   argument, pika options themselves), the excluded classes do not *)
Example ex_arg_safe :
  forallb arg_safe ["x"; "input.dat"; "a=b"; "n:3"; "42"; "a b"; " lead and trail "; "out/"; "k,v"; "UPPER";
                    String "w" (String c_tab "t"); "-z"; "-"; "--"; "--pika:threads=2"; "#c"; "user@host";
                    "%~+*?()[]{}<>|&;!^"] = true /\
  map arg_safe [""; String c_dq "ab"; "a'b"; "a\b"; "${HOME}"] = [false; false; false; false; false].
Proof. split; vm_compute; reflexivity. Qed.

(* non-vacuity of C16_app_args_unchanged / _eq_style: all hypotheses hold on a mixed command line *)
Example ex_app_args_guarded :
  let args := ["x"; "--pika:threads=2"; "a b"; "-"; "--"; "-z"; "--pika:scheduler=static"] in
  tok_prepend (builtin [] "pika.commandline.prepend_options") = Some [] /\
  arg_safe "./prog" = true /\ forallb arg_safe args = true /\ eq_style args = true /\
  app_words args = ["x"; "a b"; "-"; "-z"; "--pika:scheduler=static"] /\
  exists c, run [] M16 "./prog" args = Started c /\ c_argv c = app_words args.
Proof. repeat split; try (vm_compute; reflexivity). eexists. split; vm_compute; reflexivity. Qed.

(* with prepended tokens: the positional words of PIKA_COMMANDLINE_OPTIONS come first *)
Example ex_app_args_prepended :
  let env := [("PIKA_COMMANDLINE_OPTIONS", "pre --pika:threads=2")] in
  tok_prepend (builtin env "pika.commandline.prepend_options") = Some ["pre"; "--pika:threads=2"] /\
  exists c, run env M16 "./prog" ["x y"; "z"] = Started c /\ c_argv c = ["pre"; "x y"; "z"].
Proof. split; [vm_compute; reflexivity|]. eexists. split; vm_compute; reflexivity. Qed.

(* keywords: a machine with 2 PUs per core (HWLOC_SYNTHETIC="package:2 core:2 pu:2" in the check) *)
Definition M8 := {| m_pus := 8; m_cores := 4; m_maskcount := 8; m_maskcores := 4; m_coremasks := [3; 12; 48; 192]%N |}.
Example ex_kw_cmdline_over_env :
  (exists c, run [("PIKA_THREADS", "3")] M8 "./prog" ["--pika:threads=cores"] = Started c /\ c_threads c = 4%N) /\
  (exists c, run [("PIKA_THREADS", "3")] M8 "./prog" ["--pika:threads=all"] = Started c /\ c_threads c = 8%N) /\
  (exists c, run [("PIKA_THREADS", "all")] M8 "./prog" ["--pika:threads=3"] = Started c /\ c_threads c = 3%N).
Proof. repeat split; eexists; (split; [vm_compute; reflexivity|reflexivity]). Qed.
Example ex_kw_ini_between :
  (exists c, run [("PIKA_THREADS", "3")] M8 "./prog" ["--pika:ini=pika.os_threads=all"] = Started c /\ c_threads c = 8%N) /\
  (exists c, run [("PIKA_THREADS", "all")] M8 "./prog" ["--pika:ini=pika.os_threads=cores"] = Started c /\ c_threads c = 4%N) /\
  (exists c, run [("PIKA_COMMANDLINE_OPTIONS", "--pika:threads=cores")] M8 "./prog" ["--pika:ini=pika.os_threads=2"; "x"] = Started c
             /\ c_threads c = 4%N).
Proof. repeat split; eexists; (split; [vm_compute; reflexivity|reflexivity]). Qed.
Example ex_kw_effective_mask :
  (exists c, run [] M8 "./prog" ["--pika:process-mask=0x7"; "--pika:threads=cores"] = Started c /\ c_threads c = 2%N) /\
  (exists c, run [] M8 "./prog" ["--pika:process-mask=0x7"; "--pika:threads=all"] = Started c /\ c_threads c = 3%N) /\
  (exists c, run [("PIKA_PROCESS_MASK", "0x3")] M8 "./prog" [] = Started c /\ c_threads c = 1%N) /\
  (exists c, run [("PIKA_PROCESS_MASK", "0x3")] M8 "./prog" ["--pika:ignore-process-mask"; "--pika:threads=all"; "--pika:bind=none"] = Started c
             /\ c_threads c = 8%N).
Proof. repeat split; eexists; (split; [vm_compute; reflexivity|reflexivity]). Qed.
