(* Props/Properties_C02.v — C02: no lost wake-up: a resumed task always runs again.
   Only statements, closed by [exact] of lemmas of Proofs/SchedWakeProofs.v (same model as C01:
   Model/Sched.v).  Ghost state: reg u = Some p when task u linked a waiter entry in the phase
   whose active word has tag p (act Register = the critical section of the primitive's internal
   lock); wake u = Some p when a waker popped that entry (sub-step SIssue, under the same lock) —
   "the wake-up was issued after the task registered"; both are reset when a new phase starts.
   The layering theorem (end of this file, ag-agt7): the scheduler model refines the WEAK agent machine
   of Model/WeakAgent.v (W1 spurious wake-ups allowed, W2 no resume issued after registration is
   lost), and Base/Agent.v's interface is an instance of that machine.  agent_refines as sketched in
   the plan (token cleared at every phase end) stays false: C02_wakeup_crosses_phases_refuted. *)
From Coq Require Import List NArith.
From Pika Require Import Base.Conc Base.Agent Gen.GenEnums Model.Sched Model.WeakAgent Proofs.SchedProofs
  Proofs.SchedWakeProofs Proofs.SchedRecycleProofs Proofs.SchedDeltaProofs Proofs.SchedAbortProofs
  Proofs.SchedAcceptProofs Proofs.WeakAgentProofs Proofs.SchedInterruptProofs.
From Pika Require Model.Mutex Model.CondVar Model.Semaphore Model.Latch Model.Event Model.Once Model.Join
  Proofs.AgentUseProofs.
Import ListNotations.

(* reachable /\ stuck (nothing can move any more; the pool has at least one worker) => no task is
   suspended — or still active — whose wake-up was issued for the phase in which it registered.
   wS (p+1) is the word (suspended, p+1) published by the store that ends the phase (active, p);
   the waker may have found the target still ACTIVE (the window "internal lock released, word not
   yet suspended": it then left a retry helper) or already suspended. *)
Theorem C02_no_lost_wakeup : forall sched ext w,
  ext w = None ->
  let c := sched_run sched ext in
  stuck c ->
  forall u p, u < ntasks (fst c) -> wake (tasks (fst c) u) = Some p ->
    tw_of (fst c) u <> wS (p + 1) /\ tw_of (fst c) u <> wA p.
Proof. exact no_lost_wakeup. Qed.
Print Assumptions C02_no_lost_wakeup.

(* a wake-up produces at most one queue entry: the agent that won the suspended->pending CAS
   holds the only handle of the (now pending) target until it has pushed it *)
Theorem C02_wakeup_enqueues_once : forall sched ext a u,
  let c := sched_run sched ext in
  enq_of (snd c a) = Some u ->
  ~ In u (pend (fst c)) /\ (forall b, holds (snd c b) u -> b = a) /\ NoDup (pend (fst c)) /\
  st (tw_of (fst c) u) = st_pending.
Proof. exact wakeup_enqueues_once. Qed.
Print Assumptions C02_wakeup_enqueues_once.

(* the stronger contract "a suspension ends only by a wake-up issued for it" is FALSE of the
   code: a resume aimed at an active, unregistered task leaves a helper that ends the suspension
   closing that phase (replayed on the real runtime by harness/c02_wake.cpp: WITNESS line) *)
Theorem C02_wakeup_is_phase_scoped_refuted :
  exists sched ext u q,
    let lg := log (fst (sched_run sched ext)) in
    In (EvSpur u q) lg /\ (forall p, ~ In (EvIssue u (Some p)) lg) /\
    In u (pend (fst (sched_run sched ext))).
Proof. exact wakeup_is_phase_scoped_refuted. Qed.
Print Assumptions C02_wakeup_is_phase_scoped_refuted.

(* and the wake-up is not even scoped to the phase in which it was issued: a delayed helper ends
   a suspension of a LATER phase (the helper aborts only when it finds the target ACTIVE with a
   different word; a target that yielded, ran again and suspended is woken) *)
Theorem C02_wakeup_crosses_phases_refuted :
  exists sched ext u before after,
    let lg := rev (log (fst (sched_run sched ext))) in
    split_issue u lg = Some (before, after) /\
    split_issue u after = None /\
    In (EvExit u 0 1 st_pending) after /\
    In (EvEnter u 1 1) after /\
    In (EvExit u 1 1 st_suspended) after /\
    In (EvSpur u 4) after.
Proof. exact wakeup_crosses_phases_refuted. Qed.
Print Assumptions C02_wakeup_crosses_phases_refuted.

(* helper_abort_sound.  In every reachable configuration: if the next step of thread a is the
   abort branch of set_active_state for (u, prev) — a runs helper task t whose body is still
   HelperBody u prev and the abort test `state equal /\ word different` succeeds on u's word — then
   (1) u is the SAME incarnation the wake-up was aimed at: the helper's counted reference keeps
       the count >= 1 and the object out of terminated_items / the heaps, and the ghost event
       EvHelp (gid u) prev (logged when set_thread_state found u active with word prev and created
       the helper) is in the log under u's CURRENT incarnation number;
   (2) prev and the current word are both `active` and tag cur > tag prev: u has entered a new
       activation after the wake-up was issued;
   (3) the phase with word prev has ended by a store that is in the log of this incarnation, and
       if that store published `suspended`, the suspension has already been ended by a
       set_thread_state CAS (SiteSet) in the log: the wake-up that the abort drops was absorbed;
   (4) no wake-up obligation of u for phase (tag prev) is outstanding; whatever obligation is
       outstanding belongs to a later phase (and is carried by the invariant W1 behind
       C02_no_lost_wakeup in the successor state).  Aborting never turns an owed wake-up into a
       lost one. *)
Theorem C02_helper_abort_sound : forall sched ext a t orig u prev,
  let c := sched_run sched ext in
  let g := fst c in
  snd c a = WRun t orig SNone -> todo (tasks g t) = HelperBody u prev ->
  st (tw_of g u) = st prev -> tw_of g u <> prev ->
  (u < ntasks g /\ 1 <= rc g u /\ ~ In u (term g ++ heap g) /\ In (EvHelp (gid g u) prev) (log g)) /\
  (st prev = st_active /\ st (tw_of g u) = st_active /\ (tag prev < tag (tw_of g u))%N) /\
  (exists nw, In (EvWord (gid g u) SiteStore prev nw) (log g) /\
              (st nw = st_suspended -> In (EvWord (gid g u) SiteSet nw (w_pending nw)) (log g))) /\
  (~ needs_wake g u (tag prev) /\ forall p, needs_wake g u p -> (tag prev < p)%N).
Proof. exact helper_abort_sound. Qed.
Print Assumptions C02_helper_abort_sound.

(* the same for every abort the log has ever recorded (what the harness sees as hook 207):
   abort_sound lg i prev cur = both words active, tag prev < tag cur, EvHelp i prev in lg, the store
   out of prev in lg, and the SiteSet CAS out of the stored word if that was `suspended` *)
Theorem C02_helper_abort_log_sound : forall sched ext h i prev cur,
  let lg := log (fst (sched_run sched ext)) in
  In (EvAbort h i prev cur) lg -> abort_sound lg i prev cur.
Proof. exact helper_abort_log_sound. Qed.
Print Assumptions C02_helper_abort_log_sound.

(* acceptor completeness for the C02 vocabulary: chains including the set_thread_state
   transitions (SiteSet = hook 104) are accepted with matching activation counts, every push is
   logged with a pending word (hook 120, `push_ok`), every abort record (hook 207) has equal
   states and different tags (an abort record with equal tags is what the harness counts as
   unmodelled) *)
Theorem C02_accepts_complete : forall sched ext,
  let lg := log (fst (sched_run sched ext)) in
  (forall i, accepts (chain_of i lg) = true /\ activations (chain_of i lg) = enters_of i lg) /\
  (forall i w, In (EvPush i w) lg -> push_ok w = true) /\
  (forall h i prev cur, In (EvAbort h i prev cur) lg ->
     st cur = st prev /\ N.eqb (tag prev) (tag cur) = false /\ (tag prev < tag cur)%N).
Proof. exact accepts_complete_c02. Qed.
Print Assumptions C02_accepts_complete.

(* ------------------------------------------------------------------ non-vacuity *)
(* the hypotheses of C02_helper_abort_sound are satisfiable: T = [Yield] is resumed while
   (active,1), yields, is entered again (active,3); then the helper runs: thread 2 is about to
   abort; after its step the abort is in the log *)
Example C02_example_abort :
  let c := sched_run ab_sched ab_ext in
  snd c 2 = WRun 1 (wA 1) SNone /\ todo (tasks (fst c) 1) = HelperBody 0 (wA 1) /\
  tw_of (fst c) 0 = wA 3 /\
  In (EvAbort 1 0 (wA 1) (wA 3)) (log (fst (sched_run (ab_sched ++ [(2, oP)]) ab_ext))).
Proof. vm_compute. repeat split. now left. Qed.

(* the premise of C02_no_lost_wakeup is met on the way: the wake-up is issued while the registered
   waiter is still active, it then suspends with the wake-up pending ... *)
Example C02_example_window :
  let c := sched_run (firstn 11 nv_sched) nv_ext in
  wake (tasks (fst c) 0) = Some 1%N /\ tw_of (fst c) 0 = wS 2 /\ staged (fst c) = [HelperBody 0 (wA 1)].
Proof. vm_compute. repeat split. Qed.
(* ... and the helper wakes it: the run ends stuck with every task terminated *)
Example C02_example_woken :
  let c := sched_run nv_sched nv_ext in
  stuck c /\ map (fun t => st (tw_of (fst c) t)) [0; 1] = [st_terminated; st_terminated] /\
  lost_wakeup_b 3 c = false.
Proof.
  split; [|vm_compute; split; reflexivity].
  rewrite (surjective_pairing (sched_run nv_sched nv_ext)).
  apply stuck_intro; [vm_compute; reflexivity | vm_compute; reflexivity | vm_compute; reflexivity |].
  intros a. destruct a as [|[|[|a]]]; vm_compute; auto.
Qed.

(* ================================================================== the layering theorem (ag-agt7)
   Model/WeakAgent.v: per task {wmode : MRun | MBlk | MDone; wreg; wowed}, labels (kind, task) with
   kind in Reg Susp Res Wake Yield Term; wa_tstep is the transition function of one task:
     Reg   MRun -> wreg := true              Susp  MRun -> MBlk (flags kept)
     Res   any mode: wowed := wowed || wreg; wreg := false
     Wake  MBlk -> MRun, flags cleared       (W1: enabled whenever blocked, owed or not)
     Yield MRun -> MRun, flags cleared       Term  MRun -> MDone, flags cleared
   wa_must (Wake,t) c = t is blocked and owed: the step the implementation is obliged to take (W2);
   wa_stuck c = no obligatory step is outstanding.
   The abstraction wa_abs maps a configuration of Model/Sched.v to a configuration of the machine,
   indexed by task INCARNATION: mode from the state word (suspended -> MBlk, terminated -> MDone,
   pending / pending_boost / active -> MRun), wreg / wowed from the ghost fields reg / wake provided
   the word is still (active,p) or (suspended,p+1) for the recorded phase p; an incarnation whose
   object was recycled is MDone, one that does not exist yet is in the initial state.
   lbl_of reads the label of a step off the configuration before it: Reg = act Register, Res =
   sub-step SIssue (the waker pops the entry under the primitive's lock), Susp / Yield / Term = the
   store_state CAS that publishes suspended / pending, pending_boost / terminated, Wake = the
   successful suspended -> pending CAS of set_thread_state; every other step is silent. *)

(* every step of every reachable configuration of the scheduler model, under every oracle, is
   zero or one step of the weak agent machine between the abstractions; hence the projection of
   every run (all schedules, all thread counts, all programs of tasks and OS threads) on the labels
   is a run of the weak agent machine *)
Theorem C02_sched_refines_weak_agent : forall sched ext,
  let c := sched_run sched ext in
  wa_run (sched_trace sched ext) wa_init (wa_abs (fst c)) /\
  (forall a o,
     match lbl_of (fst c) (snd c a) with
     | None => forall i, wa_abs (fst (tstep o a (fst c) (snd c a))) i = wa_abs (fst c) i
     | Some l => wa_step l (wa_abs (fst c)) (wa_abs (fst (tstep o a (fst c) (snd c a))))
     end).
Proof. exact sched_refines_weak_agent_full. Qed.
Print Assumptions C02_sched_refines_weak_agent.

(* in particular, per task incarnation: the events of incarnation i along any run replay in the
   machine (every label is enabled when it occurs) and lead to the abstraction of i's state *)
Theorem C02_sched_incarnation_behaviour : forall sched ext i,
  wa_replay (wa_proj i (sched_trace sched ext)) wa_init_task = Some (wa_abs (fst (sched_run sched ext)) i).
Proof. exact sched_incarnation_replay. Qed.
Print Assumptions C02_sched_incarnation_behaviour.

(* W1 in the machine: a blocked task can be woken at any time *)
Theorem C02_weak_agent_wake_any_time : forall c t,
  wmode (c t) = MBlk -> exists c', wa_step (KWake, t) c c'.
Proof. exact wa_wake_enabled. Qed.
Print Assumptions C02_weak_agent_wake_any_time.

(* W2 in the machine, on observable events only.  lost_pattern p: the events p of one task end
   with  Reg, .., Res, ..  where the dots contain no Wake / Yield / Term and a Susp occurs after
   the Reg — "a registered-and-resumed waiter is still suspended".  In every run of the machine
   that is EXACTLY the situation in which the Wake of that task is obligatory (wowed is set by a
   Res after Reg and by nothing else, and is cleared only by Wake / Yield / Term); an obligatory
   step is enabled; so no configuration in which the machine may stop shows the pattern *)
Theorem C02_weak_agent_no_lost_resume : forall tr c,
  wa_run tr wa_init c ->
  (forall t, lost_pattern (wa_proj t tr) <-> wa_must (KWake, t) c) /\
  (forall l, wa_must l c -> exists c', wa_step l c c') /\
  (wa_stuck c -> forall t, ~ lost_pattern (wa_proj t tr)).
Proof. exact weak_agent_no_lost_resume. Qed.
Print Assumptions C02_weak_agent_no_lost_resume.

(* ... hence in Sched.v, by the simulation and C02_no_lost_wakeup: a stuck configuration of the
   scheduler model (a worker exists) is abstracted to a configuration in which the machine may
   stop, and no task incarnation's projected event sequence shows the pattern *)
Theorem C02_sched_no_lost_resume : forall sched ext w,
  ext w = None ->
  let c := sched_run sched ext in
  stuck c ->
  wa_stuck (wa_abs (fst c)) /\ forall i, ~ lost_pattern (wa_proj i (sched_trace sched ext)).
Proof. exact sched_no_lost_resume. Qed.
Print Assumptions C02_sched_no_lost_resume.

(* Base/Agent.v read in the machine (ag_abs: blocked -> MBlk / MRun; the token is NOT part of the
   weak state; greg / gowed are ghosts: registration is the primitive's own queue).  ag_fun op is
   literally the function of Base/Agent.v the operation applies.  Each operation (total: the only
   side condition is that a thread registers while it is not blocked; ag_wf = a blocked agent holds
   no token) stands for the weak-agent steps ag_kinds:
     a_suspend  Returned -> Susp; Wake (possibly spurious)     Blocked -> Susp
     a_resume   of a blocked agent -> Res; Wake                of a running one -> Res (token kept)
     stale resume (OSpur / CSpur / ESpur / StaleResume / AResume: a_resume again, or the literal
                {| tok := true; blocked := false |})
                of a blocked agent -> a spurious Wake          of a running one -> nothing (token)
     a_phase_end -> Yield                                      registration -> Reg
     (a_suspend / a_phase_end applied to a blocked agent: nothing)
   and it preserves ag_wf and ag_w2: an owed wake-up is held as the token of a running agent *)
Theorem C02_agent_interface_is_weak_agent : forall op s,
  ag_pre op s -> ag_wf s ->
  ag (ag_step op s) = ag_fun op (ag s) /\
  wa_replay (ag_kinds op s) (ag_abs s) = Some (ag_abs (ag_step op s)) /\
  ag_wf (ag_step op s) /\
  (ag_w2 s -> ag_w2 (ag_step op s)).
Proof. exact agent_interface_is_weak_agent. Qed.
Print Assumptions C02_agent_interface_is_weak_agent.

(* so every sequence of operations on an agent is a behaviour of the weak machine, the agent is
   never blocked while owed, and its events never show the lost pattern *)
Theorem C02_agent_runs_are_weak_agent_runs : forall ops s ks,
  ag_runs ops ag_init s ks ->
  wa_replay ks wa_init_task = Some (ag_abs s) /\ ag_w2 s /\
  ~ (blocked (ag s) = true /\ gowed s = true) /\ ~ lost_pattern ks.
Proof. exact agent_runs_weak_agent. Qed.
Print Assumptions C02_agent_runs_are_weak_agent_runs.

(* "as used by the primitive models": one step of each of the seven models changes the
   agent_state of any thread u by exactly one operation of the interface (ag_iface_upd a a' :=
   exists op, a' = ag_fun op a; OpReg is the identity), whatever the oracle, the thread and the
   state — C06 mutex, C07 condition variable, C08 semaphore, C09 latch / event / call_once, C13 join *)
Theorem C02_primitive_models_use_the_interface :
  (forall late t g l u, ag_iface_upd (Mutex.ag g u) (Mutex.ag (fst (Mutex.mx_tstep late t g l)) u)) /\
  (forall isos late t g l u, ag_iface_upd (CondVar.cag g u) (CondVar.cag (fst (CondVar.cv_tstep isos late t g l)) u)) /\
  (forall kind passed t g l u,
     ag_iface_upd (Semaphore.ag g u) (Semaphore.ag (fst (Semaphore.sem_tstep kind passed t g l)) u)) /\
  (forall fixed o t g l u, ag_iface_upd (Latch.ag g u) (Latch.ag (fst (Latch.latch_tstep fixed o t g l)) u)) /\
  (forall o t g l u,
     ag_iface_upd (Event.eag (Event.est g) u) (Event.eag (Event.est (fst (Event.e_tstep o t g l))) u)) /\
  (forall o t g l u,
     ag_iface_upd (Event.eag (Once.oev g) u) (Event.eag (Once.oev (fst (Once.o_tstep o t g l))) u)) /\
  (forall lp pf tgt x t g l u, ag_iface_upd (Join.ag g u) (Join.ag (fst (Join.tstep lp pf tgt x t g l)) u)).
Proof. exact AgentUseProofs.primitive_models_use_the_interface. Qed.
Print Assumptions C02_primitive_models_use_the_interface.

(* ... hence, for ANY model over Base/Conc.v whose steps change agents only through the interface:
   along every run the agent of every thread goes through a sequence of interface operations, and
   that sequence is a behaviour of the weak agent machine (in the run derived here nothing is ever
   registered; C02_agent_runs_are_weak_agent_runs covers every way of inserting registrations) *)
Theorem C02_model_agent_is_weak_agent :
  forall (G L O : Type) (tstep : O -> nat -> G -> L -> G * L) (agf : G -> nat -> agent_state),
  (forall o t g l u, ag_iface_upd (agf g u) (agf (fst (tstep o t g l)) u)) ->
  forall sched c u, agf (fst c) u = a_init ->
  exists ops s ks,
    ag_runs ops ag_init s ks /\ ag s = agf (fst (run tstep sched c)) u /\
    wa_replay ks wa_init_task = Some (ag_abs s) /\ ag_w2 s /\
    ~ (blocked (ag s) = true /\ gowed s = true) /\ ~ lost_pattern ks.
Proof. exact AgentUseProofs.model_agent_is_weak_agent. Qed.
Print Assumptions C02_model_agent_is_weak_agent.

(* non-vacuity: a run of the scheduler model whose projection exercises Reg, Res, Susp, Wake — the
   first Wake is the owed one, the second is spurious (the resume found T running and not
   registered; its retry helper ends the suspension that closes that phase: EvSpur) *)
Example C02_example_weak_trace :
  sched_trace wx_sched wx_ext =
    [(KReg, 0); (KRes, 0); (KSusp, 0); (KWake, 0); (KRes, 0); (KSusp, 0); (KTerm, 1); (KWake, 0)] /\
  (* just before the first Wake: blocked and owed — the obligatory step; the pattern is there *)
  wa_abs (fst (sched_run (firstn 18 wx_sched) wx_ext)) 0 = {| wmode := MBlk; wreg := false; wowed := true |} /\
  lost_pattern (wa_proj 0 (sched_trace (firstn 18 wx_sched) wx_ext)) /\
  (* just before the second Wake: blocked, nothing owed — W1 *)
  wa_abs (fst (sched_run (firstn 42 wx_sched) wx_ext)) 0 = {| wmode := MBlk; wreg := false; wowed := false |} /\
  In (EvSpur 0 5) (log (fst (sched_run wx_sched wx_ext))).
Proof.
  split; [vm_compute; reflexivity|]. split; [vm_compute; reflexivity|].
  split; [exists [], [], [KSusp]; vm_compute; repeat split; [intros k [<-|[]]; reflexivity | now left]|].
  split; [vm_compute; reflexivity|]. vm_compute. tauto.
Qed.
(* and the interface: Reg; resume (token, owed); suspend returns at once; resume of a running,
   unregistered agent; suspend returns spuriously; suspend blocks; a stale resume wakes it *)
Example C02_example_agent_run :
  exists s ks, ag_runs [OpReg; OpResume; OpSuspend; OpResume; OpSuspend; OpSuspend; OpStale] ag_init s ks /\
               ks = [KReg; KRes; KSusp; KWake; KRes; KSusp; KWake; KSusp; KWake] /\ s = ag_init.
Proof.
  eexists. eexists. split.
  - repeat (eapply ar_cons; [vm_compute; auto|]). apply ar_nil.
  - vm_compute. split; reflexivity.
Qed.

(* ================================================================== wake-up issued INTO the window (round h12)
   The window: the task has registered as a waiter (reg u = Some p) and released the primitive's
   internal lock, but its worker has not yet published `suspended`: the word is still (active, p).
   A wake-up issued there — pika::thread::interrupt() = set_thread_state(pending, abort,
   retry_on_active = false), or the facility's notify = agent.resume() with retry_on_active = true —
   must not be dropped.  Parts:
   1.  the issue (SIssue u: the waker's critical section) with the word still (active, p) creates
       the obligation needs_wake u p, leaves the word alone, and the waker — now at SLoad u, inside
       set_thread_state(u) — carries it (inflight);
   1'. a waker that reads the word while it is still (active, p) leaves the retry helper for exactly
       (u, (active, p)) (the retry_on_active = true branch; the `false` branch of interrupt_thread
       re-reads instead: the waker stays at SLoad u, which is the other disjunct of inflight — see the
       header of Proofs/SchedInterruptProofs.v for what that argument covers and what it does not);
   2.  in every reachable configuration an outstanding obligation (word (active, p) — the window — or
       (suspended, p+1)) is in flight: an agent inside set_thread_state(u) before its CAS, or a staged /
       pending / active helper for (u, (active, p));
   3.  stuck /\ a worker exists: no obligation is outstanding, and no task incarnation's events have
       the window shape  Reg .. Res .. Susp ..  (resume issued BEFORE the store that published
       `suspended`) without a Wake / Yield / Term behind the Res. *)
Theorem C02_interrupt_wakeup_not_lost : forall sched ext,
  let c := sched_run sched ext in
  (forall a o u p, sub_of (snd c a) = SIssue u -> reg (tasks (fst c) u) = Some p -> tw_of (fst c) u = wA p ->
     let c' := sched_run (sched ++ [(a, o)]) ext in
     needs_wake (fst c') u p /\ tw_of (fst c') u = wA p /\ sub_of (snd c' a) = SLoad u /\
     inflight (fst c') (snd c') u p) /\
  (forall a o u p, sub_of (snd c a) = SLoad u -> u < ntasks (fst c) -> tw_of (fst c) u = wA p ->
     let c' := sched_run (sched ++ [(a, o)]) ext in
     helper_for (fst c') u (wA p) /\ tw_of (fst c') u = wA p /\ sub_of (snd c' a) = SNone) /\
  (forall u p, u < ntasks (fst c) -> needs_wake (fst c) u p -> inflight (fst c) (snd c) u p) /\
  (forall w, ext w = None -> stuck c ->
     (forall u p, u < ntasks (fst c) -> wake (tasks (fst c) u) = Some p ->
        tw_of (fst c) u <> wS (p + 1) /\ tw_of (fst c) u <> wA p) /\
     (forall i p1 p2 p3 p4,
        wa_proj i (sched_trace sched ext) = p1 ++ KReg :: p2 ++ KRes :: p3 ++ KSusp :: p4 ->
        ~ no_end (p2 ++ p3 ++ p4))).
Proof. exact interrupt_wakeup_not_lost. Qed.
Print Assumptions C02_interrupt_wakeup_not_lost.

(* non-vacuity: on nv_sched the premises of parts 1 and 1' are met in turn — the OS thread is at
   SIssue T while T is registered and (active, 1); after its step the obligation exists and it is
   at SLoad T; after the next one the helper for (T, (active, 1)) is staged, T still active; T then
   suspends: its events are exactly Reg, Res, Susp (the window shape) — and the run goes on with
   the Wake *)
Example C02_example_interrupt_window :
  let c := sched_run (firstn 6 nv_sched) nv_ext in
  sub_of (snd c 0) = SIssue 0 /\ reg (tasks (fst c) 0) = Some 1%N /\ tw_of (fst c) 0 = wA 1 /\
  (let c1 := sched_run (firstn 6 nv_sched ++ [(0, oP)]) nv_ext in
   sub_of (snd c1 0) = SLoad 0 /\ wake (tasks (fst c1) 0) = Some 1%N /\ tw_of (fst c1) 0 = wA 1) /\
  (let c2 := sched_run ((firstn 6 nv_sched ++ [(0, oP)]) ++ [(0, oP)]) nv_ext in
   staged (fst c2) = [HelperBody 0 (wA 1)] /\ tw_of (fst c2) 0 = wA 1) /\
  wa_proj 0 (sched_trace (firstn 11 nv_sched) nv_ext) = [] ++ KReg :: [] ++ KRes :: [] ++ KSusp :: [] /\
  wa_proj 0 (sched_trace nv_sched nv_ext) = [KReg; KRes; KSusp; KWake; KTerm].
Proof. vm_compute. repeat split. Qed.

(* ------------------------------------------------------------------ round p13a: the spinning waker
   threads::detail::interrupt_thread -> set_thread_state(.., retry_on_active = false): on an active
   target this branch does not stage the retry helper, it re-reads the word (yield_k between the
   reads) until the state is no longer active and then goes on as every other wake-up.
   Model/SchedSpinWaker.v is a layer over Model/Sched.v: one more bit per thread (nr: the call in
   progress has retry_on_active = false; chosen by the oracle when the waker's critical section is
   entered, so every Resume of every program is either a notify or an interrupt), sstep = tstep
   except at the load of an nr call on an existing, active target, where it changes nothing. *)
From Pika Require Import Model.SchedSpinWaker Proofs.SchedSpinWakerProofs.

(* the spin, locally: every step of the layer is the spin's stutter — exactly when the thread is
   inside set_thread_state(u, false) at the load, u exists and reads active — or exactly the step
   of Model/Sched.v on the base view (with the bit updated by nr_next) *)
Theorem C02_spin_step_stutter_or_base_step : forall o me g l,
  (exists u, spin_at g l = Some u /\ sstep o me g l = (g, l)) \/
  (spin_at g l = None /\
   fst (sstep o me g l) = fst (tstep (so o) me g (bpc l)) /\
   bpc (snd (sstep o me g l)) = snd (tstep (so o) me g (bpc l)) /\
   nr (snd (sstep o me g l)) = nr_next o l (snd (tstep (so o) me g (bpc l)))).
Proof. exact sstep_refines. Qed.
Print Assumptions C02_spin_step_stutter_or_base_step.

Theorem C02_spin_at_iff : forall g l u,
  spin_at g l = Some u <-> spinning l u /\ u < ntasks g /\ st (tw_of g u) = st_active.
Proof. exact spin_at_some. Qed.
Print Assumptions C02_spin_at_iff.

(* the spin ends only through the ordinary non-active branches: a waker inside
   set_thread_state(u, false) at the load that does not spin leaves the shared state unchanged and
   is either done (u unknown, or its word pending / terminated / ...: call returned, bit cleared)
   or at the tagged CAS with the word it read (suspended / pending_boost), still an nr call (a
   failed CAS reloads and may spin again) *)
Theorem C02_spin_exit_is_ordinary_branch : forall o me g l u,
  spinning l u -> spin_at g l = None ->
  let r := sstep o me g l in
  fst r = g /\
  ((sub_of (bpc (snd r)) = SNone /\ nr (snd r) = false /\
    (ntasks g <= u \/ (st (tw_of g u) <> st_active /\ st (tw_of g u) <> st_suspended /\
                       st (tw_of g u) <> st_pending_boost))) \/
   (sub_of (bpc (snd r)) = SCas u (tw_of g u) /\ nr (snd r) = true /\ u < ntasks g /\
    (st (tw_of g u) = st_suspended \/ st (tw_of g u) = st_pending_boost))).
Proof. exact spin_exit. Qed.
Print Assumptions C02_spin_exit_is_ordinary_branch.

(* every reachable configuration of the layer (every schedule, every choice of which wake-ups are
   interrupts) has a base view — forget the bit — that is reachable in Model/Sched.v: all
   invariants and safety theorems of C01 / C02 about reachable configurations hold of it; and a task
   phase inside an nr call runs a user body (never a retry helper) *)
Theorem C02_spin_view_reachable : forall ssched ext,
  let c := spin_run ssched ext in
  exists sched,
    fst c = fst (sched_run sched ext) /\
    (forall i, bpc (snd c i) = snd (sched_run sched ext) i) /\
    SpinInv (fst c) (snd c).
Proof. exact spin_reach. Qed.
Print Assumptions C02_spin_view_reachable.

(* the stuck-state theorem with spinning wakers: for every schedule from the initial state, if
   nothing can change any more (sstuck: every step of every thread under every oracle is a no-op —
   spinning threads included) and the pool has a worker w that is not itself spinning, then
   1. every thread still inside set_thread_state(u, false) at the load has an existing target whose
      word is ACTIVE: no spinning waker's target is suspended (woken or not) — the spin only ends
      by going on to the wake-up or by seeing pending / terminated;
   2. no wake-up is lost: no task is in the suspension (suspended, p+1) that ended the phase for
      which a wake-up — notify or interrupt — was issued after it registered;
   3. a task still active in such a phase (active, p) is itself running on a spinning thread.
   The hypothesis on w: in this model a spinning TASK keeps its worker (yield_k's do_yield from
   k = 16 on is not modelled), so a pool whose workers all spin on each other's tasks is stuck with
   whatever is staged; see notes/design/C02.md, round p13a. *)
Theorem C02_spin_waker_not_lost : forall ssched ext w,
  ext w = None ->
  let c := spin_run ssched ext in
  sstuck c ->
  spin_at (fst c) (snd c w) = None ->
  (forall a u, spinning (snd c a) u -> u < ntasks (fst c) /\ st (tw_of (fst c) u) = st_active) /\
  (forall u p, u < ntasks (fst c) -> wake (tasks (fst c) u) = Some p -> tw_of (fst c) u <> wS (p + 1)) /\
  (forall u p, u < ntasks (fst c) -> wake (tasks (fst c) u) = Some p -> tw_of (fst c) u = wA p ->
     exists a v, running (bpc (snd c a)) u /\ spin_at (fst c) (snd c a) = Some v).
Proof. exact spin_waker_not_lost. Qed.
Print Assumptions C02_spin_waker_not_lost.

(* the part of C02_spin_waker_not_lost that needs NO hypothesis on the workers: in every stuck
   configuration of every run, a waker still inside the retry_on_active = false loop has an existing
   target whose word is `active` — in particular no spinning waker's target is suspended (woken or
   not), pending or terminated: the spin ends only through the ordinary non-active branch
   (C02_spin_exit_is_ordinary_branch: wake-up CAS or return) *)
Theorem C02_spin_waker_target_active_when_stuck : forall ssched ext,
  let c := spin_run ssched ext in
  sstuck c ->
  forall a u, spinning (snd c a) u ->
    u < ntasks (fst c) /\ st (tw_of (fst c) u) = st_active.
Proof. exact (fun ssched ext => spinner_target_active_when_stuck (spin_run ssched ext)). Qed.
Print Assumptions C02_spin_waker_target_active_when_stuck.

(* the case in which the layer is exact — whatever still spins in the stuck configuration is an OS
   thread (no pool worker spins): the conclusion of C02_no_lost_wakeup, word for word, for runs with
   interrupts *)
Theorem C02_spin_waker_not_lost_os_wakers : forall ssched ext w,
  ext w = None ->
  let c := spin_run ssched ext in
  sstuck c ->
  (forall a, ext a = None -> spin_at (fst c) (snd c a) = None) ->
  forall u p, u < ntasks (fst c) -> wake (tasks (fst c) u) = Some p ->
    tw_of (fst c) u <> wS (p + 1) /\ tw_of (fst c) u <> wA p.
Proof. exact spin_waker_not_lost_os. Qed.
Print Assumptions C02_spin_waker_not_lost_os_wakers.

(* non-vacuity: OS thread 0 creates T = [Register; Suspend] and interrupts it (sint = true at the
   step that enters the critical section) while T is registered and (active, 1): the obligation
   wake = Some 1 exists, the waker is at the load and SPINS (spin_at = Some T); two steps of the
   waker later the whole configuration is unchanged (no helper staged); T's worker stores
   (suspended, 2): the waker no longer spins, CASes to (pending, 3), enqueues T, the call returns
   (bit cleared); T runs again and terminates *)
Example C02_example_spin_waker :
  (let c := spin_run spin_sched_issue nv_ext in
   snd c 0 = {| bpc := XRun [] (SLoad 0); nr := true |} /\ spin_at (fst c) (snd c 0) = Some 0 /\
   wake (tasks (fst c) 0) = Some 1%N /\ tw_of (fst c) 0 = wA 1 /\ staged (fst c) = []) /\
  (let c := spin_run spin_sched_issue nv_ext in let c' := spin_run spin_sched_spun nv_ext in
   log (fst c') = log (fst c) /\ staged (fst c') = [] /\ tw_of (fst c') 0 = wA 1 /\
   snd c' 0 = snd c 0 /\ snd c' 1 = snd c 1) /\
  (let c := spin_run spin_sched_susp nv_ext in
   tw_of (fst c) 0 = wS 2 /\ wake (tasks (fst c) 0) = Some 1%N /\ spin_at (fst c) (snd c 0) = None /\
   spinning (snd c 0) 0) /\
  (let c := spin_run spin_sched_woken nv_ext in
   tw_of (fst c) 0 = {| st := st_pending; tag := 3 |} /\ pend (fst c) = [0] /\ staged (fst c) = [] /\
   snd c 0 = {| bpc := XRun [] SNone; nr := false |}) /\
  (let c := spin_run spin_sched_done nv_ext in
   st (tw_of (fst c) 0) = st_terminated /\ pend (fst c) = [] /\ snd c 1 = {| bpc := WTop; nr := false |}).
Proof. vm_compute. repeat split. Qed.

(* a stuck configuration in which a waker spins: a task interrupting its own thread object
   re-reads its own active word for ever (parts 1 and 3 of C02_spin_waker_not_lost are not vacuous;
   worker 2 is idle and not spinning) *)
Example C02_example_spin_self_stuck :
  let c := spin_run self_sched self_ext in
  sstuck c /\ spin_at (fst c) (snd c 1) = Some 0 /\ running (bpc (snd c 1)) 0 /\
  spin_at (fst c) (snd c 2) = None.
Proof. exact spin_self_stuck. Qed.

(* ... and the run of C02_example_spin_waker, continued by one idle iteration, is stuck with nobody
   spinning and T terminated: the hypotheses of C02_spin_waker_not_lost_os_wakers (with w = 1, nv_ext
   1 = None) are met by a run in which a waker did spin *)
Example C02_example_spin_end_stuck :
  let c := spin_run spin_sched_end nv_ext in
  sstuck c /\ (forall a, spin_at (fst c) (snd c a) = None) /\ st (tw_of (fst c) 0) = st_terminated.
Proof. exact spin_end_stuck. Qed.
