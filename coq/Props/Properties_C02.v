(* Props/Properties_C02.v — C02: no lost wake-up: a resumed task always runs again.
   Only statements, closed by [exact] of lemmas of Proofs/SchedWakeProofs.v (same model as C01:
   Model/Sched.v).  Ghost state: reg u = Some p when task u linked a waiter entry in the phase
   whose active word has tag p (act Register = the critical section of the primitive's internal
   lock); wake u = Some p when a waker popped that entry (sub-step SIssue, under the same lock) —
   "the wake-up was issued after the task registered"; both are reset when a new phase starts.
   NOT proved (see notes/design/C02.md): agent_refines (simulation of Base/Agent.v; false as stated). *)
From Coq Require Import List NArith.
From Pika Require Import Base.Conc Gen.GenEnums Model.Sched Proofs.SchedProofs Proofs.SchedWakeProofs
  Proofs.SchedRecycleProofs Proofs.SchedDeltaProofs Proofs.SchedAbortProofs Proofs.SchedAcceptProofs.
Import ListNotations.

(* reachable /\ stuck (nothing can move any more; the pool has at least one worker) => no task is
   suspended — or still active — whose wake-up was issued for the phase in which it registered.
   wS (p+1) is the word (suspended, p+1) published by the store that ends the phase (active, p);
   the waker may have found the target still ACTIVE (the window "internal lock released, word not
   yet suspended": it then left a retry helper) or already suspended. *)
Theorem C02_no_lost_wakeup : forall sched ext w,
  ext w = None ->
  let c := sched_run sched ext in
  stuck c ->
  forall u p, u < ntasks (fst c) -> wake (tasks (fst c) u) = Some p ->
    tw_of (fst c) u <> wS (p + 1) /\ tw_of (fst c) u <> wA p.
Proof. exact no_lost_wakeup. Qed.
Print Assumptions C02_no_lost_wakeup.

(* a wake-up produces at most one queue entry: the agent that won the suspended->pending CAS
   holds the only handle of the (now pending) target until it has pushed it *)
Theorem C02_wakeup_enqueues_once : forall sched ext a u,
  let c := sched_run sched ext in
  enq_of (snd c a) = Some u ->
  ~ In u (pend (fst c)) /\ (forall b, holds (snd c b) u -> b = a) /\ NoDup (pend (fst c)) /\
  st (tw_of (fst c) u) = st_pending.
Proof. exact wakeup_enqueues_once. Qed.
Print Assumptions C02_wakeup_enqueues_once.

(* the stronger contract "a suspension ends only by a wake-up issued for it" is FALSE of the
   code: a resume aimed at an active, unregistered task leaves a helper that ends the suspension
   closing that phase (replayed on the real runtime by harness/c02_wake.cpp: WITNESS line) *)
Theorem C02_wakeup_is_phase_scoped_refuted :
  exists sched ext u q,
    let lg := log (fst (sched_run sched ext)) in
    In (EvSpur u q) lg /\ (forall p, ~ In (EvIssue u (Some p)) lg) /\
    In u (pend (fst (sched_run sched ext))).
Proof. exact wakeup_is_phase_scoped_refuted. Qed.
Print Assumptions C02_wakeup_is_phase_scoped_refuted.

(* and the wake-up is not even scoped to the phase in which it was issued: a delayed helper ends
   a suspension of a LATER phase (the helper aborts only when it finds the target ACTIVE with a
   different word; a target that yielded, ran again and suspended is woken) *)
Theorem C02_wakeup_crosses_phases_refuted :
  exists sched ext u before after,
    let lg := rev (log (fst (sched_run sched ext))) in
    split_issue u lg = Some (before, after) /\
    split_issue u after = None /\
    In (EvExit u 0 1 st_pending) after /\
    In (EvEnter u 1 1) after /\
    In (EvExit u 1 1 st_suspended) after /\
    In (EvSpur u 4) after.
Proof. exact wakeup_crosses_phases_refuted. Qed.
Print Assumptions C02_wakeup_crosses_phases_refuted.

(* helper_abort_sound.  In every reachable configuration: if the next step of thread a is the
   abort branch of set_active_state for (u, prev) — a runs helper task t whose body is still
   HelperBody u prev and the abort test `state equal /\ word different` succeeds on u's word — then
   (1) u is the SAME incarnation the wake-up was aimed at: the helper's counted reference keeps
       the count >= 1 and the object out of terminated_items / the heaps, and the ghost event
       EvHelp (gid u) prev (logged when set_thread_state found u active with word prev and created
       the helper) is in the log under u's CURRENT incarnation number;
   (2) prev and the current word are both `active` and tag cur > tag prev: u has entered a new
       activation after the wake-up was issued;
   (3) the phase with word prev has ended by a store that is in the log of this incarnation, and
       if that store published `suspended`, the suspension has already been ended by a
       set_thread_state CAS (SiteSet) in the log: the wake-up that the abort drops was absorbed;
   (4) no wake-up obligation of u for phase (tag prev) is outstanding; whatever obligation is
       outstanding belongs to a later phase (and is carried by the invariant W1 behind
       C02_no_lost_wakeup in the successor state).  Aborting never turns an owed wake-up into a
       lost one. *)
Theorem C02_helper_abort_sound : forall sched ext a t orig u prev,
  let c := sched_run sched ext in
  let g := fst c in
  snd c a = WRun t orig SNone -> todo (tasks g t) = HelperBody u prev ->
  st (tw_of g u) = st prev -> tw_of g u <> prev ->
  (u < ntasks g /\ 1 <= rc g u /\ ~ In u (term g ++ heap g) /\ In (EvHelp (gid g u) prev) (log g)) /\
  (st prev = st_active /\ st (tw_of g u) = st_active /\ (tag prev < tag (tw_of g u))%N) /\
  (exists nw, In (EvWord (gid g u) SiteStore prev nw) (log g) /\
              (st nw = st_suspended -> In (EvWord (gid g u) SiteSet nw (w_pending nw)) (log g))) /\
  (~ needs_wake g u (tag prev) /\ forall p, needs_wake g u p -> (tag prev < p)%N).
Proof. exact helper_abort_sound. Qed.
Print Assumptions C02_helper_abort_sound.

(* the same for every abort the log has ever recorded (what the harness sees as hook 207):
   abort_sound lg i prev cur = both words active, tag prev < tag cur, EvHelp i prev in lg, the store
   out of prev in lg, and the SiteSet CAS out of the stored word if that was `suspended` *)
Theorem C02_helper_abort_log_sound : forall sched ext h i prev cur,
  let lg := log (fst (sched_run sched ext)) in
  In (EvAbort h i prev cur) lg -> abort_sound lg i prev cur.
Proof. exact helper_abort_log_sound. Qed.
Print Assumptions C02_helper_abort_log_sound.

(* acceptor completeness for the C02 vocabulary: chains including the set_thread_state
   transitions (SiteSet = hook 104) are accepted with matching activation counts, every push is
   logged with a pending word (hook 120, `push_ok`), every abort record (hook 207) has equal
   states and different tags (an abort record with equal tags is what the harness counts as
   unmodelled) *)
Theorem C02_accepts_complete : forall sched ext,
  let lg := log (fst (sched_run sched ext)) in
  (forall i, accepts (chain_of i lg) = true /\ activations (chain_of i lg) = enters_of i lg) /\
  (forall i w, In (EvPush i w) lg -> push_ok w = true) /\
  (forall h i prev cur, In (EvAbort h i prev cur) lg ->
     st cur = st prev /\ N.eqb (tag prev) (tag cur) = false /\ (tag prev < tag cur)%N).
Proof. exact accepts_complete_c02. Qed.
Print Assumptions C02_accepts_complete.

(* ------------------------------------------------------------------ non-vacuity *)
(* the hypotheses of C02_helper_abort_sound are satisfiable: T = [Yield] is resumed while
   (active,1), yields, is entered again (active,3); then the helper runs: thread 2 is about to
   abort; after its step the abort is in the log *)
Example C02_example_abort :
  let c := sched_run ab_sched ab_ext in
  snd c 2 = WRun 1 (wA 1) SNone /\ todo (tasks (fst c) 1) = HelperBody 0 (wA 1) /\
  tw_of (fst c) 0 = wA 3 /\
  In (EvAbort 1 0 (wA 1) (wA 3)) (log (fst (sched_run (ab_sched ++ [(2, oP)]) ab_ext))).
Proof. vm_compute. repeat split. now left. Qed.

(* the premise of C02_no_lost_wakeup is met on the way: the wake-up is issued while the registered
   waiter is still active, it then suspends with the wake-up pending ... *)
Example C02_example_window :
  let c := sched_run (firstn 11 nv_sched) nv_ext in
  wake (tasks (fst c) 0) = Some 1%N /\ tw_of (fst c) 0 = wS 2 /\ staged (fst c) = [HelperBody 0 (wA 1)].
Proof. vm_compute. repeat split. Qed.
(* ... and the helper wakes it: the run ends stuck with every task terminated *)
Example C02_example_woken :
  let c := sched_run nv_sched nv_ext in
  stuck c /\ map (fun t => st (tw_of (fst c) t)) [0; 1] = [st_terminated; st_terminated] /\
  lost_wakeup_b 3 c = false.
Proof.
  split; [|vm_compute; split; reflexivity].
  rewrite (surjective_pairing (sched_run nv_sched nv_ext)).
  apply stuck_intro; [vm_compute; reflexivity | vm_compute; reflexivity | vm_compute; reflexivity |].
  intros a. destruct a as [|[|[|a]]]; vm_compute; auto.
Qed.
