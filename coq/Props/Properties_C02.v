(* Props/Properties_C02.v — C02: no lost wake-up: a resumed task always runs again.
   Only statements, closed by [exact] of lemmas of Proofs/SchedWakeProofs.v (same model as C01:
   Model/Sched.v).  Ghost state: reg u = Some p when task u linked a waiter entry in the phase
   whose active word has tag p (act Register = the critical section of the primitive's internal
   lock); wake u = Some p when a waker popped that entry (sub-step SIssue, under the same lock) —
   "the wake-up was issued after the task registered"; both are reset when a new phase starts.
   NOT proved (see notes/design/C02.md): agent_refines (simulation of Base/Agent.v), helper_abort_sound
   as a separate statement (its content is inside the invariant behind C02_no_lost_wakeup). *)
From Coq Require Import List NArith.
From Pika Require Import Base.Conc Gen.GenEnums Model.Sched Proofs.SchedProofs Proofs.SchedWakeProofs
  Proofs.SchedRecycleProofs.
Import ListNotations.

(* reachable /\ stuck (nothing can move any more; the pool has at least one worker) => no task is
   suspended — or still active — whose wake-up was issued for the phase in which it registered.
   wS (p+1) is the word (suspended, p+1) published by the store that ends the phase (active, p);
   the waker may have found the target still ACTIVE (the window "internal lock released, word not
   yet suspended": it then left a retry helper) or already suspended. *)
Theorem C02_no_lost_wakeup : forall sched ext w,
  ext w = None ->
  let c := sched_run sched ext in
  stuck c ->
  forall u p, u < ntasks (fst c) -> wake (tasks (fst c) u) = Some p ->
    tw_of (fst c) u <> wS (p + 1) /\ tw_of (fst c) u <> wA p.
Proof. exact no_lost_wakeup. Qed.
Print Assumptions C02_no_lost_wakeup.

(* a wake-up produces at most one queue entry: the agent that won the suspended->pending CAS
   holds the only handle of the (now pending) target until it has pushed it *)
Theorem C02_wakeup_enqueues_once : forall sched ext a u,
  let c := sched_run sched ext in
  enq_of (snd c a) = Some u ->
  ~ In u (pend (fst c)) /\ (forall b, holds (snd c b) u -> b = a) /\ NoDup (pend (fst c)) /\
  st (tw_of (fst c) u) = st_pending.
Proof. exact wakeup_enqueues_once. Qed.
Print Assumptions C02_wakeup_enqueues_once.

(* the stronger contract "a suspension ends only by a wake-up issued for it" is FALSE of the
   code: a resume aimed at an active, unregistered task leaves a helper that ends the suspension
   closing that phase (replayed on the real runtime by harness/c02_wake.cpp: WITNESS line) *)
Theorem C02_wakeup_is_phase_scoped_refuted :
  exists sched ext u q,
    let lg := log (fst (sched_run sched ext)) in
    In (EvSpur u q) lg /\ (forall p, ~ In (EvIssue u (Some p)) lg) /\
    In u (pend (fst (sched_run sched ext))).
Proof. exact wakeup_is_phase_scoped_refuted. Qed.
Print Assumptions C02_wakeup_is_phase_scoped_refuted.

(* and the wake-up is not even scoped to the phase in which it was issued: a delayed helper ends
   a suspension of a LATER phase (the helper aborts only when it finds the target ACTIVE with a
   different word; a target that yielded, ran again and suspended is woken) *)
Theorem C02_wakeup_crosses_phases_refuted :
  exists sched ext u before after,
    let lg := rev (log (fst (sched_run sched ext))) in
    split_issue u lg = Some (before, after) /\
    split_issue u after = None /\
    In (EvExit u 0 1 st_pending) after /\
    In (EvEnter u 1 1) after /\
    In (EvExit u 1 1 st_suspended) after /\
    In (EvSpur u 4) after.
Proof. exact wakeup_crosses_phases_refuted. Qed.
Print Assumptions C02_wakeup_crosses_phases_refuted.

(* ------------------------------------------------------------------ non-vacuity *)
(* the premise of C02_no_lost_wakeup is met on the way: the wake-up is issued while the registered
   waiter is still active, it then suspends with the wake-up pending ... *)
Example C02_example_window :
  let c := sched_run (firstn 11 nv_sched) nv_ext in
  wake (tasks (fst c) 0) = Some 1%N /\ tw_of (fst c) 0 = wS 2 /\ staged (fst c) = [HelperBody 0 (wA 1)].
Proof. vm_compute. repeat split. Qed.
(* ... and the helper wakes it: the run ends stuck with every task terminated *)
Example C02_example_woken :
  let c := sched_run nv_sched nv_ext in
  stuck c /\ map (fun t => st (tw_of (fst c) t)) [0; 1] = [st_terminated; st_terminated] /\
  lost_wakeup_b 3 c = false.
Proof.
  split; [|vm_compute; split; reflexivity].
  rewrite (surjective_pairing (sched_run nv_sched nv_ext)).
  apply stuck_intro; [vm_compute; reflexivity | vm_compute; reflexivity | vm_compute; reflexivity |].
  intros a. destruct a as [|[|[|a]]]; vm_compute; auto.
Qed.
