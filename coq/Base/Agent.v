(* Base/Agent.v — the suspend/resume contract that pika's blocking primitives are written
   against (execution_base agents), as the code really offers it (DESIGN.md section 3):
   a wake-up is scoped to the target's current *phase*, not to a particular wait.
     resume t     sets the token of t (and unblocks t if it is blocked in suspend)
     suspend      consumes the token if set (returns at once: a spurious return when the token
                  was set by a resume issued earlier in the same phase), otherwise blocks
     phase end    (yield, termination) clears the token
   Primitives that wait in a loop are correct under this contract; single-shot suspends are not. *)
From Coq Require Import Bool.

Record agent_state := { tok : bool; blocked : bool }.

Definition a_init : agent_state := {| tok := false; blocked := false |}.
Definition a_resume (a : agent_state) : agent_state := {| tok := negb (blocked a); blocked := false |}.
Inductive suspend_result := Returned | Blocked.
Definition a_suspend (a : agent_state) : agent_state * suspend_result :=
  if tok a then ({| tok := false; blocked := false |}, Returned)
  else ({| tok := false; blocked := true |}, Blocked).
Definition a_phase_end (a : agent_state) : agent_state := {| tok := false; blocked := blocked a |}.

(* a blocked agent that is resumed runs again and holds no stale token *)
Lemma resume_unblocks a : blocked (a_resume a) = false.
Proof. reflexivity. Qed.
Lemma resume_blocked_no_token a : blocked a = true -> tok (a_resume a) = false.
Proof. intros H. cbn. now rewrite H. Qed.
(* a resume aimed at a running agent leaves a token: the next suspend of this phase returns *)
Lemma resume_running_sticks a : blocked a = false -> fst (a_suspend (a_resume a)) = a_init /\ snd (a_suspend (a_resume a)) = Returned.
Proof. intros H. unfold a_resume, a_suspend. cbn. rewrite H. cbn. split; reflexivity. Qed.
