(* Base/Agent.v — the suspend/resume contract that pika's blocking primitives are written
   against (execution_base agents), as the code really offers it (DESIGN.md section 3):
   a wake-up is scoped to the target's current *phase*, not to a particular wait.
     resume t     sets the token of t (and unblocks t if it is blocked in suspend)
     suspend      consumes the token if set (returns at once: a spurious return when the token
                  was set by a resume issued earlier in the same phase), otherwise blocks
     phase end    (yield, termination) clears the token
   Primitives that wait in a loop are correct under this contract; single-shot suspends are not.

   Measured on the real runtime (C06 trace harness, C02 model witness
   C02_wakeup_crosses_phases_refuted): the token is NOT reliably cleared at a phase end — the
   set_active_state retry helper gives up only when it finds the target *active with a different
   tag*; a delayed helper that finds the target *suspended* in a later phase still wakes it.  So
   [a_phase_end] is an idealisation of the common case only.  Every model built on this file
   therefore ALSO contains an environment operation "a stale resume arrives now" that any thread
   may issue at any time (Mutex.OSpur, CondVar spurious ops, Semaphore.StaleResume, Join.AResume),
   and all theorems quantify over programs containing it: the contract actually assumed is
   "suspend may return spuriously at any time; a resume issued after the waiter registered is
   never lost".
   That weak contract is a machine-checked interface: Model/WeakAgent.v defines it as a small
   transition system (labels Reg Susp Res Wake Yield Term; Wake enabled whenever blocked; `wowed`
   set by a Res after Reg, cleared only by Wake / Yield / Term), Props/Properties_C02.v proves that
   the scheduler model refines it (C02_sched_refines_weak_agent, C02_sched_no_lost_resume) and that
   the operations of THIS file, plus the stale-resume step (= a_resume again), are instances of
   its steps and never leave an agent blocked while a wake-up is owed
   (C02_agent_interface_is_weak_agent, C02_agent_runs_are_weak_agent_runs). *)
From Coq Require Import Bool.

Record agent_state := { tok : bool; blocked : bool }.

Definition a_init : agent_state := {| tok := false; blocked := false |}.
Definition a_resume (a : agent_state) : agent_state := {| tok := negb (blocked a); blocked := false |}.
Inductive suspend_result := Returned | Blocked.
Definition a_suspend (a : agent_state) : agent_state * suspend_result :=
  if tok a then ({| tok := false; blocked := false |}, Returned)
  else ({| tok := false; blocked := true |}, Blocked).
Definition a_phase_end (a : agent_state) : agent_state := {| tok := false; blocked := blocked a |}.

(* a blocked agent that is resumed runs again and holds no stale token *)
Lemma resume_unblocks a : blocked (a_resume a) = false.
Proof. reflexivity. Qed.
Lemma resume_blocked_no_token a : blocked a = true -> tok (a_resume a) = false.
Proof. intros H. cbn. now rewrite H. Qed.
(* a resume aimed at a running agent leaves a token: the next suspend of this phase returns *)
Lemma resume_running_sticks a : blocked a = false -> fst (a_suspend (a_resume a)) = a_init /\ snd (a_suspend (a_resume a)) = Returned.
Proof. intros H. unfold a_resume, a_suspend. cbn. rewrite H. cbn. split; reflexivity. Qed.
