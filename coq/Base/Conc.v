(* Base/Conc.v — the interleaving framework every concurrent model instantiates.
   One deterministic atomic step per (thread, oracle) pair; a schedule is a list of
   such pairs; every nat is a thread (unbounded thread count). *)
From Coq Require Import List Arith Lia Bool.
Import ListNotations.

Section Conc.
  Variables (G L O : Type).                 (* shared state, thread-local state, per-step oracle *)
  Variable tstep : O -> nat -> G -> L -> G * L.

  Definition locals := nat -> L.
  Definition upd (ls : locals) (t : nat) (l : L) : locals :=
    fun t' => if Nat.eqb t' t then l else ls t'.

  Definition step (c : G * locals) (so : nat * O) : G * locals :=
    let '(t, o) := so in
    let '(g', l') := tstep o t (fst c) (snd c t) in (g', upd (snd c) t l').

  Definition run (sched : list (nat * O)) (c : G * locals) : G * locals :=
    fold_left step sched c.

  Definition reachable (c0 c : G * locals) : Prop := exists sched, run sched c0 = c.

  Lemma upd_same ls t l : upd ls t l t = l.
  Proof. unfold upd. now rewrite Nat.eqb_refl. Qed.

  Lemma upd_other ls t l t' : t' <> t -> upd ls t l t' = ls t'.
  Proof. unfold upd. intros H. apply Nat.eqb_neq in H. now rewrite H. Qed.

  Lemma run_app s1 s2 c : run (s1 ++ s2) c = run s2 (run s1 c).
  Proof. unfold run. apply fold_left_app. Qed.

  Lemma run_cons so s c : run (so :: s) c = run s (step c so).
  Proof. reflexivity. Qed.

  Section Inv.
    Variable Inv : G -> locals -> Prop.
    Hypothesis Hstep : forall o t g ls, Inv g ls ->
       Inv (fst (tstep o t g (ls t))) (upd ls t (snd (tstep o t g (ls t)))).

    Lemma step_inv c so : Inv (fst c) (snd c) -> Inv (fst (step c so)) (snd (step c so)).
    Proof.
      destruct c as [g ls], so as [t o]. cbn [fst snd step]. intros H.
      specialize (Hstep o t g ls H). destruct (tstep o t g (ls t)) as [g' l']. exact Hstep.
    Qed.

    Theorem run_inv : forall sched c, Inv (fst c) (snd c) ->
      Inv (fst (run sched c)) (snd (run sched c)).
    Proof.
      induction sched as [|so s IH]; intros c H; [exact H|].
      rewrite run_cons. apply IH. apply step_inv. exact H.
    Qed.

    Corollary reachable_inv c0 c : Inv (fst c0) (snd c0) -> reachable c0 c -> Inv (fst c) (snd c).
    Proof. intros H [s <-]. now apply run_inv. Qed.
  End Inv.

  (* Invariants over the shared state only (the common case with a ghost log). *)
  Section GInv.
    Variable GI : G -> Prop.
    Hypothesis Hg : forall o t g l, GI g -> GI (fst (tstep o t g l)).
    Theorem run_ginv sched c : GI (fst c) -> GI (fst (run sched c)).
    Proof.
      apply (run_inv (fun g _ => GI g)). intros o t g ls H. now apply Hg.
    Qed.
  End GInv.
End Conc.

Arguments upd {L} ls t l t'.
Arguments step {G L O} tstep c so.
Arguments run {G L O} tstep sched c.
Arguments reachable {G L O} tstep c0 c.
