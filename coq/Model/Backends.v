(* Model/Backends.v — the queue back-ends of lockfree_queue_backends.hpp as clients of the
   two-ended list specification (Model/DequeSpec.v).  Which end each operation uses is NOT
   written here: it comes from Gen/GenBackends.v (push_end / pop_end), which tools/genmods/c17.py
   derives from the bodies of push/pop in the header on every run.
   Executable definitions only. *)
From Coq Require Import List NArith Bool.
From Pika Require Import Model.IndexQueue Model.DequeSpec Gen.GenBackends.
Import ListNotations.
Local Open Scope N_scope.

(* the back-end API: push(val, other_end), pop(val, steal) *)
Inductive bop := BPush (other_end : bool) (v : N) | BPop (steal : bool).

Definition bop_dop (b : backend) (o : bop) : dop :=
  match o with
  | BPush oe v => Push (push_end b oe) v
  | BPop st => Pop (pop_end b st)
  end.

(* a sequential run of back-end [b] from contents [l] (left end first) *)
Definition backend_run (b : backend) (ops : list bop) (l : list N) : list (option N) * list N :=
  spec_run (map (bop_dop b) ops) l.

(* the owner pushes with other_end = false and pops with steal = false; a thief pops with
   steal = true; [other_push] is push(val, other_end = true) *)
Definition owner_push (b : backend) (v : N) : dop := Push (push_end b false) v.
Definition other_push (b : backend) (v : N) : dop := Push (push_end b true) v.
Definition owner_pop (b : backend) : dop := Pop (pop_end b false).
Definition thief_pop (b : backend) : dop := Pop (pop_end b true).

(* results of n pushes (pushes report nothing in the spec) *)
Definition nones (n : nat) : list (option N) := repeat None n.

(* decidable classification used by the order lemmas *)
Definition side_eqb (a b : side) : bool :=
  match a, b with SL, SL | SR, SR => true | _, _ => false end.

(* owner pops where it pushes (LIFO for the owner) *)
Definition owner_same_end (b : backend) : bool := side_eqb (pop_end b false) (push_end b false).
(* thief pops at the end opposite to the owner's pop end *)
Definition thief_opposite (b : backend) : bool := side_eqb (pop_end b true) (opp (pop_end b false)).
