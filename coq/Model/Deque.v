(* Model/Deque.v — pika::concurrency::detail::deque<T> (Michael's CAS-based deque)
   libs/pika/concurrency/include/pika/concurrency/deque.hpp, with the node pool of
   detail/freelist.hpp (boost::lockfree::detail::freelist_stack, boost 1.83).

   Shared state: the anchor (left ptr, right ptr, status, tag) — one 128-bit atomic —, the
   heap of nodes (left link, right link : pointer x tag; data), the pool head and the
   address of the next never-used chunk.  Address 0 is nullptr.

   The freelist is the real (intrusive, type-stable, LIFO) one: deallocate(n) overwrites the
   POINTER bits of the first word of the chunk — which is the node's [left] link — with the
   old pool head and keeps that word's tag bits (tagged_ptr::set_ptr); allocate() pops the
   head and follows that pointer; an empty pool hands out a fresh zeroed chunk.  alloc_node
   (repaired, `fix:` commit cf77ab7) reads the two link tags the chunk still holds and constructs
   node(nullptr, nullptr, v, ltag + 1, rtag + 1); the pushes' private store writes
   (neighbour, old tag of that link + 1).  (Before the repair both wrote tag 0, which made F15
   possible: a stalled link CAS succeeded against a later incarnation of the node.)  So the tag
   of a link never decreases over the lifetime of its address.  The freelist's own CAS loops
   are not split (its pop and its push are one step each); every access of deque.hpp to the
   anchor or to a link is one step (the tag read + the write of INIT / LSTORE are one step:
   they touch a node that only the pushing thread may write):

     kind 1 ALLOC   pool_.allocate()                     kind 6 LSTORE  n->left/right.store
     kind 2 INIT    new (chunk) node(0,0,v,lt+1,rt+1)    kind 7 LCAS    prev->link CAS (stabilize)
     kind 3 ALOAD   anchor_.lrs()                        kind 8 ACAS    anchor_.cas
     kind 4 ACHK    anchor_ != lrs                       kind 9 FREE    r = node->data; dealloc_node
     kind 5 LLOAD   ->left/right.load

   (hook sites 1710+kind in deque.hpp).  Left and right operations are mirror images in the
   source; the model is written once over [side] with accessors ([inward]/[outward] link of a
   node seen from an end).  Tags are unbounded N (the 16-bit wrap is a stated side condition).
   Ghost state: the log of completed operations, the number of successful anchor CASes, the
   epoch of every address (bumped by allocate and by deallocate) and the flag [aba]: a link
   CAS succeeded although its target was freed/re-allocated since the expected value was read
   (the F15 event; Props: C17_deque_aba_never — it stays false).
   Executable definitions only; proofs are in Proofs/Deque*.v. *)
From Coq Require Import List NArith Bool.
From Pika Require Import Base.Conc Model.IndexQueue Model.DequeSpec.
Import ListNotations.
Local Open Scope N_scope.

Definition addr := N.
Record link := { lptr : addr; ltag : N }.
Record node := { nleft : link; nright : link; ndata : N }.
Inductive status := Stable | RPush | LPush.
Record anchor := { al : addr; ar : addr; ast : status; atag : N }.

Definition link_eqb (a b : link) : bool := (lptr a =? lptr b) && (ltag a =? ltag b).
Definition status_eqb (a b : status) : bool :=
  match a, b with Stable, Stable => true | RPush, RPush => true | LPush, LPush => true | _, _ => false end.
Definition anchor_eqb (a b : anchor) : bool :=
  (al a =? al b) && (ar a =? ar b) && status_eqb (ast a) (ast b) && (atag a =? atag b).

Definition null_link : link := {| lptr := 0; ltag := 0 |}.
Definition zero_node : node := {| nleft := null_link; nright := null_link; ndata := 0 |}.

(* ---- side-generic accessors ---- *)
Definition aend (s : side) (a : anchor) : addr := match s with SL => al a | SR => ar a end.
Definition set_aend (s : side) (a : anchor) (p : addr) (st : status) (tg : N) : anchor :=
  match s with
  | SL => {| al := p; ar := ar a; ast := st; atag := tg |}
  | SR => {| al := al a; ar := p; ast := st; atag := tg |}
  end.
(* link of a node that points towards the middle / away from the middle, seen from end s *)
Definition inward (s : side) (nd : node) : link := match s with SL => nright nd | SR => nleft nd end.
Definition outward (s : side) (nd : node) : link := match s with SL => nleft nd | SR => nright nd end.
Definition set_inward (s : side) (nd : node) (l : link) : node :=
  match s with
  | SL => {| nleft := nleft nd; nright := l; ndata := ndata nd |}
  | SR => {| nleft := l; nright := nright nd; ndata := ndata nd |}
  end.
Definition set_outward (s : side) (nd : node) (l : link) : node := set_inward (opp s) nd l.
Definition push_status (s : side) : status := match s with SL => LPush | SR => RPush end.
(* stabilize(lrs): rpush -> stabilize_right, otherwise stabilize_left *)
Definition stab_side (st : status) : side := match st with RPush => SR | _ => SL end.

(* ---- shared state ---- *)
Record dq_ev := { dv_tid : nat; dv_op : dop; dv_res : option N }.

Record dq_shared := {
  anc : anchor;
  heap : addr -> node;
  pool : addr;              (* head of the freelist *)
  fresh : addr;             (* next never-used chunk *)
  dlog : list dq_ev;        (* ghost: completed operations, newest first (push: at its anchor CAS) *)
  epoch : addr -> N;        (* ghost: allocate/deallocate events per address *)
  ncas : N;                 (* ghost: successful anchor CASes *)
  aba : bool                (* ghost: a link CAS succeeded against a recycled node *)
}.

Definition hupd (h : addr -> node) (a : addr) (nd : node) : addr -> node :=
  fun x => if x =? a then nd else h x.
Definition eupd (e : addr -> N) (a : addr) (v : N) : addr -> N :=
  fun x => if x =? a then v else e x.

Definition set_anc (g : dq_shared) (a : anchor) : dq_shared :=
  {| anc := a; heap := heap g; pool := pool g; fresh := fresh g; dlog := dlog g;
     epoch := epoch g; ncas := ncas g + 1; aba := aba g |}.
Definition set_heap (g : dq_shared) (h : addr -> node) : dq_shared :=
  {| anc := anc g; heap := h; pool := pool g; fresh := fresh g; dlog := dlog g;
     epoch := epoch g; ncas := ncas g; aba := aba g |}.
Definition set_aba (g : dq_shared) (b : bool) : dq_shared :=
  {| anc := anc g; heap := heap g; pool := pool g; fresh := fresh g; dlog := dlog g;
     epoch := epoch g; ncas := ncas g; aba := b |}.
Definition dq_log (g : dq_shared) (t : nat) (o : dop) (r : option N) : dq_shared :=
  {| anc := anc g; heap := heap g; pool := pool g; fresh := fresh g;
     dlog := {| dv_tid := t; dv_op := o; dv_res := r |} :: dlog g;
     epoch := epoch g; ncas := ncas g; aba := aba g |}.

(* freelist_stack::allocate<true,false>() : (new state, chunk) *)
Definition fl_alloc (g : dq_shared) : dq_shared * addr :=
  if pool g =? 0 then
    let a := fresh g in
    ({| anc := anc g; heap := hupd (heap g) a zero_node; pool := 0; fresh := a + 1; dlog := dlog g;
        epoch := eupd (epoch g) a (epoch g a + 1); ncas := ncas g; aba := aba g |}, a)
  else
    let a := pool g in
    ({| anc := anc g; heap := heap g; pool := lptr (nleft (heap g a)); fresh := fresh g; dlog := dlog g;
        epoch := eupd (epoch g) a (epoch g a + 1); ncas := ncas g; aba := aba g |}, a).

(* freelist_stack::deallocate<true>(a): next.set_ptr(old head) keeps the tag bits of word 0 *)
Definition fl_free (g : dq_shared) (a : addr) : dq_shared :=
  let nd := heap g a in
  {| anc := anc g;
     heap := hupd (heap g) a {| nleft := {| lptr := pool g; ltag := ltag (nleft nd) |};
                                nright := nright nd; ndata := ndata nd |};
     pool := a; fresh := fresh g; dlog := dlog g;
     epoch := eupd (epoch g) a (epoch g a + 1); ncas := ncas g; aba := aba g |}.

(* ---- thread-local state ---- *)
(* where a thread continues when stabilize returns *)
Inductive kont := KDone | KPush (s : side) (n : addr) | KPop (s : side).

Inductive dq_pc :=
| DIdle
| DCrashed                                                  (* nullptr dereference *)
| PInit (s : side) (v : N) (n : addr)                       (* chunk obtained, constructor next *)
| PLoad (s : side) (n : addr)                               (* push loop head: anchor load *)
| PStore (s : side) (n : addr) (lrs : anchor)               (* n->inward.store(end) *)
| PCas (s : side) (n : addr) (lrs : anchor) (emp : bool)    (* anchor CAS (empty / stable case) *)
| QLoad (s : side)                                          (* pop loop head: anchor load *)
| QChk (s : side) (lrs : anchor)                            (* anchor_ != lrs *)
| QLink (s : side) (lrs : anchor)                           (* prev = end->inward.load *)
| QCas (s : side) (lrs : anchor) (np : option addr)         (* anchor CAS; None: last element, Some p: new end *)
| QFree (s : side) (a : addr)                               (* r = a->data; dealloc_node(a) *)
| S1 (k : kont) (s : side) (lrs : anchor)                   (* prev = end->inward.load *)
| S2 (k : kont) (s : side) (lrs : anchor) (prev : link)     (* anchor_ != lrs *)
| S3 (k : kont) (s : side) (lrs : anchor) (prev : link)     (* prevnext = prev->outward.load *)
| S4 (k : kont) (s : side) (lrs : anchor) (prev pn : link) (e : N)   (* anchor_ != lrs *)
| S5 (k : kont) (s : side) (lrs : anchor) (prev pn : link) (e : N)   (* prev->outward CAS *)
| S6 (k : kont) (s : side) (lrs : anchor).                  (* anchor CAS to stable *)

Record dq_local := { dtodo : list dop; dpc : dq_pc }.

Definition goto (l : dq_local) (p : dq_pc) : dq_local := {| dtodo := dtodo l; dpc := p |}.
Definition complete (l : dq_local) : dq_local := {| dtodo := tl (dtodo l); dpc := DIdle |}.
Definition cur_op (l : dq_local) : dop := hd (Pop SL) (dtodo l).

Definition resume (g : dq_shared) (l : dq_local) (k : kont) : dq_shared * dq_local :=
  match k with
  | KDone => (g, complete l)
  | KPush s n => (g, goto l (PLoad s n))
  | KPop s => (g, goto l (QLoad s))
  end.

(* the anchor load at the head of the push loop and what it branches to *)
Definition push_load (g : dq_shared) (l : dq_local) (s : side) (n : addr) : dq_shared * dq_local :=
  let lrs := anc g in
  if aend s lrs =? 0 then (g, goto l (PCas s n lrs true))
  else match ast lrs with
       | Stable => (g, goto l (PStore s n lrs))
       | st => (g, goto l (S1 (KPush s n) (stab_side st) lrs))
       end.

Definition pop_desired (s : side) (lrs : anchor) (np : option addr) : anchor :=
  match np with
  | None => {| al := 0; ar := 0; ast := ast lrs; atag := atag lrs + 1 |}
  | Some p => set_aend s lrs p (ast lrs) (atag lrs + 1)
  end.

Definition pop_load (g : dq_shared) (t : nat) (l : dq_local) (s : side) : dq_shared * dq_local :=
  let lrs := anc g in
  if aend s lrs =? 0 then (dq_log g t (Pop s) None, complete l)
  else if al lrs =? ar lrs then
    (g, goto l (QCas s lrs None))
  else match ast lrs with
       | Stable => (g, goto l (QChk s lrs))
       | st => (g, goto l (S1 (KPop s) (stab_side st) lrs))
       end.

Definition dq_tstep (_ : unit) (t : nat) (g : dq_shared) (l : dq_local) : dq_shared * dq_local :=
  match dpc l with
  | DIdle =>
      match dtodo l with
      | [] => (g, l)
      | Push s v :: _ => let '(g', a) := fl_alloc g in (g', goto l (PInit s v a))
      | Pop s :: _ => pop_load g t l s
      end
  | DCrashed => (g, l)
  | PInit s v n =>
      (set_heap g (hupd (heap g) n {| nleft := {| lptr := 0; ltag := ltag (nleft (heap g n)) + 1 |};
                                      nright := {| lptr := 0; ltag := ltag (nright (heap g n)) + 1 |};
                                      ndata := v |}),
       goto l (PLoad s n))
  | PLoad s n => push_load g l s n
  | PStore s n lrs =>
      (set_heap g (hupd (heap g) n (set_inward s (heap g n)
                                      {| lptr := aend s lrs; ltag := ltag (inward s (heap g n)) + 1 |})),
       goto l (PCas s n lrs false))
  | PCas s n lrs emp =>
      if anchor_eqb (anc g) lrs then
        if emp then
          (dq_log (set_anc g {| al := n; ar := n; ast := ast lrs; atag := atag lrs + 1 |}) t (cur_op l) None,
           complete l)
        else
          let des := set_aend s lrs n (push_status s) (atag lrs + 1) in
          (dq_log (set_anc g des) t (cur_op l) None, goto l (S1 KDone s des))
      else (g, goto l (PLoad s n))
  | QLoad s => pop_load g t l s
  | QChk s lrs =>
      if anchor_eqb (anc g) lrs then (g, goto l (QLink s lrs)) else (g, goto l (QLoad s))
  | QLink s lrs =>
      let prev := inward s (heap g (aend s lrs)) in
      (g, goto l (QCas s lrs (Some (lptr prev))))
  | QCas s lrs np =>
      if anchor_eqb (anc g) lrs then (set_anc g (pop_desired s lrs np), goto l (QFree s (aend s lrs)))
      else (g, goto l (QLoad s))
  | QFree s a =>
      let v := ndata (heap g a) in
      (dq_log (fl_free g a) t (Pop s) (Some v), complete l)
  | S1 k s lrs =>
      let a := aend s lrs in
      if a =? 0 then (g, goto l DCrashed)
      else (g, goto l (S2 k s lrs (inward s (heap g a))))
  | S2 k s lrs prev =>
      if anchor_eqb (anc g) lrs then (g, goto l (S3 k s lrs prev)) else resume g l k
  | S3 k s lrs prev =>
      let p := lptr prev in
      if p =? 0 then (g, goto l DCrashed)
      else
        let pn := outward s (heap g p) in
        if lptr pn =? aend s lrs then (g, goto l (S6 k s lrs))
        else (g, goto l (S4 k s lrs prev pn (epoch g p)))
  | S4 k s lrs prev pn e =>
      if anchor_eqb (anc g) lrs then (g, goto l (S5 k s lrs prev pn e)) else resume g l k
  | S5 k s lrs prev pn e =>
      let p := lptr prev in
      if link_eqb (outward s (heap g p)) pn then
        (set_aba (set_heap g (hupd (heap g) p
                    (set_outward s (heap g p) {| lptr := aend s lrs; ltag := ltag pn + 1 |})))
                 (aba g || negb (epoch g p =? e)),
         goto l (S6 k s lrs))
      else resume g l k
  | S6 k s lrs =>
      if anchor_eqb (anc g) lrs then
        resume (set_anc g {| al := al lrs; ar := ar lrs; ast := Stable; atag := atag lrs + 1 |}) l k
      else resume g l k
  end.

(* ---- what the lock-step controller sees before a step: (kind, function, x) where x is the node
   accessed (kinds 2,5,6,7,9) or the tag of the anchor snapshot in hand (kinds 4 and 8) ---- *)
Definition fn_push (s : side) : nat := match s with SL => 1%nat | SR => 2%nat end.
Definition fn_pop (s : side) : nat := match s with SL => 3%nat | SR => 4%nat end.
Definition fn_stab (s : side) : nat := match s with SL => 5%nat | SR => 6%nat end.
Definition ob (k f : nat) (a : addr) : nat * nat * addr := (k, f, a).

Definition dq_obs (l : dq_local) : nat * nat * addr :=
  match dpc l with
  | DIdle => match dtodo l with
             | [] => ob 0 (0) (0)
             | Push _ _ :: _ => ob 1 (0) (0)
             | Pop s :: _ => ob 3 (fn_pop s) (0)
             end
  | DCrashed => ob 10 (0) (0)
  | PInit _ _ n => ob 2 (0) (n)
  | PLoad s _ => ob 3 (fn_push s) (0)
  | PStore s n _ => ob 6 (fn_push s) (n)
  | PCas s _ lrs _ => ob 8 (fn_push s) (atag lrs)
  | QLoad s => ob 3 (fn_pop s) (0)
  | QChk s lrs => ob 4 (fn_pop s) (atag lrs)
  | QLink s lrs => ob 5 (fn_pop s) (aend s lrs)
  | QCas s lrs _ => ob 8 (fn_pop s) (atag lrs)
  | QFree s a => ob 9 (fn_pop s) (a)
  | S1 _ s lrs => ob 5 (fn_stab s) (aend s lrs)
  | S2 _ s lrs _ => ob 4 (fn_stab s) (atag lrs)
  | S3 _ s _ prev => ob 5 (fn_stab s) (lptr prev)
  | S4 _ s lrs _ _ _ => ob 4 (fn_stab s) (atag lrs)
  | S5 _ s _ prev _ _ => ob 7 (fn_stab s) (lptr prev)
  | S6 _ s lrs => ob 8 (fn_stab s) (atag lrs)
  end.

Definition dq_done (l : dq_local) : bool :=
  match dpc l, dtodo l with DIdle, [] => true | DCrashed, _ => true | _, _ => false end.

(* ---- initial state: deque(k) — pool_(k) pushes k zeroed chunks; the last one is on top.
   Chunks are numbered in the order in which they will first be handed out: 1, 2, ... ---- *)
Definition init_heap (k : N) : addr -> node :=
  fun a => if (1 <=? a) && (a <? k)
           then {| nleft := {| lptr := a + 1; ltag := 0 |}; nright := null_link; ndata := 0 |}
           else zero_node.

Definition dq_init (k : N) : dq_shared :=
  {| anc := {| al := 0; ar := 0; ast := Stable; atag := 0 |};
     heap := init_heap k; pool := if k =? 0 then 0 else 1; fresh := k + 1;
     dlog := []; epoch := fun _ => 0; ncas := 0; aba := false |}.

Definition dq_locals (progs : nat -> list dop) : nat -> dq_local :=
  fun t => {| dtodo := progs t; dpc := DIdle |}.

Definition dq_run (sched : list (nat * unit)) (k : N) (progs : nat -> list dop) :=
  run dq_tstep sched (dq_init k, dq_locals progs).

Definition solo (t : nat) (n : nat) : list (nat * unit) := repeat (t, tt) n.

(* results of thread t in program order (pushes report None, pops Some v / None) *)
Definition dq_results (t : nat) (lg : list dq_ev) : list (option N) :=
  rev (map dv_res (filter (fun e => Nat.eqb (dv_tid e) t) lg)).

Definition pushed_vals (lg : list dq_ev) : list N :=
  flat_map (fun e => match dv_op e with Push _ v => [v] | Pop _ => [] end) lg.
Definition popped_vals (lg : list dq_ev) : list N :=
  flat_map (fun e => match dv_op e, dv_res e with Pop _, Some v => [v] | _, _ => [] end) lg.

(* the values in the chain, read from the left end along the right links (fuel bounds the walk) *)
Fixpoint walk (h : addr -> node) (a stop : addr) (fuel : nat) : list N :=
  match fuel with
  | O => []
  | S f => if a =? 0 then []
           else ndata (h a) :: (if a =? stop then [] else walk h (lptr (nright (h a))) stop f)
  end.
Definition dq_contents (fuel : nat) (g : dq_shared) : list N := walk (heap g) (al (anc g)) (ar (anc g)) fuel.

(* ---- for the correspondence check ---- *)
Fixpoint dq_trace (sched : list nat) (c : dq_shared * (nat -> dq_local)) (acc : list (nat * nat * addr))
  : list (nat * nat * addr) * (dq_shared * (nat -> dq_local)) :=
  match sched with
  | [] => (rev acc, c)
  | t :: rest => dq_trace rest (step dq_tstep c (t, tt)) (dq_obs (snd c t) :: acc)
  end.

(* run thread t alone until it is done (at most fuel steps) *)
Fixpoint dq_solo (fuel : nat) (t : nat) (c : dq_shared * (nat -> dq_local)) : dq_shared * (nat -> dq_local) :=
  match fuel with
  | O => c
  | S f => if dq_done (snd c t) then c else dq_solo f t (step dq_tstep c (t, tt))
  end.

(* multiset equality of value lists, for the monitors evaluated on the model *)
Fixpoint remove1 (x : N) (l : list N) : option (list N) :=
  match l with
  | [] => None
  | y :: r => if x =? y then Some r else match remove1 x r with Some r' => Some (y :: r') | None => None end
  end.
Fixpoint perm_b (a b : list N) : bool :=
  match a with
  | [] => match b with [] => true | _ => false end
  | x :: r => match remove1 x b with Some b' => perm_b r b' | None => false end
  end.
