(* Model/SchedSpinWaker.v — C02, round p13a: the `retry_on_active = false` branch of
   threads::detail::set_thread_state (libs/pika/threading_base/src/set_thread_state.cpp), the one
   threads::detail::interrupt_thread uses:

       do {
           previous_state = get_state();                       // SLoad u
           ...
           case active:
               if (retry_on_active) { create_work(set_active_state ...); }   // Sched.v: helper staged
               else { yield_k(k, ...); ++k; continue; }        // THIS FILE: re-read, nothing else
               return previous_state;
           case terminated: return;   case pending / pending_boost / suspended: break;
           ...restore_state CAS, retry on failure...
       } while (true);

   A layer over Model/Sched.v (Sched.v is untouched, tstep is reused for everything else).  The
   thread-local state gets one more bit, `nr` ("no retry helper"): the set_thread_state call this
   thread is inside was made with retry_on_active = false.  The bit is chosen by the oracle
   (field sint) at the step that enters the waker's critical section (sub goes SNone -> SIssue u:
   the act Resume u of a task or of an OS thread), i.e. EVERY Resume of every program is, by
   the schedule's choice, either agent.resume() (bit false: Sched.v's behaviour) or
   interrupt_thread (bit true); it stays fixed until the call returns (sub back to SNone, bit
   cleared).  The call made by a retry helper (set_active_state -> set_thread_state(.., true))
   enters at SLoad directly and has the bit false, as in the code.

   The spin: a thread with nr = true at SLoad u whose target exists and whose word reads
   `active` takes a step that changes nothing (the re-read; yield_k on an OS thread is pause /
   sched_yield / nanosleep and touches no modelled state; k is not modelled).  In every other
   situation the step is exactly Sched.v's step (an `nr` waker that reads pending / terminated
   is done, one that reads suspended / pending_boost goes to the tagged CAS, reloads on failure
   — and spins again if the reload reads active).

   NOT modelled: (1) yield_k executed by a pika TASK gives up the worker from k = 16 on
   (do_yield(pending_boost) / do_yield(pending): the spinning task's own word leaves `active`,
   the worker is free, another worker may continue the loop).  Here a spinning task keeps its
   worker.  Consequence: two tasks interrupting each other (both active) spin for ever in this
   model and occupy their workers, which the real yield breaks; the theorems therefore speak
   about workers that are NOT spinning (hypothesis of SchedSpinWakerProofs.spin_waker_not_lost).
   (2) the flag requested_interrupt_, the restart reason `abort`, the exception.  (3) as in
   Sched.v the ghost step SIssue marks the obligation (wake := reg); for an interrupt the waiter
   entry is not popped by the waker in the code (the unwinding waiter removes it): reg / wake
   are ghost and nothing else depends on them. *)
From Coq Require Import List NArith Bool Arith.
From Pika Require Import Base.Conc Gen.GenEnums Model.Sched.
Import ListNotations.

Record spc := { bpc : pc; nr : bool }.
Record soracle := { so : oracle; sint : bool }.

Definition is_issue (s : sub) : bool := match s with SIssue _ => true | _ => false end.
Definition is_snone (s : sub) : bool := match s with SNone => true | _ => false end.

(* the target this thread is spinning on right now, if any: inside set_thread_state(u,
   retry_on_active = false), about to (re-)read the word, which is `active` *)
Definition spin_at (g : G) (l : spc) : option nat :=
  match sub_of (bpc l) with
  | SLoad u => if nr l && (u <? ntasks g) && sst_beq (st (tw_of g u)) st_active then Some u else None
  | _ => None
  end.

(* the bit after a base step from pc l to pc l' *)
Definition nr_next (o : soracle) (l : spc) (l' : pc) : bool :=
  match sub_of (bpc l) with
  | SNone => sint o && is_issue (sub_of l')
  | _ => nr l && negb (is_snone (sub_of l'))
  end.

Definition sstep (o : soracle) (me : nat) (g : G) (l : spc) : G * spc :=
  match spin_at g l with
  | Some _ => (g, l)                                   (* yield_k; ++k; continue *)
  | None => let r := tstep (so o) me g (bpc l) in
            (fst r, {| bpc := snd r; nr := nr_next o l (snd r) |})
  end.

Definition sinit_ls (ext : nat -> option (list act)) : nat -> spc :=
  fun i => {| bpc := init_ls ext i; nr := false |}.

Definition spin_run (sched : list (nat * soracle)) (ext : nat -> option (list act)) : G * (nat -> spc) :=
  run sstep sched (init_g, sinit_ls ext).

(* nothing can change any more (spinning threads included: their step is a no-op) *)
Definition sstuck (c : G * (nat -> spc)) : Prop :=
  forall a o, sstep o a (fst c) (snd c a) = (fst c, snd c a).

(* thread a is inside set_thread_state(u, retry_on_active = false) at the (re-)load *)
Definition spinning (l : spc) (u : nat) : Prop := nr l = true /\ sub_of (bpc l) = SLoad u.

(* the base view of a layered configuration *)
Definition base_ls (ls : nat -> spc) : nat -> pc := fun i => bpc (ls i).
