(* Model/Semaphore.v — pika's semaphores over the agent contract (Base/Agent.v).
   Code: libs/pika/synchronization/src/detail/counting_semaphore.cpp (wait, wait_until, try_wait,
   try_acquire, signal), include/pika/synchronization/counting_semaphore.hpp (acquire = wait(l,1),
   try_acquire, try_acquire_until = wait_until(l,t,1), release = signal), src/detail/
   sliding_semaphore.cpp (wait, try_wait, signal, signal_all, set_max_difference) with the public
   wrappers of include/pika/synchronization/sliding_semaphore.hpp, and the detail condition variable
   (src/detail/condition_variable.cpp: wait, wait_until, notify_one) they wait on.

   One model step = one critical section of the semaphore's spinlock (value_, lower_limit_ and the
   cv queue are touched only under it) or one agent operation (suspend, yield while sleeping).
     Idle + op   : lock; the op's first critical section; unlock
     Susp c      : the waiter enqueued itself and released the lock; this step is agent.suspend()
     Blk c       : inside suspend(); enabled once the agent is not blocked: re-lock, erase the own
                   queue entry if it is still there (reset_queue_entry), re-test the condition
                   (the `while` of wait) -> take or enqueue again
     TSleep n    : timed waiter inside cv.wait_until -> agent.sleep_until; oracle bit = "deadline
                   passed".  not passed: a pika task yields, an OS thread sleeps (no state change:
                   a yield does NOT reliably clear a stale resume, so the token is kept).
                   passed: re-lock; still queued -> timeout -> false; popped (signaled) -> re-test
                   (counting_semaphore::wait_until after the F1 fix: only `timeout` returns false)
     SigLoop     : signal(): notify_one returned true (queue not empty); re-lock, next iteration
     ResWait w   : OS-thread agent only: default_agent::resume(w) blocks until w is not running,
                   *holding the semaphore's spinlock* (holder = Some t)
   Two agent instances (kind): Task = Base/Agent.v as is (token; resume never blocks);
   OsThr = default_agent of this_thread.cpp: resume enabled only when the target is blocked in
   suspend, sleep_until never marks the agent as not running.
   Counting and sliding semaphore share this model (they share the cv mechanics); a program uses
   one family of operations; the theorems are stated per family.
   Ghost (never read by the code part): acquired, released, popped, sigl, slog.
   Executable definitions only. *)
From Coq Require Import List ZArith Bool Arith.
From Pika Require Import Base.Conc Base.Agent.
Import ListNotations.
Local Open Scope Z_scope.

Inductive akind := Task | OsThr.

Inductive sop :=
| Acquire (n : Z)          (* detail wait(l, n); public acquire() = Acquire 1 *)
| TimedAcquire (n : Z)     (* detail wait_until(l, t, n); public try_acquire_until/for = 1 *)
| TryWait (n : Z)          (* detail try_wait(l, n) *)
| TryAcquire               (* detail/public try_acquire *)
| Release (n : Z)          (* signal(l, n) = public release(n) *)
| SlWait (u : Z)           (* sliding wait(upper) *)
| SlTryWait (u : Z)        (* sliding try_wait(upper) *)
| SlSignal (lo : Z)        (* sliding signal(lower) *)
| SlSignalAll              (* sliding signal_all() = signal(l, lower_limit_); returns lower_limit_ (ev_lower) *)
| SlSetMaxDiff (md lo : Z) (* sliding set_max_difference(md, lo) *)
| StaleResume (w : nat).   (* environment: somebody's stale resume aimed at pika task w arrives now (a delayed
                              set_active_state retry helper): may be issued by any thread at any time, so a
                              suspend may return spuriously at ANY time — also after intervening yields *)

Inductive wcond := CAcq (n : Z) | CSl (u : Z).

Inductive spc :=
| Idle | Susp (c : wcond) | Blk (c : wcond) | TSleep (n : Z)
| SigLoop (chk : bool) (k : Z) | ResWait (w : nat) (chk : bool) (k : Z).

(* ghost log entry of a completed operation *)
Record sev := { ev_tid : nat; ev_op : sop; ev_res : bool;
                ev_avail : Z;     (* value_ before the final critical section *)
                ev_taken : Z;     (* permits removed by the final critical section *)
                ev_lower : Z;     (* lower_limit_ at return (the value signal_all returns) *)
                ev_maxd : Z;      (* max_difference_ at return *)
                ev_sig_active : bool  (* some signal() was still in progress at return *) }.

Record sem_g := {
  value : Z; lower : Z; maxd : Z;
  queue : list nat;                 (* cv queue, front first *)
  holder : option nat;              (* spinlock held across steps (only by ResWait) *)
  ag : nat -> agent_state;
  acquired : Z; released : Z;       (* ghost *)
  popped : list nat;                (* ghost: popped by notify_one, not yet back in their critical section *)
  sigl : list (nat * Z);            (* ghost: signallers in their loop, with remaining iterations *)
  slog : list sev                   (* ghost: newest first *)
}.

Record sem_l := { todo : list sop; pc : spc }.

Definition set_value g v := {| value := v; lower := lower g; maxd := maxd g; queue := queue g; holder := holder g; ag := ag g; acquired := acquired g; released := released g; popped := popped g; sigl := sigl g; slog := slog g |}.
Definition set_lower g v := {| value := value g; lower := v; maxd := maxd g; queue := queue g; holder := holder g; ag := ag g; acquired := acquired g; released := released g; popped := popped g; sigl := sigl g; slog := slog g |}.
Definition set_maxd g v := {| value := value g; lower := lower g; maxd := v; queue := queue g; holder := holder g; ag := ag g; acquired := acquired g; released := released g; popped := popped g; sigl := sigl g; slog := slog g |}.
Definition set_queue g v := {| value := value g; lower := lower g; maxd := maxd g; queue := v; holder := holder g; ag := ag g; acquired := acquired g; released := released g; popped := popped g; sigl := sigl g; slog := slog g |}.
Definition set_holder g v := {| value := value g; lower := lower g; maxd := maxd g; queue := queue g; holder := v; ag := ag g; acquired := acquired g; released := released g; popped := popped g; sigl := sigl g; slog := slog g |}.
Definition set_ag g v := {| value := value g; lower := lower g; maxd := maxd g; queue := queue g; holder := holder g; ag := v; acquired := acquired g; released := released g; popped := popped g; sigl := sigl g; slog := slog g |}.
Definition set_acquired g v := {| value := value g; lower := lower g; maxd := maxd g; queue := queue g; holder := holder g; ag := ag g; acquired := v; released := released g; popped := popped g; sigl := sigl g; slog := slog g |}.
Definition set_released g v := {| value := value g; lower := lower g; maxd := maxd g; queue := queue g; holder := holder g; ag := ag g; acquired := acquired g; released := v; popped := popped g; sigl := sigl g; slog := slog g |}.
Definition set_popped g v := {| value := value g; lower := lower g; maxd := maxd g; queue := queue g; holder := holder g; ag := ag g; acquired := acquired g; released := released g; popped := v; sigl := sigl g; slog := slog g |}.
Definition set_sigl g v := {| value := value g; lower := lower g; maxd := maxd g; queue := queue g; holder := holder g; ag := ag g; acquired := acquired g; released := released g; popped := popped g; sigl := v; slog := slog g |}.
Definition set_slog g v := {| value := value g; lower := lower g; maxd := maxd g; queue := queue g; holder := holder g; ag := ag g; acquired := acquired g; released := released g; popped := popped g; sigl := sigl g; slog := v |}.

Definition rm (t : nat) (q : list nat) : list nat := filter (fun x => negb (Nat.eqb x t)) q.
Definition mem (t : nat) (q : list nat) : bool := existsb (Nat.eqb t) q.
Definition rm_sig (t : nat) (s : list (nat * Z)) : list (nat * Z) := filter (fun x => negb (Nat.eqb (fst x) t)) s.
Definition nonempty {A} (l : list A) : bool := match l with [] => false | _ => true end.

(* value_ < count   /   upper_limit - max_difference_ > lower_limit_ *)
Definition cond_blocked (g : sem_g) (c : wcond) : bool :=
  match c with CAcq n => value g <? n | CSl u => lower g <? u - maxd g end.
Definition taken_of (c : wcond) : Z := match c with CAcq n => n | CSl _ => 0 end.
Definition take (g : sem_g) (c : wcond) : sem_g :=
  match c with
  | CAcq n => set_acquired (set_value g (value g - n)) (acquired g + n)     (* value_ -= count *)
  | CSl _ => g
  end.

Definition cur_op (l : sem_l) : sop := hd (StaleResume 0) (todo l).
Definition log_ev (g : sem_g) (t : nat) (op : sop) (res : bool) (avail taken : Z) : sem_g :=
  set_slog g ({| ev_tid := t; ev_op := op; ev_res := res; ev_avail := avail; ev_taken := taken;
                 ev_lower := lower g; ev_maxd := maxd g; ev_sig_active := nonempty (sigl g) |} :: slog g).
Definition done_l (l : sem_l) : sem_l := {| todo := tl (todo l); pc := Idle |}.
Definition at_pc (l : sem_l) (p : spc) : sem_l := {| todo := todo l; pc := p |}.

Definition enqueue (g : sem_g) (t : nat) : sem_g := set_queue g (queue g ++ [t]).   (* queue_.push_back *)
(* back in the critical section after cv.wait/wait_until: ~reset_queue_entry erases a still-queued entry *)
Definition arrive (g : sem_g) (t : nat) : sem_g := set_popped (set_queue g (rm t (queue g))) (rm t (popped g)).

(* while (cond) cv.wait(l);  take *)
Definition wait_or_take (t : nat) (g : sem_g) (l : sem_l) (c : wcond) : sem_g * sem_l :=
  if cond_blocked g c then (enqueue g t, at_pc l (Susp c))
  else (log_ev (take g c) t (cur_op l) true (value g) (taken_of c), done_l l).

Definition fail_op (t : nat) (g : sem_g) (l : sem_l) : sem_g * sem_l :=
  (log_ev g t (cur_op l) false (value g) 0, done_l l).

Definition finish_sig (t : nat) (g : sem_g) (l : sem_l) : sem_g * sem_l :=
  (log_ev (set_sigl g (rm_sig t (sigl g))) t (cur_op l) true (value g) 0, done_l l).

(* notify_one returned; k = iterations that remain *)
Definition after_resume (t : nat) (g : sem_g) (l : sem_l) (chk : bool) (k : Z) : sem_g * sem_l :=
  match queue g with
  | [] => finish_sig t g l                                  (* returned false: break *)
  | _ :: _ => (set_sigl g ((t, k) :: rm_sig t (sigl g)), at_pc l (SigLoop chk k))
  end.

(* one iteration test + cond_.notify_one(std::move(l)); k = iterations that remain including this one *)
Definition notify (kind : nat -> akind) (t : nat) (g : sem_g) (l : sem_l) (chk : bool) (k : Z) : sem_g * sem_l :=
  if (negb chk || (0 <=? value g)) && (0 <? k) then
    match queue g with
    | [] => finish_sig t g l
    | w :: q' =>
        let g1 := set_popped (set_queue g q') (w :: popped g) in
        match kind w, blocked (ag g w) with
        | OsThr, false =>       (* default_agent::resume waits for !running_, lock held *)
            (set_sigl (set_holder g1 (Some t)) ((t, k - 1) :: rm_sig t (sigl g)), at_pc l (ResWait w chk (k - 1)))
        | _, _ => after_resume t (set_ag g1 (upd (ag g) w (a_resume (ag g w)))) l chk (k - 1)
        end
    end
  else finish_sig t g l.

(* sliding signal(l, x): lower_limit_ = max(x, lower_limit_); then "touch upon all threads":
   count = cond_.size(l) iterations of notify_one (no test of value_).  [lo], [md] = the values
   of lower_limit_ / max_difference_ written in this critical section before the loop starts *)
Definition sl_notify (kind : nat -> akind) (t : nat) (g : sem_g) (l : sem_l) (lo md : Z) : sem_g * sem_l :=
  notify kind t (set_maxd (set_lower g lo) md) l false (Z.of_nat (length (queue g))).

Definition is_free (g : sem_g) : bool := match holder g with None => true | Some _ => false end.

Definition sem_tstep (kind : nat -> akind) (passed : bool) (t : nat) (g : sem_g) (l : sem_l) : sem_g * sem_l :=
  match pc l with
  | Idle =>
      match todo l with
      | [] => (g, l)
      | StaleResume w :: _ =>
          (match kind w with
           | Task => set_ag g (upd (ag g) w (a_resume (ag g w)))
           | OsThr => g end, done_l l)
      | op :: _ =>
          if is_free g then
            match op with
            | Acquire n => wait_or_take t g l (CAcq n)
            | TimedAcquire n =>
                if value g <? n then (enqueue g t, at_pc l (TSleep n))
                else (log_ev (take g (CAcq n)) t op true (value g) n, done_l l)
            | TryWait n =>
                if value g <? n then fail_op t g l
                else (log_ev (take g (CAcq n)) t op true (value g) n, done_l l)
            | TryAcquire =>
                if 1 <=? value g then (log_ev (take g (CAcq 1)) t op true (value g) 1, done_l l)
                else fail_op t g l
            | Release n =>
                notify kind t (set_released (set_value g (value g + n)) (released g + n)) l true n
            | SlWait u => wait_or_take t g l (CSl u)
            | SlTryWait u =>
                if cond_blocked g (CSl u) then fail_op t g l
                else (log_ev g t op true (value g) 0, done_l l)
            | SlSignal lo => sl_notify kind t g l (Z.max lo (lower g)) (maxd g)
            | SlSignalAll =>                 (* signal(std::move(l), lower_limit_); the value returned is *)
                sl_notify kind t g l (Z.max (lower g) (lower g)) (maxd g)   (* ev_lower of the log entry *)
            | SlSetMaxDiff md lo =>          (* public wrapper (after the fix): max_difference_ = md; lower_limit_ = lo; *)
                sl_notify kind t g l lo md   (* then sem_.signal_all(std::move(l)) under the same lock: notify every waiter *)
            | StaleResume _ => (g, l)
            end
          else (g, l)
      end
  | Susp c =>
      (set_ag g (upd (ag g) t (fst (a_suspend (ag g t)))), at_pc l (Blk c))
  | Blk c =>
      if is_free g && negb (blocked (ag g t)) then wait_or_take t (arrive g t) l c else (g, l)
  | TSleep n =>
      if passed then
        if is_free g then
          if mem t (queue g) then fail_op t (arrive g t) l                    (* timeout *)
          else
            let g' := arrive g t in                                            (* signaled: re-test *)
            if value g' <? n then (enqueue g' t, l)
            else (log_ev (take g' (CAcq n)) t (cur_op l) true (value g') n, done_l l)
        else (g, l)
      else (g, l)      (* a task yields, an OS thread sleeps: neither clears a pending stale resume *)
  | SigLoop chk k => if is_free g then notify kind t g l chk k else (g, l)
  | ResWait w chk k =>
      if blocked (ag g w) then
        after_resume t (set_holder (set_ag g (upd (ag g) w (a_resume (ag g w)))) None) l chk k
      else (g, l)
  end.

Definition sem_init (v lo md : Z) : sem_g :=
  {| value := v; lower := lo; maxd := md; queue := []; holder := None; ag := fun _ => a_init;
     acquired := 0; released := 0; popped := []; sigl := []; slog := [] |}.
Definition sem_locals (progs : nat -> list sop) : nat -> sem_l := fun t => {| todo := progs t; pc := Idle |}.

Definition sem_run (kind : nat -> akind) (sched : list (nat * bool)) (v lo md : Z) (progs : nat -> list sop) :=
  run (sem_tstep kind) sched (sem_init v lo md, sem_locals progs).

(* no thread can change the state, whatever the clock says *)
Definition stuck (kind : nat -> akind) (g : sem_g) (ls : nat -> sem_l) : Prop :=
  forall t o, sem_tstep kind o t g (ls t) = (g, ls t).

Definition waiting_for (l : sem_l) (c : wcond) : Prop :=
  pc l = Susp c \/ pc l = Blk c \/ (exists n, c = CAcq n /\ pc l = TSleep n).

(* ---- correspondence with lock-step runs on plain OS threads ----
   site the controller observes for the next step of a thread *)
Definition sem_site (l : sem_l) : nat :=
  match pc l with
  | Idle => match todo l with [] => 0 | _ => 1 end    (* start of an operation *)
  | Susp _ => 2                                        (* 9001: about to suspend *)
  | Blk _ => 3                                         (* woken, before re-locking *)
  | TSleep _ => 4
  | SigLoop _ _ => 5                                   (* before re-locking in the signal loop *)
  | ResWait _ _ _ => 6
  end%nat.

(* in the real run a resumer blocked inside default_agent::resume continues by itself as soon as
   its target suspends (there is no parking point): forced step of the lock holder *)
Definition forced (kind : nat -> akind) (c : sem_g * (nat -> sem_l)) : sem_g * (nat -> sem_l) :=
  match holder (fst c) with
  | Some s => step (sem_tstep kind) c (s, false)
  | None => c
  end.

Fixpoint sem_trace (kind : nat -> akind) (sched : list nat) (c : sem_g * (nat -> sem_l)) (acc : list nat)
  : list nat * (sem_g * (nat -> sem_l)) :=
  match sched with
  | [] => (rev acc, c)
  | t :: rest =>
      sem_trace kind rest (forced kind (step (sem_tstep kind) c (t, false))) (sem_site (snd c t) :: acc)
  end.

Definition is_blocked_thread (c : sem_g * (nat -> sem_l)) (t : nat) : bool :=
  match pc (snd c t) with
  | Blk _ => blocked (ag (fst c) t)
  | _ => false
  end.
