(* Model/SuspendResumeHP.v — C19, round w11c: what Model/SuspendResume.v leaves out of local_priority_queue_scheduler.

   (1) SEPARATE HIGH-PRIORITY QUEUES.  The scheduler has num_high_priority_queues_ = nhp <= nw high-priority queues
       (--pika:high-priority-threads / pika.thread_queue.high_priority_queues, default nw).  As read:
         create_thread (priority high / high_recursive / boost):  num_thread = select_active_pu(l, hint) as for every task (PU lock
           of num_thread held across the enqueue), then  high_priority_queues_[num_thread % nhp]->create_thread(data)  — the queue of
           worker (num_thread % nhp), NOT of the validated worker when nhp < nw.  create_work sets run_now for these priorities:
           the thread object is created at once and pushed on the PENDING part (work_items_); staged high-priority entries do not
           arise from register_work / register_thread.
         get_next_thread(w, running): w < nhp: own high-priority PENDING first (whatever `running` is); own normal pending; have_staged
           looks at the NORMAL queue only; !running -> give up; stealing: per victim v, high_priority_queues_[v] ONLY IF
           v < nhp && w < nhp, then queues_[v]; low priority.
         get_queue_length(w) adds high_priority_queues_[w] for w < nhp.
       Model: a LAYER over worker_step / client_step of SuspendResume.v (which stay as they are, with every theorem about them):
       queue index [hq c i] = nw c + 1 + i is worker i's high-priority queue; two new program points are spliced into the worker
       cycle — HPopH before WPop, HStealH before WSteal — and the idle branch also looks at the own high-priority queue; a client
       thread flagged [high] submits its tasks with priority high: the final enqueue of PSubmit goes to the PENDING part of
       [hq c (i mod nhp)] where i is the worker selected (and locked) by select_active_pu.
   (2) max_thread_count (add_new_always), min_tasks_to_steal_staged and the idle-loop threshold before staged tasks are stolen
       (enable_stealing_staged = enable_stealing && idle_loop_count > max_idle_loop_count / 2): each of them makes one conversion
       step do nothing although the try_lock would have succeeded.  [worker_step_lim] adds these refusals as oracle-chosen
       (bounded: add_new_always refuses only while the destination's pending part is not empty — "if we are desperate (no work in
       the queues), add some even if the map holds more than max_thread_count"); Proofs/SuspendResumeHPProofs.lim_simulated shows
       every such step IS a step of worker_step with the contention bit set, so every theorem over all schedules carries over.

   Executable definitions only. *)
From Coq Require Import List NArith Bool Arith.
From Pika Require Import Base.Conc Gen.GenRuntimeState Model.SuspendResume.
Import ListNotations.

(* ---------------- (2) limits of add_new / thresholds of staged stealing ---------------- *)
(* extra oracle: (add_new_always refuses: thread_map_.size() + min_add_new_count > max_thread_count,
                  staged stealing not enabled yet in this iteration: idle_loop_count <= max_idle_loop_count / 2 or
                  the victim has fewer than min_tasks_to_steal_staged staged tasks) *)
Definition lim_oracle := (bool * bool)%type.

Definition worker_step_lim (c : cfg) (o : oracle) (lo : lim_oracle) (w : nat) (g : gst) (pc : wpc) : gst * wpc :=
  match pc with
  | WAdd r =>
      (* add_new_always(added, this): refuses only if work_items_ is not empty *)
      if fst lo && nonempty (qof w (qs g)) then worker_step c (true, snd o) w g pc else worker_step c o w g pc
  | WAddSteal =>
      (* wait_or_add_new(true, added, victim): threshold not reached / not enough staged tasks -> return false;
         add_new_always(added, victim) with the own work_items_ not empty -> return false *)
      if snd lo || (fst lo && nonempty (qof w (qs g))) then worker_step c (true, snd o) w g pc else worker_step c o w g pc
  | WAddLow =>
      if fst lo && nonempty (qof (lowq c) (qs g)) then worker_step c (true, snd o) w g pc else worker_step c o w g pc
  | _ => worker_step c o w g pc
  end.

(* ---------------- (1) high-priority queues ---------------- *)
Definition hq (c : cfg) (i : nat) : nat := nw c + 1 + i.

Inductive hpc :=
| HBase (pc : wpc)
| HPopH (r : bool)      (* get_next_thread: this_high_priority_queue->get_next_thread(thrd), w < nhp only *)
| HStealH.              (* stealing loop: high_priority_queues_[victim]->get_next_thread(thrd, running, true), w, victim < nhp only *)

(* splice the new program points into the cycle of the base model *)
Definition splice (pc : wpc) : hpc :=
  match pc with
  | WPop r => HPopH r
  | WSteal => HStealH
  | _ => HBase pc
  end.

Definition hp_worker_step (c : cfg) (nhp : nat) (o : oracle) (w : nat) (g : gst) (pc : hpc) : gst * hpc :=
  match pc with
  | HPopH r =>
      if Nat.ltb w nhp then
        match take g w (hq c w) with Some g' => (g', HBase WExec) | None => (g, HBase (WPop r)) end
      else (g, HBase (WPop r))
  | HStealH =>
      if stealing c && Nat.ltb w nhp && Nat.ltb (victim c o) nhp && negb (Nat.eqb (victim c o) w) then
        match take g w (hq c (victim c o)) with Some g' => (g', HBase WExec) | None => (g, HBase WSteal) end
      else (g, HBase WSteal)
  | HBase (WIdle r) =>
      (* can_exit := !running && get_queue_length(w) == 0, the length now including the own high-priority queue *)
      if Nat.ltb w nhp && nonempty (qof (hq c w) (qs g)) then (g, HBase (WCheck false))
      else let '(g', pc') := worker_step c o w g (WIdle r) in (g', splice pc')
  | HBase pc0 => let '(g', pc') := worker_step c o w g pc0 in (g', splice pc')
  end.

(* thread_queue::create_thread with run_now: the thread object is pushed on the PENDING part of queue q *)
Definition enqueue_now (g : gst) (t q : nat) : gst :=
  let tk := (t, nxt g t) in
  {| st := st g; pul := pul g; qs := qs g ++ [(q, tk)]; sq := sq g; heldl := heldl g; waiting := waiting g; rr := rr g; live := S (live g);
     nxt := upd (nxt g) t (S (nxt g t)); executed := executed g; submitted := tk :: submitted g; fresh := upd (fresh g) q (fresh g q ++ [tk]);
     calls := calls g; validated := validated g |}.

(* a client whose submissions have priority high: everything as in client_step (hint, curr_queue_, select_active_pu, PU lock kept
   across the enqueue) except the queue the task is pushed on *)
Definition hp_client_step (c : cfg) (nhp : nat) (high : bool) (o : oracle) (t : nat) (g : gst) (cl : client) : gst * client :=
  match high, todo cl, ph cl with
  | true, PSubmit _ false :: _, PhHold i => (set_pul (enqueue_now g t (hq c (Nat.modulo i nhp))) (upd (pul g) i None), cl_next cl)
  | true, PSubmit _ false :: _, PhEnq i => (enqueue_now g t (hq c (Nat.modulo i nhp)), cl_next cl)
  | _, _, _ => client_step c o t g cl
  end.

Inductive hlstate := HWorker (pc : hpc) | HClient (cl : client) (high : bool) | HNone.

Definition hp_tstep (c : cfg) (nhp : nat) (o : oracle) (t : nat) (g : gst) (l : hlstate) : gst * hlstate :=
  match l with
  | HWorker pc => if Nat.ltb t (nw c) then let '(g', pc') := hp_worker_step c nhp o t g pc in (g', HWorker pc') else (g, l)
  | HClient cl high => if Nat.ltb t (nw c) then (g, l)
                       else let '(g', cl') := hp_client_step c nhp high o t g cl in (g', HClient cl' high)
  | HNone => (g, l)
  end.

Definition hp_locals (c : cfg) (progs : nat -> list api) (high : nat -> bool) : nat -> hlstate :=
  fun t => if Nat.ltb t (nw c) then HWorker (HBase WTop)
           else HClient {| todo := flat_map (expand c) (progs t); ph := Ph0; err := false; vl := false |} (high t).

Definition hp_run (c : cfg) (nhp : nat) (progs : nat -> list api) (high : nat -> bool) (sched : list (nat * oracle)) : gst * (nat -> hlstate) :=
  run (hp_tstep c nhp) sched (sr_g0, hp_locals c progs high).

(* the tasks worker w may ever take out of a queue: its own high-priority and normal queue, any normal queue (stealing), a
   high-priority queue of a victim only when both have one, the low-priority queue *)
Definition may_take (c : cfg) (nhp w q : nat) : bool :=
  Nat.eqb q w || (Nat.ltb w nhp && Nat.eqb q (hq c w)) || (stealing c && Nat.ltb q (nw c)) || Nat.eqb q (lowq c) ||
  (stealing c && Nat.ltb w nhp && existsb (fun v => Nat.eqb q (hq c v)) (seq 0 nhp)).
