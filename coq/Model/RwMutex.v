(* Model/RwMutex.v — pika::execution::experimental::async_rw_mutex
   (libs/pika/execution/include/pika/execution/async_rw_mutex.hpp), whole file.

   Objects.  One shared state ("group") per run of consecutive read requests / per
   read-write request: a std::shared_ptr control block ([refs]), the atomic [op_state_head]
   ([head]: the sentinel `this`, or the LIFO list of queued operation states), the
   [next_state] link ([linked]; the next group is always k+1) and a reference to the wrapped
   value ([vheld]).  Every shared_ptr to a group that exists anywhere is a *token*:
   senders, connected/started operation states, queued operation states, access wrappers,
   and the temporaries the code itself holds (prev_state in read()/readwrite(), the local
   taken from next_state in the destructor, the mutex's own `state` while the mutex is
   being destroyed).  The mutex's `state` member and a group's `next_state` member are
   counted separately ([mstate], [linked]).

   Atomic steps (one per (thread, oracle) pair, Base/Conc.v).  A thread is either idle
   (todo = []) and then executes the command the oracle gives it, or it is inside a call
   and executes the first item of its work list:
     WLoad e    op->next = op_state_head.load()                      (hook 401)
     WCas e nx  compare_exchange_weak(op->next, op); on failure the reloaded value is
                tested against the sentinel before the next attempt    (hook 402)
     WGrant e   continuation(): set_value(receiver, wrapper{move(state)})      (hook 404)
     WRel e     ~shared_ptr: fetch_sub on the control block; at 0 the destructor runs
     WDv k      ~async_rw_mutex_shared_state<T>: value.reset()
     WDn k      ~async_rw_mutex_shared_state_base: take next_state
     WDx k      done(): op_state_head.exchange(this), then the queued ops in list order (hook 403)
     WMv        ~async_rw_mutex: value.reset() (guarded by [malive] and the ghost flag [mvheld]:
                the mutex's reference to the value is released once, by its destructor)
   Commands (the program, chosen freely by the oracle): request read / readwrite, start a
   sender (connect+start; [auto] = the receiver drops the wrapper inside set_value, which is
   what start_detached from ~sender does), drop a reference without starting (operation
   state destroyed unstarted / sender overwritten by assignment), copy a read sender or
   read wrapper, release a wrapper, use the value through a wrapper, destroy the mutex.

   Requests are one atomic step (the new group is private until the sender is returned;
   the only shared access is the release of prev_state, which is a separate WRel step).
   The model lets other threads run between that step and the WRel / first-group done()
   that follow it, which is a superset of what sequential use of the mutex allows.

   Ghost: token states carry the thread that owns a token in a transient phase, [elog]
   (event log, newest first: grants, value uses with the version seen, wrapper
   destructions, destruction of the value), [ver] (number of
   writes so far), [bad] (set by any access to a destroyed group, a reference-count
   underflow, or a second done() on the same group).

   Executable definitions only; proofs in Proofs/RwMutexProofs.v. *)
From Coq Require Import List Arith Bool.
From Pika Require Import Base.Conc.
Import ListNotations.

Inductive kind := KR | KW.
Definition kind_eqb (a b : kind) : bool :=
  match a, b with KR, KR => true | KW, KW => true | _, _ => false end.

Inductive tstate :=
| TSender                 (* sender (or connected, not yet started operation state) *)
| TStarting (t : nat)     (* start() running on thread t: between load and push / inline grant *)
| TQueued                 (* operation state linked into op_state_head *)
| TGranting (t : nat)     (* thread t saw the sentinel in start(), or removed the operation state
                             with its exchange in done(); continuation not yet run *)
| TLive                   (* access wrapper held by the program *)
| TAuto (t : nat)         (* access wrapper inside set_value of a receiver that drops it (thread t) *)
| TTemp (t : nat)         (* temporary shared_ptr held by thread t *)
| TDone (t : nat)         (* the local taken from next_state by the predecessor's destructor (thread t) *)
| TDead.

(* tauto: the receiver drops the wrapper inside set_value; tuse: it uses the value first *)
(* tstarted is ghost: set by CStart only (the access was connected and started) *)
Record token := { tgrp : nat; treq : nat; tauto : bool; tuse : bool; tstarted : bool; tst : tstate }.

Inductive hd := HSent | HList (l : list nat).
Inductive nxt := NSent | NNull | NOp (e : nat).

(* gphase/gown are ghost: 0 = referenced, 1 = count reached 0 on thread gown (value not yet
   released), 2 = value released, 3 = destructor body done *)
Record group := { gkind : kind; refs : nat; head : hd; linked : bool; vheld : bool;
                  gphase : nat; gown : nat }.

(* ghost event log: grant of an access, use of the value (version seen), destruction of a
   wrapper, destruction of the wrapped value *)
Inductive ev :=
| EGrant (e k r : nat)                      (* token, group, request index *)
| EUse (e k seen : nat) (wr : bool)         (* token, group, version seen, read-write access *)
| ERel (e : nat)
| EVfree.

Record shared := {
  grp : nat -> group; ngrp : nat;
  tok : nat -> token; ntok : nat;
  mstate : option nat; mprev : kind; malive : bool; nreq : nat;
  vrefs : nat; vfreed : bool; ver : nat;
  mvheld : bool;            (* ghost: the mutex's own reference to the value not yet released *)
  bad : bool;
  elog : list ev            (* newest first *)
}.

Inductive work :=
| WLoad (e : nat) | WCas (e : nat) (nx : nxt) | WGrant (e : nat) | WRel (e : nat)
| WDv (k : nat) | WDn (k : nat) | WDx (k : nat) (tmp : option nat) | WMv.

Inductive cmd :=
| CStep (spurious : bool)
| CReq (kd : kind)
| CStart (e : nat) (auto : bool) (usev : bool)
| CDropOp (e : nat)
| CCopy (e : nat)
| CRelease (e : nat)
| CUse (e : nat)
| CDestroy.

Definition fset {A} (f : nat -> A) (k : nat) (a : A) : nat -> A :=
  fun j => if Nat.eqb j k then a else f j.

Definition set_st (tk : token) (s : tstate) : token :=
  {| tgrp := tgrp tk; treq := treq tk; tauto := tauto tk; tuse := tuse tk; tstarted := tstarted tk; tst := s |}.
Definition set_refs (g : group) (n : nat) : group :=
  {| gkind := gkind g; refs := n; head := head g; linked := linked g; vheld := vheld g; gphase := gphase g; gown := gown g |}.
Definition set_head (g : group) (h : hd) : group :=
  {| gkind := gkind g; refs := refs g; head := h; linked := linked g; vheld := vheld g; gphase := gphase g; gown := gown g |}.
Definition set_linked (g : group) (b : bool) : group :=
  {| gkind := gkind g; refs := refs g; head := head g; linked := b; vheld := vheld g; gphase := gphase g; gown := gown g |}.
Definition set_vheld (g : group) (b : bool) : group :=
  {| gkind := gkind g; refs := refs g; head := head g; linked := linked g; vheld := b; gphase := gphase g; gown := gown g |}.

Definition set_phase (g : group) (p o : nat) : group :=
  {| gkind := gkind g; refs := refs g; head := head g; linked := linked g; vheld := vheld g;
     gphase := p; gown := o |}.

Definition hptr (h : hd) : nxt :=
  match h with HSent => NSent | HList [] => NNull | HList (e :: _) => NOp e end.
Definition nxt_eqb (a b : nxt) : bool :=
  match a, b with
  | NSent, NSent => true | NNull, NNull => true | NOp x, NOp y => Nat.eqb x y | _, _ => false
  end.

Definition dead_tok : token := {| tgrp := 0; treq := 0; tauto := false; tuse := false; tstarted := false; tst := TDead |}.
Definition dead_grp : group :=
  {| gkind := KW; refs := 0; head := HList []; linked := false; vheld := false; gphase := 3; gown := 0 |}.

Definition rw_init : shared :=
  {| grp := fun _ => dead_grp; ngrp := 0; tok := fun _ => dead_tok; ntok := 0;
     mstate := None; mprev := KW; malive := true; nreq := 0;
     vrefs := 1; vfreed := false; ver := 0; mvheld := true; bad := false; elog := [] |}.

(* record updates *)
Definition with_grp (g : shared) (gs : nat -> group) : shared :=
  {| grp := gs; ngrp := ngrp g; tok := tok g; ntok := ntok g; mstate := mstate g; mprev := mprev g;
     malive := malive g; nreq := nreq g; vrefs := vrefs g; vfreed := vfreed g; ver := ver g; mvheld := mvheld g;
     bad := bad g; elog := elog g |}.
Definition with_tok (g : shared) (ts : nat -> token) : shared :=
  {| grp := grp g; ngrp := ngrp g; tok := ts; ntok := ntok g; mstate := mstate g; mprev := mprev g;
     malive := malive g; nreq := nreq g; vrefs := vrefs g; vfreed := vfreed g; ver := ver g; mvheld := mvheld g;
     bad := bad g; elog := elog g |}.
Definition with_bad (g : shared) (b : bool) : shared :=
  {| grp := grp g; ngrp := ngrp g; tok := tok g; ntok := ntok g; mstate := mstate g; mprev := mprev g;
     malive := malive g; nreq := nreq g; vrefs := vrefs g; vfreed := vfreed g; ver := ver g; mvheld := mvheld g;
     bad := bad g || b; elog := elog g |}.
Definition with_ev (g : shared) (l : list ev) : shared :=
  {| grp := grp g; ngrp := ngrp g; tok := tok g; ntok := ntok g; mstate := mstate g; mprev := mprev g;
     malive := malive g; nreq := nreq g; vrefs := vrefs g; vfreed := vfreed g; ver := ver g; mvheld := mvheld g;
     bad := bad g; elog := l |}.
Definition with_ver (g : shared) (v : nat) : shared :=
  {| grp := grp g; ngrp := ngrp g; tok := tok g; ntok := ntok g; mstate := mstate g; mprev := mprev g;
     malive := malive g; nreq := nreq g; vrefs := vrefs g; vfreed := vfreed g; ver := v; mvheld := mvheld g;
     bad := bad g; elog := elog g |}.
Definition with_val (g : shared) (n : nat) (fr : bool) : shared :=
  {| grp := grp g; ngrp := ngrp g; tok := tok g; ntok := ntok g; mstate := mstate g; mprev := mprev g;
     malive := malive g; nreq := nreq g; vrefs := n; vfreed := fr; ver := ver g; mvheld := mvheld g;
     bad := bad g; elog := elog g |}.
Definition with_mutex (g : shared) (ms : option nat) (mp : kind) (al : bool) (nr : nat) : shared :=
  {| grp := grp g; ngrp := ngrp g; tok := tok g; ntok := ntok g; mstate := ms; mprev := mp;
     malive := al; nreq := nr; vrefs := vrefs g; vfreed := vfreed g; ver := ver g; mvheld := mvheld g;
     bad := bad g; elog := elog g |}.
Definition with_ngrp (g : shared) (n : nat) : shared :=
  {| grp := grp g; ngrp := n; tok := tok g; ntok := ntok g; mstate := mstate g; mprev := mprev g;
     malive := malive g; nreq := nreq g; vrefs := vrefs g; vfreed := vfreed g; ver := ver g; mvheld := mvheld g;
     bad := bad g; elog := elog g |}.

Definition with_mv (g : shared) (b : bool) : shared :=
  {| grp := grp g; ngrp := ngrp g; tok := tok g; ntok := ntok g; mstate := mstate g; mprev := mprev g;
     malive := malive g; nreq := nreq g; vrefs := vrefs g; vfreed := vfreed g; ver := ver g; mvheld := b;
     bad := bad g; elog := elog g |}.

Definition set_tst (g : shared) (e : nat) (s : tstate) : shared :=
  with_tok g (fset (tok g) e (set_st (tok g e) s)).
Definition upd_grp (g : shared) (k : nat) (gr : group) : shared :=
  with_grp g (fset (grp g) k gr).

(* allocate a token *)
Definition new_tok (g : shared) (tk : token) : shared :=
  {| grp := grp g; ngrp := ngrp g; tok := fset (tok g) (ntok g) tk; ntok := S (ntok g);
     mstate := mstate g; mprev := mprev g; malive := malive g; nreq := nreq g; vrefs := vrefs g;
     vfreed := vfreed g; ver := ver g; mvheld := mvheld g; bad := bad g; elog := elog g |}.

Definition is_sender (s : tstate) : bool := match s with TSender => true | _ => false end.
Definition is_live (s : tstate) : bool := match s with TLive => true | _ => false end.
Definition is_wrapper (s : tstate) : bool := match s with TLive | TAuto _ => true | _ => false end.
Definition owned_by (t : nat) (s : tstate) : bool :=
  match s with TAuto u | TTemp u | TDone u => Nat.eqb u t | _ => false end.
Definition is_starting (t : nat) (s : tstate) : bool :=
  match s with TStarting u => Nat.eqb u t | _ => false end.
Definition is_granting (t : nat) (s : tstate) : bool :=
  match s with TGranting u => Nat.eqb u t | _ => false end.
Definition is_done (t : nat) (s : tstate) : bool :=
  match s with TDone u => Nat.eqb u t | _ => false end.

(* ~shared_ptr on the reference held by token e *)
Definition do_rel (t : nat) (g : shared) (e : nat) (rest : list work) : shared * list work :=
  let k := tgrp (tok g e) in
  let r := refs (grp g k) in
  let g0 := if is_wrapper (tst (tok g e)) then with_ev g (ERel e :: elog g) else g in
  let g1 := set_tst g0 e TDead in
  let gr := set_refs (grp g k) (pred r) in
  let g2 := upd_grp (with_bad g1 (Nat.eqb r 0)) k (if Nat.eqb (pred r) 0 then set_phase gr 1 t else gr) in
  (g2, if Nat.eqb (pred r) 0 then WDv k :: WDn k :: rest else rest).

(* value.reset() *)
Definition do_vdec (g : shared) : shared :=
  let n := vrefs g in
  let g1 := if Nat.eqb (pred n) 0 && negb (vfreed g) then with_ev g (EVfree :: elog g) else g in
  with_val (with_bad g1 (Nat.eqb n 0)) (pred n) (vfreed g || Nat.eqb (pred n) 0).

(* one use of the value through token e's wrapper: a read-write access increments it *)
Definition do_use (g : shared) (e : nat) : shared :=
  let wr := kind_eqb (gkind (grp g (tgrp (tok g e)))) KW in
  with_ver (with_ev g (EUse e (tgrp (tok g e)) (ver g) wr :: elog g)) (if wr then S (ver g) else ver g).

Definition take_all (ts : nat -> token) (l : list nat) (t : nat) : nat -> token :=
  fold_left (fun tk e => fset tk e (set_st (tk e) (TGranting t))) l ts.

(* Every work item acts on a token (or group) its thread owns; the ownership is recorded in
   the shared ghost state by the step that pushed the item.  An item whose owner test fails
   does nothing and sets [bad] (see notes/design/C04.md: the discipline is checked on every
   replayed schedule, the theorems do not depend on it). *)
Definition do_work (sp : bool) (t : nat) (g : shared) (w : work) (rest : list work)
  : shared * list work :=
  match w with
  | WLoad e =>
      if negb (is_starting t (tst (tok g e))) then (with_bad g true, rest) else
      let k := tgrp (tok g e) in
      let g1 := with_bad g (Nat.eqb (refs (grp g k)) 0) in
      match hptr (head (grp g k)) with
      | NSent => (set_tst g1 e (TGranting t), WGrant e :: rest)
      | nx => (g1, WCas e nx :: rest)
      end
  | WCas e nx =>
      if negb (is_starting t (tst (tok g e))) then (with_bad g true, rest) else
      let k := tgrp (tok g e) in
      let g1 := with_bad g (Nat.eqb (refs (grp g k)) 0) in
      match head (grp g k) with
      | HSent => (set_tst g1 e (TGranting t), WGrant e :: rest)   (* failed CAS reloaded the sentinel *)
      | HList l =>
          if nxt_eqb nx (hptr (HList l)) && negb sp
          then (set_tst (upd_grp g1 k (set_head (grp g k) (HList (e :: l)))) e TQueued, rest)
          else (g1, WCas e (hptr (HList l)) :: rest)
      end
  | WGrant e =>
      if negb (is_granting t (tst (tok g e))) then (with_bad g true, rest) else
      let tk := tok g e in
      let g1 := with_ev (set_tst g e (if tauto tk then TAuto t else TLive))
                  (EGrant e (tgrp tk) (treq tk) :: elog g) in
      (if tuse tk then do_use g1 e else g1, if tauto tk then WRel e :: rest else rest)
  | WRel e =>
      if negb (owned_by t (tst (tok g e))) then (with_bad g true, rest) else do_rel t g e rest
  | WDv k =>
      if negb (Nat.eqb (gphase (grp g k)) 1 && Nat.eqb (gown (grp g k)) t) then (with_bad g true, rest) else
      (do_vdec (upd_grp g k (set_phase (set_vheld (grp g k) false) 2 t)), rest)
  | WDn k =>
      if negb (Nat.eqb (gphase (grp g k)) 2 && Nat.eqb (gown (grp g k)) t) then (with_bad g true, rest) else
      if linked (grp g k) then
        let g1 := upd_grp g k (set_phase (set_linked (grp g k) false) 3 t) in
        let tmp := ntok g1 in
        let g2 := new_tok g1 {| tgrp := S k; treq := 0; tauto := false; tuse := false; tstarted := false; tst := TDone t |} in
        (g2, WDx (S k) (Some tmp) :: WRel tmp :: rest)
      else (upd_grp g k (set_phase (grp g k) 3 t), rest)
  | WDx k tmp =>
      if negb (match tmp with
               | None => Nat.eqb k 0
               | Some e => is_done t (tst (tok g e)) && Nat.eqb (tgrp (tok g e)) k
               end) then (with_bad g true, rest) else
      let g1 := with_bad g (Nat.eqb (refs (grp g k)) 0) in
      match head (grp g k) with
      | HSent => (with_bad g1 true, rest)
      | HList l =>
          (with_tok (upd_grp g1 k (set_head (grp g k) HSent)) (take_all (tok g) l t),
           map WGrant l ++ rest)
      end
  | WMv =>
      if malive g || negb (mvheld g) then (with_bad g true, rest) else (do_vdec (with_mv g false), rest)
  end.

Definition do_cmd (t : nat) (g : shared) (c : cmd) : shared * list work :=
  match c with
  | CStep _ => (g, [])
  | CReq kd =>
      if negb (malive g) then (g, []) else
      match kd, mprev g, mstate g with
      | KR, KR, Some k =>
          let g1 := upd_grp g k (set_refs (grp g k) (S (refs (grp g k)))) in
          let g2 := new_tok g1 {| tgrp := k; treq := nreq g; tauto := false; tuse := false; tstarted := false; tst := TSender |} in
          (with_mutex g2 (mstate g) (mprev g) true (S (nreq g)), [])
      | _, _, ms =>
          let k := ngrp g in
          let newg r := {| gkind := kd; refs := r; head := HList []; linked := false; vheld := true; gphase := 0; gown := 0 |} in
          let snd_tok := {| tgrp := k; treq := nreq g; tauto := false; tuse := false; tstarted := false; tst := TSender |} in
          let gv := with_val g (S (vrefs g)) (vfreed g) in
          match ms with
          | Some p =>
              let g1 := upd_grp (upd_grp gv p (set_linked (grp g p) true)) k (newg 3) in
              let g2 := new_tok (with_ngrp g1 (S k)) snd_tok in
              let tmp := ntok g2 in
              let g3 := new_tok g2 {| tgrp := p; treq := 0; tauto := false; tuse := false; tstarted := false; tst := TTemp t |} in
              (with_mutex g3 (Some k) kd true (S (nreq g)), [WRel tmp])
          | None =>
              let g1 := upd_grp gv k (newg 2) in
              let g2 := new_tok (with_ngrp g1 (S k)) snd_tok in
              (with_mutex g2 (Some k) kd true (S (nreq g)), [WDx k None])
          end
      end
  | CStart e auto usev =>
      if Nat.ltb e (ntok g) && is_sender (tst (tok g e)) then
        (with_tok g (fset (tok g) e {| tgrp := tgrp (tok g e); treq := treq (tok g e);
                                       tauto := auto; tuse := auto && usev;
                                       tstarted := true; tst := TStarting t |}), [WLoad e])
      else (g, [])
  | CDropOp e =>
      if Nat.ltb e (ntok g) && is_sender (tst (tok g e)) then (set_tst g e (TTemp t), [WRel e])
      else (g, [])
  | CCopy e =>
      let tk := tok g e in
      let k := tgrp tk in
      if Nat.ltb e (ntok g) && kind_eqb (gkind (grp g k)) KR && (is_sender (tst tk) || is_live (tst tk)) then
        let g1 := upd_grp g k (set_refs (grp g k) (S (refs (grp g k)))) in
        (new_tok g1 {| tgrp := k; treq := treq tk; tauto := false; tuse := false; tstarted := false; tst := tst tk |}, [])
      else (g, [])
  | CRelease e =>
      if Nat.ltb e (ntok g) && is_live (tst (tok g e)) then do_rel t g e [] else (g, [])
  | CUse e =>
      if Nat.ltb e (ntok g) && is_live (tst (tok g e)) then
        (do_use g e, [])
      else (g, [])
  | CDestroy =>
      if negb (malive g) then (g, []) else
      match mstate g with
      | Some k =>
          let tmp := ntok g in
          let g1 := new_tok g {| tgrp := k; treq := 0; tauto := false; tuse := false; tstarted := false; tst := TTemp t |} in
          (with_mutex g1 None (mprev g) false (nreq g), [WRel tmp; WMv])
      | None => (with_mutex g None (mprev g) false (nreq g), [WMv])
      end
  end.

Definition rw_tstep (c : cmd) (t : nat) (g : shared) (l : list work) : shared * list work :=
  match l with
  | [] => do_cmd t g c
  | w :: rest => do_work (match c with CStep sp => sp | _ => false end) t g w rest
  end.

Definition rw_locals : nat -> list work := fun _ => [].
Definition rw_run (sched : list (nat * cmd)) := run rw_tstep sched (rw_init, rw_locals).

(* ---- what the lock-step harness can schedule: a thread runs from one hook to the next *)
Definition is_point (w : work) : bool :=
  match w with WLoad _ | WCas _ _ | WDx _ _ | WGrant _ => true | _ => false end.
Definition site_of (l : list work) : nat :=
  match l with
  | [] => 0 | WLoad _ :: _ => 1 | WCas _ _ :: _ => 2 | WDx _ _ :: _ => 3 | WGrant _ :: _ => 4 | _ => 9
  end.

(* one controller release: the command (or the parked step), then every following step of
   the same thread that is not at a hook *)
Fixpoint seg_more (fuel : nat) (t : nat) (c : shared * (nat -> list work)) : shared * (nat -> list work) :=
  match fuel with
  | O => c
  | S f =>
      match snd c t with
      | [] => c
      | w :: _ => if is_point w then c else seg_more f t (step rw_tstep c (t, CStep false))
      end
  end.
Definition seg (fuel : nat) (c : shared * (nat -> list work)) (so : nat * cmd) :=
  seg_more fuel (fst so) (step rw_tstep c so).

(* ---- projections used by the statements *)
Definition holds (g : shared) (k : nat) (e : nat) : bool :=
  Nat.eqb (tgrp (tok g e)) k && negb (match tst (tok g e) with TDead => true | _ => false end).
Definition live_in (g : shared) (k : nat) (e : nat) : bool :=
  Nat.eqb (tgrp (tok g e)) k && is_live (tst (tok g e)).
Fixpoint cnt (f : nat -> bool) (n : nat) : nat :=
  match n with O => 0 | S m => (if f m then 1 else 0) + cnt f m end.
Definition b2n (b : bool) : nat := if b then 1 else 0.
