(* Model/CondVar.v — C07: pika::condition_variable / condition_variable_any
   (synchronization/condition_variable.hpp) over pika::detail::condition_variable
   (src/detail/condition_variable.cpp), Base/Conc.v and Base/Agent.v.
   Executable definitions only; proofs live in Proofs/CondVarProofs.v.

   State: the user lock U (any Lockable: modelled as an owner word), the internal spinlock I
   (data_->mtx_), the intrusive FIFO of waiting agents (an entry's ctx_ is reset exactly when it is
   popped, both under I, so "entry still carries its context" = "waiter is in the queue"), the local
   list a notifier has swapped out / popped and is resuming (only one notifier can have one: it holds I),
   one agent per thread, the predicate's variable (protected by U), the stop state (requested flag,
   the list of registered stop_callbacks of waiters on this cv; request_stop runs each of them).

   Steps: lock I / unlock U / push+unlock I / suspend / re-lock I / read entry+erase+unlock I / lock U
   are separate steps, exactly the order of the source:
     wait:  [lock I] [unlock U] [push entry; unlock I] [suspend] [lock I] [entry cleared? erase; unlock I] [lock U]
   notify_one / notify_all: [lock I] [pop one / swap all] [resume each ...] [unlock I].
   Timed stop-token wait (condition_variable_any::wait_until/wait_for(lock, stoken, t, pred)), the composition
   the header implements:
     [stop_requested? -> return pred()] [construct stop_callback: run inline if requested, else register]
     loop: [pred() -> return true] [lock I] [stop_requested? -> unlock I, return false] [unlock U]
           [push entry; unlock I] [sleep_until t] [lock I] [entry cleared? erase]
           [should_stop := timeout || stop_requested(); unlock I] [lock U] [should_stop -> return pred()]
   Two agent instances, chosen per thread by [isos]:
     pika task      Base/Agent.v: resume never blocks, may leave a token (spurious return later)
     plain OS thread  the default agent of execution_base/src/this_thread.cpp as it is: resume WAITS until
                    the target is not running; sleep_until never marks the thread as not running.     *)
From Coq Require Import List NArith Bool Arith.
From Pika Require Import Base.Conc Base.Agent Gen.GenTimedPred.
Import ListNotations.

Inductive cv_op :=
  | CLockUOp | CUnlockUOp             (* the user lock *)
  | CSetFlag (b : bool)               (* write the predicate's variable (user code, only while holding U) *)
  | CWait                             (* wait(lock) *)
  | CWaitPred                         (* wait(lock, pred) *)
  | CWaitFor                          (* wait_until / wait_for (lock, t) *)
  | CWaitForPred                      (* wait_until / wait_for (lock, t, pred) *)
  | CWaitStop                         (* condition_variable_any::wait(lock, stop_token, pred) *)
  | CWaitStopFor                      (* condition_variable_any::wait_until / wait_for (lock, stop_token, t, pred) *)
  | CDWait                            (* detail::condition_variable::wait under I only (no user lock) *)
  | CNotifyOne | CNotifyAll
  | CRequestStop
  | CYield
  | CSpur.                            (* a stale resume aimed at this task arrives now (tasks only) *)

Inductive cv_pc :=
  | CIdle
  | CPredTest                         (* evaluate pred() (holding U) *)
  | CStopReg                          (* construct the stop_callback *)
  | CLockI                            (* lock I *)
  | CStopChk                          (* stop_requested() under I *)
  | CUnlockU                          (* unlock U (holding I) *)
  | CPush                             (* push the entry, unlock I *)
  | CPreSusp                          (* I released; about to suspend / sleep  (hooks 705/706, 9001) *)
  | CSusp                             (* inside suspend *)
  | CSleep                            (* inside sleep_until *)
  | CRelockI                          (* woken / deadline passed; about to re-lock I  (hook 701) *)
  | CCheck                            (* read the entry, erase it if still queued, unlock I *)
  | CStopChk2 (sg : bool)             (* timed stop wait: detail wait_until returned sg, I still held:
                                         should_stop = timeout || stop_requested(); then unlock I *)
  | CLockU (sg : bool)                (* re-lock U; sg = the entry had been cleared by a notifier
                                         (timed stop wait: sg = not should_stop) *)
  | CPredRet                          (* timed predicate forms, the inner wait reported timeout (timed stop wait:
                                         should_stop) and U is re-acquired: `return pred();` — the expression is
                                         regenerated from the header (Gen/GenTimedPred.v) *)
  | NLockI (all : bool) (reps : nat) (il : bool)   (* notify: lock I; il = callback run inline by a stop-token waiter *)
  | NPop (all : bool) (reps : nat) (il : bool)
  | NRes (all : bool) (reps : nat) (il : bool).

Inductive cv_ev :=
  | EPush (t : nat)
  | ENotify (t : nat) (all : bool) (n : nat)       (* n entries taken off the queue *)
  | ERet (t : nat) (op : cv_op) (r : bool).        (* a wait returned r: signaled / no_timeout / pred value *)

Record cv_shared := {
  uowner : option nat; ilock : option nat; cqueue : list nat; pend : list nat;
  cag : nat -> agent_state; flag : bool; stopreq : bool; cbs : list nat;
  sig : nat -> bool;                  (* ghost: popped by a notifier during the current wait *)
  cvlog : list cv_ev }.
Record cv_local := { ctodo : list cv_op; cpc : cv_pc; hu : bool (* holds U *); reg : bool (* stop_callback registered *) }.

Definition cmem (t : nat) (q : list nat) : bool := existsb (Nat.eqb t) q.
Definition cremove (t : nat) (q : list nat) : list nat := filter (fun x => negb (Nat.eqb x t)) q.

Definition cur_op (l : cv_local) : cv_op := match ctodo l with o :: _ => o | [] => CYield end.
Definition is_timed (o : cv_op) : bool :=
  match o with CWaitFor | CWaitForPred | CWaitStopFor => true | _ => false end.

(* setters *)
Definition g_log (g : cv_shared) (e : cv_ev) : cv_shared :=
  {| uowner := uowner g; ilock := ilock g; cqueue := cqueue g; pend := pend g; cag := cag g; flag := flag g;
     stopreq := stopreq g; cbs := cbs g; sig := sig g; cvlog := e :: cvlog g |}.
Definition g_u (g : cv_shared) (u : option nat) : cv_shared :=
  {| uowner := u; ilock := ilock g; cqueue := cqueue g; pend := pend g; cag := cag g; flag := flag g;
     stopreq := stopreq g; cbs := cbs g; sig := sig g; cvlog := cvlog g |}.
Definition g_i (g : cv_shared) (i : option nat) : cv_shared :=
  {| uowner := uowner g; ilock := i; cqueue := cqueue g; pend := pend g; cag := cag g; flag := flag g;
     stopreq := stopreq g; cbs := cbs g; sig := sig g; cvlog := cvlog g |}.
Definition g_q (g : cv_shared) (q p : list nat) (s : nat -> bool) : cv_shared :=
  {| uowner := uowner g; ilock := ilock g; cqueue := q; pend := p; cag := cag g; flag := flag g;
     stopreq := stopreq g; cbs := cbs g; sig := s; cvlog := cvlog g |}.
Definition g_ag (g : cv_shared) (t : nat) (a : agent_state) : cv_shared :=
  {| uowner := uowner g; ilock := ilock g; cqueue := cqueue g; pend := pend g; cag := upd (cag g) t a; flag := flag g;
     stopreq := stopreq g; cbs := cbs g; sig := sig g; cvlog := cvlog g |}.
Definition g_flag (g : cv_shared) (b : bool) : cv_shared :=
  {| uowner := uowner g; ilock := ilock g; cqueue := cqueue g; pend := pend g; cag := cag g; flag := b;
     stopreq := stopreq g; cbs := cbs g; sig := sig g; cvlog := cvlog g |}.
Definition g_stop (g : cv_shared) (b : bool) (n : list nat) : cv_shared :=
  {| uowner := uowner g; ilock := ilock g; cqueue := cqueue g; pend := pend g; cag := cag g; flag := flag g;
     stopreq := b; cbs := n; sig := sig g; cvlog := cvlog g |}.

Definition l_pc (l : cv_local) (p : cv_pc) : cv_local := {| ctodo := ctodo l; cpc := p; hu := hu l; reg := reg l |}.
Definition l_hu (l : cv_local) (p : cv_pc) (h : bool) : cv_local := {| ctodo := ctodo l; cpc := p; hu := h; reg := reg l |}.
Definition l_pop (l : cv_local) : cv_local := {| ctodo := tl (ctodo l); cpc := CIdle; hu := hu l; reg := reg l |}.
(* return from a wait-family call: log the result, drop the stop_callback if one is registered *)
Definition ret (g : cv_shared) (t : nat) (l : cv_local) (r : bool) : cv_shared * cv_local :=
  let g1 := g_log g (ERet t (cur_op l) r) in
  (if reg l then g_stop g1 (stopreq g1) (cremove t (cbs g1)) else g1,
   {| ctodo := tl (ctodo l); cpc := CIdle; hu := hu l; reg := false |}).

(* what the timed predicate forms return after a time-out, as written in the header now (tools/genmods/c07.py):
   OT_Reeval = `return pred();` evaluated with U re-acquired; OT_Const b = a constant.  CWaitForPred stands for the
   loop of both classes (condition_variable and condition_variable_any): a constant in either of them counts. *)
Definition ot_value (ot : on_timeout) (v : bool) : bool := match ot with OT_Reeval => v | OT_Const b => b end.
Definition ot_both (a b : on_timeout) : on_timeout := match a with OT_Reeval => b | OT_Const _ => a end.
Definition op_on_timeout (o : cv_op) : on_timeout :=
  match o with CWaitStopFor => cvs_on_timeout | _ => ot_both cv_on_timeout cva_on_timeout end.

(* oracle: late = the deadline has passed when the clock is read *)
Definition cv_tstep (isos : nat -> bool) (late : bool) (t : nat) (g : cv_shared) (l : cv_local)
  : cv_shared * cv_local :=
  match cpc l with
  | CIdle =>
      match ctodo l with
      | [] => (g, l)
      | CLockUOp :: _ =>
          if hu l then (g, l_pop l)
          else match uowner g with
               | None => (g_u g (Some t), l_hu (l_pop l) CIdle true)
               | Some _ => (g, l)
               end
      | CUnlockUOp :: _ => if hu l then (g_u g None, l_hu (l_pop l) CIdle false) else (g, l_pop l)
      | CSetFlag b :: _ => if hu l then (g_flag g b, l_pop l) else (g, l_pop l)
      | CWait :: _ | CWaitFor :: _ => if hu l then (g, l_pc l CLockI) else (g, l_pop l)
      | CWaitPred :: _ | CWaitForPred :: _ => if hu l then (g, l_pc l CPredTest) else (g, l_pop l)
      | CWaitStop :: _ | CWaitStopFor :: _ =>
          if hu l then (if stopreq g then ret g t l (flag g) else (g, l_pc l CStopReg)) else (g, l_pop l)
      | CDWait :: _ => (g, l_pc l CLockI)
      | CNotifyOne :: _ => (g, l_pc l (NLockI false 1 false))
      | CNotifyAll :: _ => (g, l_pc l (NLockI true 1 false))
      | CRequestStop :: _ =>
          if stopreq g then (g, l_pop l)
          else match cbs g with
               | [] => (g_stop g true [], l_pop l)
               | c :: cs => (g_stop g true (c :: cs), l_pc l (NLockI true (length (c :: cs)) false))
               end
      | CYield :: _ => (g_ag g t (a_phase_end (cag g t)), l_pop l)
      | CSpur :: _ => if isos t then (g, l_pop l) else (g_ag g t {| tok := true; blocked := false |}, l_pop l)
      end
  | CPredTest => if flag g then ret g t l true else (g, l_pc l CLockI)
  | CStopReg =>
      if stopreq g then (g, l_pc l (NLockI true 1 true))
      else (g_stop g (stopreq g) (t :: cbs g), {| ctodo := ctodo l; cpc := CPredTest; hu := hu l; reg := true |})
  | CLockI =>
      match ilock g with
      | Some _ => (g, l)
      | None => (g_i g (Some t),
                 l_pc l (match cur_op l with CWaitStop | CWaitStopFor => CStopChk | CDWait => CPush | _ => CUnlockU end))
      end
  | CStopChk => if stopreq g then ret (g_i g None) t l false else (g, l_pc l CUnlockU)
  | CUnlockU => (g_u g None, l_hu l CPush false)
  | CPush =>
      (g_log (g_i (g_q g (cqueue g ++ [t]) (pend g) (upd (sig g) t false)) None) (EPush t), l_pc l CPreSusp)
  | CPreSusp =>
      if is_timed (cur_op l) then (g, l_pc l CSleep)
      else (g_ag g t (fst (a_suspend (cag g t))), l_pc l CSusp)
  | CSusp => if blocked (cag g t) then (g, l) else (g, l_pc l CRelockI)
  | CSleep =>
      let g1 := if isos t then g else g_ag g t (a_phase_end (cag g t)) in
      (g1, if late then l_pc l CRelockI else l)
  | CRelockI =>
      match ilock g with
      | Some _ => (g, l)
      | None => (g_i g (Some t), l_pc l CCheck)
      end
  | CCheck =>
      let sg := negb (cmem t (cqueue g)) in
      let g1 := g_i (g_q g (cremove t (cqueue g)) (pend g) (sig g)) None in
      match cur_op l with
      | CDWait => ret g1 t l sg
      | CWaitStopFor => (g_q g (cremove t (cqueue g)) (pend g) (sig g), l_pc l (CStopChk2 sg))
      | _ => (g1, l_pc l (CLockU sg))
      end
  | CStopChk2 sg => (g_i g None, l_pc l (CLockU (sg && negb (stopreq g))))
  | CLockU sg =>
      match uowner g with
      | Some _ => (g, l)
      | None =>
          let g1 := g_u g (Some t) in
          let l1 := l_hu l (cpc l) true in
          match cur_op l with
          | CWaitPred | CWaitStop => (g1, l_pc l1 CPredTest)
          | CWaitForPred | CWaitStopFor => (g1, l_pc l1 (if sg then CPredTest else CPredRet))
          | _ => ret g1 t l1 sg
          end
      end
  | CPredRet => ret g t l (ot_value (op_on_timeout (cur_op l)) (flag g))
  | NLockI all reps il =>
      match ilock g with
      | Some _ => (g, l)
      | None => (g_i g (Some t), l_pc l (NPop all reps il))
      end
  | NPop all reps il =>
      let '(q', p') := if all then ([], cqueue g)
                       else match cqueue g with [] => ([], []) | w :: q => (q, [w]) end in
      (g_log (g_q g q' p' (fun x => if cmem x p' then true else sig g x)) (ENotify t all (length p')),
       l_pc l (NRes all reps il))
  | NRes all reps il =>
      match pend g with
      | [] =>
          (g_i g None,
           match reps with
           | S (S k) => l_pc l (NLockI all (S k) il)
           | _ => if il then l_pc l CPredTest else l_pop l
           end)
      | w :: rest =>
          if isos w then
            (* default_agent::resume: wait until the target is not running, then wake it *)
            if blocked (cag g w)
            then (g_ag (g_q g (cqueue g) rest (sig g)) w {| tok := false; blocked := false |}, l)
            else (g, l)
          else (g_ag (g_q g (cqueue g) rest (sig g)) w (a_resume (cag g w)), l)
      end
  end.

(* is the step of this thread a real move (not a stutter: spinning on a held lock, blocked in suspend,
   blocked in default_agent::resume, sleeping before the deadline, finished)?  Timed sleepers count as
   enabled: their deadline will pass. *)
Definition cv_enabled (isos : nat -> bool) (t : nat) (g : cv_shared) (l : cv_local) : bool :=
  match cpc l with
  | CIdle => match ctodo l with
             | [] => false
             | CLockUOp :: _ => if hu l then true else match uowner g with None => true | Some _ => false end
             | _ => true
             end
  | CLockI | CRelockI | NLockI _ _ _ => match ilock g with None => true | Some _ => false end
  | CLockU _ => match uowner g with None => true | Some _ => false end
  | CSusp => negb (blocked (cag g t))
  | NRes _ _ _ => match pend g with
                  | [] => true
                  | w :: _ => if isos w then blocked (cag g w) else true
                  end
  | _ => true
  end.

Definition cv_init : cv_shared :=
  {| uowner := None; ilock := None; cqueue := []; pend := []; cag := fun _ => a_init; flag := false;
     stopreq := false; cbs := []; sig := fun _ => false; cvlog := [] |}.
Definition cv_locals (progs : nat -> list cv_op) : nat -> cv_local :=
  fun t => {| ctodo := progs t; cpc := CIdle; hu := false; reg := false |}.
Definition cv_run (isos : nat -> bool) (sched : list (nat * bool)) (progs : nat -> list cv_op) :=
  run (cv_tstep isos) sched (cv_init, cv_locals progs).

(* ---- vocabulary of the statements ---- *)
(* the waiter has released U in its current wait and has not yet re-locked I *)
Definition released_waiting (p : cv_pc) : bool :=
  match p with CPreSusp | CSusp | CSleep | CRelockI => true | _ => false end.
(* program counters at which the thread holds I *)
Definition holds_i (p : cv_pc) : bool :=
  match p with CStopChk | CUnlockU | CPush | CCheck | CStopChk2 _ | NPop _ _ _ | NRes _ _ _ => true | _ => false end.
Definition cv_stuck (isos : nat -> bool) (g : cv_shared) (ls : nat -> cv_local) : Prop :=
  forall t, cv_enabled isos t g (ls t) = false.
(* what the lock-step controller sees of a thread between two scheduled steps *)
Definition cv_view (isos : nat -> bool) (t : nat) (g : cv_shared) (l : cv_local) : nat :=
  match cpc l with
  | CIdle => match ctodo l with [] => 0 | _ => 3 end     (* 3: parked at the start of an operation (700) *)
  | CPreSusp => 4                                        (* 4: parked before suspend (9001) *)
  | CRelockI => 5                                        (* 5: parked after suspend returned (701) *)
  | CSusp => if blocked (cag g t) then 1 else 2
  | NRes _ _ _ => if cv_enabled isos t g l then 2 else 1
  | _ => 2
  end.
