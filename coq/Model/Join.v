(* Model/Join.v — C13: pika::thread / jthread join, detach, interruption.
   Executable definitions only.  Transcribed from
     libs/pika/threading/src/thread.cpp            (join, resume_thread, thread_function_nullary, detach)
     libs/pika/threading/include/pika/threading/{thread,jthread}.hpp
     libs/pika/threading_base/src/thread_data.cpp  (add_thread_exit_callback, run_thread_exit_callbacks,
                                                    free_thread_exit_callbacks, interruption_point)
     libs/pika/threading_base/include/.../thread_data.hpp (interrupt, set_interruption_enabled)
     libs/pika/threading_base/src/thread_helpers.cpp (interrupt_thread, suspend's interruption points)
   over Base/Conc.v (interleaving) and Base/Agent.v (suspend/resume contract: a resume aimed at a
   running task leaves a token that makes the NEXT suspension of that phase return at once).

   Every nat < n is a pika task started through pika::thread (it runs its body, then the exit
   callbacks, then terminates).  Task t owns the handles (t,k); handle (t,k) initially refers to
   task [tgt t k] and is joinable.  One model step = one critical section / one atomic access:

   joiner t, join on (t,k), u = tgt t k                       target u after its body returned
     Body/AJoin  lock mtx_; joinable? self?   (errors)          PExit   lock; empty? ran:=true : unlock
     PJoinIP     interruption_point                             PCbCall front()() part 1: done-flag:=true
     PJoinAdd    lock(u); ran||terminated ? refused : push_front PCbRes  front()() part 2: resume joiner
     PJoinChk    while (!done-flag)            [fix of F13]      PCbPop  lock; pop_front; empty? ran:=true   [pf: see below]
     PJoinSusp   suspend: interruption_point; a_suspend         PFree   lock; exit_funcs_.clear()
     PJoinWake   woken: interruption_point                       PTerm   state := terminated (scheduler)
     PJoinDet    lock mtx_; id_ := invalid   (join returns)

   [lp = true] is the code after the `fix:` commit (loop on the completion flag); [lp = false] is
   the code before it (single suspend, no re-check), kept for the regression witness F13.

   Session c13e: a joiner may CATCH thread_interrupted ([ACatch] closes a try block: an exception
   thrown at an interruption point skips the program up to and including the next [ACatch]; without
   one the thread function ends as before) and join AGAIN.  The completion flag is per CALL
   (`make_shared<atomic<bool>>` inside join): [flag j u c] is the flag of joiner j's c-th
   registration ([gen j] counts them), an entry of exit_funcs_ is the pair (j, c); the stale entry of
   an abandoned join stays registered.
   [pf = true] is run_thread_exit_callbacks after the second `fix:` commit: the callback is moved
   out of the list and popped UNDER the lock ([PExit]/[PCbPop] -> [PCbRun j c]), then invoked
   unlocked.  [pf = false] is the code before it: front()() unlocked ([PCbCall]), pop_front() after
   re-locking ([PCbPop]) — whatever is the front then; kept for the regression witnesses. *)
From Coq Require Import List Arith Bool.
From Pika Require Import Base.Conc Base.Agent.
Import ListNotations.

Inductive errc := NotJoinable | SelfJoin.               (* invalid_status / thread_resource_error *)
Inductive ipoint := IPExplicit | IPJoinEntry | IPSuspendPre | IPSuspendPost.

Inductive act :=
  | AWork                       (* body-internal step *)
  | AYield                      (* this_thread::yield: ends the phase *)
  | AResume (u : nat)           (* any other primitive's wake-up aimed at task u (environment) *)
  | AJoin (k : nat) | ADetach (k : nat) | AJoinable (k : nat)
  | ADtor (k : nat)             (* ~jthread: if joinable: request_stop; join *)
  | AStopPoll                   (* body: if stop_requested return *)
  | AIntr (u : nat)             (* interrupt_thread(u, true) *)
  | APoint                      (* this_thread::interruption_point *)
  | ASetEn (b : bool)           (* set_thread_interruption_enabled / disable_interruption *)
  | ACatch.                     (* end of `try { ... } catch (thread_interrupted const&) {}` *)

Inductive pcs :=
  | PIdle                                   (* not a task *)
  | PBody
  | PDtorStop (k : nat)                     (* request_stop *)
  | PDtorJoin (k : nat)                     (* join()'s lock + checks, inside the destructor *)
  | PJoinIP (k : nat) (d : bool)
  | PJoinAdd (k : nat) (d : bool)
  | PJoinChk (k : nat) (d : bool) (woken : bool)
  | PJoinSusp (k : nat) (d : bool)
  | PJoinWake (k : nat) (d : bool)
  | PJoinDet (k : nat) (d : bool)
  | PIntrWake (u : nat)                     (* set_thread_state(u, pending, abort) *)
  | PExit | PCbCall | PCbRes (j : nat) | PCbPop | PFree | PTerm | PDone
  | PCbRun (j c : nat).                     (* pf: callback (j,c) taken out of the list, not yet invoked *)

Inductive ev :=
  | EBodyDone (t : nat)
  | EJoinRet (t k : nat)
  | EErr (t k : nat) (c : errc)
  | EDetach (t k : nat)
  | EJoinable (t k : nat) (b : bool)
  | EDtorSkip (t k : nat) | EDtorRet (t k : nat) | EDtorErr (t k : nat) (c : errc)
  | EStopSeen (t : nat) (b : bool)
  | EIntrReq (r u : nat) | EIntrRefused (r u : nat)
  | EIntrAt (t : nat) (p : ipoint) (e : bool).

Record G := mkG {
  hid : nat -> nat -> bool;          (* thread::id_ of handle (t,k) is valid (joinable) *)
  cbs : nat -> list (nat * nat);     (* exit_funcs_ of task u: (joiner to resume, its call number), front first *)
  ran : nat -> bool;                 (* ran_exit_funcs_ *)
  term : nat -> bool;                (* state == terminated *)
  flag : nat -> nat -> nat -> bool;  (* completion flag of joiner j's c-th registration, made at task u *)
  gen : nat -> nat;                  (* number of registrations made by joiner j so far *)
  req : nat -> bool;                 (* requested_interrupt_ *)
  en : nat -> bool;                  (* enabled_interrupt_ *)
  stopreq : nat -> bool;             (* stop state of the jthread that runs task u *)
  ag : nat -> agent_state;
  bdone : nat -> bool;               (* ghost: thread function of u returned *)
  cbrun : nat -> nat -> bool;        (* ghost: u's exit phase invoked j's callback *)
  log : list ev }.

Record L := mkL { pc : pcs; prog : list act }.

Definition set1 {A} (f : nat -> A) (x : nat) (v : A) : nat -> A :=
  fun y => if Nat.eqb y x then v else f y.
Definition set2 {A} (f : nat -> nat -> A) (x y : nat) (v : A) : nat -> nat -> A :=
  fun a b => if Nat.eqb a x && Nat.eqb b y then v else f a b.
Definition set3 {A} (f : nat -> nat -> nat -> A) (x y z : nat) (v : A) : nat -> nat -> nat -> A :=
  fun a b c => if Nat.eqb a x && Nat.eqb b y && Nat.eqb c z then v else f a b c.

Definition w_hid g x := mkG x (cbs g) (ran g) (term g) (flag g) (gen g) (req g) (en g) (stopreq g) (ag g) (bdone g) (cbrun g) (log g).
Definition w_cbs g x := mkG (hid g) x (ran g) (term g) (flag g) (gen g) (req g) (en g) (stopreq g) (ag g) (bdone g) (cbrun g) (log g).
Definition w_ran g x := mkG (hid g) (cbs g) x (term g) (flag g) (gen g) (req g) (en g) (stopreq g) (ag g) (bdone g) (cbrun g) (log g).
Definition w_term g x := mkG (hid g) (cbs g) (ran g) x (flag g) (gen g) (req g) (en g) (stopreq g) (ag g) (bdone g) (cbrun g) (log g).
Definition w_flag g x := mkG (hid g) (cbs g) (ran g) (term g) x (gen g) (req g) (en g) (stopreq g) (ag g) (bdone g) (cbrun g) (log g).
Definition w_gen g x := mkG (hid g) (cbs g) (ran g) (term g) (flag g) x (req g) (en g) (stopreq g) (ag g) (bdone g) (cbrun g) (log g).
Definition w_req g x := mkG (hid g) (cbs g) (ran g) (term g) (flag g) (gen g) x (en g) (stopreq g) (ag g) (bdone g) (cbrun g) (log g).
Definition w_en g x := mkG (hid g) (cbs g) (ran g) (term g) (flag g) (gen g) (req g) x (stopreq g) (ag g) (bdone g) (cbrun g) (log g).
Definition w_stop g x := mkG (hid g) (cbs g) (ran g) (term g) (flag g) (gen g) (req g) (en g) x (ag g) (bdone g) (cbrun g) (log g).
Definition w_ag g x := mkG (hid g) (cbs g) (ran g) (term g) (flag g) (gen g) (req g) (en g) (stopreq g) x (bdone g) (cbrun g) (log g).
Definition w_bdone g x := mkG (hid g) (cbs g) (ran g) (term g) (flag g) (gen g) (req g) (en g) (stopreq g) (ag g) x (cbrun g) (log g).
Definition w_cbrun g x := mkG (hid g) (cbs g) (ran g) (term g) (flag g) (gen g) (req g) (en g) (stopreq g) (ag g) (bdone g) x (log g).
Definition w_log g e := mkG (hid g) (cbs g) (ran g) (term g) (flag g) (gen g) (req g) (en g) (stopreq g) (ag g) (bdone g) (cbrun g) (e :: log g).

Section Join.
  Variable lp : bool.                  (* true: join waits in `while (!flag)` (fixed code) *)
  Variable pf : bool.                  (* true: run_thread_exit_callbacks pops under the lock, then invokes *)
  Variable tgt : nat -> nat -> nat.    (* the task handle (t,k) was created for *)

  (* thread_data::interruption_point(): enabled && requested -> requested := false; throw.
     Result: Some g' when thread_interrupted is thrown (the body ends), None otherwise. *)
  Definition ipoint_step (p : ipoint) (t : nat) (g : G) : option G :=
    if en g t && req g t
    then Some (w_log (w_req g (set1 (req g) t false)) (EIntrAt t p (en g t)))
    else None.

  Definition ended : L := mkL PBody [].   (* thread function left by thread_interrupted *)

  (* thread_interrupted thrown: control continues behind the innermost enclosing try block's
     handler ([ACatch]); none: the thread function ends.  Inside ~jthread (noexcept) it ends. *)
  Fixpoint after_catch (p : list act) : list act :=
    match p with
    | [] => []
    | ACatch :: r => r
    | _ :: r => after_catch r
    end.
  Definition unwind (p : list act) : L := mkL PBody (after_catch p).
  Definition thrown (d : bool) (p : list act) : L := if d then ended else unwind p.

  (* join(): lock mtx_; joinable_locked(); this_id == id_ *)
  Definition join_check (t k : nat) (g : G) : option errc :=
    if negb (hid g t k) then Some NotJoinable
    else if Nat.eqb (tgt t k) t then Some SelfJoin else None.

  Definition tstep (_ : unit) (t : nat) (g : G) (l : L) : G * L :=
    if blocked (ag g t) then (g, l) else
    match pc l with
    | PIdle | PDone => (g, l)
    | PBody =>
      match prog l with
      | [] => (w_log (w_bdone g (set1 (bdone g) t true)) (EBodyDone t), mkL PExit [])
      | a :: rest =>
        match a with
        | AWork => (g, mkL PBody rest)
        | AYield => (w_ag g (set1 (ag g) t (a_phase_end (ag g t))), mkL PBody rest)
        | AResume u => (w_ag g (set1 (ag g) u (a_resume (ag g u))), mkL PBody rest)
        | AJoin k =>
          match join_check t k g with
          | Some c => (w_log g (EErr t k c), mkL PBody rest)
          | None => (g, mkL (PJoinIP k false) rest)
          end
        | ADetach k => (w_log (w_hid g (set2 (hid g) t k false)) (EDetach t k), mkL PBody rest)
        | AJoinable k => (w_log g (EJoinable t k (hid g t k)), mkL PBody rest)
        | ADtor k =>
          if hid g t k then (g, mkL (PDtorStop k) rest)
          else (w_log g (EDtorSkip t k), mkL PBody rest)
        | AStopPoll =>
          (w_log g (EStopSeen t (stopreq g t)), mkL PBody (if stopreq g t then [] else rest))
        | AIntr u =>
          if en g u then (w_log (w_req g (set1 (req g) u true)) (EIntrReq t u), mkL (PIntrWake u) rest)
          else (w_log g (EIntrRefused t u), mkL PBody rest)
        | APoint =>
          match ipoint_step IPExplicit t g with
          | Some g' => (g', unwind rest)
          | None => (g, mkL PBody rest)
          end
        | ASetEn b => (w_en g (set1 (en g) t b), mkL PBody rest)
        | ACatch => (g, mkL PBody rest)
        end
      end
    | PIntrWake u => (w_ag g (set1 (ag g) u (a_resume (ag g u))), mkL PBody (prog l))
    | PDtorStop k => (w_stop g (set1 (stopreq g) (tgt t k) true), mkL (PDtorJoin k) (prog l))
    | PDtorJoin k =>
      match join_check t k g with
      | Some c => (w_log g (EDtorErr t k c), ended)     (* exception leaves a noexcept destructor *)
      | None => (g, mkL (PJoinIP k true) (prog l))
      end
    | PJoinIP k d =>
      match ipoint_step IPJoinEntry t g with
      | Some g' => (g', thrown d (prog l))
      | None => (g, mkL (PJoinAdd k d) (prog l))
      end
    | PJoinAdd k d =>
      let u := tgt t k in
      if ran g u || term g u then (g, mkL (PJoinDet k d) (prog l))
      else let c := S (gen g t) in     (* a fresh flag for this call *)
           (w_gen (w_flag (w_cbs g (set1 (cbs g) u ((t, c) :: cbs g u))) (set3 (flag g) t u c false))
                  (set1 (gen g) t c),
            mkL (PJoinChk k d false) (prog l))
    | PJoinChk k d woken =>
      if (if lp then flag g t (tgt t k) (gen g t) else woken)
      then (g, mkL (PJoinDet k d) (prog l))
      else (g, mkL (PJoinSusp k d) (prog l))
    | PJoinSusp k d =>
      match ipoint_step IPSuspendPre t g with
      | Some g' => (g', thrown d (prog l))
      | None => (w_ag g (set1 (ag g) t (fst (a_suspend (ag g t)))), mkL (PJoinWake k d) (prog l))
      end
    | PJoinWake k d =>
      match ipoint_step IPSuspendPost t g with
      | Some g' => (g', thrown d (prog l))
      | None => (g, mkL (PJoinChk k d true) (prog l))
      end
    | PJoinDet k d =>
      let g1 := w_log (w_hid g (set2 (hid g) t k false)) (EJoinRet t k) in
      (if d then w_log g1 (EDtorRet t k) else g1, mkL PBody (prog l))
    | PExit =>
      match cbs g t with
      | [] => (w_ran g (set1 (ran g) t true), mkL PFree [])
      | (j, c) :: r => if pf then (w_cbs g (set1 (cbs g) t r), mkL (PCbRun j c) [])
                       else (g, mkL PCbCall [])
      end
    | PCbCall =>                                        (* pf = false only *)
      match cbs g t with
      | [] => (g, mkL PCbPop [])                      (* not reachable: front() of an empty list *)
      | (j, c) :: _ =>
        (w_cbrun (if lp then w_flag g (set3 (flag g) j t c true) else g) (set2 (cbrun g) j t true),
         mkL (PCbRes j) [])
      end
    | PCbRun j c =>                                     (* pf = true only *)
      (w_cbrun (if lp then w_flag g (set3 (flag g) j t c true) else g) (set2 (cbrun g) j t true),
       mkL (PCbRes j) [])
    | PCbRes j => (w_ag g (set1 (ag g) j (a_resume (ag g j))), mkL PCbPop [])
    | PCbPop =>
      if pf then
        match cbs g t with
        | [] => (w_ran g (set1 (ran g) t true), mkL PFree [])
        | (j, c) :: r => (w_cbs g (set1 (cbs g) t r), mkL (PCbRun j c) [])
        end
      else
        match tl (cbs g t) with
        | [] => (w_ran (w_cbs g (set1 (cbs g) t [])) (set1 (ran g) t true), mkL PFree [])
        | r => (w_cbs g (set1 (cbs g) t r), mkL PCbCall [])
        end
    | PFree => (w_cbs g (set1 (cbs g) t []), mkL PTerm [])
    | PTerm => (w_ag (w_term g (set1 (term g) t true)) (set1 (ag g) t (a_phase_end (ag g t))), mkL PDone [])
    end.

  (* [h0 t k]: handle (t,k) represents a thread initially (false: default-constructed) *)
  Definition g_init (h0 : nat -> nat -> bool) : G :=
    mkG h0 (fun _ => []) (fun _ => false) (fun _ => false) (fun _ _ _ => false) (fun _ => 0)
        (fun _ => false) (fun _ => true) (fun _ => false) (fun _ => a_init)
        (fun _ => false) (fun _ _ => false) [].

  Definition l_init (n : nat) (progs : nat -> list act) : nat -> L :=
    fun t => if Nat.ltb t n then mkL PBody (progs t) else mkL PIdle [].

  Definition jrun (h0 : nat -> nat -> bool) (n : nat) (progs : nat -> list act)
             (sched : list (nat * unit)) : G * locals L :=
    run tstep sched (g_init h0, l_init n progs).

  Definition stuck (c : G * locals L) : Prop :=
    forall t, tstep tt t (fst c) (snd c t) = (fst c, snd c t).
End Join.

(* --- monitors (boolean versions of the property, evaluated by the extracted model) --- *)
Definition ev_joinret (e : ev) : option (nat * nat) :=
  match e with EJoinRet t k => Some (t, k) | _ => None end.

(* every recorded join return happened with the target's body finished and its callback phase
   (for this joiner) over *)
Definition join_ok_b (tgt : nat -> nat -> nat) (g : G) : bool :=
  forallb (fun e => match e with
                    | EJoinRet t k => let u := tgt t k in
                        bdone g u && (ran g u || term g u || cbrun g t u) && negb (hid g t k)
                    | EDetach t k => negb (hid g t k)
                    | EDtorRet t k => let u := tgt t k in stopreq g u && bdone g u && negb (hid g t k)
                    | EIntrAt _ _ b => b
                    | _ => true end) (log g).

(* schedule helpers for the driver: run task t until it cannot move (blocked or done), at most
   [fuel] steps; round-robin until nothing moves *)
Definition is_final (l : L) : bool := match pc l with PDone | PIdle => true | _ => false end.

Fixpoint run_task (lp pf : bool) (tgt : nat -> nat -> nat) (fuel t : nat) (c : G * (nat -> L)) : G * (nat -> L) :=
  match fuel with
  | O => c
  | S f => if blocked (ag (fst c) t) || is_final (snd c t) then c
           else run_task lp pf tgt f t (step (tstep lp pf tgt) c (t, tt))
  end.

Fixpoint round_robin (lp pf : bool) (tgt : nat -> nat -> nat) (rounds n : nat) (c : G * (nat -> L)) : G * (nat -> L) :=
  match rounds with
  | O => c
  | S r => round_robin lp pf tgt r n
             (fold_left (fun c t => run_task lp pf tgt 1000 t c) (seq 0 n) c)
  end.

Definition all_done (n : nat) (c : G * (nat -> L)) : bool :=
  forallb (fun t => match pc (snd c t) with PDone => true | _ => false end) (seq 0 n).
