(* Model/Erased.v — C18: type-erased senders (unique_any_sender / any_sender over
   movable_sbo_storage / copyable_sbo_storage) and type-erased callables (function /
   unique_function over function_base).  Executable definitions only.

   Source followed (branch for branch):
     libs/pika/execution_base/include/pika/execution_base/any_sender.hpp
        movable_sbo_storage::{release, move_assign (both overloads), store, reset, dtor, op=}
        copyable_sbo_storage::{copy_assign, copy ctor, op=}
        unique_any_sender / any_sender::{ctor(Sender&&), op=(Sender&&), reset(Sender&&), reset(),
                                          move/copy ctor/assign, unique(any&&), connect && / const&}
        empty_unique_any_sender / empty_any_sender::connect  (throw_bad_any_call)
        any_operation_state_holder (store once, start, destroy)
     libs/pika/functional/src/basic_function.cpp, include/.../detail/basic_function.hpp, vtable/*.hpp
        function_base::{copy ctor, move ctor (memcpy relocation), op_assign const&/&&, destroy,
                        reset, swap}, basic_function::{assign(F&&), assign(nullptr), operator()},
        empty vtable's _empty_invoke (throw_bad_function_call)

   A storage is Empty (object pointer = the empty vtable / nullptr), Heap o or Inline o; the
   contained object o carries its identity (oid) with it, so function_base's bitwise relocation
   of an inline object is the same object (no constructor or destructor runs).  Every
   constructor / destructor call of a ledgered object is an event in the ledger; the harness
   records the same events on the real wrappers and the two logs are compared step by step. *)
From Coq Require Import List Bool Arith ZArith NArith.
Import ListNotations.

(* ------------------------------------------------------------------ ledger *)
Inductive event :=
| ECtor (id : nat)            (* constructed from a payload (user temporary, operation state) *)
| ECopy (id src : nat)        (* copy-constructed from src *)
| EMove (id src : nat)        (* move-constructed from src *)
| EDtor (id : nat).

Record ledger := { nxt : nat; elog : list event (* newest first *) }.

(* the value of a wrapped object: everything but its identity *)
Record oval := {
  vbig : bool;      (* larger than the inline buffer of the wrapper that holds it *)
  vcpy : bool;      (* copy-constructible type *)
  vbeh : N;         (* callable: 0 plain, 1 throws on odd argument
                       sender: 0 value, 1 error, 2 stopped, 3 connect throws *)
  vpay : Z;         (* payload *)
  vcalls : Z        (* mutable state of a callable: number of invocations so far *)
}.
Record cobj := { oid : nat; ov : oval }.

Definition fresh_obj (v : oval) (L : ledger) : cobj * ledger :=
  ({| oid := nxt L; ov := v |}, {| nxt := S (nxt L); elog := ECtor (nxt L) :: elog L |}).
Definition copy_obj (o : cobj) (L : ledger) : cobj * ledger :=
  ({| oid := nxt L; ov := ov o |}, {| nxt := S (nxt L); elog := ECopy (nxt L) (oid o) :: elog L |}).
(* the source stays alive in moved-from state; whoever owns it must still destroy it *)
Definition move_obj (o : cobj) (L : ledger) : cobj * ledger :=
  ({| oid := nxt L; ov := ov o |}, {| nxt := S (nxt L); elog := EMove (nxt L) (oid o) :: elog L |}).
Definition destroy (o : cobj) (L : ledger) : ledger :=
  {| nxt := nxt L; elog := EDtor (oid o) :: elog L |}.

Definition ev_ctor (e : event) : list nat :=
  match e with ECtor i => [i] | ECopy i _ => [i] | EMove i _ => [i] | EDtor _ => [] end.
Definition ev_dtor (e : event) : list nat := match e with EDtor i => [i] | _ => [] end.
Definition ctors (L : ledger) : list nat := flat_map ev_ctor (elog L).
Definition dtors (L : ledger) : list nat := flat_map ev_dtor (elog L).

(* ------------------------------------------------------------------ storage *)
Inductive storage := Empty | Heap (o : cobj) | Inline (o : cobj).

Definition is_empty (s : storage) : bool := match s with Empty => true | _ => false end.
Definition sid (s : storage) : list nat := match s with Empty => [] | Heap o => [oid o] | Inline o => [oid o] end.
Definition ids (l : list storage) : list nat := flat_map sid l.

Inductive outcome :=
| ONone                 (* the operation returns nothing observable *)
| OValue (v : Z)        (* invoke returned v / set_value(v) *)
| OError (e : Z)        (* set_error(test_error e) *)
| OStopped              (* set_stopped *)
| OThrewBad             (* pika::exception with error::bad_function_call *)
| OThrew (e : Z).       (* the wrapped object's own exception escaped *)

(* release(): precondition !empty().  Both branches destroy the object (heap: delete,
   embedded: explicit destructor call) and reset the vtable, i.e. the storage is Empty after. *)
Definition release (s : storage) (L : ledger) : ledger :=
  match s with Empty => L | Heap o => destroy o L | Inline o => destroy o L end.

(* ================================================================== senders *)
Section Senders.
  Variable sbo : bool.     (* PIKA_DETAIL_ENABLE_ANY_SENDER_SBO *)

  (* can_use_embedded_storage<Impl>() *)
  Definition can_embed (v : oval) : bool := sbo && negb (vbig v).

  Definition mk (mv : bool) := if mv then move_obj else copy_obj.

  (* store<Impl>(ts...) *)
  Definition s_store (this : storage) (src : cobj) (mv : bool) (L : ledger) : storage * ledger :=
    let L1 := if is_empty this then L else release this L in
    let (o, L2) := mk mv src L1 in
    (if can_embed (ov o) then Inline o else Heap o, L2).

  (* move_assign(movable_sbo_storage&&) and move_assign(copyable_sbo_storage<T>&&): identical
     bodies; precondition: this is empty.  Embedded branch: move_into the own buffer, then (fix
     of F9) destroy the moved-from object, then other.reset_vtable(). *)
  Definition s_move_assign (other : storage) (L : ledger) : storage * storage * ledger :=
    match other with
    | Empty => (Empty, Empty, L)
    | Inline o => let (o', L1) := move_obj o L in (Inline o', Empty, destroy o L1)
    | Heap o => (Heap o, Empty, L)
    end.

  (* copy_assign(copyable_sbo_storage const&); precondition: this is empty *)
  Definition s_copy_assign (other : storage) (L : ledger) : storage * ledger :=
    match other with
    | Empty => (Empty, L)
    | Inline o => let (o', L1) := copy_obj o L in (Inline o', L1)     (* clone_into *)
    | Heap o => let (o', L1) := copy_obj o L in (Heap o', L1)         (* clone *)
    end.

  (* --- wrapper operations; [this]/[other] are the storages of two distinct wrappers --- *)

  (* W(Sender&&) through emplace (ctor = true), operator=(Sender&&) and reset(Sender&&)
     (ctor = false); the argument is a user temporary constructed before and destroyed after *)
  Definition w_store (v : oval) (mv ctor : bool) (this : storage) (L : ledger)
    : outcome * storage * ledger :=
    let (tmp, L0) := fresh_obj v L in
    let L1 := if ctor then release this L0 else L0 in       (* ~W() of the emplaced-over wrapper *)
    let this1 := if ctor then Empty else this in
    let (s', L2) := s_store this1 tmp mv L1 in
    (ONone, s', destroy tmp L2).

  (* W(W&&) through emplace, and operator=(W&&) for this != &other *)
  Definition w_move (this other : storage) (L : ledger) : outcome * storage * storage * ledger :=
    let L1 := if is_empty this then L else release this L in
    let '(a, b, L2) := s_move_assign other L1 in
    (ONone, a, b, L2).

  (* unique_any_sender(any_sender&&) / operator=(any_sender&&): move the storage, then other.reset() *)
  Definition w_move_from_any (this other : storage) (L : ledger)
    : outcome * storage * storage * ledger :=
    let L1 := if is_empty this then L else release this L in
    let '(a, b, L2) := s_move_assign other L1 in
    (ONone, a, Empty, if is_empty b then L2 else release b L2).

  (* any_sender(any_sender const&) through emplace, and operator=(const&) for this != &other *)
  Definition w_copy (this other : storage) (L : ledger) : outcome * storage * storage * ledger :=
    let L1 := if is_empty this then L else release this L in
    let (a, L2) := s_copy_assign other L1 in
    (ONone, a, other, L2).

  Definition w_reset (this : storage) (L : ledger) : outcome * storage * ledger :=
    (ONone, Empty, if is_empty this then L else release this L).

  (* what the wrapped sender itself does: connect may throw; otherwise start completes *)
  Definition sender_completion (v : oval) : outcome :=
    match vbeh v with
    | 0%N => OValue (vpay v) | 1%N => OError (vpay v) | 2%N => OStopped | _ => OThrew (vpay v)
    end.
  Definition connect_throws (v : oval) : bool := (3 <=? vbeh v)%N.

  (* any_operation_state_holder: the operation state of the wrapped sender is stored once
     (never moved), started, and destroyed with the any_operation_state *)
  Definition opstate_of (v : oval) : oval :=
    {| vbig := vbig v; vcpy := false; vbeh := vbeh v; vpay := vpay v; vcalls := 0 |}.

  (* connect(Receiver&&) &&: auto moved_storage = std::move(storage);
       std::move(moved_storage.get()).connect(...)  [empty vtable: throw_bad_any_call];
       ~moved_storage; start; ~any_operation_state *)
  Definition w_connect_rv (this : storage) (L : ledger) : outcome * storage * ledger :=
    let '(ms, this', L1) := s_move_assign this L in
    match ms with
    | Empty => (OThrewBad, this', L1)
    | Heap o | Inline o =>
      if connect_throws (ov o) then (sender_completion (ov o), this', release ms L1)
      else
        let (op, L2) := fresh_obj (opstate_of (ov o)) L1 in
        let hs := if can_embed (ov op) then Inline op else Heap op in
        let L3 := release ms L2 in           (* ~moved_storage when connect returns *)
        (sender_completion (ov o), this', release hs L3)   (* start, then ~op_state *)
    end.

  (* any_sender::connect(Receiver&&) const& : storage.get().connect(...) const& *)
  Definition w_connect_lv (this : storage) (L : ledger) : outcome * storage * ledger :=
    match this with
    | Empty => (OThrewBad, this, L)
    | Heap o | Inline o =>
      if connect_throws (ov o) then (sender_completion (ov o), this, L)
      else
        let (op, L2) := fresh_obj (opstate_of (ov o)) L in
        let hs := if can_embed (ov op) then Inline op else Heap op in
        (sender_completion (ov o), this, release hs L2)
    end.
End Senders.
(* ================================================================== functions *)
(* function_storage_size = 3 pointers; vtable::allocate<T>: heap iff sizeof(T) > size *)
Definition fn_place (o : cobj) : storage := if vbig (ov o) then Heap o else Inline o.

(* the vtable pointer identifies the stored type T (here: size class and copyability) *)
Definition same_type (a b : oval) : bool := Bool.eqb (vbig a) (vbig b) && Bool.eqb (vcpy a) (vcpy b).
Definition vptr_eq (a b : storage) : bool :=
  match a, b with
  | Empty, Empty => true
  | (Heap x | Inline x), (Heap y | Inline y) => same_type (ov x) (ov y)
  | _, _ => false
  end.
Definition with_obj (s : storage) (o : cobj) : storage :=
  match s with Empty => Empty | Heap _ => Heap o | Inline _ => Inline o end.

(* basic_function::assign(F&& f) for a non-empty f *)
Definition f_assign (this : storage) (src : cobj) (mv : bool) (L : ledger) : storage * ledger :=
  match this with
  | Empty => let (o, L2) := mk mv src L in (fn_place o, L2)
  | Heap old | Inline old =>
    if same_type (ov old) (ov src) then
      (* vptr == f_vptr: destroy in place and construct into the same buffer *)
      let L1 := destroy old L in
      let (o, L2) := mk mv src L1 in (with_obj this o, L2)
    else
      let L1 := release this L in      (* destroy() *)
      let (o, L2) := mk mv src L1 in (fn_place o, L2)
  end.

Definition f_store (v : oval) (mv ctor : bool) (this : storage) (L : ledger)
  : outcome * storage * ledger :=
  let (tmp, L0) := fresh_obj v L in
  let L1 := if ctor then release this L0 else L0 in       (* ~function_base() of the old wrapper *)
  let this1 := if ctor then Empty else this in
  let (s', L2) := f_assign this1 tmp mv L1 in
  (ONone, s', destroy tmp L2).

(* function_base(function_base const&) through emplace *)
Definition f_copy_ctor (this other : storage) (L : ledger) : outcome * storage * storage * ledger :=
  let L1 := release this L in
  match other with
  | Empty => (ONone, Empty, other, L1)
  | Heap o | Inline o => let (o', L2) := copy_obj o L1 in (ONone, fn_place o', other, L2)
  end.

(* function_base(function_base&&): takes vptr/object, memcpy of the inline buffer — the same
   object lives on at a new address; other becomes empty *)
Definition f_move_ctor (this other : storage) (L : ledger) : outcome * storage * storage * ledger :=
  (ONone, other, Empty, release this L).

(* op_assign(function_base const&) for this != &other *)
Definition f_copy_assign (this other : storage) (L : ledger) : outcome * storage * storage * ledger :=
  if vptr_eq this other then
    match this, other with
    | (Heap old | Inline old), (Heap o | Inline o) =>
      let L1 := destroy old L in
      let (o', L2) := copy_obj o L1 in (ONone, with_obj this o', other, L2)
    | _, _ => (ONone, this, other, L)
    end
  else
    let L1 := release this L in
    match other with
    | Empty => (ONone, Empty, other, L1)
    | Heap o | Inline o => let (o', L2) := copy_obj o L1 in (ONone, fn_place o', other, L2)
    end.

(* op_assign(function_base&&) for this != &other: swap(other); other.reset(empty_vtable) *)
Definition f_move_assign (this other : storage) (L : ledger) : outcome * storage * storage * ledger :=
  (ONone, other, Empty, release this L).

Definition f_swap (this other : storage) (L : ledger) : outcome * storage * storage * ledger :=
  (ONone, other, this, L).

Definition f_reset (this : storage) (L : ledger) : outcome * storage * ledger :=
  (ONone, Empty, release this L).

(* what the wrapped callable itself does *)
Definition call (v : oval) (arg : Z) : outcome * oval :=
  let c := (vcalls v + 1)%Z in
  let v' := {| vbig := vbig v; vcpy := vcpy v; vbeh := vbeh v; vpay := vpay v; vcalls := c |} in
  if (vbeh v =? 1)%N && Z.odd arg then (OThrew (vpay v * 10 + c)%Z, v')
  else (OValue (vpay v * 100 + c * 7 + arg)%Z, v').

(* operator(): vptr->invoke(object, ...); the empty vtable's invoke throws bad_function_call *)
Definition f_invoke (arg : Z) (this : storage) (L : ledger) : outcome * storage * ledger :=
  match this with
  | Empty => (OThrewBad, this, L)
  | Heap o => let (r, v') := call (ov o) arg in (r, Heap {| oid := oid o; ov := v' |}, L)
  | Inline o => let (r, v') := call (ov o) arg in (r, Inline {| oid := oid o; ov := v' |}, L)
  end.

(* ================================================================== histories *)
Record state := { led : ledger; slots : list storage }.

Fixpoint set_nth {A} (n : nat) (x : A) (l : list A) : list A :=
  match l, n with
  | [], _ => []
  | _ :: t, O => x :: t
  | h :: t, S n' => h :: set_nth n' x t
  end.
Definition slot (l : list storage) (j : nat) : storage := nth j l Empty.

Definition op1 (f : storage -> ledger -> outcome * storage * ledger) (j : nat) (st : state)
  : outcome * state :=
  if j <? length (slots st) then
    let '(r, s', L') := f (slot (slots st) j) (led st) in
    (r, {| led := L'; slots := set_nth j s' (slots st) |})
  else (ONone, st).

(* two distinct wrappers; j = i is the self-assignment case, which every operator= of both
   families answers with "do nothing" (&other != this / this != &other guards) *)
Definition op2 (f : storage -> storage -> ledger -> outcome * storage * storage * ledger)
  (j i : nat) (st : state) : outcome * state :=
  if (j <? length (slots st)) && (i <? length (slots st)) && negb (j =? i) then
    let '(r, a', b', L') := f (slot (slots st) j) (slot (slots st) i) (led st) in
    (r, {| led := L'; slots := set_nth j a' (set_nth i b' (slots st)) |})
  else (ONone, st).

Inductive sop :=
| SStore (j : nat) (v : oval) (mv ctor : bool)
| SMove (j i : nat)            (* move ctor (j<>i) / move assign / reset(W&&) *)
| SMoveFromAny (j i : nat)     (* unique_any_sender from any_sender&& (ctor / assign) *)
| SCopy (j i : nat)            (* any_sender copy ctor / copy assign / reset(W const&) *)
| SReset (j : nat)
| SConnectRv (j : nat)
| SConnectLv (j : nat).

Definition sstep (sbo : bool) (op : sop) (st : state) : outcome * state :=
  match op with
  | SStore j v mv ctor => op1 (w_store sbo v mv ctor) j st
  | SMove j i => op2 w_move j i st
  | SMoveFromAny j i => op2 w_move_from_any j i st
  | SCopy j i => op2 w_copy j i st
  | SReset j => op1 w_reset j st
  | SConnectRv j => op1 (w_connect_rv sbo) j st
  | SConnectLv j => op1 (w_connect_lv sbo) j st
  end.

Inductive fop :=
| FStore (j : nat) (v : oval) (mv ctor : bool)
| FCopyCtor (j i : nat)
| FMoveCtor (j i : nat)
| FCopyAssign (j i : nat)
| FMoveAssign (j i : nat)
| FSwap (j i : nat)
| FReset (j : nat)             (* reset(), assign(nullptr), assign of a null function pointer *)
| FInvoke (j : nat) (arg : Z).

Definition fstep (op : fop) (st : state) : outcome * state :=
  match op with
  | FStore j v mv ctor => op1 (f_store v mv ctor) j st
  | FCopyCtor j i => op2 f_copy_ctor j i st
  | FMoveCtor j i => op2 f_move_ctor j i st
  | FCopyAssign j i => op2 f_copy_assign j i st
  | FMoveAssign j i => op2 f_move_assign j i st
  | FSwap j i => op2 f_swap j i st
  | FReset j => op1 f_reset j st
  | FInvoke j arg => op1 (f_invoke arg) j st
  end.

Definition init (n : nat) : state := {| led := {| nxt := 0; elog := [] |}; slots := repeat Empty n |}.

(* all wrappers go out of scope (index order) *)
Definition destroy_all (st : state) : state :=
  {| led := fold_left (fun L s => release s L) (slots st) (led st);
     slots := map (fun _ => Empty) (slots st) |}.

Section Run.
  Context {Op : Type} (step : Op -> state -> outcome * state).
  Fixpoint run (ops : list Op) (st : state) : state :=
    match ops with [] => st | op :: r => run r (snd (step op st)) end.
  (* observations: per step the outcome, the events it appended (oldest first) and the
     emptiness of every wrapper *)
  Definition new_events (before after : ledger) : list event :=
    rev (firstn (length (elog after) - length (elog before)) (elog after)).
  Fixpoint trace (ops : list Op) (st : state) : list (outcome * list event * list bool) * state :=
    match ops with
    | [] => ([], st)
    | op :: r =>
      let (o, st') := step op st in
      let (t, fin) := trace r st' in
      ((o, new_events (led st) (led st'), map is_empty (slots st')) :: t, fin)
    end.
End Run.

(* ================================================================== the specification:
   a wrapper is an optional value of the wrapped type *)
Definition abs (s : storage) : option oval :=
  match s with Empty => None | Heap o => Some (ov o) | Inline o => Some (ov o) end.

Definition sp1 (f : option oval -> outcome * option oval) (j : nat) (l : list (option oval))
  : outcome * list (option oval) :=
  if j <? length l then let (r, x) := f (nth j l None) in (r, set_nth j x l) else (ONone, l).
Definition sp2 (f : option oval -> option oval -> option oval * option oval) (j i : nat)
  (l : list (option oval)) : outcome * list (option oval) :=
  if (j <? length l) && (i <? length l) && negb (j =? i) then
    let (a, b) := f (nth j l None) (nth i l None) in (ONone, set_nth j a (set_nth i b l))
  else (ONone, l).

(* connecting and starting the unwrapped sender *)
Definition direct_connect (v : oval) : outcome := sender_completion v.

Definition sspec (op : sop) (l : list (option oval)) : outcome * list (option oval) :=
  match op with
  | SStore j v _ _ => sp1 (fun _ => (ONone, Some v)) j l
  | SMove j i => sp2 (fun _ b => (b, None)) j i l
  | SMoveFromAny j i => sp2 (fun _ b => (b, None)) j i l
  | SCopy j i => sp2 (fun _ b => (b, b)) j i l
  | SReset j => sp1 (fun _ => (ONone, None)) j l
  | SConnectRv j => sp1 (fun x => match x with None => (OThrewBad, None)
                                           | Some v => (direct_connect v, None) end) j l
  | SConnectLv j => sp1 (fun x => match x with None => (OThrewBad, None)
                                           | Some v => (direct_connect v, Some v) end) j l
  end.

Definition fspec (op : fop) (l : list (option oval)) : outcome * list (option oval) :=
  match op with
  | FStore j v _ _ => sp1 (fun _ => (ONone, Some v)) j l
  | FCopyCtor j i => sp2 (fun _ b => (b, b)) j i l
  | FMoveCtor j i => sp2 (fun _ b => (b, None)) j i l
  | FCopyAssign j i => sp2 (fun _ b => (b, b)) j i l
  | FMoveAssign j i => sp2 (fun _ b => (b, None)) j i l
  | FSwap j i => sp2 (fun a b => (b, a)) j i l
  | FReset j => sp1 (fun _ => (ONone, None)) j l
  | FInvoke j arg => sp1 (fun x => match x with None => (OThrewBad, None)
                                            | Some v => let (r, v') := call v arg in (r, Some v') end) j l
  end.

Definition is_none (x : option oval) : bool := match x with None => true | Some _ => false end.
Fixpoint spec_trace {Op} (spec : Op -> list (option oval) -> outcome * list (option oval))
  (ops : list Op) (l : list (option oval)) : list (outcome * list bool) :=
  match ops with
  | [] => []
  | op :: r => let (o, l') := spec op l in
               (o, map is_none l') :: spec_trace spec r l'
  end.

(* the wrappers an operation names (for the frame property) *)
Definition sop_slots (op : sop) : list nat :=
  match op with
  | SStore j _ _ _ => [j] | SMove j i => [j; i] | SMoveFromAny j i => [j; i] | SCopy j i => [j; i]
  | SReset j => [j] | SConnectRv j => [j] | SConnectLv j => [j]
  end.
Definition fop_slots (op : fop) : list nat :=
  match op with
  | FStore j _ _ _ => [j] | FCopyCtor j i => [j; i] | FMoveCtor j i => [j; i] | FCopyAssign j i => [j; i]
  | FMoveAssign j i => [j; i] | FSwap j i => [j; i] | FReset j => [j] | FInvoke j _ => [j]
  end.
(* what an observer of the wrappers sees of one step: outcome and emptiness of every wrapper *)
Definition obs (t : outcome * list event * list bool) : outcome * list bool := (fst (fst t), snd t).

(* ================================================================== throwing copy constructors
   (finding F9b, outside the main theorems' hypothesis "constructors of wrapped objects do not
   throw").  function_base::op_assign(function_base const&) destroys the old object first (in
   place when vptr == other.vptr, through destroy() otherwise) and only then runs T's copy
   constructor.  When that throws, neither [object] nor (first branch) [vptr] is reset: the
   wrapper still points at the destroyed object, reports non-empty, and destroys it again.
   (In the second branch vptr already is other's; the model keeps [this], which is exact for the
   witness cases the harness replays: same stored type.) *)
Definition f_copy_assign_throw (this other : storage) (L : ledger)
  : outcome * storage * storage * ledger :=
  match other with
  | Empty => f_copy_assign this other L          (* no copy constructor runs *)
  | _ => (OThrew 0, this, other, release this L)
  end.

Inductive fxop := FX (op : fop) | FXCopyAssignThrow (j i : nat).
Definition fxstep (op : fxop) (st : state) : outcome * state :=
  match op with
  | FX op => fstep op st
  | FXCopyAssignThrow j i => op2 f_copy_assign_throw j i st
  end.
