(* Model/Erased.v — C18: type-erased senders (unique_any_sender / any_sender over
   movable_sbo_storage / copyable_sbo_storage) and type-erased callables (function /
   unique_function over function_base).  Executable definitions only.

   Source followed (branch for branch):
     libs/pika/execution_base/include/pika/execution_base/any_sender.hpp
        movable_sbo_storage::{release, move_assign (both overloads), store, reset, dtor, op=}
        copyable_sbo_storage::{copy_assign, copy ctor, op=}
        unique_any_sender / any_sender::{ctor(Sender&&), op=(Sender&&), reset(Sender&&), reset(),
                                          move/copy ctor/assign, unique(any&&), connect && / const&}
        empty_unique_any_sender / empty_any_sender::connect  (throw_bad_any_call)
        any_operation_state_holder (store once, start, destroy)
     libs/pika/functional/src/basic_function.cpp, include/.../detail/basic_function.hpp, vtable/*.hpp
        function_base::{copy ctor, move ctor (memcpy relocation), op_assign const&/&&, destroy,
                        reset, swap}, basic_function::{assign(F&&), assign(nullptr), operator()},
        empty vtable's _empty_invoke (throw_bad_function_call)

   A storage is Empty (object pointer = the empty vtable / nullptr), Heap o or Inline o; the
   contained object o carries its identity (oid) with it, so function_base's bitwise relocation
   of an inline object is the same object (no constructor or destructor runs).  Every
   constructor / destructor call of a ledgered object is an event in the ledger; the harness
   records the same events on the real wrappers and the two logs are compared step by step. *)
From Coq Require Import List Bool Arith ZArith NArith.
From Pika Require Import Gen.GenErased.
Import ListNotations.

(* ------------------------------------------------------------------ ledger *)
Inductive event :=
| ECtor (id : nat)            (* constructed from a payload (user temporary, operation state) *)
| ECopy (id src : nat)        (* copy-constructed from src *)
| EMove (id src : nat)        (* move-constructed from src *)
| EDtor (id : nat).

Record ledger := { nxt : nat; elog : list event (* newest first *) }.

(* the value of a wrapped object: everything but its identity *)
Record oval := {
  vbig : bool;      (* larger than the inline buffer of the wrapper that holds it *)
  vcpy : bool;      (* copy-constructible type *)
  valn : bool;      (* over-aligned type: alignof(T) > alignment_size (= pointer size) of the sender storages *)
  vbeh : N;         (* callable: 0 plain, 1 throws on odd argument
                       sender: 0 value, 1 error, 2 stopped, 3 connect throws *)
  vpay : Z;         (* payload *)
  vcalls : Z        (* mutable state of a callable: number of invocations so far *)
}.
Record cobj := { oid : nat; ov : oval }.

Definition fresh_obj (v : oval) (L : ledger) : cobj * ledger :=
  ({| oid := nxt L; ov := v |}, {| nxt := S (nxt L); elog := ECtor (nxt L) :: elog L |}).
Definition copy_obj (o : cobj) (L : ledger) : cobj * ledger :=
  ({| oid := nxt L; ov := ov o |}, {| nxt := S (nxt L); elog := ECopy (nxt L) (oid o) :: elog L |}).
(* the source stays alive in moved-from state; whoever owns it must still destroy it *)
Definition move_obj (o : cobj) (L : ledger) : cobj * ledger :=
  ({| oid := nxt L; ov := ov o |}, {| nxt := S (nxt L); elog := EMove (nxt L) (oid o) :: elog L |}).
Definition destroy (o : cobj) (L : ledger) : ledger :=
  {| nxt := nxt L; elog := EDtor (oid o) :: elog L |}.

Definition ev_ctor (e : event) : list nat :=
  match e with ECtor i => [i] | ECopy i _ => [i] | EMove i _ => [i] | EDtor _ => [] end.
Definition ev_dtor (e : event) : list nat := match e with EDtor i => [i] | _ => [] end.
Definition ctors (L : ledger) : list nat := flat_map ev_ctor (elog L).
Definition dtors (L : ledger) : list nat := flat_map ev_dtor (elog L).

(* ------------------------------------------------------------------ storage *)
(* Nested s: the wrapper holds (always on the heap: sizeof(function) = 5 pointers > 3, the impl of an
   any_sender does not fit / SBO is off) ANOTHER WRAPPER whose own storage is s — a function stored in
   a unique_function, an any_sender stored in a unique_any_sender.  The C++ types allow one level. *)
Inductive storage := Empty | Heap (o : cobj) | Inline (o : cobj) | Nested (s : storage).

Definition is_empty (s : storage) : bool := match s with Empty => true | _ => false end.
Fixpoint sid (s : storage) : list nat :=
  match s with Empty => [] | Heap o => [oid o] | Inline o => [oid o] | Nested s => sid s end.
Definition ids (l : list storage) : list nat := flat_map sid l.

Inductive outcome :=
| ONone                 (* the operation returns nothing observable *)
| OValue (v : Z)        (* invoke returned v / set_value(v) *)
| OError (e : Z)        (* set_error(test_error e) *)
| OStopped              (* set_stopped *)
| OThrewBad             (* pika::exception with error::bad_function_call *)
| OThrew (e : Z)        (* the wrapped object's own exception escaped *)
| OUndef.               (* the real code has undefined behaviour here (use of a wrapper that a throwing
                           constructor left inconsistent): the model makes no prediction *)

(* release(): precondition !empty().  Both branches destroy the object (heap: delete,
   embedded: explicit destructor call) and reset the vtable, i.e. the storage is Empty after. *)
Fixpoint release (s : storage) (L : ledger) : ledger :=
  match s with Empty => L | Heap o => destroy o L | Inline o => destroy o L | Nested s => release s L end.

(* ================================================================== senders *)
Section Senders.
  Variable sbo : bool.     (* PIKA_DETAIL_ENABLE_ANY_SENDER_SBO *)

  (* can_use_embedded_storage<Impl>(): fits_storage && sufficiently_aligned (and the SBO macro).
     The numeric form of the two conditions is generated from the header (Gen/GenErased.v) and
     re-checked against the class bits of every test type on every run (TYPES cases). *)
  Definition can_embed (v : oval) : bool := sbo && negb (vbig v) && negb (valn v).

  Definition mk (mv : bool) := if mv then move_obj else copy_obj.

  (* store<Impl>(ts...) *)
  Definition s_store (this : storage) (src : cobj) (mv : bool) (L : ledger) : storage * ledger :=
    let L1 := if is_empty this then L else release this L in
    let (o, L2) := mk mv src L1 in
    (if can_embed (ov o) then Inline o else Heap o, L2).

  (* move_assign(movable_sbo_storage&&) and move_assign(copyable_sbo_storage<T>&&): identical
     bodies; precondition: this is empty.  Embedded branch: move_into the own buffer, then (fix
     of F9) destroy the moved-from object, then other.reset_vtable(). *)
  Definition s_move_assign (other : storage) (L : ledger) : storage * storage * ledger :=
    match other with
    | Empty => (Empty, Empty, L)
    | Inline o => let (o', L1) := move_obj o L in (Inline o', Empty, destroy o L1)
    | Heap o => (Heap o, Empty, L)
    | Nested s => (Nested s, Empty, L)             (* heap pointer steal *)
    end.

  (* copy_assign(copyable_sbo_storage const&); precondition: this is empty *)
  Definition s_copy1 (other : storage) (L : ledger) : storage * ledger :=
    match other with
    | Inline o => let (o', L1) := copy_obj o L in (Inline o', L1)     (* clone_into *)
    | Heap o => let (o', L1) := copy_obj o L in (Heap o', L1)         (* clone *)
    | _ => (Empty, L)
    end.
  Definition s_copy_assign (other : storage) (L : ledger) : storage * ledger :=
    match other with
    | Nested s => let (c, L1) := s_copy1 s L in (Nested c, L1)   (* not reachable: unique wrappers are not copyable *)
    | _ => s_copy1 other L
    end.

  (* --- wrapper operations; [this]/[other] are the storages of two distinct wrappers --- *)

  (* W(Sender&&) through emplace (ctor = true), operator=(Sender&&) and reset(Sender&&)
     (ctor = false); the argument is a user temporary constructed before and destroyed after *)
  Definition w_store (v : oval) (mv ctor : bool) (this : storage) (L : ledger)
    : outcome * storage * ledger :=
    let (tmp, L0) := fresh_obj v L in
    let L1 := if ctor then release this L0 else L0 in       (* ~W() of the emplaced-over wrapper *)
    let this1 := if ctor then Empty else this in
    let (s', L2) := s_store this1 tmp mv L1 in
    (ONone, s', destroy tmp L2).

  (* W(W&&) through emplace, and operator=(W&&) for this != &other *)
  Definition w_move (this other : storage) (L : ledger) : outcome * storage * storage * ledger :=
    let L1 := if is_empty this then L else release this L in
    let '(a, b, L2) := s_move_assign other L1 in
    (ONone, a, b, L2).

  (* unique_any_sender(any_sender&&) / operator=(any_sender&&): move the storage, then other.reset() *)
  Definition w_move_from_any (this other : storage) (L : ledger)
    : outcome * storage * storage * ledger :=
    let L1 := if is_empty this then L else release this L in
    let '(a, b, L2) := s_move_assign other L1 in
    (ONone, a, Empty, if is_empty b then L2 else release b L2).

  (* any_sender(any_sender const&) through emplace, and operator=(const&) for this != &other *)
  Definition w_copy (this other : storage) (L : ledger) : outcome * storage * storage * ledger :=
    let L1 := if is_empty this then L else release this L in
    let (a, L2) := s_copy_assign other L1 in
    (ONone, a, other, L2).

  (* unique_any_sender(Sender&&) / operator=(Sender&&) / reset(Sender&&) with Sender = any_sender&
     (an L-VALUE any_sender: the non-template any_sender&& overloads are not viable, the template
     stores a COPY of the any_sender as the wrapped sender): store<impl<any_sender&>>(other) =
     release, then new impl(other) = any_sender's copy constructor = copy_assign of its storage.
     The unique_any_sender is non-empty even when the stored any_sender is empty. *)
  Definition w_nest (this other : storage) (L : ledger) : outcome * storage * storage * ledger :=
    let L1 := if is_empty this then L else release this L in
    let (a, L2) := s_copy_assign other L1 in
    (ONone, match a with Nested _ => a | _ => Nested a end, other, L2).

  Definition w_reset (this : storage) (L : ledger) : outcome * storage * ledger :=
    (ONone, Empty, if is_empty this then L else release this L).

  (* what the wrapped sender itself does: connect may throw; otherwise start completes.
     Behaviour 4 is "an empty any_sender" (only as the value of a nested empty wrapper):
     connect raises bad_function_call *)
  Definition sender_completion (v : oval) : outcome :=
    match vbeh v with
    | 0%N => OValue (vpay v) | 1%N => OError (vpay v) | 2%N => OStopped | 3%N => OThrew (vpay v)
    | _ => OThrewBad
    end.
  Definition connect_throws (v : oval) : bool := (3 <=? vbeh v)%N.

  (* any_operation_state_holder: the operation state of the wrapped sender is stored once
     (never moved), started, and destroyed with the any_operation_state *)
  Definition opstate_of (v : oval) : oval :=
    {| vbig := vbig v; vcpy := false; valn := false; vbeh := vbeh v; vpay := vpay v; vcalls := 0 |}.

  (* connect(Receiver&&) &&: auto moved_storage = std::move(storage);
       std::move(moved_storage.get()).connect(...)  [empty vtable: throw_bad_any_call];
       ~moved_storage; start; ~any_operation_state *)
  Definition w_connect_rv1 (this : storage) (L : ledger) : outcome * storage * ledger :=
    let '(ms, this', L1) := s_move_assign this L in
    match ms with
    | Empty => (OThrewBad, this', L1)
    | Nested _ => (OThrewBad, ms, L1)       (* two levels: not expressible in the C++ types *)
    | Heap o | Inline o =>
      if connect_throws (ov o) then (sender_completion (ov o), this', release ms L1)
      else
        let (op, L2) := fresh_obj (opstate_of (ov o)) L1 in
        let hs := if can_embed (ov op) then Inline op else Heap op in
        let L3 := release ms L2 in           (* ~moved_storage when connect returns *)
        (sender_completion (ov o), this', release hs L3)   (* start, then ~op_state *)
    end.
  (* a unique_any_sender holding an any_sender: the outer storage is moved (pointer), the outer
     impl connects the inner any_sender as an r-value, i.e. the inner wrapper runs the same
     connect && on its own storage inside the outer operation state holder; ~outer moved_storage
     then deletes the (emptied) inner wrapper *)
  Definition w_connect_rv (this : storage) (L : ledger) : outcome * storage * ledger :=
    match this with
    | Nested s => let '(r, s', L1) := w_connect_rv1 s L in (r, Empty, release s' L1)
    | _ => w_connect_rv1 this L
    end.

  (* any_sender::connect(Receiver&&) const& : storage.get().connect(...) const& *)
  Definition w_connect_lv1 (this : storage) (L : ledger) : outcome * storage * ledger :=
    match this with
    | Empty | Nested _ => (OThrewBad, this, L)
    | Heap o | Inline o =>
      if connect_throws (ov o) then (sender_completion (ov o), this, L)
      else
        let (op, L2) := fresh_obj (opstate_of (ov o)) L in
        let hs := if can_embed (ov op) then Inline op else Heap op in
        (sender_completion (ov o), this, release hs L2)
    end.
  (* (an any_sender never holds a nested wrapper; defined for totality: connect const& of the inner) *)
  Definition w_connect_lv (this : storage) (L : ledger) : outcome * storage * ledger :=
    match this with
    | Nested s => let '(r, s', L') := w_connect_lv1 s L in (r, Nested s', L')
    | _ => w_connect_lv1 this L
    end.

  (* ---------------- throwing copy / move constructors of the wrapped sender ----------------
     store<Impl>: release() first, then  new (p) Impl(...) ; object = p   resp.
     heap_storage = new Impl(...) ; object = heap_storage : when Impl's constructor (= the wrapped
     sender's copy / move constructor) throws, object still is the empty vtable and the heap block
     is freed by the new-expression: the wrapper is EMPTY, the old content is gone. *)
  Definition w_store_throw (v : oval) (ctor : bool) (this : storage) (L : ledger)
    : outcome * storage * ledger :=
    let (tmp, L0) := fresh_obj v L in
    let L1 := release this L0 in        (* ctor: ~W() of the emplaced-over wrapper; else release() in store *)
    (OThrew 0, Empty, destroy tmp L1).
  (* copy_assign: release() (operator=) / fresh storage (copy constructor), then clone_into(p) ;
     object = p  resp.  heap_storage = clone() : the copy constructor throws before object is set *)
  Definition w_copy_throw (this other : storage) (L : ledger) : outcome * storage * storage * ledger :=
    match other with
    | Empty => w_copy this other L                 (* no constructor runs *)
    | _ => (OThrew 0, Empty, other, release this L)
    end.
  Definition w_nest_throw (this other : storage) (L : ledger) : outcome * storage * storage * ledger :=
    match other with
    | Empty => w_nest this other L
    | _ => (OThrew 0, Empty, other, release this L)
    end.
  (* move_assign: only the embedded branch constructs (move_into); it runs before object = p and
     before the moved-from object is destroyed: this is empty (it was released), other unchanged *)
  Definition w_move_throw (this other : storage) (L : ledger) : outcome * storage * storage * ledger :=
    match other with
    | Inline _ => (OThrew 0, Empty, other, release this L)
    | _ => w_move this other L                     (* pointer steal / nothing: no constructor runs *)
    end.
  Definition w_move_from_any_throw (this other : storage) (L : ledger)
    : outcome * storage * storage * ledger :=
    match other with
    | Inline _ => (OThrew 0, Empty, other, release this L)   (* other.reset() is not reached *)
    | _ => w_move_from_any this other L
    end.
  (* connect &&: auto moved_storage = std::move(storage) throws (embedded branch): nothing changed *)
  Definition w_connect_rv_throw (this : storage) (L : ledger) : outcome * storage * ledger :=
    match this with
    | Inline _ => (OThrew 0, this, L)
    | Nested (Inline _) => (OThrew 0, Empty, release this L)   (* the inner any_sender's move throws inside the
                                                      outer impl; the outer storage was already moved into
                                                      moved_storage, whose destructor deletes the impl and
                                                      with it the inner wrapper and its (unmoved) object *)
    | _ => w_connect_rv this L
    end.
End Senders.
(* ================================================================== functions *)
(* function_storage_size = 3 pointers; vtable::allocate<T>: heap iff sizeof(T) > size.  The
   alignment of T is NOT looked at (an over-aligned T that fits is constructed in the inline buffer,
   whose alignment is that of a pointer). *)
Definition fn_place (o : cobj) : storage := if vbig (ov o) then Heap o else Inline o.

(* the vtable pointer identifies the stored type T (here: size class, copyability, alignment
   class; a stored function<Sig> is one more type) *)
Definition same_type (a b : oval) : bool :=
  Bool.eqb (vbig a) (vbig b) && Bool.eqb (vcpy a) (vcpy b) && Bool.eqb (valn a) (valn b).
Definition vptr_eq (a b : storage) : bool :=
  match a, b with
  | Empty, Empty => true
  | (Heap x | Inline x), (Heap y | Inline y) => same_type (ov x) (ov y)
  | Nested _, Nested _ => true
  | _, _ => false
  end.
Definition with_obj (s : storage) (o : cobj) : storage :=
  match s with Heap _ => Heap o | Inline _ => Inline o | _ => s end.

(* basic_function::assign(F&& f) for a non-empty f *)
Definition f_assign (this : storage) (src : cobj) (mv : bool) (L : ledger) : storage * ledger :=
  match this with
  | Heap old | Inline old =>
    if same_type (ov old) (ov src) then
      (* vptr == f_vptr: destroy in place and construct into the same buffer *)
      let L1 := destroy old L in
      let (o, L2) := mk mv src L1 in (with_obj this o, L2)
    else
      let L1 := release this L in      (* destroy() *)
      let (o, L2) := mk mv src L1 in (fn_place o, L2)
  | _ =>
    let L1 := release this L in      (* destroy() *)
    let (o, L2) := mk mv src L1 in (fn_place o, L2)
  end.

Definition f_store (v : oval) (mv ctor : bool) (this : storage) (L : ledger)
  : outcome * storage * ledger :=
  let (tmp, L0) := fresh_obj v L in
  let L1 := if ctor then release this L0 else L0 in       (* ~function_base() of the old wrapper *)
  let this1 := if ctor then Empty else this in
  let (s', L2) := f_assign this1 tmp mv L1 in
  (ONone, s', destroy tmp L2).

(* the copy constructor of a function<Sig> whose storage is [other] (one level) *)
Definition f_clone1 (other : storage) (L : ledger) : storage * ledger :=
  match other with
  | Heap o | Inline o => let (o', L2) := copy_obj o L in (fn_place o', L2)
  | _ => (Empty, L)
  end.
Definition f_clone (other : storage) (L : ledger) : storage * ledger :=
  match other with
  | Nested s => let (c, L1) := f_clone1 s L in (Nested c, L1)   (* not reachable: unique_function is not copyable *)
  | _ => f_clone1 other L
  end.

(* unique_function(F&&) / operator=(F&&) / assign(F&&) with F = function<Sig> (a wrapper as the
   wrapped callable).  The harness builds the function first:  Callable t(..); function tf(t or
   move(t));  then stores tf by l- or r-value, then ~tf, ~t.
   is_empty_function(tf): an EMPTY function argument resets the unique_function (no nesting).
   Otherwise T = function<Sig> (5 pointers: heap); vptr == f_vptr (a function is already stored):
   ~function() in place, else destroy() + allocate; then  new (buffer) function(tf or move(tf)):
   the copy constructor copies the contained callable, the move constructor relocates it. *)
Definition f_store_fn (v : oval) (inner_empty mvi mv : bool) (this : storage) (L : ledger)
  : outcome * storage * ledger :=
  let (tmp, L0) := fresh_obj v L in
  if inner_empty then (ONone, Empty, destroy tmp (release this L0))
  else
    let (c1, L1) := mk mvi tmp L0 in                (* function tf(...) *)
    let L2 := release this L1 in                    (* ~old wrapper / ~function in place / destroy() *)
    if mv then (ONone, Nested (fn_place c1), destroy tmp L2)       (* relocated; tf is empty *)
    else
      let (c2, L3) := copy_obj c1 L2 in
      (ONone, Nested (fn_place c2), destroy tmp (destroy c1 L3)).   (* ~tf, ~t *)

(* function_base(function_base const&) through emplace *)
Definition f_copy_ctor (this other : storage) (L : ledger) : outcome * storage * storage * ledger :=
  let L1 := release this L in
  let (a, L2) := f_clone other L1 in (ONone, a, other, L2).

(* function_base(function_base&&): takes vptr/object, memcpy of the inline buffer — the same
   object lives on at a new address; other becomes empty *)
Definition f_move_ctor (this other : storage) (L : ledger) : outcome * storage * storage * ledger :=
  (ONone, other, Empty, release this L).

(* op_assign(function_base const&) for this != &other *)
Definition f_copy_assign (this other : storage) (L : ledger) : outcome * storage * storage * ledger :=
  if vptr_eq this other then
    match this, other with
    | (Heap old | Inline old), (Heap o | Inline o) =>
      let L1 := destroy old L in
      let (o', L2) := copy_obj o L1 in (ONone, with_obj this o', other, L2)
    | Nested _, Nested _ =>
      let L1 := release this L in                       (* ~function() in place *)
      let (a, L2) := f_clone other L1 in (ONone, a, other, L2)
    | _, _ => (ONone, this, other, L)
    end
  else
    let L1 := release this L in
    let (a, L2) := f_clone other L1 in (ONone, a, other, L2).

(* op_assign(function_base&&) for this != &other: swap(other); other.reset(empty_vtable) *)
Definition f_move_assign (this other : storage) (L : ledger) : outcome * storage * storage * ledger :=
  (ONone, other, Empty, release this L).

Definition f_swap (this other : storage) (L : ledger) : outcome * storage * storage * ledger :=
  (ONone, other, this, L).

Definition f_reset (this : storage) (L : ledger) : outcome * storage * ledger :=
  (ONone, Empty, release this L).

(* what the wrapped callable itself does *)
Definition call (v : oval) (arg : Z) : outcome * oval :=
  let c := (vcalls v + 1)%Z in
  let v' := {| vbig := vbig v; vcpy := vcpy v; valn := valn v; vbeh := vbeh v; vpay := vpay v; vcalls := c |} in
  if (4 <=? vbeh v)%N then (OThrewBad, v)      (* the value of a nested EMPTY wrapper (bad_val) *)
  else if (vbeh v =? 1)%N && Z.odd arg then (OThrew (vpay v * 10 + c)%Z, v')
  else (OValue (vpay v * 100 + c * 7 + arg)%Z, v').

(* operator(): vptr->invoke(object, ...); the empty vtable's invoke throws bad_function_call *)
Definition f_invoke1 (arg : Z) (this : storage) (L : ledger) : outcome * storage * ledger :=
  match this with
  | Heap o => let (r, v') := call (ov o) arg in (r, Heap {| oid := oid o; ov := v' |}, L)
  | Inline o => let (r, v') := call (ov o) arg in (r, Inline {| oid := oid o; ov := v' |}, L)
  | _ => (OThrewBad, this, L)
  end.
(* a stored function is invoked through its own operator() *)
Definition f_invoke (arg : Z) (this : storage) (L : ledger) : outcome * storage * ledger :=
  match this with
  | Nested s => let '(r, s', L') := f_invoke1 arg s L in (r, Nested s', L')
  | _ => f_invoke1 arg this L
  end.

(* target<T>(): vptr != get_vtable<T>() || empty() -> nullptr, else the stored object.
   The query is a test type (size class, copyability, alignment class) or function<Sig> (None).
   Observation: the stored callable's payload and call count, resp. 1 for a stored function. *)
Definition tquery := option (bool * bool * bool).
Definition f_target (q : tquery) (this : storage) : outcome :=
  match this, q with
  | (Heap o | Inline o), Some (b, c, a) =>
    if Bool.eqb (vbig (ov o)) b && Bool.eqb (vcpy (ov o)) c && Bool.eqb (valn (ov o)) a
    then OValue (vpay (ov o) * 100 + vcalls (ov o)) else ONone
  | Nested _, None => OValue 1
  | _, _ => ONone
  end.

(* ================================================================== histories *)
Record state := { led : ledger; slots : list storage }.

Fixpoint set_nth {A} (n : nat) (x : A) (l : list A) : list A :=
  match l, n with
  | [], _ => []
  | _ :: t, O => x :: t
  | h :: t, S n' => h :: set_nth n' x t
  end.
Definition slot (l : list storage) (j : nat) : storage := nth j l Empty.

Definition op1 (f : storage -> ledger -> outcome * storage * ledger) (j : nat) (st : state)
  : outcome * state :=
  if j <? length (slots st) then
    let '(r, s', L') := f (slot (slots st) j) (led st) in
    (r, {| led := L'; slots := set_nth j s' (slots st) |})
  else (ONone, st).

(* two distinct wrappers; j = i is the self-assignment case, which every operator= of both
   families answers with "do nothing" (&other != this / this != &other guards) *)
Definition op2 (f : storage -> storage -> ledger -> outcome * storage * storage * ledger)
  (j i : nat) (st : state) : outcome * state :=
  if (j <? length (slots st)) && (i <? length (slots st)) && negb (j =? i) then
    let '(r, a', b', L') := f (slot (slots st) j) (slot (slots st) i) (led st) in
    (r, {| led := L'; slots := set_nth j a' (set_nth i b' (slots st)) |})
  else (ONone, st).

Inductive sop :=
| SStore (j : nat) (v : oval) (mv ctor : bool)
| SMove (j i : nat)            (* move ctor (j<>i) / move assign / reset(W&&) *)
| SMoveFromAny (j i : nat)     (* unique_any_sender from any_sender&& (ctor / assign) *)
| SCopy (j i : nat)            (* any_sender copy ctor / copy assign / reset(W const&) *)
| SReset (j : nat)
| SConnectRv (j : nat)
| SConnectLv (j : nat)
| SNest (j i : nat).           (* unique_any_sender <- l-value any_sender: the any_sender is stored as the sender *)

Definition sstep (sbo : bool) (op : sop) (st : state) : outcome * state :=
  match op with
  | SStore j v mv ctor => op1 (w_store sbo v mv ctor) j st
  | SMove j i => op2 w_move j i st
  | SMoveFromAny j i => op2 w_move_from_any j i st
  | SCopy j i => op2 w_copy j i st
  | SReset j => op1 w_reset j st
  | SConnectRv j => op1 (w_connect_rv sbo) j st
  | SConnectLv j => op1 (w_connect_lv sbo) j st
  | SNest j i => op2 w_nest j i st
  end.

Inductive fop :=
| FStore (j : nat) (v : oval) (mv ctor : bool)
| FCopyCtor (j i : nat)
| FMoveCtor (j i : nat)
| FCopyAssign (j i : nat)
| FMoveAssign (j i : nat)
| FSwap (j i : nat)
| FReset (j : nat)             (* reset(), assign(nullptr), assign of a null function pointer *)
| FInvoke (j : nat) (arg : Z)
| FStoreFn (j : nat) (v : oval) (inner_empty mvi mv : bool).   (* unique_function <- function holding v *)

Definition fstep (op : fop) (st : state) : outcome * state :=
  match op with
  | FStore j v mv ctor => op1 (f_store v mv ctor) j st
  | FCopyCtor j i => op2 f_copy_ctor j i st
  | FMoveCtor j i => op2 f_move_ctor j i st
  | FCopyAssign j i => op2 f_copy_assign j i st
  | FMoveAssign j i => op2 f_move_assign j i st
  | FSwap j i => op2 f_swap j i st
  | FReset j => op1 f_reset j st
  | FInvoke j arg => op1 (f_invoke arg) j st
  | FStoreFn j v ie mvi mv => op1 (f_store_fn v ie mvi mv) j st
  end.

Definition init (n : nat) : state := {| led := {| nxt := 0; elog := [] |}; slots := repeat Empty n |}.

(* all wrappers go out of scope (index order) *)
Definition destroy_all (st : state) : state :=
  {| led := fold_left (fun L s => release s L) (slots st) (led st);
     slots := map (fun _ => Empty) (slots st) |}.

Section Run.
  Context {Op : Type} (step : Op -> state -> outcome * state).
  Fixpoint run (ops : list Op) (st : state) : state :=
    match ops with [] => st | op :: r => run r (snd (step op st)) end.
  (* observations: per step the outcome, the events it appended (oldest first) and the
     emptiness of every wrapper *)
  Definition new_events (before after : ledger) : list event :=
    rev (firstn (length (elog after) - length (elog before)) (elog after)).
  Fixpoint trace (ops : list Op) (st : state) : list (outcome * list event * list bool) * state :=
    match ops with
    | [] => ([], st)
    | op :: r =>
      let (o, st') := step op st in
      let (t, fin) := trace r st' in
      ((o, new_events (led st) (led st'), map is_empty (slots st')) :: t, fin)
    end.
End Run.

(* ================================================================== the specification:
   a wrapper is an optional value of the wrapped type *)
(* the value of a nested wrapper is the value it holds; a nested EMPTY wrapper (only senders: an
   empty any_sender copied into a unique_any_sender) is a sender whose connect raises
   bad_function_call — the outer wrapper is NOT empty *)
Definition bad_val : oval := {| vbig := false; vcpy := true; valn := false; vbeh := 4; vpay := 0; vcalls := 0 |}.
Definition nest_val (b : option oval) : oval := match b with Some v => v | None => bad_val end.
Definition abs (s : storage) : option oval :=
  match s with
  | Empty => None | Heap o => Some (ov o) | Inline o => Some (ov o)
  | Nested (Heap o | Inline o) => Some (ov o)
  | Nested _ => Some bad_val
  end.

Definition sp1 (f : option oval -> outcome * option oval) (j : nat) (l : list (option oval))
  : outcome * list (option oval) :=
  if j <? length l then let (r, x) := f (nth j l None) in (r, set_nth j x l) else (ONone, l).
Definition sp2 (f : option oval -> option oval -> option oval * option oval) (j i : nat)
  (l : list (option oval)) : outcome * list (option oval) :=
  if (j <? length l) && (i <? length l) && negb (j =? i) then
    let (a, b) := f (nth j l None) (nth i l None) in (ONone, set_nth j a (set_nth i b l))
  else (ONone, l).

(* connecting and starting the unwrapped sender *)
Definition direct_connect (v : oval) : outcome := sender_completion v.

Definition sspec (op : sop) (l : list (option oval)) : outcome * list (option oval) :=
  match op with
  | SStore j v _ _ => sp1 (fun _ => (ONone, Some v)) j l
  | SMove j i => sp2 (fun _ b => (b, None)) j i l
  | SMoveFromAny j i => sp2 (fun _ b => (b, None)) j i l
  | SCopy j i => sp2 (fun _ b => (b, b)) j i l
  | SReset j => sp1 (fun _ => (ONone, None)) j l
  | SConnectRv j => sp1 (fun x => match x with None => (OThrewBad, None)
                                           | Some v => (direct_connect v, None) end) j l
  | SConnectLv j => sp1 (fun x => match x with None => (OThrewBad, None)
                                           | Some v => (direct_connect v, Some v) end) j l
  | SNest j i => sp2 (fun _ b => (Some (nest_val b), b)) j i l
  end.

Definition fspec (op : fop) (l : list (option oval)) : outcome * list (option oval) :=
  match op with
  | FStore j v _ _ => sp1 (fun _ => (ONone, Some v)) j l
  | FCopyCtor j i => sp2 (fun _ b => (b, b)) j i l
  | FMoveCtor j i => sp2 (fun _ b => (b, None)) j i l
  | FCopyAssign j i => sp2 (fun _ b => (b, b)) j i l
  | FMoveAssign j i => sp2 (fun _ b => (b, None)) j i l
  | FSwap j i => sp2 (fun a b => (b, a)) j i l
  | FReset j => sp1 (fun _ => (ONone, None)) j l
  | FInvoke j arg => sp1 (fun x => match x with None => (OThrewBad, None)
                                            | Some v => let (r, v') := call v arg in (r, Some v') end) j l
  | FStoreFn j v ie _ _ => sp1 (fun _ => (ONone, if ie then None else Some v)) j l
  end.

Definition is_none (x : option oval) : bool := match x with None => true | Some _ => false end.
Fixpoint spec_trace {Op} (spec : Op -> list (option oval) -> outcome * list (option oval))
  (ops : list Op) (l : list (option oval)) : list (outcome * list bool) :=
  match ops with
  | [] => []
  | op :: r => let (o, l') := spec op l in
               (o, map is_none l') :: spec_trace spec r l'
  end.

(* the wrappers an operation names (for the frame property) *)
Definition sop_slots (op : sop) : list nat :=
  match op with
  | SStore j _ _ _ => [j] | SMove j i => [j; i] | SMoveFromAny j i => [j; i] | SCopy j i => [j; i]
  | SReset j => [j] | SConnectRv j => [j] | SConnectLv j => [j] | SNest j i => [j; i]
  end.
Definition fop_slots (op : fop) : list nat :=
  match op with
  | FStore j _ _ _ => [j] | FCopyCtor j i => [j; i] | FMoveCtor j i => [j; i] | FCopyAssign j i => [j; i]
  | FMoveAssign j i => [j; i] | FSwap j i => [j; i] | FReset j => [j] | FInvoke j _ => [j]
  | FStoreFn j _ _ _ _ => [j]
  end.
(* what an observer of the wrappers sees of one step: outcome and emptiness of every wrapper *)
Definition obs (t : outcome * list event * list bool) : outcome * list bool := (fst (fst t), snd t).

(* ================================================================== throwing constructors, senders
   Every operation of the sender wrappers that runs a copy / move constructor of the wrapped
   sender, with that constructor throwing (w_*_throw above follow store / copy_assign /
   move_assign: the constructor always runs after release() and before [object] is set). *)
Inductive sxop :=
| SX (op : sop)
| SXStoreThrow (j : nat) (v : oval) (ctor : bool)   (* W(S&&) / operator=(S&&) / reset(S&&), l- or r-value *)
| SXCopyThrow (j i : nat)                           (* any_sender copy ctor / copy assignment (clone, clone_into) *)
| SXNestThrow (j i : nat)                           (* unique_any_sender <- l-value any_sender (copies it) *)
| SXMoveThrow (j i : nat)                           (* move ctor / assignment: move_into of an embedded object *)
| SXMoveFromAnyThrow (j i : nat)
| SXConnectRvThrow (j : nat).                       (* auto moved_storage = std::move(storage) *)

Definition sxstep (sbo : bool) (op : sxop) (st : state) : outcome * state :=
  match op with
  | SX op => sstep sbo op st
  | SXStoreThrow j v ctor => op1 (w_store_throw v ctor) j st
  | SXCopyThrow j i => op2 w_copy_throw j i st
  | SXNestThrow j i => op2 w_nest_throw j i st
  | SXMoveThrow j i => op2 w_move_throw j i st
  | SXMoveFromAnyThrow j i => op2 w_move_from_any_throw j i st
  | SXConnectRvThrow j => op1 (w_connect_rv_throw sbo) j st
  end.
Definition sx_is_throw (op : sxop) : bool := match op with SX _ => false | _ => true end.

(* ================================================================== throwing constructors, functions
   basic_function::assign(F&&), function_base's copy constructor and op_assign(const&) run T's
   constructor AFTER destroying the old object and WITHOUT resetting [object] / [vptr]:
     assign, vptr == f_vptr : ~T() in place, new (object) T(f) throws      -> object still points at the destroyed T
     assign, else           : destroy(); vptr = f_vptr; allocate; new T(f) throws
                                                                            -> object = the old pointer (dangling, or nullptr
                                                                               when the wrapper was empty), vptr = T's vtable;
                                                                               a heap buffer from allocate is leaked
     copy ctor              : vptr/object copied, allocate, new T throws    -> the constructor fails: no wrapper (heap buffer leaked)
     op_assign, same vptr   : ~T() in place, new T throws                   -> as assign (finding F9b)
     op_assign, else        : destroy(); vptr = other.vptr; copy throws     -> as assign
   [stale j = Some t]: wrapper j has object == nullptr (empty() is true) but its vptr is the vtable of
   t's type: it is NOT a consistent empty wrapper (invoking it calls T::operator() on nullptr; assigning
   a T destroys a T at nullptr; copy-assigning from a function holding a T does NOTHING).
   A wrapper whose [object] dangles is represented by its old storage (the identity is in dtors
   already); when the old object had another type, vptr is the new type's and every later use,
   including destruction, runs the wrong destructor: the harness does not generate that case. *)
Definition f_store_throw (v : oval) (ctor : bool) (this : storage) (L : ledger)
  : outcome * storage * ledger :=
  let (tmp, L0) := fresh_obj v L in
  (OThrew 0, if ctor then Empty else this, destroy tmp (release this L0)).
Definition f_copy_ctor_throw (this other : storage) (L : ledger)
  : outcome * storage * storage * ledger :=
  match other with
  | Empty => f_copy_ctor this other L            (* no copy constructor runs *)
  | _ => (OThrew 0, Empty, other, release this L)
  end.
Definition f_copy_assign_throw (this other : storage) (L : ledger)
  : outcome * storage * storage * ledger :=
  match other with
  | Empty => f_copy_assign this other L          (* no copy constructor runs *)
  | _ => (OThrew 0, this, other, release this L)
  end.

Record xstate := { xs : state; stale : list (option oval) }.
Definition xinit (n : nat) : xstate := {| xs := init n; stale := repeat None n |}.
Definition set_stale (x : xstate) (j : nat) (t : option oval) : xstate :=
  {| xs := xs x; stale := set_nth j t (stale x) |}.
Definition lift (r : outcome * state) (x : xstate) : outcome * xstate :=
  (fst r, {| xs := snd r; stale := stale x |}).
Definition is_stale (x : xstate) (j : nat) : bool :=
  match nth j (stale x) None with Some _ => true | None => false end.
Definition holds_type (s : storage) (t : oval) : bool :=
  match s with Heap o | Inline o => same_type (ov o) t | _ => false end.
Definition type_of (s : storage) : oval := match s with Heap o | Inline o => ov o | _ => bad_val end.

Inductive gop :=
| GF (op : fop)
| GTarget (j : nat) (q : tquery)
| GStoreThrow (j : nat) (v : oval) (ctor : bool)   (* W(F&&) (ctor) / operator=(F&&) / assign(F&&), l- or r-value *)
| GCopyCtorThrow (j i : nat)
| GCopyAssignThrow (j i : nat).

Definition gstep (op : gop) (x : xstate) : outcome * xstate :=
  let st := xs x in
  match op with
  | GF op =>
    if existsb (is_stale x) (fop_slots op) then
      match op with
      | FReset j => lift (fstep op st) (set_stale x j None)
      | FStore j _ _ true => lift (fstep op st) (set_stale x j None)
      | FCopyAssign j i =>
        match nth j (stale x) None, nth i (stale x) None with
        | Some t, None =>
          if negb (j =? i) && holds_type (slot (slots st) i) t then (ONone, x)   (* vptr == other.vptr, object == nullptr *)
          else lift (fstep op st) (set_stale x j None)
        | _, _ => (OUndef, x)
        end
      | _ => (OUndef, x)
      end
    else lift (fstep op st) x
  | GTarget j q => (if is_stale x j then ONone else f_target q (slot (slots st) j), x)
  | GStoreThrow j v ctor =>
    match nth j (stale x) None with
    | Some t =>
      if ctor then lift (op1 (f_store_throw v true) j st) (set_stale x j None)
      else if same_type t v then (OUndef, x)
      else lift (op1 (f_store_throw v false) j st) (set_stale x j (Some v))
    | None =>
      lift (op1 (f_store_throw v ctor) j st)
           (if negb ctor && (j <? length (slots st)) && is_empty (slot (slots st) j)
            then set_stale x j (Some v) else x)
    end
  | GCopyCtorThrow j i =>
    if is_stale x i then (OUndef, x)
    else lift (op2 f_copy_ctor_throw j i st)
              (if (j <? length (slots st)) && (i <? length (slots st)) && negb (j =? i) then set_stale x j None else x)
  | GCopyAssignThrow j i =>
    if is_stale x j || is_stale x i then (OUndef, x)
    else
      lift (op2 f_copy_assign_throw j i st)
           (if (j <? length (slots st)) && (i <? length (slots st)) && negb (j =? i)
               && is_empty (slot (slots st) j) && negb (is_empty (slot (slots st) i))
            then set_stale x j (Some (type_of (slot (slots st) i))) else x)
  end.

Fixpoint grun (ops : list gop) (x : xstate) : xstate :=
  match ops with [] => x | op :: r => grun r (snd (gstep op x)) end.
Fixpoint gtrace (ops : list gop) (x : xstate) : list (outcome * list event * list bool) * xstate :=
  match ops with
  | [] => ([], x)
  | op :: r =>
    let (o, x') := gstep op x in
    let (t, fin) := gtrace r x' in
    ((o, new_events (led (xs x)) (led (xs x')), map is_empty (slots (xs x'))) :: t, fin)
  end.
(* the throwing steps whose outcome is a consistent state: construction of a new wrapper *)
Definition gsafe (op : gop) : bool :=
  match op with
  | GF _ | GTarget _ _ | GCopyCtorThrow _ _ => true
  | GStoreThrow _ _ ctor => ctor
  | GCopyAssignThrow _ _ => false
  end.
Definition g_is_throw (op : gop) : bool := match op with GF _ | GTarget _ _ => false | _ => true end.
Definition gop_slots (op : gop) : list nat :=
  match op with
  | GF op => fop_slots op | GTarget j _ => [j] | GStoreThrow j _ _ => [j]
  | GCopyCtorThrow j i => [j; i] | GCopyAssignThrow j i => [j; i]
  end.

(* ================================================================== storage decision, numerically
   (Gen/GenErased.v is generated from any_sender.hpp, basic_function.hpp and vtable/vtable.hpp).
   The histories use class bits (vbig, valn); the TYPES cases of the harness give sizeof / alignof
   of every test type's Impl and the decision of the compiled can_use_embedded_storage<Impl>() /
   vtable::allocate<T>; the driver recomputes the decisions with the generated definitions and
   checks that the class bits used in the histories are the same decisions. *)
Inductive wrapper_kind := KUnique | KAny | KOpState.
Definition embedded_size (k : wrapper_kind) : N :=
  match k with
  | KUnique => unique_any_sender_embedded_size | KAny => any_sender_embedded_size
  | KOpState => operation_state_embedded_size
  end.
Definition sender_embeds (sbo : bool) (k : wrapper_kind) (size align : N) : bool :=
  sbo && can_use_embedded_storage size align (embedded_size k) sbo_alignment_size.
Definition function_inline (size : N) : bool := negb (allocate_heap size function_storage_size).
(* the class bits a test type of the given Impl size / alignment must carry *)
Definition class_ok (sbo : bool) (k : wrapper_kind) (size align : N) (big aln : bool) : bool :=
  Bool.eqb (sender_embeds sbo k size align) (sbo && negb big && negb aln) &&
  (negb aln || (sbo_alignment_size <? align)%N) && (aln || (align <=? sbo_alignment_size)%N).
